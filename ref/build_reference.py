#!/usr/bin/env python3.13
"""Builds the frozen Unicode 16.0 reference tables used by C14 / C15.

Run ONCE, by hand, with Python 3.13 (unicodedata 15.1.0); the outputs
(bidi_class_16.ranges, brackets_16.txt) are committed and the checks only ever
read those.  Nothing here reads /repo.

Sources (all already present in the sandbox, none derived from the crate):
  (a) Python 3.13 unicodedata.bidirectional    -- Unicode 15.1.0, assigned characters
  (b) the six documented Bidi_Class changes 15.1 -> 16.0
  (c) regex-syntax 0.8.11 unicode_tables (ucd-16.0.0): age V16_0, general_category, script
      + the rule below for the 5,185 characters new in 16.0
  (d) block defaults for code points unassigned in 16.0 (the list the crate documents)
  brackets: ICU 72 (Unicode 15.0) u_getBidiPairedBracket; no Ps/Pe was added in 15.1 / 16.0
"""
import re, sys, glob, os, unicodedata

assert unicodedata.unidata_version == "15.1.0", unicodedata.unidata_version
RS = glob.glob(os.path.expanduser("~/.cargo/registry/src/*/regex-syntax-0.8.11/src/unicode_tables"))[0]

def table(fname, const):
    s = open(os.path.join(RS, fname), encoding="utf-8").read()
    m = re.search(r"pub const %s: &'static \[\(char, char\)\] =\s*&\[(.*?)\];" % const, s, re.S)
    assert m, (fname, const)
    out = []
    for a, b in re.findall(r"\('(.*?)', '(.*?)'\)", m.group(1)):
        def cv(x):
            if x.startswith("\\u{"): return int(x[3:-1], 16)
            if x.startswith("\\"): return {"\\n":10,"\\r":13,"\\t":9,"\\\\":92,"\\'":39,"\\0":0}[x]
            return ord(x)
        out.append((cv(a), cv(b)))
    return out

def inset(ranges):
    s = set()
    for a, b in ranges: s.update(range(a, b + 1))
    return s

new16 = inset(table("age.rs", "V16_0"))
unassigned16 = inset(table("general_category.rs", "UNASSIGNED"))
gc = {}
for name, code in [("NONSPACING_MARK","Mn"),("DECIMAL_NUMBER","Nd"),("DASH_PUNCTUATION","Pd"),("OTHER_LETTER","Lo"),
                   ("OTHER_SYMBOL","So"),("SPACING_MARK","Mc"),("ENCLOSING_MARK","Me"),("OPEN_PUNCTUATION","Ps"),
                   ("CLOSE_PUNCTUATION","Pe")]:
    for c in inset(table("general_category.rs", name)): gc[c] = code
script = {}
for name in ["GARAY", "ARABIC", "COMMON"]:
    for c in inset(table("script.rs", name)): script[c] = name

DELTA_16 = {0x1171E: "L", 0x1D6C1: "ON", 0x1D6FB: "ON", 0x1D735: "ON", 0x1D76F: "ON", 0x1D7A9: "ON"}

DEFAULTS = [
    (0x0600, 0x07BF, "AL"), (0x08A0, 0x08FF, "AL"), (0xFB50, 0xFDCF, "AL"), (0xFDF0, 0xFDFF, "AL"),
    (0xFE70, 0xFEFF, "AL"), (0x1EE00, 0x1EEFF, "AL"),
    (0x0590, 0x05FF, "R"), (0x07C0, 0x089F, "R"), (0xFB1D, 0xFB4F, "R"), (0x10800, 0x10FFF, "R"),
    (0x1E800, 0x1EDFF, "R"), (0x1EF00, 0x1EFFF, "R"),
    (0x20A0, 0x20CF, "ET"),
]

def new_char_class(c):
    g, s = gc.get(c), script.get(c)
    if g in ("Mn", "Me"): return "NSM"
    if s == "GARAY":
        if g == "Nd": return "AN"
        if g == "Pd": return "ON"
        return "R"
    if s == "ARABIC" and g == "Lo": return "AL"
    if s == "COMMON" and g == "So":
        if 0x1CCD6 <= c <= 0x1CCEF: return "L"      # outlined Latin capital letters
        return "ON"
    if s == "COMMON" and g == "Nd": return "EN"      # U+1CCF0..1CCF9 outlined digits
    return "L"

def ref_class(c):
    if 0xD800 <= c <= 0xDFFF: return None
    ch = chr(c)
    if c in DELTA_16: return DELTA_16[c]
    b = unicodedata.bidirectional(ch)
    if b: return b
    if c in new16 and c not in unassigned16: return new_char_class(c)
    for lo, hi, d in DEFAULTS:
        if lo <= c <= hi: return d
    return "L"

ranges = []
for c in range(0x110000):
    k = ref_class(c)
    if k is None: continue
    if ranges and ranges[-1][2] == k and ranges[-1][1] + 1 == c: ranges[-1][1] = c
    else: ranges.append([c, c, k])
with open("bidi_class_16.ranges", "w") as f:
    f.write("# frozen reference: Bidi_Class, Unicode 16.0.0 (+ the crate-documented defaults for unassigned code points)\n")
    f.write("# built by build_reference.py; see PROVENANCE.md\n")
    for lo, hi, k in ranges: f.write("%04X %04X %s\n" % (lo, hi, k))
print("class ranges:", len(ranges), "new-in-16.0 assigned:", len(new16 - unassigned16))

# brackets: ICU 72 + check that no Ps/Pe is new in 15.1/16.0
ps_pe_new = [c for c in (inset(table("age.rs", "V16_0")) | inset(table("age.rs", "V15_1"))) if gc.get(c) in ("Ps", "Pe")]
assert not ps_pe_new, ps_pe_new
rows = []
for line in open("icu72_brackets.txt"):
    if line.startswith("#"): continue
    c, t, p = line.split()
    rows.append((int(c, 16), t, int(p, 16)))
# pair identity: canonical-equivalence classes of the opening bracket
def canon(c):
    d = unicodedata.decomposition(chr(c))
    if d and " " not in d and not d.startswith("<"): return int(d, 16)
    return c
with open("brackets_16.txt", "w") as f:
    f.write("# frozen reference: Bidi_Paired_Bracket(_Type), ICU 72 / Unicode 15.0 (unchanged through 16.0)\n")
    f.write("# code point, o|c, pair id (canonical representative of the opening bracket)\n")
    for c, t, p in rows:
        opening = c if t == "o" else p
        f.write("%04X %s %04X\n" % (c, t, canon(opening)))
print("brackets:", len(rows))
