// Dumps Bidi_Paired_Bracket / Bidi_Paired_Bracket_Type from the system ICU.
#include <stdio.h>
#include <unicode/uchar.h>
#include <unicode/uversion.h>
int main(void) {
  UVersionInfo v; u_getUnicodeVersion(v);
  printf("# ICU Unicode version %d.%d.%d\n", v[0], v[1], v[2]);
  for (UChar32 c = 0; c <= 0x10FFFF; c++) {
    int t = u_getIntPropertyValue(c, UCHAR_BIDI_PAIRED_BRACKET_TYPE);
    if (t != U_BPT_NONE) printf("%04X %s %04X\n", c, t == U_BPT_OPEN ? "o" : "c", u_getBidiPairedBracket(c));
  }
  return 0;
}
