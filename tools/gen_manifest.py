#!/usr/bin/env python3
"""Writes /verif/MANIFEST.json from the per-property table below (kept in one place so
the level text can follow the theorems that have landed)."""
import json, os, re
ROOT = os.path.dirname(os.path.dirname(os.path.abspath(__file__)))

def theorems(prop):
    import glob
    out = []
    for f in sorted(glob.glob(os.path.join(ROOT, "lean", "UBidi", "Props", prop + "*.lean"))):
        src = open(f, encoding="utf-8").read()
        out += re.findall(r"^\s*theorem\s+([^\s:({\[]+)", src, re.M)
        out += [n.split("UBidi.")[-1] for n in re.findall(r"^--\s*AUDIT:\s*(\S+)", src, re.M)]
    return out

NOTE = ("Trusted: Lean 4.33 kernel (axioms audited per theorem: propext, Classical.choice, Quot.sound only); the hand-written Model "
        "(tied to /repo by the differential correspondence run by this check, not by proof); the Spec as the reading of UAX #9 / the "
        "property; tools/gen_tables.py; the Rust harness, Lean driver and line protocol; Rust std.")

P = {
 "C01": ("PARTIAL proof, by stages, + differential oracle. Proved for all texts (Model): the removed-character clause for the whole pipeline (C01_removed_carry); the pure-LTR shortcut agrees with UAX #9 (pure_ltr_levels, on the Spec); StageX (the explicit machine is the X1-X8 machine: C11_sim_step/run); StageI, StageFill; StageW (single pass = W1..W7 on every multi-run sequence, BN interleaving included: stageW_runs); StageN: N1/N2 and BD16 (with the 63 limit) in full generality, N0 incl. retained BN units (stageN_runs, stageN_bn); Expand (every stage on any well-formed text = the stage on the one-unit-per-character text, expanded). Open: StageSeq (stack algorithm = BD13/X10) and the final composition C01_levels; until they land the equality Model = Spec is established on every run by the oracle: the crate's levels vs the executable Lean Spec (X1-X10, W1-W7, N0-N2, I1-I2) on generated texts (depth>125, >63 brackets over several level runs, multi-unit characters, custom data sources, exhaustive small scope in the thorough tier) and stage-by-stage through the cfg hooks.", "Lean stage theorems + Impl/Model correspondence (end-to-end and per stage via hooks) + Spec oracle"),
 "C02": ("FULL proof: partition (C02_partition), P2/P3 (C02_level), X5c as reported (C02_classes, uniform), single-paragraph mode (C02_single), no panic, for every well-formed text, data source (FSI on U+2068-width characters) and direction; correspondence on paragraphs/classes; Spec oracle (BD9 by depth counting, P2/P3, X5c).", "Lean theorems + correspondence + Spec oracle"),
 "C03": ("FULL proof: the scan equals the declarative L1 of the Spec on every well-formed line (C03_l1, C03_line), levels outside the line untouched (C03_outside), per-character variant (C03_per_char), the reset_to assert unreachable; relative correspondence (crate's own classes/levels in, line levels out).", "Lean theorems + correspondence + Spec oracle"),
 "C04": ("FULL proof for every level sequence: no panic, length, permutation, identity without odd levels, equality with the Spec's L2 (C04_eq_spec); correspondence on generated level vectors incl. the 126 region.", "Lean theorems + correspondence + Spec oracle"),
 "C05": ("FULL proof: no panic (incl. lines wholly at 126), the runs are the maximal single-level pieces of the line (C05_partition), their order reversed-if-odd is the Spec's L2 order (C05_order); the deprecated copy is the same Model function and is compared with the crate's deprecated function on every case.", "Lean theorems + correspondence + Spec oracle"),
 "C06": ("FULL proof: no panic, the result's characters are L2 of the per-character L1 levels (C06_chars), a permutation of the line's characters (C06_perm), whole characters only (C06_whole_chars, C06_run_boundaries), the line itself without odd level (C06_noop) - given levels uniform within characters (C08); relative correspondence; Spec oracle.", "Lean theorems + correspondence + Spec oracle"),
 "C07": ("Proof: constructing either analysis cannot panic for any well-formed text / any &str / any &[u16] with the built-in data (C07_analysis, C07_analysis_str, C07_analysis_u16, C07_para); every line query total for &[u16] (C07_total_u16); for &str reorder_line additionally uses uniform stored levels (C07_total_partial; discharged by the Expand corollary when present, see evidence 'theorems'). Index expressions classified as structural in DESIGN §3 and the std calls are covered by the correspondence only: every call runs under catch_unwind with debug assertions and overflow checks on.", "Lean no-panic theorems + catch_unwind correspondence"),
 "C08": ("Proof: one entry per code unit (C08_len_*), classes uniform (C08_uniform_classes), explicit / I1-I2 / fill stages uniform and in range (C08_uniform_explicit, C08_uniform_resolveLevels, C08_uniform_fill, C08_range_*), line levels uniform (C03_uniform); levels uniform through W/N via the Expand lemmas (C08Uniform when present); oracle: uniformity/range predicates on every vector the crate returns.", "Lean theorems + correspondence + Spec oracle"),
 "C09": ("Proof: the UTF-16 text source enumerates the lossy decoding (C18); same characters, raw classes, base direction, paragraphs (character ranges and levels) and reported classes as the UTF-8 text (C09_same_chars, C09_base_direction, C09_paragraphs, C09_classes, C09_single_paragraph_api); levels character for character from the Expand lemma (C09_levels_of_expand, hypothesis discharged by ExpandPipeline when present); oracle: UTF-16 API vs UTF-8 API on the lossy decoding, per character, std-only segmentation in the harness.", "Lean theorems + metamorphic oracle"),
 "C10": ("FULL proof for classes/levels/paragraph level: a paragraph analysed inside the whole text equals its substring analysed alone (C10_slice, C10_slice_multi, C10_slice_err), single-paragraph type = multi-paragraph type on one-paragraph text incl. line queries (C10_single, C10_single_reorder_line); open: line queries on a paragraph substring vs whole text (a shift lemma); oracle: whole text vs each paragraph substring and ParagraphBidiInfo vs BidiInfo.", "Lean theorems + metamorphic oracle"),
 "C11": ("FULL proof: reachable-state invariant of the explicit machine (ExInv), explicit levels in [paragraph level,125], resolved <= 126, no panic, the Model's machine is the UAX #9 machine (C11_sim_step/run), balance from ANY reachable state incl. overflow (C11_balance), overflow initiators ignored (C11_overflow_ignored); the 63-bracket clause is bd16_limit / bd16_stack_le (Lemmas/C01NeutralBD16); oracle: Spec levels on deep / bracket-heavy inputs, stage correspondence via hooks.", "Lean theorems + correspondence + Spec oracle"),
 "C12": ("FULL proof of the congruence: the analysis consults the data source only through cls/brk of the text's characters (C12_depends_only_on_ds), built-in source explicit = convenience (definitional); unit-length independence via the Expand lemmas; oracle: random data sources (incl. keys that real Unicode relates), same abstract sequence through 1-unit and multi-unit alphabets.", "Lean theorems + metamorphic oracle"),
 "C13": ("FULL proof on the Spec (UAX #9 itself): matching PDI of a balanced content, paragraph level, X5c outside, explicit state restored at the PDI from any state, and C13_isolation / C13_isolation_raw: the levels of every character outside a valid LRI/RLI...PDI pair do not depend on a balanced B-free content; transfer to the crate by the C01 tie; oracle: metamorphic content replacement on the real crate (incl. initiators at levels 119-123 and pairs wrapped in outer brackets).", "Lean theorems + metamorphic oracle"),
 "C14": ("FULL proof; translator regenerates the table model from tables.rs every run: table sorted/disjoint (kernel decision over all 1505 rows), std's binary search = order-independent lookup for every sorted table (C14_bsearch), equality with the frozen Unicode 16.0 reference for every natural number (C14_ref), format characters, version; correspondence exhaustive over all 1,112,064 scalars.", "translator + Lean theorems (decide +kernel over the whole table) + exhaustive correspondence"),
 "C15": ("FULL proof; translator regenerates the pairs table: distinctness, first-match = any-match, equality with the frozen reference for every code point (C15_ref), key structure incl. canonical equivalents (C15_keys, C15_canonical), every bracket is ON in the class table (C15_all_ON); correspondence exhaustive over all scalars.", "translator + Lean theorems + exhaustive correspondence"),
 "C16": ("FULL proof: the depth-counter scan equals P2 with BD9 matching on the first paragraph / first paragraph with a strong character (C16_first, C16_full) and agrees with the analysis' auto-detected level (C16_agree_first, C16_agree_full, C16_levels); correspondence and Spec oracle on both encodings and custom sources.", "Lean theorems + correspondence + Spec oracle"),
 "C17": ("FULL proof: direction (C17_direction), level_at, has_rtl of the multi-paragraph type, and for the single-paragraph type has_rtl()==false implies all levels 0 and reorder_line returns the line for every range (C17_has_rtl_single); oracle on the crate's own levels.", "Lean theorems + correspondence + Spec oracle"),
 "C18": ("FULL proof for every unit sequence and every next/next_back sequence: char_at and the iterators enumerate the lossy decoding (C18_segments, C18_char_at, C18_tiles, C18_len_sum); the double-ended iterator is a deque over it (C18_double_ended); correspondence on random unit arrays and op sequences.", "Lean theorems + correspondence + Spec oracle"),
 "C19": ("FULL proof for all arguments (constructors, raise/lower exactness and failure, next-LTR/RTL, lowest odd, parity, class, has_rtl); correspondence exhaustive over 127 levels x 256 amounts and all 256 u8 values.", "Lean theorems + exhaustive correspondence"),
 "C20": ("The Model has no notion of container or feature, so 'all configurations give the same results' is: every configuration corresponds to the one Model. The harness is built under five feature sets from the current tree; each build's answers go through the driver (Model + Spec verdicts) and the builds' digests over identical generated texts are compared with each other; serde_json round trip of every level and of a level vector. Lean contributes the common Model (all theorems of C01-C19) and the newtype-u8 round trip.", "per-configuration correspondence to one Lean Model + digest comparison + small Lean theorem"),
}

checks = []
for i in range(1, 21):
    pid = "C%02d" % i
    text, tech = P[pid]
    ths = theorems(pid)
    cat = "translation_validation" if pid == "C20" else "proof"
    checks.append({
        "property_id": pid,
        "quick_cmd": "./check %s --tier quick" % pid,
        "thorough_cmd": "./check %s --tier thorough" % pid,
        "evidence_file": "/verif/evidence/%s.json" % pid,
        "replay_cmd_template": "./check %s --replay {path}" % pid,
        "engine": "lean4-model+correspondence",
        "level_claimed": {"category": "proof", "text": text + " Theorems currently in UBidi/Props/%s*.lean: %s." % (pid, ", ".join(ths) if ths else "(none)"), "design_ref": "DESIGN.md §5 " + pid},
        "level_note": NOTE,
        "technique": tech,
    })

m = {
 "version": 1,
 "setup_cmd": "cd /verif && python3 tools/gen_tables.py && (cd lean && lake build UBidi ubidi-driver UBidi.Props) && (cd harness && CARGO_NET_OFFLINE=true cargo build --release --offline)",
 "hooks": {
   "guard": "unicode_bidi_verif",
   "enable": "harness/.cargo/config.toml sets build.rustflags = [\"--cfg\", \"unicode_bidi_verif\"], so every harness build compiles /repo with the hook module `unicode_bidi::verif_hooks` (re-exports of explicit::compute, prepare::isolating_run_sequences, implicit::{resolve_weak, resolve_neutral, resolve_levels}); the STAGE stream of the C01/C07/C11/C13 checks compares every stage with the Model's stage function",
   "baseline_off_cmd": "cd /repo && cargo test --workspace --no-fail-fast --offline",
   "source_commits": ["564909c"],
   "add_only": True,
 },
 "engines": [{"name": "lean4-model+correspondence", "path": "/verif/lean, /verif/harness, /verif/tools/run_check.py",
              "serves_properties": ["C%02d" % i for i in range(1, 21)],
              "kind_free_text": "Lean 4 model + theorems (kernel-checked), Rust in-process harness, Lean native driver evaluating Model and Spec on the crate's answers"}],
 "checks": checks,
 "not_applicable": [],
 "notes": "Seven genuine defects were found and repaired in /repo ('fix:' commits), see known_findings.json and DESIGN.md §6.",
}
json.dump(m, open(os.path.join(ROOT, "MANIFEST.json"), "w"), indent=1)
print("MANIFEST.json written:", len(checks), "checks")
