#!/usr/bin/env python3
"""Writes /verif/MANIFEST.json from the per-property table below (kept in one place so
the level text can follow the theorems that have landed)."""
import json, os, re
ROOT = os.path.dirname(os.path.dirname(os.path.abspath(__file__)))

def theorems(prop):
    p = os.path.join(ROOT, "lean", "UBidi", "Props", prop + ".lean")
    if not os.path.exists(p): return []
    src = open(p, encoding="utf-8").read()
    return re.findall(r"^\s*theorem\s+([^\s:({\[]+)", src, re.M)

NOTE = ("Trusted: Lean 4.33 kernel (axioms audited per theorem: propext, Classical.choice, Quot.sound only); the hand-written Model "
        "(tied to /repo by the differential correspondence run by this check, not by proof); the Spec as the reading of UAX #9 / the "
        "property; tools/gen_tables.py; the Rust harness, Lean driver and line protocol; Rust std.")

P = {
 "C01": ("Theorems over the Model (all texts, any length): see evidence 'theorems'. The full equivalence Model = UAX #9 Spec is proved stage by stage; stages not yet proved are listed in DESIGN.md §5 C01 and are covered by the differential oracle (crate's levels vs the executable Lean Spec of X1-X10/W1-W7/N0-N2/I1-I2 on generated texts incl. depth>125, >63 brackets, multi-unit characters, custom data sources).", "Lean theorems + Impl/Model correspondence + Spec oracle"),
 "C02": ("Theorems about the Model's compute_initial_info transcription (partition, P2/P3, X5c) for all texts; correspondence on paragraphs/classes; Spec oracle (BD9 matching by depth counting, P2/P3, X5c).", "Lean theorems + correspondence + Spec oracle"),
 "C03": ("Theorems: the Model's reorder_levels equals the declarative L1 of the Spec on every well-formed line; relative correspondence (crate's own classes/levels in, line levels out).", "Lean theorems + correspondence + Spec oracle"),
 "C04": ("Theorems for every level sequence: length, permutation, identity without odd levels, equality with the Spec's L2, unreachable expects; correspondence on generated level vectors incl. the 126 region.", "Lean theorems + correspondence + Spec oracle"),
 "C05": ("Theorems on the Model's visual_runs_for_line (partition, order = reorder_visual, deprecated copy identical); relative correspondence; Spec oracle.", "Lean theorems + correspondence + Spec oracle"),
 "C06": ("Theorems on the Model's reorder_line (characters = L2 of L1 levels at character granularity; no-op without odd levels); relative correspondence; Spec oracle.", "Lean theorems + correspondence + Spec oracle"),
 "C07": ("Theorems: every represented panic site of the Model is unreachable (err = none) under the property's preconditions, assembled from the bounds lemmas; correspondence compares panic/no-panic of every call under catch_unwind with debug assertions and overflow checks on.", "Lean no-panic theorems + catch_unwind correspondence"),
 "C08": ("Theorems: one entry per code unit, uniformity within characters, level range; oracle: uniformity/range predicates on every vector the crate returns.", "Lean theorems + correspondence + Spec oracle"),
 "C09": ("Theorems: the UTF-16 text source enumerates the lossy decoding (C18) and the generic pipeline is shared; oracle: UTF-16 API vs UTF-8 API on the lossy decoding, per character (std-only segmentation in the harness).", "Lean theorems + metamorphic oracle"),
 "C10": ("Theorems: scanner state after a separator equals the initial state; single-paragraph constructor agrees; oracle: whole text vs each paragraph substring and ParagraphBidiInfo vs BidiInfo.", "Lean theorems + metamorphic oracle"),
 "C11": ("Theorems: explicit levels <= 125, resolved <= 126, stack never empty, balance of the explicit state machine; oracle: Spec levels on deep / bracket-heavy inputs.", "Lean theorems + correspondence + Spec oracle"),
 "C12": ("Theorem: the Model consults the data source only through cls/brk of the text's characters (congruence); oracle: random data sources, same abstract sequence through 1-unit and multi-unit alphabets, built-in source passed explicitly vs convenience constructors.", "Lean theorems + metamorphic oracle"),
 "C13": ("Theorems on the Spec/Model (paragraph level and explicit state do not depend on isolate content); oracle: metamorphic content replacement on the real crate.", "Lean theorems + metamorphic oracle"),
 "C14": ("Translator regenerates the table model from tables.rs every run; theorems: table sorted/disjoint (kernel decision over all 1505 rows), binary search = order-independent lookup for every sorted table, equality with the frozen Unicode 16.0 reference for every scalar, format characters, version; correspondence exhaustive over all 1,112,064 scalars.", "translator + Lean theorems (decide +kernel over the whole table) + exhaustive correspondence"),
 "C15": ("Translator regenerates the pairs table; theorems: distinctness, equality with the frozen reference (ICU 72 / Unicode 15.0 = 16.0 for brackets), key structure, every bracket is ON in the class table; correspondence exhaustive over all scalars.", "translator + Lean theorems + exhaustive correspondence"),
 "C16": ("Theorems: the depth-counter scan equals P2 with BD9 matching on the first paragraph (resp. first paragraph with a strong character) and agrees with the analysis' auto-detected level; correspondence and Spec oracle on both encodings and custom sources.", "Lean theorems + correspondence + Spec oracle"),
 "C17": ("Theorems: direction/has_rtl/level_at of the Model agree with the levels; has_rtl()==false of the single-paragraph type implies all levels even and reorder_line returns the line; oracle on the crate's own levels.", "Lean theorems + correspondence + Spec oracle"),
 "C18": ("Theorems for every unit sequence and every next/next_back sequence: char_at and the iterators enumerate the lossy decoding; the double-ended iterator behaves as a deque over it; correspondence on random unit arrays and op sequences.", "Lean theorems + correspondence + Spec oracle"),
 "C19": ("Theorems for all arguments (constructors, raise/lower exactness and failure, next-LTR/RTL, lowest odd, parity, class, has_rtl); correspondence exhaustive over 127 levels x 256 amounts and all 256 u8 values.", "Lean theorems + exhaustive correspondence"),
 "C20": ("The Model has no notion of container or feature; Lean contributes the common Model and the newtype-u8 round trip. Decided by building the harness under five feature sets from the current tree and comparing digests of all outputs on the same generated corpus, plus the serde_json round trip of every level.", "per-configuration differential (translation validation) + small Lean theorem"),
}

checks = []
for i in range(1, 21):
    pid = "C%02d" % i
    text, tech = P[pid]
    ths = theorems(pid)
    cat = "translation_validation" if pid == "C20" else "proof"
    checks.append({
        "property_id": pid,
        "quick_cmd": "./check %s --tier quick" % pid,
        "thorough_cmd": "./check %s --tier thorough" % pid,
        "evidence_file": "/verif/evidence/%s.json" % pid,
        "replay_cmd_template": "./check %s --replay {path}" % pid,
        "engine": "lean4-model+correspondence",
        "level_claimed": {"category": "proof", "text": text + " Theorems currently in UBidi/Props/%s.lean: %s." % (pid, ", ".join(ths) if ths else "(none)"), "design_ref": "DESIGN.md §5 " + pid},
        "level_note": NOTE,
        "technique": tech,
    })

m = {
 "version": 1,
 "setup_cmd": "cd /verif && python3 tools/gen_tables.py && (cd lean && lake build UBidi ubidi-driver UBidi.Props) && (cd harness && CARGO_NET_OFFLINE=true cargo build --release --offline)",
 "hooks": {
   "guard": "unicode_bidi_verif",
   "enable": "harness/.cargo/config.toml sets build.rustflags = [\"--cfg\", \"unicode_bidi_verif\"], so every harness build compiles /repo with the hook module `unicode_bidi::verif_hooks` (re-exports of explicit::compute, prepare::isolating_run_sequences, implicit::{resolve_weak, resolve_neutral, resolve_levels}); the STAGE stream of the C01/C07/C11/C13 checks compares every stage with the Model's stage function",
   "baseline_off_cmd": "cd /repo && cargo test --workspace --no-fail-fast --offline",
   "source_commits": ["564909c"],
   "add_only": True,
 },
 "engines": [{"name": "lean4-model+correspondence", "path": "/verif/lean, /verif/harness, /verif/tools/run_check.py",
              "serves_properties": ["C%02d" % i for i in range(1, 21)],
              "kind_free_text": "Lean 4 model + theorems (kernel-checked), Rust in-process harness, Lean native driver evaluating Model and Spec on the crate's answers"}],
 "checks": checks,
 "not_applicable": [],
 "notes": "Seven genuine defects were found and repaired in /repo ('fix:' commits), see known_findings.json and DESIGN.md §6.",
}
json.dump(m, open(os.path.join(ROOT, "MANIFEST.json"), "w"), indent=1)
print("MANIFEST.json written:", len(checks), "checks")
