#!/usr/bin/env python3
"""Writes /verif/MANIFEST.json from the per-property table below (kept in one place so
the level text can follow the theorems that have landed)."""
import json, os, re
ROOT = os.path.dirname(os.path.dirname(os.path.abspath(__file__)))

def theorems(prop):
    import glob
    out = []
    for f in sorted(glob.glob(os.path.join(ROOT, "lean", "UBidi", "Props", prop + "*.lean"))):
        src = open(f, encoding="utf-8").read()
        out += re.findall(r"^\s*theorem\s+([^\s:({\[]+)", src, re.M)
        out += [n.split("UBidi.")[-1] for n in re.findall(r"^--\s*AUDIT:\s*(\S+)", src, re.M)]
    return out

NOTE = ("Trusted: Lean 4.33 kernel (axioms audited per theorem: propext, Classical.choice, Quot.sound only); the hand-written Model "
        "(tied to /repo by the differential correspondence run by this check, not by proof); the Spec as the reading of UAX #9 / the "
        "property; the translators tools/gen_tables.py and tools/gen_code.py; the Rust harness, Lean driver and line protocol; Rust std.")

P = {
 "C01": ("FULL proof: for every well-formed text (every &str, every &[u16]), every data source and every base-direction choice, BidiInfo::new / ParagraphBidiInfo::new as modelled cannot panic and the levels of every paragraph are the expansion to code units of UAX #9's levels (Spec.paragraphLevels: X1-X8, X9, X10/BD13, W1-W7, BD16/N0-N2 with the 63 limit, I1-I2, and the level carried by removed characters) of the paragraph's characters with their reported classes, at the P2/P3 paragraph level (C01_bidiInfo, C01_paragraphBidiInfo, C01_chars, C01_unit; built-in data for &str and &[u16]: C01_hardcoded_str, C01_hardcoded_utf16 and the _single forms). Proved by stages (StageX = C11_sim, StageSeq, StageW, StageN incl. retained BN units, StageI, StageFill, pure-LTR shortcut, Expand = unit-length independence) and composed in Lemmas/C01Compose*. Since the repair of finding D9 no hypothesis on the data source's bracket classes remains. Tie to the code: Impl/Model correspondence end-to-end and stage by stage through the cfg hooks; the Spec oracle on the crate's own answers finds the replay (generated texts incl. depth > 125, > 63 pending brackets over several level runs, every bracket pair of the reference in N0-sensitive templates, > 256 sibling isolates, removed-only text, multi-unit characters; exhaustive small scope in the thorough tier).", "Lean theorems (Model = UAX #9 Spec, all inputs) + Impl/Model correspondence (end-to-end and per stage via hooks) + Spec oracle"),
 "C02": ("FULL proof: partition (C02_partition), P2/P3 (C02_level), X5c as reported (C02_classes, uniform), single-paragraph mode (C02_single), no panic, for every well-formed text, every data source and direction (no proviso on the width of FSI-class characters since the repair of finding D10); correspondence on paragraphs/classes; Spec oracle (BD9 by depth counting, P2/P3, X5c).", "Lean theorems + correspondence + Spec oracle"),
 "C03": ("FULL proof: the scan equals the declarative L1 of the Spec on every well-formed line (C03_l1, C03_line), levels outside the line untouched (C03_outside), per-character variant (C03_per_char), the reset_to assert unreachable; end to end on the analysis' own vectors and against UAX #9 for any line inside a paragraph (C03_pipeline, C03_pipeline_uax9, _single forms: no hypothesis on classes/levels remains); relative correspondence (crate's own classes/levels in, line levels out).", "Lean theorems + correspondence + Spec oracle"),
 "C04": ("FULL proof for every level sequence: no panic, length, permutation, identity without odd levels, equality with the Spec's L2 (C04_eq_spec); correspondence on generated level vectors incl. the 126 region.", "Lean theorems + correspondence + Spec oracle"),
 "C05": ("FULL proof: no panic (incl. lines wholly at 126), the runs are the maximal single-level pieces of the line (C05_partition), their order reversed-if-odd is the Spec's L2 order (C05_order); end to end on the analysis' own vectors and against UAX #9 (C05_pipeline, C05_pipeline_uax9, _single); the deprecated copy is the same Model function and is compared with the crate's deprecated function on every case.", "Lean theorems + correspondence + Spec oracle"),
 "C06": ("FULL proof: no panic, the result's characters are L2 of the per-character L1 levels (C06_chars), a permutation of the line's characters (C06_perm), whole characters only (C06_whole_chars, C06_run_boundaries), the line itself without odd level (C06_noop); the uniformity of stored levels these use is C08_uniform (proved); END TO END (C06_pipeline_uax9, C06_pipeline_uax9_str): for every data source, well-formed text, base direction, paragraph and line inside it, reorder_line does not panic and returns the line's characters in the order L2(L1(levels UAX #9 assigns)) - the stored vectors do not occur in the statement; relative correspondence; Spec oracle.", "Lean theorems + correspondence + Spec oracle"),
 "C07": ("FULL proof for the represented panic sites: constructing either analysis cannot panic for any well-formed text / any &str / any &[u16] (C07_analysis, C07_analysis_str, C07_analysis_u16, C07_para) and every line query (levels, per-char levels, runs, deprecated runs, reorder_visual, reorder_line, direction, level_at, has_rtl) returns normally for every line on character boundaries inside a paragraph, both encodings, both analysis types (C07_total, C07_total_single, C07_total_str, C07_total_str_single, C07_total_u16). Index expressions classified as structural in DESIGN §3 and the std calls are covered by the correspondence only: every call runs under catch_unwind with debug assertions and overflow checks on (generators include removed-only text, B inside single-paragraph text, depth > 125, > 63 brackets, > 256 sibling isolates, lines wholly at 126).", "Lean no-panic theorems + catch_unwind correspondence"),
 "C08": ("FULL proof: one entry per code unit (C08_len_*), classes uniform (C08_uniform_classes), stored levels uniform within every character for both analysis types (C08_uniform, C08_uniform_levels_multi/_single, via the Expand lemmas), levels between the paragraph level and 126 (C08_range_*), line levels uniform (C03_uniform), per-character vector one entry per character; oracle: uniformity/range predicates on every vector the crate returns.", "Lean theorems + correspondence + Spec oracle"),
 "C09": ("FULL proof: the UTF-16 text source enumerates the lossy decoding (C18); same characters, raw classes, base direction, paragraphs (character ranges and levels), reported classes and levels, character for character, as the UTF-8 analysis of the lossy decoding (C09_same_chars, C09_base_direction, C09_paragraphs, C09_classes, C09_levels, C09_levels_uniform, C09_levels_hardcoded, C09_single_paragraph_api); line queries follow from C03-C06 being functions of classes/levels; oracle: UTF-16 API vs UTF-8 API on the lossy decoding, per character (levels, line levels per unit and per character, runs, reordered line segment-wise, exact encoding for well-formed input), std-only segmentation in the harness.", "Lean theorems + metamorphic oracle"),
 "C10": ("FULL proof: a paragraph analysed inside the whole text equals its substring analysed alone for classes, levels, paragraph level (C10_slice, C10_slice_multi, C10_slice_err) and for line levels, runs and reordered lines up to the index shift (C10_lines: reorderedLevels_shift, visualRuns_shift, reorderLine_shift); single-paragraph type = multi-paragraph type on one-paragraph text incl. line queries (C10_single, C10_single_reorder_line); oracle: whole text vs each paragraph substring and ParagraphBidiInfo vs BidiInfo.", "Lean theorems + metamorphic oracle"),
 "C11": ("FULL proof: reachable-state invariant of the explicit machine (ExInv), explicit levels in [paragraph level,125], resolved <= 126, no panic, the Model's machine is the UAX #9 machine (C11_sim_step/run), balance from ANY reachable state incl. overflow (C11_balance), overflow initiators ignored (C11_overflow_ignored); the 63-bracket clause is bd16_limit / bd16_stack_le (Lemmas/C01NeutralBD16); oracle: Spec levels on deep / bracket-heavy inputs, stage correspondence via hooks.", "Lean theorems + correspondence + Spec oracle"),
 "C12": ("FULL proof: for EVERY data source the analysis is UAX #9 applied to the class and bracket values the source returns (C12_any_source, C12_any_source_single = C01 with no hypothesis at all on the data source, since the repairs of findings D9 and D10); the analysis consults the source only through cls/brk of the text's characters (C12_depends_only_on_ds); two texts with the same class/bracket values position by position are analysed identically whatever their encodings, unit lengths and scalar values (C12_unit_len_irrelevant, _single, C12_units_uniform); built-in source explicit = convenience (C12_builtin_explicit); oracle: random data sources incl. brackets of class ES/CS/ET/NSM next to BN/NSM (ds-brkcls), formatting classes on ordinary characters of every width and ordinary classes on the real formatting characters (ds-fmt), keys that real Unicode relates, the same abstract sequence through 1-unit and multi-unit alphabets.", "Lean theorems + metamorphic oracle"),
 "C13": ("FULL proof, on the Spec (UAX #9 itself) and carried to the Model of the crate (C13_model_single for ParagraphBidiInfo, C13_model_multi for BidiInfo with the pair inside any paragraph: every data source, every encoding; per character and per code unit; the validity hypothesis shown necessary by example). On the Spec: matching PDI of a balanced content, paragraph level, X5c outside, explicit state restored at the PDI from any state, and C13_isolation / C13_isolation_raw: the levels of every character outside a valid LRI/RLI...PDI pair do not depend on a balanced B-free content; transfer to the Model by C01 (C13Model); oracle: metamorphic content replacement on the real crate (incl. initiators at levels 119-123 and pairs wrapped in outer brackets).", "Lean theorems + metamorphic oracle"),
 "C14": ("FULL proof; translator regenerates the table model from tables.rs every run: table sorted/disjoint (kernel decision over all 1505 rows), std's binary search = order-independent lookup for every sorted table (C14_bsearch), equality with the frozen Unicode 16.0 reference for every natural number (C14_ref), format characters, version; correspondence exhaustive over all 1,112,064 scalars.", "translator + Lean theorems (decide +kernel over the whole table) + exhaustive correspondence"),
 "C15": ("FULL proof; translator regenerates the pairs table: distinctness, first-match = any-match, equality with the frozen reference for every code point (C15_ref), key structure incl. canonical equivalents (C15_keys, C15_canonical), every bracket is ON in the class table (C15_all_ON); correspondence exhaustive over all scalars.", "translator + Lean theorems + exhaustive correspondence"),
 "C16": ("FULL proof: the depth-counter scan equals P2 with BD9 matching on the first paragraph / first paragraph with a strong character (C16_first, C16_full) and agrees with the analysis' auto-detected level (C16_agree_first, C16_agree_full, C16_levels); correspondence and Spec oracle on both encodings and custom sources.", "Lean theorems + correspondence + Spec oracle"),
 "C17": ("FULL proof: direction (C17_direction), level_at, has_rtl of the multi-paragraph type, and for the single-paragraph type has_rtl()==false implies all levels 0 and reorder_line returns the line for every range (C17_has_rtl_single); oracle on the crate's own levels.", "Lean theorems + correspondence + Spec oracle"),
 "C18": ("FULL proof for every unit sequence and every next/next_back sequence: char_at and the iterators enumerate the lossy decoding (C18_segments, C18_char_at, C18_tiles, C18_len_sum); the double-ended iterator is a deque over it (C18_double_ended); correspondence on random unit arrays and op sequences.", "Lean theorems + correspondence + Spec oracle"),
 "C19": ("FULL proof for all arguments (constructors, raise/lower exactness and failure, next-LTR/RTL, lowest odd, parity, class, has_rtl); correspondence exhaustive over 127 levels x 256 amounts and all 256 u8 values (new / new_explicit / From<u8> / Level::vec), has_rtl on slices with one odd level at every position of every length up to 40 plus random slices up to 70.", "Lean theorems + exhaustive correspondence"),
 "C20": ("The Model has no notion of container or feature, so 'all configurations give the same results' is: every configuration corresponds to the one Model. The harness is built under five feature sets from the current tree; each build's answers go through the driver (Model + Spec verdicts) and the builds' digests over identical generated texts are compared with each other; every build also runs the exhaustive sweeps of the class table, the bracket table and Level against the Model (a feature may change a lookup path); serde_json round trip of every level and of a level vector. Lean contributes the common Model (all theorems of C01-C19) and the newtype-u8 round trip.", "per-configuration correspondence to one Lean Model + digest comparison + small Lean theorem"),
}

checks = []
for i in range(1, 21):
    pid = "C%02d" % i
    text, tech = P[pid]
    ths = theorems(pid)
    cat = "translation_validation" if pid == "C20" else "proof"
    checks.append({
        "property_id": pid,
        "quick_cmd": "./check %s --tier quick" % pid,
        "thorough_cmd": "./check %s --tier thorough" % pid,
        "evidence_file": "/verif/evidence/%s.json" % pid,
        "replay_cmd_template": "./check %s --replay {path}" % pid,
        "engine": "lean4-model+correspondence",
        "level_claimed": {"category": "proof", "text": text + " Theorems currently in UBidi/Props/%s*.lean: %s." % (pid, ", ".join(ths) if ths else "(none)"), "design_ref": "DESIGN.md §5 " + pid},
        "level_note": NOTE,
        "technique": tech,
    })

m = {
 "version": 1,
 "setup_cmd": "cd /verif && python3 tools/gen_tables.py && python3 tools/gen_code.py && (cd lean && lake build UBidi ubidi-driver UBidi.Props) && (cd harness && CARGO_NET_OFFLINE=true cargo build --release --offline)",
 "hooks": {
   "guard": "unicode_bidi_verif",
   "enable": "harness/.cargo/config.toml sets build.rustflags = [\"--cfg\", \"unicode_bidi_verif\"], so every harness build compiles /repo with the hook module `unicode_bidi::verif_hooks` (re-exports of explicit::compute, prepare::isolating_run_sequences, implicit::{resolve_weak, resolve_neutral, resolve_levels}); the STAGE stream of the C01/C07/C11/C13 checks compares every stage with the Model's stage function",
   "baseline_off_cmd": "cd /repo && cargo test --workspace --no-fail-fast --offline",
   "source_commits": ["564909c"],
   "add_only": True,
 },
 "engines": [{"name": "lean4-model+correspondence", "path": "/verif/lean, /verif/harness, /verif/tools/run_check.py",
              "serves_properties": ["C%02d" % i for i in range(1, 21)],
              "kind_free_text": "Lean 4 model + theorems (kernel-checked), Rust in-process harness, Lean native driver evaluating Model and Spec on the crate's answers"}],
 "checks": checks,
 "not_applicable": [],
 "notes": "Ten genuine defects (D1-D10) were found through the machinery and repaired in /repo by one 'fix:' commit each, see known_findings.json and DESIGN.md §6. tools/coverage.sh and tools/automut.py are diagnostics (line coverage of the crate under the correspondence streams; systematic mutation sweep), not registered checks.",
}
json.dump(m, open(os.path.join(ROOT, "MANIFEST.json"), "w"), indent=1)
print("MANIFEST.json written:", len(checks), "checks")
