#!/bin/bash
# refactor_eval.sh <worktree> <diff> : applies a behaviour-preserving refactoring in a scratch worktree of the crate and runs
# the correspondence/oracle part of all twenty quick checks plus the two translators against it.  Expected: silence.
# (diagnostic for "never raise an alarm on code where the property holds"; not a registered check)
W=$1; D=$2
cd $W || exit 2
git checkout -q -- . ; git apply $D || { echo "[$D] does not apply"; exit 2; }
suite=$(CARGO_NET_OFFLINE=true cargo test --offline 2>&1 | grep -E "^test result" | grep -vc " 0 failed")
alarms=""
for i in 01 02 03 04 05 06 07 08 09 10 11 12 13 14 15 16 17 18 19 20; do
  out=$(/verif/tools/mutant_try.sh $W C$i 2>&1 | grep -E "^check|VIOLATION|problem")
  if echo "$out" | grep -q "VIOLATION\|problem"; then alarms="$alarms C$i"; echo "$out" | head -3 | cut -c1-200; fi
done
tr=""
for t in gen_tables.py gen_code.py; do
  VERIF_REPO=$W python3 /verif/tools/$t > /tmp/refactor_tr.log 2>&1 || tr="$tr $t:FAILED($(tail -1 /tmp/refactor_tr.log | cut -c1-120))"
done
if [ -z "$tr" ]; then
  ( cd /verif/lean && lake build UBidi.Props.C01Tie UBidi.Props.C02Tie UBidi.Props.C03Tie UBidi.Props.C11Tie UBidi.Props.C16Tie UBidi.Props.C19Tie UBidi.Props.C01TieRules UBidi.Props.C11TieRules UBidi.Props.C13Tie UBidi.Props.C14 UBidi.Props.C15 2>&1 | grep -E "^error" | head -3 ) > /tmp/refactor_tie.log
  [ -s /tmp/refactor_tie.log ] && tr="tie theorems: $(head -1 /tmp/refactor_tie.log | cut -c1-160)"
fi
python3 /verif/tools/gen_tables.py > /dev/null; python3 /verif/tools/gen_code.py > /dev/null
git checkout -q -- .
echo "[$(basename $D)] suite-failures=$suite correspondence-alarms=[${alarms# }] translators=[${tr:-ok}]"
