#!/usr/bin/env python3
"""sync_design.py — copies the per-property level texts of tools/gen_manifest.py (dict P) into the `**Built:**`
paragraph of each property in DESIGN.md §5, so that MANIFEST.json and DESIGN.md say the same thing."""
import os, re
ROOT = os.path.dirname(os.path.dirname(os.path.abspath(__file__)))
src = open(os.path.join(ROOT, "tools", "gen_manifest.py")).read()
i = src.index("P = {"); j = src.index("\n}\n", i)
ns = {}; exec(src[i:j + 2], ns)
p = os.path.join(ROOT, "DESIGN.md")
s = open(p).read(); n = 0
for pid, (text, tech) in ns["P"].items():
    m = re.search(r"(### %s —.*?\n\*\*Built:\*\* )([^\n]*)" % pid, s, re.S)
    full = text + "  (Deciding method: " + tech + ".)"
    if m and m.group(2) != full:
        s = s[:m.start(2)] + full + s[m.end(2):]; n += 1
open(p, "w").write(s)
print("sync_design: %d paragraph(s) updated" % n)
