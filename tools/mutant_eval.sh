#!/bin/bash
# mutant_eval.sh <Cxx> <k> <check-prop> [<check-prop>...]
# Confirms a seeded change delivered in /tmp/mut/<Cxx>/_out (demo passes clean, suite passes + demo fails with the
# patch; DEMO_FEATURES=smallvec runs the demo with that crate feature), runs the given checks against the patched scratch checkout, and stores the change under /verif/seeded/.
P=$1; K=$2; shift 2
W=${MUT_ROOT:-/tmp/mut}/$P
O=$W/_out
cd $W || exit 2
git checkout -q -- . ; rm -f tests/demo$K.rs
cp $O/demo$K.rs tests/demo$K.rs
clean_demo=$(CARGO_NET_OFFLINE=true cargo test --offline ${DEMO_FEATURES:+--features $DEMO_FEATURES} --test demo$K 2>&1 | grep -E "^test result" | tail -1)
git apply $O/patch$K.diff || { echo "patch does not apply"; exit 2; }
suite=$(CARGO_NET_OFFLINE=true cargo test --offline --lib --test conformance_tests 2>&1 | grep -E "^test result" | tr '\n' ' ')
mut_demo=$(CARGO_NET_OFFLINE=true cargo test --offline ${DEMO_FEATURES:+--features $DEMO_FEATURES} --test demo$K 2>&1 | grep -E "^test result" | tail -1)
rm -f tests/demo$K.rs
echo "[$P/$K] demo on clean tree : $clean_demo"
echo "[$P/$K] suite with patch   : $suite"
echo "[$P/$K] demo with patch    : $mut_demo"
res=""
for c in "$@"; do
  out=$(/verif/tools/mutant_try.sh $W $c 2>&1 | grep -E "^check|VIOLATION")
  echo "$out" | cut -c1-170
  if echo "$out" | grep -q "VIOLATION property=$c"; then
    if echo "$out" | grep "VIOLATION property=$c" | grep -vq "no-failing-input-found"; then res="$res $c:caught-with-input"; else res="$res $c:caught-no-input"; fi
  else res="$res $c:MISSED"; fi
done
echo "[$P/$K] RESULT:$res"
S=$((K + ${SEED_OFFSET:-0}))
D=/verif/seeded/$P-$S
mkdir -p $D
cp $O/patch$K.diff $D/patch.diff; cp $O/demo$K.rs $D/demo.rs; cp $O/notes$K.md $D/notes.md
python3 - "$P" "$S" "$clean_demo" "$suite" "$mut_demo" "$res" <<'PY'
import json,sys
P,K,cd,su,md,res=sys.argv[1:7]
d="/verif/seeded/%s-%s"%(P,K)
notes=open(d+"/notes.md").read()
json.dump({"property":P,"mutant":int(K),"breaks":P,"needs_to_manifest":notes[:1500],
  "confirmed":{"demo_on_clean_tree":cd,"existing_suite_with_patch":su,"demo_with_patch":md},
  "what_was_run":"tools/mutant_eval.sh %s %s <checks> (scratch worktree; patch applied with git apply; cargo test --offline; then the quick checks' correspondence/oracle part against the patched checkout via tools/mutant_try.sh)"%(P,K),
  "check_results":res.strip().split()}, open(d+"/meta.json","w"), indent=1)
PY
git checkout -q -- . ; rm -rf $W/target
