#!/usr/bin/env python3
"""seeded_table.py — regenerates the table of DESIGN.md §11 (one row per blind seeded change, /verif/seeded/C*-*/)
from the meta.json files: what the change is (first line of its notes), which checks reported it in the scratch run,
and the official run of the property's quick check on /repo."""
import os, re, json, glob
ROOT = os.path.dirname(os.path.dirname(os.path.abspath(__file__)))
rows = []
def keyf(d):
    m = re.match(r"C(\d+)-(\d+)$", os.path.basename(d))
    return (int(m.group(1)), int(m.group(2)))
for d in sorted((x for x in glob.glob(os.path.join(ROOT, "seeded", "C*-*")) if re.match(r"C\d+-\d+$", os.path.basename(x))), key=keyf):
    m = json.load(open(os.path.join(d, "meta.json")))
    notes = m.get("needs_to_manifest", "")
    first = ""
    for line in notes.splitlines():
        line = line.strip().lstrip("#*- ").strip()
        if len(line) > 20:
            first = line
            break
    first = re.sub(r"^(Change|Mutant \d+|C\d+ mutant \d+)\s*[:—-]*\s*", "", first)
    first = first.replace("|", "/")[:150]
    o = m.get("official_run")
    if o:
        ni = o.get("of_which_no_failing_input_found", 0)
        off = "exit %d, %d VIOLATION line(s), %s" % (o["exit_code"], o["violation_lines"], "all with a failing input" if ni == 0 else "%d without a failing input" % ni)
    else:
        off = "—"
    hist = " (" + m["history"].split(" -> ")[0] + ")" if m.get("history") else ""
    rows.append("| %s | %s | %s%s | %s |" % (os.path.basename(d), first, " ".join(m.get("check_results", [])), hist, off))
p = os.path.join(ROOT, "DESIGN.md")
s = open(p).read()
head = "| change | what it is (from its notes) | scratch run: checks that report it | official run of the property's quick check on /repo |\n|---|---|---|---|\n"
i = s.index(head) + len(head)
j = i
while s[j] == "|":
    j = s.index("\n", j) + 1
s = s[:i] + "\n".join(rows) + "\n" + s[j:]
open(p, "w").write(s)
print("seeded_table: %d rows" % len(rows))
