/* icu_levels: for each input line "<dir> <hex scalar> <hex scalar> ..." (dir = a | 0 | 1) prints the paragraph level
 * and the per-character embedding levels ICU's ubidi computes (ubidi_getLevels: levels AFTER rule L1 for the
 * paragraph as one line).  Diagnostic only (tools/spec_vs_icu.py); ICU 72 = Unicode 15.0. */
#include <stdio.h>
#include <stdlib.h>
#include <string.h>
#include <unicode/ubidi.h>
#include <unicode/utf16.h>

int main(void) {
    char *line = NULL; size_t cap = 0; ssize_t n;
    UBiDi *bidi = ubidi_open();
    while ((n = getline(&line, &cap, stdin)) > 0) {
        static UChar text[65536]; static int starts[65536];
        int32_t len = 0, nchars = 0;
        char *tok = strtok(line, " \n");
        if (!tok) { printf("ERR\n"); continue; }
        UBiDiLevel para = tok[0] == 'a' ? UBIDI_DEFAULT_LTR : (UBiDiLevel)(tok[0] - '0');
        while ((tok = strtok(NULL, " \n")) != NULL) {
            UChar32 c = (UChar32)strtol(tok, NULL, 16);
            starts[nchars++] = len;
            UBool err = 0;
            U16_APPEND(text, len, 65536, c, err);
            if (err) break;
        }
        UErrorCode ec = U_ZERO_ERROR;
        ubidi_setPara(bidi, text, len, para, NULL, &ec);
        if (U_FAILURE(ec)) { printf("ERR %s\n", u_errorName(ec)); continue; }
        const UBiDiLevel *lv = ubidi_getLevels(bidi, &ec);
        if (U_FAILURE(ec)) { printf("ERR %s\n", u_errorName(ec)); continue; }
        printf("pl=%d lv=", (int)ubidi_getParaLevel(bidi));
        for (int i = 0; i < nchars; i++) printf("%s%d", i ? "," : "", (int)lv[starts[i]]);
        printf("\n");
    }
    ubidi_close(bidi);
    return 0;
}
