#!/usr/bin/env python3
"""Translator (second part): small pure functions of /repo/src  ->  /verif/lean/UBidi/Gen/Code.lean

What is translated, on every check run, from what the source says now:
  * src/level.rs: Level::new, new_explicit, is_ltr, is_rtl, raise, raise_explicit, lower,
    new_explicit_next_ltr, new_explicit_next_rtl, new_lowest_ge_rtl, bidi_class   (the whole arithmetic of C19)
  * src/implicit.rs: is_NI;  src/prepare.rs: removed_by_x9;  src/char_data/mod.rs: is_rtl(BidiClass)
  * the class patterns of the `match` arms of reorder_levels (rule L1), compute_initial_info, explicit::compute and
    get_base_direction_impl, as lists of class lists, arm by arm

The theorems of Props/C19Tie.lean / C01Tie.lean state that each translated function equals the hand-written Model
function on the whole domain, so a change of the source text changes Gen/Code.lean and the kernel re-decides the
equalities: for these pieces the tie between Model and code is by regeneration + proof, not by sampling.

A tiny recursive-descent translator for the expression subset these functions use (if/else, match on
checked_add/checked_sub, comparisons, + - % & | and u8 `!`, Ok/Err, Level(..), self.0, constants, calls of
translated functions, matches!).  Strict: anything it does not understand is a hard failure (exit 2) — a broken
proof obligation, never a silently stale model.  The output is written only when it differs.
"""
import re, sys, os

REPO = os.environ.get("VERIF_REPO", "/repo")
OUT = os.path.normpath(os.path.join(os.path.dirname(os.path.abspath(__file__)), "..", "lean", "UBidi", "Gen", "Code.lean"))
CLASSES = ["AL","AN","B","BN","CS","EN","ES","ET","FSI","L","LRE","LRI","LRO","NSM","ON","PDF","PDI","R","RLE","RLI","RLO","S","WS"]

def die(msg):
    sys.stderr.write("gen_code: " + msg + "\n")
    sys.exit(2)

def read(p):
    with open(os.path.join(REPO, p), encoding="utf-8") as f:
        return f.read()

def strip_comments(s):
    s = re.sub(r"//[^\n]*", "", s)
    return re.sub(r"/\*.*?\*/", "", s, flags=re.S)

# ---------------------------------------------------------------- tokenizer
TOK = re.compile(r"\s*(?:(\d+)|([A-Za-z_][A-Za-z_0-9]*(?:::[A-Za-z_][A-Za-z_0-9]*)*!?)|(=>|==|!=|<=|>=|&&|\|\||[-+%&|!<>=(){};,.]))")

def tokenize(src):
    pos, out = 0, []
    src = src.strip()
    while pos < len(src):
        m = TOK.match(src, pos)
        if not m:
            die("cannot tokenize at ...%r" % src[pos:pos + 40])
        if m.group(1) is not None:
            out.append(("num", m.group(1)))
        elif m.group(2) is not None:
            out.append(("id", m.group(2)))
        else:
            out.append(("op", m.group(3)))
        pos = m.end()
    return out

class P:
    def __init__(self, toks, fn):
        self.t, self.i, self.fn = toks, 0, fn
    def peek(self, k=0):
        return self.t[self.i + k] if self.i + k < len(self.t) else ("eof", "")
    def eat(self, kind=None, val=None):
        tok = self.peek()
        if (kind and tok[0] != kind) or (val is not None and tok[1] != val):
            die("%s: expected %s %r, found %r" % (self.fn, kind, val, tok))
        self.i += 1
        return tok
    def at(self, val):
        return self.peek()[1] == val and self.peek()[0] in ("op", "id")

    # block := '{' (stmt ';')* expr? '}'   ->  ('block', assigns, expr)
    def block(self):
        self.eat("op", "{")
        assigns = []
        while True:
            # assignment `self.0 = e;`
            if self.peek() == ("id", "self") and self.peek(1) == ("op", ".") and self.peek(2) == ("num", "0") and self.peek(3) == ("op", "="):
                self.i += 4
                e = self.expr()
                self.eat("op", ";")
                assigns.append(e)
                continue
            break
        e = self.expr()
        self.eat("op", "}")
        if len(assigns) > 1:
            die("%s: more than one assignment to self.0" % self.fn)
        return ("block", assigns[0] if assigns else None, e)

    def expr(self):
        if self.at("if"):
            self.eat()
            c = self.binary(0)
            a = self.block()
            self.eat("id", "else")
            b = self.block()
            return ("if", c, a, b)
        if self.at("match"):
            self.eat()
            scrut = self.binary(0)
            self.eat("op", "{")
            arms = []
            while not self.at("}"):
                pat = self.pattern()
                self.eat("op", "=>")
                body = self.block() if self.at("{") else ("block", None, self.expr())
                if self.at(","):
                    self.eat()
                arms.append((pat, body))
            self.eat("op", "}")
            return ("match", scrut, arms)
        return self.binary(0)

    def pattern(self):
        tok = self.eat("id")
        if tok[1] == "Some":
            self.eat("op", "(")
            v = self.eat("id")[1]
            self.eat("op", ")")
            return ("Some", v)
        if tok[1] == "None":
            return ("None",)
        if tok[1] == "_":
            return ("wild",)
        if tok[1].split("::")[-1] in CLASSES:
            alts = [tok[1]]
            while self.at("|"):
                self.eat()
                alts.append(self.eat("id")[1])
            return ("classes", alts)
        die("%s: unsupported pattern %r" % (self.fn, tok))

    LEVELS = [["||"], ["&&"], ["==", "!=", "<=", ">=", "<", ">"], ["|"], ["&"], ["+", "-"], ["%"]]
    def binary(self, lvl):
        if lvl == len(self.LEVELS):
            return self.unary()
        a = self.binary(lvl + 1)
        while self.peek()[0] == "op" and self.peek()[1] in self.LEVELS[lvl]:
            op = self.eat()[1]
            b = self.binary(lvl + 1)
            a = ("bin", op, a, b)
        return a

    def unary(self):
        if self.at("!"):
            self.eat()
            return ("not", self.unary())
        return self.postfix()

    def postfix(self):
        e = self.atom()
        while self.at("."):
            self.eat()
            tok = self.eat()
            if tok == ("num", "0"):
                e = ("field0", e)
            elif tok[0] == "id":
                self.eat("op", "(")
                args = []
                while not self.at(")"):
                    args.append(self.expr())
                    if self.at(","):
                        self.eat()
                self.eat("op", ")")
                e = ("method", tok[1], e, args)
            else:
                die("%s: unsupported postfix %r" % (self.fn, tok))
        return e

    def atom(self):
        tok = self.eat()
        if tok[0] == "num":
            return ("num", int(tok[1]))
        if tok == ("op", "("):
            if self.at(")"):
                self.eat()
                return ("unit",)
            e = self.expr()
            self.eat("op", ")")
            return e
        if tok[0] == "id":
            name = tok[1]
            if name == "matches!":
                self.eat("op", "(")
                scrut = self.expr()
                self.eat("op", ",")
                alts = [self.eat("id")[1]]
                while self.at("|"):
                    self.eat()
                    alts.append(self.eat("id")[1])
                self.eat("op", ")")
                return ("matches", scrut, alts)
            if self.at("("):
                self.eat()
                args = []
                while not self.at(")"):
                    args.append(self.expr())
                    if self.at(","):
                        self.eat()
                self.eat("op", ")")
                return ("call", name, args)
            return ("id", name)
        die("%s: unexpected token %r" % (self.fn, tok))

# ---------------------------------------------------------------- emission
CONSTS = {"MAX_IMPLICIT_DEPTH": "UBidi.Gen.maxImplicitDepth", "MAX_EXPLICIT_DEPTH": "UBidi.Gen.maxExplicitDepth",
          "MAX_DEPTH": "UBidi.Gen.maxDepth"}
FN_LEAN = {}   # rust fn name -> lean name (filled while emitting)

def cls(name):
    n = name.split("::")[-1]
    if n not in CLASSES:
        die("unknown class %r" % name)
    return "UBidi.BidiClass." + n

def emit(e, env, kind):
    """kind: 'nat' (u8 value), 'bool', 'res' (Result<Level|(),Error> as Option Nat), 'class'"""
    t = e[0]
    if t == "block":
        assign, inner = e[1], e[2]
        if assign is not None:
            # `self.0 = number; Ok(())`  ->  some number
            if inner != ("call", "Ok", [("unit",)]):
                die("assignment followed by something else than Ok(())")
            return "(some %s)" % emit(assign, env, "nat")
        return emit(inner, env, kind)
    if t == "if":
        return "(if %s then %s else %s)" % (emit(e[1], env, "bool"), emit(e[2], env, kind), emit(e[3], env, kind))
    if t == "match":
        scrut = e[1]
        s = emit(scrut, env, "opt")
        arms = []
        for pat, body in e[2]:
            if pat[0] == "Some":
                arms.append("| some %s => %s" % (pat[1], emit(body, dict(env, **{pat[1]: pat[1]}), kind)))
            else:
                arms.append("| none => %s" % emit(body, env, kind))
        return "(match %s with %s)" % (s, " ".join(arms))
    if t == "num":
        return str(e[1])
    if t == "unit":
        die("unit value outside Ok(())")
    if t == "id":
        n = e[1]
        if n in env:
            return env[n]
        if n in CONSTS:
            return CONSTS[n]
        if kind == "class" or n.split("::")[-1] in CLASSES and "::" in n:
            return cls(n)
        die("unknown identifier %r" % n)
    if t == "field0":
        if e[1] == ("id", "self"):
            return env["self"]
        die("unsupported field access")
    if t == "not":
        # `!` on a u8 value: bitwise complement
        return "(255 - %s)" % emit(e[1], env, "nat")
    if t == "bin":
        op, a, b = e[1], e[2], e[3]
        if op in ("==", "!=", "<=", ">=", "<", ">"):
            la, lb = emit(a, env, "nat"), emit(b, env, "nat")
            m = {"==": "==", "!=": "!=", "<=": "≤", ">=": "≥", "<": "<", ">": ">"}[op]
            return "(decide (%s %s %s))" % (la, m, lb) if op not in ("==", "!=") else "(%s %s %s)" % (la, m, lb)
        if op in ("&&", "||"):
            return "(%s %s %s)" % (emit(a, env, "bool"), op, emit(b, env, "bool"))
        la, lb = emit(a, env, "nat"), emit(b, env, "nat")
        if op == "+":
            return "((%s + %s) %% 256)" % (la, lb)          # u8, wrapping (release); the domain theorems show no wrap
        if op == "-":
            return "((%s + 256 - %s) %% 256)" % (la, lb)
        if op == "%":
            return "(%s %% %s)" % (la, lb)
        if op == "&":
            return "(Nat.land %s %s)" % (la, lb)
        if op == "|":
            return "(Nat.lor %s %s)" % (la, lb)
        die("operator %r" % op)
    if t == "call":
        name, args = e[1], e[2]
        if name == "Ok":
            a = args[0]
            if a[0] == "call" and a[1] == "Level":
                return "(some %s)" % emit(a[2][0], env, "nat")
            die("Ok(..) of something else than Level(..)")
        if name == "Err":
            return "none"
        if name == "Level":
            return emit(args[0], env, "nat")
        short = name.split("::")[-1]
        if name.startswith("Level::") and short in FN_LEAN:
            return "(%s %s)" % (FN_LEAN[short], " ".join(emit(a, env, "nat") for a in args))
        die("call of %r" % name)
    if t == "method":
        m, recv, args = e[1], e[2], e[3]
        if m == "checked_add":
            return "(checkedAddU8 %s %s)" % (emit(recv, env, "nat"), emit(args[0], env, "nat"))
        if m == "checked_sub":
            return "(checkedSubU8 %s %s)" % (emit(recv, env, "nat"), emit(args[0], env, "nat"))
        if recv == ("id", "self") and m in FN_LEAN and not args:
            return "(%s %s)" % (FN_LEAN[m], env["self"])
        die("method %r" % m)
    if t == "matches":
        scrut, alts = e[1], e[2]
        return "(match %s with %s => true | _ => false)" % (emit(scrut, env, "classv"), " ".join("| " + cls(a) for a in alts))
    die("cannot emit %r" % (e,))

def find_fn(src, name, sig_re):
    m = re.search(r"fn\s+%s\s*%s\s*\{" % (re.escape(name), sig_re), src)
    if not m:
        die("function %s not found (signature changed?)" % name)
    i = m.end() - 1
    depth, j = 0, i
    while j < len(src):
        if src[j] == "{":
            depth += 1
        elif src[j] == "}":
            depth -= 1
            if depth == 0:
                return src[i:j + 1]
        j += 1
    die("unbalanced braces in %s" % name)

def class_arms(src, fn_name, fn_sig, scrut_re):
    """the class patterns of the arms of `match <scrut> {` inside function fn_name: [[class,..],..] (arms whose
    pattern is `_` or binds a name are recorded as [])"""
    body = find_fn(src, fn_name, fn_sig)
    m = re.search(r"match\s+%s\s*\{" % scrut_re, body)
    if not m:
        # the scrutinee may have been hoisted into a local or renamed: take the first `match` of the function
        # whose arms are class patterns (at least two arms that list classes)
        for cand in re.finditer(r"match\s+[^{;]+?\{", body):
            try:
                arms = class_arms_at(body, cand.end(), fn_name, soft=True)
            except ValueError:
                continue
            if sum(1 for a in arms if a) >= 2:
                return arms
        die("%s: no `match` over classes found" % fn_name)
    return class_arms_at(body, m.end(), fn_name)

def class_arms_at(body, i, fn_name, soft=False):
    depth, j, arms, cur = 1, i, [], ""
    # collect text at depth 1 up to each `=>`
    pats = []
    while j < len(body) and depth > 0:
        c = body[j]
        if c == "{":
            depth += 1
        elif c == "}":
            depth -= 1
            if depth == 1:
                cur = ""
        elif depth == 1:
            if body.startswith("=>", j):
                pats.append(cur.strip())
                cur = ""
                j += 2
                # skip an expression arm without braces up to the next top-level comma
                k = j
                while k < len(body) and body[k] in " \n\t":
                    k += 1
                if body[k] != "{":
                    d2 = 0
                    while k < len(body):
                        if body[k] in "({[":
                            d2 += 1
                        elif body[k] in ")}]":
                            if d2 == 0:
                                break
                            d2 -= 1
                        elif body[k] == "," and d2 == 0:
                            k += 1
                            break
                        k += 1
                    j = k
                continue
            elif c == ",":
                cur = ""
            else:
                cur += c
        j += 1
    out = []
    for p in pats:
        p = re.sub(r"\s+", " ", p)
        p = re.sub(r"\bif\b.*$", "", p).strip()      # arm guards are not part of the class pattern
        names = [x.strip().split("::")[-1] for x in p.split("|")]
        if all(n in CLASSES for n in names):
            out.append(names)
        elif p == "_":
            out.append([])
        else:
            if soft:
                raise ValueError(p)
            die("%s: arm pattern %r is not a list of classes" % (fn_name, p))
    return out

def match_arms_text(body, i):
    """the arms of the `match` whose opening brace ends at `i`: [(pattern text, body text)]"""
    arms, j = [], i
    while True:
        while j < len(body) and body[j] in " \n\t,":
            j += 1
        if j >= len(body):
            raise ValueError("unterminated match")
        if body[j] == "}":
            return arms
        d, k = 0, j
        while k < len(body) and not (d == 0 and body.startswith("=>", k)):
            if body[k] in "([{":
                d += 1
            elif body[k] in ")]}":
                d -= 1
                if d < 0:
                    raise ValueError("pattern runs out of the match")
            k += 1
        if k >= len(body):
            raise ValueError("no => after pattern")
        pat = body[j:k].strip()
        k += 2
        while body[k] in " \n\t":
            k += 1
        if body[k] == "{":
            d, st = 0, k
            while True:
                if body[k] == "{":
                    d += 1
                elif body[k] == "}":
                    d -= 1
                    if d == 0:
                        break
                k += 1
            bod = body[st:k + 1]
            k += 1
        else:
            d, st = 0, k
            while True:
                ch = body[k]
                if ch in "([{":
                    d += 1
                elif ch in ")]}":
                    if d == 0:
                        break
                    d -= 1
                elif ch == "," and d == 0:
                    break
                k += 1
            bod = body[st:k].strip()
        arms.append((pat, bod))
        j = k

def split_top(s, sep):
    out, d, cur = [], 0, ""
    for ch in s:
        if ch in "([{":
            d += 1
        elif ch in ")]}":
            d -= 1
        if ch == sep and d == 0:
            out.append(cur)
            cur = ""
        else:
            cur += ch
    out.append(cur)
    return [x.strip() for x in out]

def decision_table(src, fn_name, fn_sig, scrut_re, arity, body_value, prefix_re="", extra_atoms=(), every=False):
    """A `match` that is a pure decision table: every pattern an alternative list of `arity`-tuples (plain value for
    arity 1) of class names / `true` / `false` / `_`, every arm body something `body_value` can read.  Returns
    [([tuple of atoms, ...], value)].  The match is looked up by its scrutinee; if that was renamed or hoisted, the
    first match of the function that reads as such a table (with at least two arms) is taken."""
    body = find_fn(src, fn_name, fn_sig)
    def read_at(i):
        out = []
        for pat, bod in match_arms_text(body, i):
            alts = []
            for alt in split_top(pat, "|"):
                alt = alt.strip()
                if arity > 1:
                    if not (alt.startswith("(") and alt.endswith(")")):
                        raise ValueError("not a tuple pattern: %r" % alt)
                    atoms = split_top(alt[1:-1], ",")
                else:
                    atoms = [alt]
                if len(atoms) != arity:
                    raise ValueError("arity of %r" % alt)
                atoms = [a.split("::")[-1].strip() for a in atoms]
                for a in atoms:
                    if a not in CLASSES and a not in ("true", "false", "_") and a not in extra_atoms:
                        raise ValueError("atom %r" % a)
                alts.append(tuple(atoms))
            v = body_value(re.sub(r"\s+", " ", bod).strip())
            if v is None:
                raise ValueError("arm body %r" % bod)
            out.append((alts, v))
        return out
    if every:
        # every occurrence of the match must be the same table (the code repeats it); at least one must exist
        tabs = []
        for m in re.finditer(prefix_re + r"match\s+%s\s*\{" % scrut_re, body):
            try:
                tabs.append(read_at(m.end()))
            except ValueError as e:
                die("%s: `match %s` is not a decision table (%s)" % (fn_name, scrut_re.replace("\\", ""), e))
        if not tabs:
            die("%s: no `match %s` found" % (fn_name, scrut_re.replace("\\", "")))
        if any(t != tabs[0] for t in tabs):
            die("%s: the occurrences of `match %s` are not the same table" % (fn_name, scrut_re.replace("\\", "")))
        return tabs[0]
    m = re.search(prefix_re + r"match\s+%s\s*\{" % scrut_re, body)
    if m:
        try:
            return read_at(m.end())
        except ValueError as e:
            die("%s: `match %s` is not a decision table any more (%s)" % (fn_name, scrut_re.replace("\\", ""), e))
    for cand in re.finditer(r"match\s+[^{;]+?\{", body):
        try:
            t = read_at(cand.end())
        except (ValueError, IndexError):
            continue
        if len(t) >= 2:
            return t
    die("%s: no decision table `match %s` found" % (fn_name, scrut_re.replace("\\", "")))

def lean_atom(a):
    if a in CLASSES:
        return cls(a)
    return a if a in ("_", "true", "false") else "OverrideStatus." + a

def emit_table(name, params, scrut, table, ret, doc, val):
    arms = []
    for alts, v in table:
        arms.append("  %s => %s" % (" ".join("| " + ", ".join(lean_atom(a) for a in alt) for alt in alts), val(v)))
    return "/-- %s -/\ndef %s %s : %s :=\n  match %s with\n%s\n" % (doc, name, " ".join("(%s : %s)" % p for p in params), ret, ", ".join(scrut), "\n".join(arms))

def main():
    lv = strip_comments(read("src/level.rs"))
    lines = []
    lines.append("-- GENERATED by /verif/tools/gen_code.py from /repo/src/level.rs, implicit.rs, prepare.rs, char_data/mod.rs,")
    lines.append("-- lib.rs, explicit.rs.  Do not edit: regenerated on every check run.")
    lines.append("import UBidi.Gen.Tables")
    lines.append("namespace UBidi.Gen.Code")
    lines.append("")
    lines.append("/-- `u8::checked_add` -/")
    lines.append("def checkedAddU8 (a b : Nat) : Option Nat := if a + b ≤ 255 then some (a + b) else none")
    lines.append("/-- `u8::checked_sub` -/")
    lines.append("def checkedSubU8 (a b : Nat) : Option Nat := if b ≤ a then some (a - b) else none")
    lines.append("")
    specs = [
        # rust name, signature regex, lean name, params, result kind
        ("new", r"\(\s*number\s*:\s*u8\s*\)\s*->\s*Result<Level,\s*Error>", "new", ["number"], "res"),
        ("new_explicit", r"\(\s*number\s*:\s*u8\s*\)\s*->\s*Result<Level,\s*Error>", "new_explicit", ["number"], "res"),
        ("is_ltr", r"\(\s*&self\s*\)\s*->\s*bool", "is_ltr", ["self"], "bool"),
        ("is_rtl", r"\(\s*&self\s*\)\s*->\s*bool", "is_rtl", ["self"], "bool"),
        ("raise", r"\(\s*&mut self\s*,\s*amount\s*:\s*u8\s*\)\s*->\s*Result<\(\),\s*Error>", "raise", ["self", "amount"], "res"),
        ("raise_explicit", r"\(\s*&mut self\s*,\s*amount\s*:\s*u8\s*\)\s*->\s*Result<\(\),\s*Error>", "raise_explicit", ["self", "amount"], "res"),
        ("lower", r"\(\s*&mut self\s*,\s*amount\s*:\s*u8\s*\)\s*->\s*Result<\(\),\s*Error>", "lower", ["self", "amount"], "res"),
        ("new_explicit_next_ltr", r"\(\s*&self\s*\)\s*->\s*Result<Level,\s*Error>", "new_explicit_next_ltr", ["self"], "res"),
        ("new_explicit_next_rtl", r"\(\s*&self\s*\)\s*->\s*Result<Level,\s*Error>", "new_explicit_next_rtl", ["self"], "res"),
        ("new_lowest_ge_rtl", r"\(\s*&self\s*\)\s*->\s*Result<Level,\s*Error>", "new_lowest_ge_rtl", ["self"], "res"),
        ("bidi_class", r"\(\s*&self\s*\)\s*->\s*BidiClass", "level_bidi_class", ["self"], "class"),
    ]
    for rust, sig, lean, params, kind in specs:
        body = find_fn(lv, rust, sig)
        p = P(tokenize(body), rust)
        ast = p.block()
        if p.i != len(p.t):
            die("%s: trailing tokens" % rust)
        env = {x: x for x in params}
        FN_LEAN[rust] = lean
        ty = {"res": "Option Nat", "bool": "Bool", "class": "UBidi.BidiClass"}[kind]
        lines.append("/-- `Level::%s` as level.rs writes it (u8 values as `Nat`; `Result` as `Option`; for `&mut self` the new value) -/" % rust)
        lines.append("def %s %s : %s :=\n  %s" % (lean, " ".join("(%s : Nat)" % x for x in params), ty, emit(ast, env, kind)))
        lines.append("")
    # class predicates
    preds = [("src/implicit.rs", "is_NI", r"\(\s*class\s*:\s*BidiClass\s*\)\s*->\s*bool", "is_NI", "class"),
             ("src/prepare.rs", "removed_by_x9", r"\(\s*class\s*:\s*BidiClass\s*\)\s*->\s*bool", "removed_by_x9", "class"),
             ("src/char_data/mod.rs", "is_rtl", r"\(\s*bidi_class\s*:\s*BidiClass\s*\)\s*->\s*bool", "class_is_rtl", "bidi_class")]
    for path, rust, sig, lean, param in preds:
        body = find_fn(strip_comments(read(path)), rust, sig)
        p = P(tokenize(body), rust)
        ast = p.block()
        env = {param: param}
        def emit_pred(e):
            if e[0] == "block":
                return emit_pred(e[2])
            if e[0] == "matches" and e[1] == ("id", param):
                return "(match %s with %s => true | _ => false)" % (param, " ".join("| " + cls(a) for a in e[2]))
            if e[0] == "match" and e[1] == ("id", param):
                # `match class { A | B => true, _ => false }` (any number of arms, each yielding a bool literal)
                arms = []
                for pat, body in e[2]:
                    val = body[2] if body[0] == "block" else body
                    if val not in (("id", "true"), ("id", "false")):
                        die("%s: arm does not yield a bool literal" % rust)
                    if pat[0] == "classes":
                        arms.append("%s => %s" % (" ".join("| " + cls(a) for a in pat[1]), val[1]))
                    elif pat[0] == "wild":
                        arms.append("| _ => %s" % val[1])
                    else:
                        die("%s: unsupported arm pattern" % rust)
                return "(match %s with %s)" % (param, " ".join(arms))
            die("%s: body is neither a single matches! nor a match over classes" % rust)
        lines.append("/-- `%s` (%s) -/" % (rust, path))
        lines.append("def %s (c : UBidi.BidiClass) : Bool :=\n  %s" % (lean, emit_pred(ast).replace("(match %s with" % param, "(match c with")))
        lines.append("")
    # match-arm class patterns
    lib = strip_comments(read("src/lib.rs"))
    ex = strip_comments(read("src/explicit.rs"))
    generic = r"(?:<[^{]*?>)?\s*\([^{]*?\)\s*(?:->\s*[^{]*?)?(?:where[^{]*?)?"
    arm_specs = [("arms_reorder_levels", lib, "reorder_levels", r"line_classes\[i\]"),
                 ("arms_compute_initial_info", lib, "compute_initial_info", r"class"),
                 ("arms_get_base_direction_impl", lib, "get_base_direction_impl", r"data_source\.bidi_class\(c\)"),
                 ("arms_explicit_compute", ex, "compute", r"original_classes\[i\]")]
    for lean, src, fn, scrut in arm_specs:
        arms = class_arms(src, fn, generic, scrut)
        lines.append("/-- the class patterns of `match %s` in `%s`, arm by arm (`[]` = the catch-all arm) -/" % (scrut.replace("\\", ""), fn))
        lines.append("def %s : List (List UBidi.BidiClass) :=\n  [%s]" % (lean, ", ".join("[" + ", ".join(cls(c) for c in a) + "]" for a in arms)))
        lines.append("")
    # decision tables of the rules (pure matches from classes to a class / an amount)
    im = strip_comments(read("src/implicit.rs"))
    C = "UBidi.BidiClass"
    def class_or(names):
        def f(b):
            b = b.strip("{} ;")
            b = b.split("::")[-1].strip()
            if b in CLASSES:
                return ("cls", b)
            if b in names:
                return ("var", names[b])
            return None
        return f
    def raise_amount(b):
        if b.strip("{} ") == "":
            return 0
        m = re.search(r"\.\s*raise\s*\(\s*(\d+)\s*\)", b)
        return int(m.group(1)) if m else None
    valc = lambda v: cls(v[1]) if v[0] == "cls" else v[1]
    t = decision_table(im, "resolve_levels", generic, r"\(\s*levels\[i\]\.is_rtl\(\)\s*,\s*processing_classes\[i\]\s*\)", 2, raise_amount)
    lines.append(emit_table("i12_amount", [("rtl", "Bool"), ("c", C)], ["rtl", "c"], t, "Nat",
                            "I1/I2: by how much `resolve_levels` raises the level of a character of class `c` (`match (levels[i].is_rtl(), processing_classes[i])`)", str))
    t = decision_table(im, "resolve_neutral", generic, r"\(\s*prev_class\s*,\s*next_class\s*\)", 2, class_or({"e": "e"}))
    lines.append(emit_table("n12_class", [("prev", C), ("next", C), ("e", C)], ["prev", "next"], t, C,
                            "N1/N2: the class given to a run of neutrals between `prev` and `next` (`match (prev_class, next_class)` in `resolve_neutral`)", valc))
    t = decision_table(im, "resolve_weak", generic, r"\(\s*prev_class_before_w4\s*,\s*processing_classes\[i\]\s*,\s*next_class\s*\)", 3, class_or({}))
    lines.append(emit_table("w46_class", [("prev", C), ("c", C), ("next", C)], ["prev", "c", "next"], t, C,
                            "W4 / W6 (separators): the class an ES or CS takes (`match (prev_class_before_w4, processing_classes[i], next_class)` in `resolve_weak`)", valc))
    t = decision_table(im, "resolve_weak", generic, r"prev_class_before_w1", 1, class_or({"prev_class_before_w1": "prev"}))
    lines.append(emit_table("w1_class", [("prev", C)], ["prev"], t, C,
                            "W1: the class an NSM takes after a character of class `prev` (`match prev_class_before_w1` in `resolve_weak`)", valc))
    # explicit.rs: the override status pushed for an initiator, and what a status does to a class (X4-X6a)
    m = re.search(r"enum\s+OverrideStatus\s*\{([^}]*)\}", ex)
    if not m:
        die("explicit.rs: enum OverrideStatus not found")
    variants = [v.strip() for v in m.group(1).split(",") if v.strip()]
    if not all(re.fullmatch(r"[A-Za-z_][A-Za-z0-9_]*", v) for v in variants) or len(variants) < 2:
        die("explicit.rs: enum OverrideStatus has variants with data")
    lines.append("/-- `enum OverrideStatus` of explicit.rs -/")
    lines.append("inductive OverrideStatus where\n%s\n  deriving DecidableEq, Repr\n" % "\n".join("  | " + v for v in variants))
    def status_value(b):
        b = b.strip("{} ;").split("::")[-1].strip()
        return b if b in variants else None
    t = decision_table(ex, "compute", generic, r"original_classes\[i\]", 1, status_value, prefix_re=r"status\s*:\s*")
    lines.append(emit_table("override_status", [("c", C)], ["c"], t, "OverrideStatus",
                            "X2-X5c: the override status pushed with the level of an initiator of class `c` (`status: match original_classes[i]` in `explicit::compute`)",
                            lambda v: "OverrideStatus." + v))
    def assigned_class(b):
        b = b.strip("{} ;")
        if b == "":
            return ("var", "c")
        mm = re.fullmatch(r"processing_classes\s*\[\s*i\s*\]\s*=\s*(?:BidiClass::)?(\w+)", b)
        return ("cls", mm.group(1)) if mm and mm.group(1) in CLASSES else None
    t = decision_table(ex, "compute", generic, r"last\.status", 1, assigned_class, extra_atoms=tuple(variants), every=True)
    lines.append(emit_table("apply_override", [("st", "OverrideStatus"), ("c", C)], ["st"], t, C,
                            "X5a-X6a: the processing class of a character of class `c` under the status on top of the stack (the three identical `match last.status` of `explicit::compute`)", valc))
    # the class sets of the `matches!(…, A | B | …)` tests inside isolating_run_sequences and explicit::compute
    def matches_sets(src, fn_name):
        body = find_fn(src, fn_name, generic)
        out = []
        for m in re.finditer(r"matches!\s*\(", body):
            d, k = 1, m.end()
            while k < len(body) and d > 0:
                d += body[k] in "([{"
                d -= body[k] in ")]}"
                k += 1
            args = split_top(body[m.end():k - 1], ",")
            if len(args) != 2:
                continue
            names = [x.strip().split("::")[-1] for x in args[1].split("|")]
            if all(n in CLASSES for n in names):
                out.append(names)
        return out
    pr = strip_comments(read("src/prepare.rs"))
    for lean, src, fn in (("matches_isolating_run_sequences", pr, "isolating_run_sequences"), ("matches_explicit_compute", ex, "compute")):
        sets = matches_sets(src, fn)
        lines.append("/-- the class sets of the `matches!(…)` tests on a class inside `%s`, in source order -/" % fn)
        lines.append("def %s : List (List UBidi.BidiClass) :=\n  [%s]\n" % (lean, ", ".join("[" + ", ".join(cls(c) for c in a) + "]" for a in sets)))
    lines.append("end UBidi.Gen.Code")
    text = "\n".join(lines) + "\n"
    old = open(OUT, encoding="utf-8").read() if os.path.exists(OUT) else None
    if old != text:
        with open(OUT, "w", encoding="utf-8") as f:
            f.write(text)
        print("gen_code: wrote %s" % OUT)
    else:
        print("gen_code: up to date")

main()
