#!/bin/bash
# coverage.sh [tier] [seed]      (diagnostic, not a registered check)
# Measures which lines of /repo/src the correspondence actually executes: builds the harness with
# -C instrument-coverage (nightly toolchain, llvm-tools), runs the corpus and every property's generator stream
# of the given tier (default quick) WITHOUT the Lean driver, and prints the lines of the crate that no case
# reached.  Generator quality bounds what the correspondence sees; this is how the bound is measured.
# Output: coverage/summary.txt, coverage/uncovered.txt  (scratch build under /tmp/ubidi-cov, removed at the end)
set -e
cd "$(dirname "$0")/.."
TIER=${1:-quick}; SEED=${2:-1}
S=/tmp/ubidi-cov
rm -rf $S; mkdir -p $S coverage
rsync -a --exclude 'target*' harness/ $S/harness/
NB=$(ls -d ~/.rustup/toolchains/nightly-x86_64-unknown-linux-gnu/lib/rustlib/*/bin | head -1)
( cd $S/harness && CARGO_NET_OFFLINE=true RUSTFLAGS="--cfg unicode_bidi_verif -C instrument-coverage" \
    cargo +nightly build --release --offline 2>&1 | tail -1 )
H=$S/harness/target/release/ubidi-harness
python3 - "$TIER" > $S/streams.txt <<'PY'
import sys, re
sys.path.insert(0, "tools")
src = open("tools/run_check.py").read()
ns = {"__file__": "tools/run_check.py"}
exec(src.split("def sh(")[0], ns)
tier = sys.argv[1]
for p, cfg in ns["PROPS"].items():
    for s, share in cfg["streams"]:
        print(p, s, int(share) if share > 1 else max(1, int(cfg[tier] * share)))
if tier == "thorough":
    for p, ss in ns["EXH_FOR"].items():
        for s in ss:
            print(p, s, ns["EXH"][s])
PY
n=0
while read p s cnt; do
  n=$((n+1))
  LLVM_PROFILE_FILE=$S/prof/$p-$s-%p.profraw $H gen $s $TIER $SEED $cnt 0 > /dev/null &
  if [ $((n % 12)) = 0 ]; then wait; fi
done < $S/streams.txt
wait
for c in corpus/*.txt; do LLVM_PROFILE_FILE=$S/prof/corpus-%p.profraw $H rerun < $c > /dev/null; done
$NB/llvm-profdata merge -sparse $S/prof/*.profraw -o $S/all.profdata
$NB/llvm-cov report $H -instr-profile=$S/all.profdata --sources /repo/src 2>/dev/null > coverage/summary.txt || \
$NB/llvm-cov report $H -instr-profile=$S/all.profdata > coverage/summary.txt
$NB/llvm-cov show $H -instr-profile=$S/all.profdata --show-line-counts --sources /repo/src 2>/dev/null > $S/show.txt || \
$NB/llvm-cov show $H -instr-profile=$S/all.profdata --show-line-counts > $S/show.txt
python3 - $S/show.txt > coverage/uncovered.txt <<'PY'
import sys, re
cur = None
for l in open(sys.argv[1], errors="replace"):
    m = re.match(r"^(/\S+\.rs):$", l.strip())
    if m:
        cur = m.group(1); continue
    m = re.match(r"^\s*(\d+)\|\s*0\|(.*)$", l)
    if m and cur and cur.startswith("/repo/src"):
        print("%s:%s:%s" % (cur, m.group(1), m.group(2).rstrip()))
PY
grep -E "^/repo|^Filename|TOTAL" coverage/summary.txt | cut -c1-200 || true
echo "uncovered lines of /repo/src: $(wc -l < coverage/uncovered.txt)  (coverage/uncovered.txt)"
rm -rf $S
