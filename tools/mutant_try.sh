#!/bin/bash
# mutant_try.sh <scratch-crate-dir> <prop> [<prop> ...]
# Experiment helper (not a registered check): builds a copy of the harness against a scratch checkout of the
# crate and runs the correspondence/oracle part of the given checks there, leaving /repo and /verif untouched.
set -e
CRATE=$1; shift
S=/tmp/mutscratch/$(basename $CRATE)
mkdir -p $S
rsync -a --delete --exclude "target*" /verif/harness/ $S/harness/
sed -i "s#path = \"/repo\"#path = \"$CRATE\"#" $S/harness/Cargo.toml
for p in "$@"; do
  VERIF_SCRATCH=$S VERIF_SKIP_LEAN=1 python3 /verif/tools/run_check.py $p --tier quick 2>&1 | tail -4
done
