#!/bin/bash
# recheck_seeded.sh [scratch-worktree]   (diagnostic)
# Re-runs, in scratch mode (tools/mutant_try.sh: correspondence + oracle of the property's quick check, no Lean
# obligations, /repo untouched), every stored change of /verif/seeded against the machinery as it is now, and prints
# one line per change.  Used after generator / harness changes to make sure nothing that used to be reported got lost.
# recheck_seeded.sh <worktree> <k> <n> re-runs only the changes whose position in the list is k modulo n (for running n
# copies side by side, each with a worktree of its own).
W=${1:-/tmp/mut/recheck}
K=${2:-0}; N=${3:-1}; idx=0
[ -d $W ] || git -C /repo worktree add -q --detach $W HEAD
cd $W
git checkout -q --detach $(git -C /repo rev-parse HEAD) 2>/dev/null
for d in /verif/seeded/C*/ /verif/seeded/redteam-[0-9]*/; do
  idx=$((idx + 1)); [ $((idx % N)) -eq $K ] || continue
  id=$(basename $d)
  if [ -n "$RECHECK_SKIP" ] && grep -qx "$id" "$RECHECK_SKIP"; then continue; fi   # already done in an earlier, interrupted run
  p=$(python3 -c "import json;print(json.load(open('$d/meta.json'))['property'])")
  git checkout -q -- . ; git clean -fdq tests 2>/dev/null
  git apply $d/patch.diff 2>/dev/null || { echo "[$id] patch does not apply"; continue; }
  out=$(/verif/tools/mutant_try.sh $W $p 2>&1 | grep -E "^check|VIOLATION|harness problem")
  if echo "$out" | grep -q "VIOLATION property=$p"; then
    if echo "$out" | grep "VIOLATION property=$p" | grep -vq "no-failing-input-found"; then r="caught-with-input"; else r="caught-no-input"; fi
  else r="MISSED"; fi
  echo "[$id $p] $r"
done
git checkout -q -- .
