#!/usr/bin/env python3
"""oracle_selftest.py [cases-per-stream]     (diagnostic; not a registered check)

Is every field of the harness's answers actually looked at by the driver?  For a sample of generated cases of every
stream the script corrupts ONE field of the crate's answer at a time (a number +1, a class swapped, a hex item changed,
an item dropped) and feeds the corrupted line to the Lean driver: the verdict must turn into FAIL.  A field whose
corruption still gets `ok` is a blind spot of the correspondence / oracle (this is how the missing comparison of the
per-character line levels in C09 would have shown up before a seeded change found it).

Output: one line per (operation, field) with the number of corruptions tried and the number that went unnoticed;
coverage/oracle_selftest.json.
"""
import os, re, subprocess, sys, json, random

ROOT = os.path.dirname(os.path.dirname(os.path.abspath(__file__)))
DRIVER = os.environ.get("VERIF_DRIVER") or os.path.join(ROOT, "lean", ".lake", "build", "bin", "ubidi-driver")
HARNESS = os.path.join(ROOT, "harness", "target", "release", "ubidi-harness")
N = int(sys.argv[1]) if len(sys.argv) > 1 else 60
STREAMS = ["C01", "C02", "C03", "C04", "C05", "C06", "C07", "C08", "C09", "C10", "C11", "C12", "C13", "C16", "C17", "C18", "C19", "STAGE"]
CLASSES = ["AL","AN","B","BN","CS","EN","ES","ET","FSI","L","LRE","LRI","LRO","NSM","ON","PDF","PDI","R","RLE","RLI","RLO","S","WS"]
random.seed(1)

def corruptions(val):
    """a few corrupted versions of one field value"""
    out = []
    toks = re.split(r"([,;:|/.\-=])", val)
    idx_num = [i for i, t in enumerate(toks) if re.fullmatch(r"\d+", t)]
    idx_hex = [i for i, t in enumerate(toks) if re.fullmatch(r"[0-9A-F]{2,6}", t) and not re.fullmatch(r"\d+", t)]
    idx_cls = [i for i, t in enumerate(toks) if t in CLASSES]
    idx_word = [i for i, t in enumerate(toks) if re.fullmatch(r"[A-Za-z]+", t) and t not in CLASSES]
    for pool, f in ((idx_num, lambda t: str(int(t) + 1)), (idx_hex, lambda t: "%X" % (int(t, 16) ^ 1)),
                    (idx_cls, lambda t: "R" if t != "R" else "L")):
        for i in ([pool[0], pool[-1], random.choice(pool)] if pool else []):
            t2 = list(toks)
            t2[i] = f(toks[i])
            out.append("".join(t2))
    for i in idx_word[:2]:
        t2 = list(toks)
        t2[i] = {"same": "diff", "Ltr": "Rtl", "Rtl": "Ltr", "Mixed": "Ltr", "PANIC": "0"}.get(toks[i], toks[i] + "x")
        out.append("".join(t2))
    if "," in val:     # drop the last item of a list
        out.append(val.rsplit(",", 1)[0])
    if val in ("0", "1"):
        out.append("1" if val == "0" else "0")
    return [o for o in dict.fromkeys(out) if o != val]

def main():
    blind, tried = {}, {}
    for st in STREAMS:
        lines = subprocess.run([HARNESS, "gen", st, "quick", "5", str(N), "300"], stdout=subprocess.PIPE, text=True).stdout.splitlines()
        batch, meta = [], []
        for l in lines:
            if " => " not in l:
                continue
            q, ans = l.split(" => ", 1)
            op = q.split(" ")[2]
            fields = ans.split(" ")
            for k, fld in enumerate(fields):
                if "=" not in fld:
                    continue
                key, val = fld.split("=", 1)
                # composite answers (A=…|…;… of the meta operations): corrupt sub-fields separately
                subs = re.split(r"([|;])", val) if op.startswith("meta") else [val]
                for j, sub in enumerate(subs):
                    if sub in ("|", ";") or not sub:
                        continue
                    skey, sval = (sub.split("=", 1) + [""])[:2] if "=" in sub and op.startswith("meta") else ("", sub)
                    for c in corruptions(sval)[:3]:
                        s2 = list(subs)
                        s2[j] = (skey + "=" + c) if skey else c
                        f2 = list(fields)
                        f2[k] = key + "=" + "".join(s2)
                        batch.append(q + " => " + " ".join(f2))
                        meta.append((op, key + ("." + skey if skey else "")))
        if not batch:
            continue
        out = subprocess.run([DRIVER], input="\n".join(batch) + "\n", stdout=subprocess.PIPE, text=True).stdout.splitlines()
        assert len(out) == len(batch), (st, len(out), len(batch))
        for (op, key), verdict in zip(meta, out):
            tried[(op, key)] = tried.get((op, key), 0) + 1
            if " FAIL " not in verdict.split(" | ")[0] + " ":
                blind[(op, key)] = blind.get((op, key), 0) + 1
    # fields that are CONTEXT, not results under judgement in that operation: the crate's own classes / levels /
    # paragraph data that a relative check takes as input (they are judged by the `bidi` operation), and for the
    # single-paragraph API the paragraph range, which the harness itself constructs
    context = {("basedir", "C"), ("basedir", "P"), ("line", "C"), ("line", "L"), ("line", "PL"), ("line", "HR"),
               ("stage", "C"), ("stage", "HASISO"), ("stage", "PL"), ("bidi", "P"), ("bidi", "II")}
    res = []
    for (op, key), n in sorted(tried.items()):
        b = blind.get((op, key), 0)
        res.append({"op": op, "field": key, "corruptions": n, "unnoticed": b})
        if b:
            print("%-8s %-14s corruptions=%-6d UNNOTICED=%d%s" % (op, key, n, b, "   (context field)" if (op, key) in context else "   <-- RESULT FIELD NOT CHECKED"))
    json.dump(res, open(os.path.join(ROOT, "coverage", "oracle_selftest.json"), "w"), indent=1)
    bad = [r for r in res if r["unnoticed"] and (r["op"], r["field"]) not in context]
    print("oracle_selftest: %d (operation, field) pairs, %d corruptions; result fields with unnoticed corruptions: %d"
          % (len(res), sum(r["corruptions"] for r in res), len(bad)))
    sys.exit(1 if bad else 0)

main()
