#!/usr/bin/env python3
"""spec_vs_icu.py [cases-per-stream] [seed]     (diagnostic, not a registered check, decides nothing)

An opinion on the Lean Spec (UBidi/Spec) that does not come from the crate: ICU 72's ubidi (a system library that
happens to be installed; Unicode 15.0, same algorithm).  Texts are taken from the harness generators (UTF-8 cases of
the C01 / C08 / C13-free streams, built-in data, one paragraph), the Spec's answer is printed by the driver's `spec`
operation (paragraph level, UAX #9 levels, levels after L1 for the paragraph as one line), ICU's by tools/icu/icu_levels.c
(ubidi_getLevels = levels after L1).  Compared: the paragraph level and the level of every character X9 does not remove.

ICU deviates from UAX #9 in a few known shapes (DESIGN §4: duplicate stack entry for U+2329/U+3008 openers, no N0 "NSM
after a closing bracket", override not applied to an unmatched PDI, single-direction shortcut); disagreements are
classified by those shapes, everything else is listed as `other` with the text.

Output: coverage/spec_vs_icu.json and a summary on stdout.
"""
import os, re, subprocess, sys, json, unicodedata

ROOT = os.path.dirname(os.path.dirname(os.path.abspath(__file__)))
DRIVER = os.environ.get("VERIF_DRIVER") or os.path.join(ROOT, "lean", ".lake", "build", "bin", "ubidi-driver")
HARNESS = os.path.join(ROOT, "harness", "target", "release", "ubidi-harness")
N = int(sys.argv[1]) if len(sys.argv) > 1 else 20000
SEED = int(sys.argv[2]) if len(sys.argv) > 2 else 1
B_CLASS = {0xA, 0xD, 0x1C, 0x1D, 0x1E, 0x85, 0x2029}
REMOVED = {"LRE", "RLE", "LRO", "RLO", "PDF", "BN"}
ANGLE = {0x2329, 0x232A, 0x3008, 0x3009}

def bc(c):
    return unicodedata.bidirectional(chr(c)) or "L"

def main():
    icu = "/tmp/icu_levels_%d" % os.getpid()
    subprocess.check_call(["gcc", "-O2", "-o", icu, os.path.join(ROOT, "tools", "icu", "icu_levels.c"), "-licuuc"])
    texts, seen = [], set()
    for stream in ("C01", "C08", "C11"):
        out = subprocess.run([HARNESS, "gen", stream, "quick", str(SEED), str(N), "0"], stdout=subprocess.PIPE, text=True).stdout
        for l in out.splitlines():
            q = l.split(" => ")[0]
            m = re.search(r" bidi enc=8 api=\w dir=(\w) T=([0-9A-F,]*) DS=-", q)
            if not m:
                continue
            cps = [int(x, 16) for x in m.group(2).split(",") if x]
            if not cps or len(cps) > 200 or any(c in B_CLASS for c in cps):
                continue
            key = (m.group(1), tuple(cps))
            if key in seen:
                continue
            seen.add(key)
            texts.append((m.group(1), cps, q.split(" ")[1]))
    spec_in = "".join("#%d m spec T=%s dir=%s => -\n" % (i, ",".join("%X" % c for c in cps), d) for i, (d, cps, _) in enumerate(texts))
    spec_out = subprocess.run([DRIVER], input=spec_in, stdout=subprocess.PIPE, text=True).stdout.splitlines()
    icu_in = "".join("%s %s\n" % (d, " ".join("%X" % c for c in cps)) for d, cps, _ in texts)
    icu_out = subprocess.run([icu], input=icu_in, stdout=subprocess.PIPE, text=True).stdout.splitlines()
    os.remove(icu)
    assert len(spec_out) == len(texts) == len(icu_out), (len(spec_out), len(texts), len(icu_out))
    stats = {"compared": 0, "agree": 0, "paragraph_level_differs": 0}
    cats, others = {}, []
    for (d, cps, mode), so, io in zip(texts, spec_out, icu_out):
        ms = re.search(r"pl=(\d+) lv=([\d,]*) l1=([\d,]*)", so)
        mi = re.search(r"pl=(\d+) lv=([\d,]*)", io)
        if not ms or not mi:
            cats["unparsed"] = cats.get("unparsed", 0) + 1
            continue
        stats["compared"] += 1
        sl = [int(x) for x in ms.group(3).split(",") if x]
        il = [int(x) for x in mi.group(2).split(",") if x]
        cl = [bc(c) for c in cps]
        keep = [k for k, c in enumerate(cl) if c not in REMOVED]
        same = ms.group(1) == mi.group(1) and all(sl[k] == il[k] for k in keep)
        if same:
            stats["agree"] += 1
            continue
        if ms.group(1) != mi.group(1):
            stats["paragraph_level_differs"] += 1
        # classify by the known ICU deviations
        kept = [cl[k] for k in keep]
        cat = "other"
        n_open = sum(1 for c in cps if unicodedata.category(chr(c)) == "Ps")
        if any(unicodedata.category(chr(c)) == "Cn" for c in cps):
            # DerivedBidiClass gives unassigned default-ignorable code points and noncharacters BN (ICU follows);
            # the crate documents L for every code point without an entry outside the listed blocks (property C14)
            cat = "unassigned code point (UCD default BN for default-ignorables / noncharacters, crate documents L)"
        elif n_open > 63:
            cat = "icu: no 63-entry limit of the bracket stack (BD16)"
        elif any(c in ANGLE for c in cps):
            cat = "icu: U+2329/U+3008 bracket stack"
        elif all(il[k] == int(mi.group(1)) for k in keep):
            cat = "icu: single-direction shortcut"
        elif any(a == "NSM" and b_ for a, b_ in zip(kept[1:], [unicodedata.category(chr(cps[k])) == "Pe" or cps[k] in (0x29, 0x5D, 0x7D) for k in keep][:-1])):
            cat = "icu: NSM after a closing bracket (N0)"
        elif ("LRO" in cl or "RLO" in cl) and "PDI" in cl:
            cat = "icu: override and unmatched PDI"
        cats[cat] = cats.get(cat, 0) + 1
        if cat == "other" and len(others) < 40:
            others.append({"dir": d, "text": ["%04X" % c for c in cps], "classes": cl, "spec_l1": sl, "icu": il, "mode": mode})
    res = {"seed": SEED, "per_stream": N, **stats, "disagreements_by_category": cats, "other_examples": others}
    os.makedirs(os.path.join(ROOT, "coverage"), exist_ok=True)
    json.dump(res, open(os.path.join(ROOT, "coverage", "spec_vs_icu.json"), "w"), indent=1)
    print("spec_vs_icu: compared %d one-paragraph texts; agree %d; by category %s" % (stats["compared"], stats["agree"], json.dumps(cats)))

main()
