#!/usr/bin/env python3
"""automut.py [--workers N] [--limit M] [--only FILE[,FILE]] [--ops op,op] [--scale F] [--out PATH]

Diagnostic (not a registered check): a systematic mutation sweep over /repo/src, to measure what the
correspondence + oracle part of the checks can see and to find gaps in the generators.

For every syntactic mutation site (relational / boolean / arithmetic operator swaps, off-by-one constants,
dropped match alternatives, deleted statements, break<->continue, true<->false) it builds the harness against a
scratch copy of the crate with that one mutation, runs the corpus and the generator streams of all properties
(quick-tier budgets times --scale, seed 1) through the Lean driver, and records whether any verdict FAILs
(`killed`), the harness crashes / hangs (`killed-crash`), or nothing notices (`survived`).  Survivors are then run
against the crate's own test suite.  A survivor is either an equivalent mutant (no observable change) or a gap.

Everything happens under /tmp/automut (removed at the end); /repo and /verif are only read.
Result: coverage/automut.json + a summary on stdout.
"""
import os, re, sys, json, subprocess, shutil, time, threading, queue, hashlib

ROOT = os.path.dirname(os.path.dirname(os.path.abspath(__file__)))
REPO = "/repo"
SCR = "/tmp/automut"
DRIVER = os.path.join(ROOT, "lean", ".lake", "build", "bin", "ubidi-driver")
FILES = ["src/lib.rs", "src/explicit.rs", "src/prepare.rs", "src/implicit.rs", "src/utf16.rs", "src/level.rs",
         "src/deprecated.rs", "src/char_data/mod.rs", "src/data_source.rs"]

def arg(name, default=None):
    if name in sys.argv:
        return sys.argv[sys.argv.index(name) + 1]
    return default

WORKERS = int(arg("--workers", "6"))
LIMIT = int(arg("--limit", "0"))
ONLY = arg("--only")
OPS = arg("--ops")
SCALE = float(arg("--scale", "0.5"))
OUT = arg("--out", os.path.join(ROOT, "coverage", "automut.json"))
STRIDE = int(arg("--stride", "1"))   # take every k-th site (sampling)

def streams():
    src = open(os.path.join(ROOT, "tools", "run_check.py")).read()
    ns = {"__file__": os.path.join(ROOT, "tools", "run_check.py")}
    exec(src.split("def sh(")[0], ns)
    order = ["C01", "C03", "C05", "C06", "C02", "C18", "C19", "C04", "C16", "C17", "C10", "C09", "C12", "C13",
             "C08", "C11", "C07", "C14", "C15"]
    seen, out = set(), []
    for p in order:
        for s, share in ns["PROPS"][p]["streams"]:
            if s in seen:
                continue
            seen.add(s)
            cnt = max(1, int(ns["PROPS"][p]["quick"] * share * (1.0 if ns["PROPS"][p].get("exhaustive") else SCALE)))
            out.append((s, cnt))
    return out

def code_lines(path):
    """(lineno, text) of lines that are code: not in the test module, not comments, not debug asserts."""
    out = []
    lines = open(os.path.join(REPO, path), encoding="utf-8").read().split("\n")
    in_tests = False
    skip_depth = None
    for i, l in enumerate(lines):
        s = l.strip()
        if s.startswith("#[cfg(test)]") or s.startswith("#[cfg(all(test"):
            in_tests = True
        if in_tests:
            continue
        if s.startswith("//") or s.startswith("#[") or s.startswith("#!["):
            continue
        if "debug_assert" in l or "flame" in l or "verif_hooks" in l:
            continue
        out.append((i, l))
    return lines, out

def strip_trailing_comment(l):
    k = l.find("//")
    return l if k < 0 else l[:k]

def sites_for(path):
    lines, cl = code_lines(path)
    sites = []
    def add(i, start, end, new, op):
        sites.append(dict(file=path, line=i + 1, col=start, old=lines[i][start:end], new=new, op=op, text=lines[i].strip()[:140]))
    rel = [(" <= ", " < "), (" < ", " <= "), (" >= ", " > "), (" > ", " >= "), (" == ", " != "), (" != ", " == "),
           (" && ", " || "), (" || ", " && ")]
    ar = [(" + 1", " + 2"), (" + 1", ""), (" - 1", ""), (" + ", " - "), (" - ", " + "), (" | 1", " | 0"), (" & !1", ""),
          (" + 2", " + 1"), (" % 2 == 1", " % 2 == 0"), (">= 63", ">= 62"), (">= 63", "> 63")]
    kw = [("break;", "continue;"), ("continue;", "break;"), ("true", "false"), ("false", "true"),
          (".is_rtl()", ".is_ltr()"), (".is_ltr()", ".is_rtl()"), ("Some(", "None.or(Some("), (".rev()", ""),
          ("start", "end"), (".last()", ".first()"), ("max(", "min("), ("min(", "max("),
          (".is_none()", ".is_some()"), (".is_some()", ".is_none()"), ("LTR_LEVEL", "RTL_LEVEL"), ("RTL_LEVEL", "LTR_LEVEL"),
          ("== L", "== R"), ("!= L", "!= R"), ("== e", "== not_e"), ("{ LRI } else { RLI }", "{ RLI } else { LRI }"),
          ("= ON;", "= L;"), ("sos", "eos"), ("found_e", "found_not_e"), ("start_run", "end_run"),
          ("start_char_len", "end_char_len"), ("prev_class_before_w4", "prev_class_before_w5"),
          ("overflow_isolate_count", "overflow_embedding_count"), ("original_classes[", "processing_classes[")]
    lit = [("0", "1"), ("1", "0"), ("1", "2"), ("2", "1"), ("2", "3"), ("63", "64"), ("63", "62")]
    for i, l in cl:
        code = strip_trailing_comment(l)
        if "fn " in code and ("<" in code):   # generic signatures
            sig = True
        else:
            sig = False
        for old, new in rel + ar:
            if sig and old.strip() in ("<", ">", "<=", ">="):
                continue
            for m in re.finditer(re.escape(old), code):
                if old in (" + ", " - ") and code[m.end():m.end() + 1] in "12" and code[m.end() + 1:m.end() + 2] in " ;),":
                    pass
                add(i, m.start(), m.end(), new, "op:%s->%s" % (old.strip(), new.strip() or "ø"))
        for old, new in kw:
            for m in re.finditer(r"(?<![A-Za-z_])" + re.escape(old) + (r"(?![A-Za-z_])" if old[-1].isalpha() else ""), code):
                if old in ("start", "end") and not re.search(r"\.\s*$", code[:m.start()]):
                    continue   # only field accesses `.start` / `.end`
                if old == "start" and code[m.end():m.end() + 1] == "_":
                    continue
                add(i, m.start(), m.end(), new, "kw:%s->%s" % (old, new or "ø"))
        # integer literals (not inside type expressions such as `[u8; 4]`, not range/tuple-field syntax)
        if "SmallVec::<" not in code and "; " + "8]" not in code:
            for old, new in lit:
                for m in re.finditer(r"(?<![\w.\[;])%s(?![\w.\]])" % re.escape(old), code):
                    if re.search(r"\.\s*$", code[:m.start()]):
                        continue
                    add(i, m.start(), m.end(), new, "lit:%s->%s" % (old, new))
        # dropped alternative in `A | B | C` class lists (match arms and matches!)
        for m in re.finditer(r"(?<![A-Za-z_:])((?:BidiClass::)?[A-Z]{1,3})\s*\|\s*(?=(?:BidiClass::)?[A-Z]{1,3}\b)", code):
            add(i, m.start(), m.end(), "", "alt-drop:%s" % m.group(1))
        for m in re.finditer(r"\s*\|\s*((?:BidiClass::)?[A-Z]{1,3})(?=\s*(=>|\)|$))", code):
            add(i, m.start(), m.end(1), "", "alt-drop-last:%s" % m.group(1))
        # statement deletion: simple statements on one line
        s = code.strip()
        if s.endswith(";") and not s.startswith(("let ", "use ", "return", "pub ", "const ", "type ", "static ", "}", "fn ")) \
           and s.count("(") == s.count(")") and s.count("{") == s.count("}") and "=>" not in s:
            ind = len(l) - len(l.lstrip())
            add(i, ind, len(code.rstrip()), "{}", "stmt-del")
    return sites

def all_sites():
    files = FILES if not ONLY else [f for f in FILES if any(f.endswith(o) for o in ONLY.split(","))]
    out = []
    for f in files:
        out += sites_for(f)
    if OPS:
        out = [s for s in out if any(s["op"].startswith(o) for o in OPS.split(","))]
    # de-duplicate identical (file,line,col,new)
    seen, uniq = set(), []
    for s in out:
        k = (s["file"], s["line"], s["col"], s["old"], s["new"])
        if k not in seen:
            seen.add(k)
            uniq.append(s)
    uniq = uniq[::STRIDE]
    if LIMIT:
        uniq = uniq[:LIMIT]
    return uniq

def run(cmd, cwd=None, timeout=None, env=None):
    e = dict(os.environ)
    e["CARGO_NET_OFFLINE"] = "true"
    if env:
        e.update(env)
    try:
        p = subprocess.run(cmd, cwd=cwd, env=e, stdout=subprocess.PIPE, stderr=subprocess.STDOUT, text=True, timeout=timeout,
                           shell=isinstance(cmd, str))
        return p.returncode, p.stdout
    except subprocess.TimeoutExpired as ex:
        return 124, (ex.stdout or b"").decode(errors="replace") if isinstance(ex.stdout, bytes) else (ex.stdout or "")

def setup_worker(k):
    w = os.path.join(SCR, "w%d" % k)
    os.makedirs(w, exist_ok=True)
    run("rsync -a --delete --exclude target --exclude .git %s/ %s/crate/" % (REPO, w))
    run("rsync -a --delete --exclude 'target*' %s/harness/ %s/harness/" % (ROOT, w))
    ct = os.path.join(w, "harness", "Cargo.toml")
    s = open(ct).read().replace('path = "/repo"', 'path = "%s/crate"' % w)
    open(ct, "w").write(s)
    rc, out = run(["cargo", "build", "--release", "--offline"], cwd=os.path.join(w, "harness"), timeout=600)
    if rc != 0:
        raise RuntimeError("worker %d: baseline harness build failed\n%s" % (k, out[-2000:]))
    return w

def evaluate(w, site, strs):
    path = os.path.join(w, "crate", site["file"])
    orig = open(os.path.join(REPO, site["file"]), encoding="utf-8").read()
    lines = orig.split("\n")
    l = lines[site["line"] - 1]
    c = site["col"]
    assert l[c:c + len(site["old"])] == site["old"], (site, l)
    lines[site["line"] - 1] = l[:c] + site["new"] + l[c + len(site["old"]):]
    open(path, "w", encoding="utf-8").write("\n".join(lines))
    res = dict(site)
    try:
        rc, out = run(["cargo", "build", "--release", "--offline"], cwd=os.path.join(w, "harness"), timeout=300)
        if rc != 0:
            res["status"] = "no-compile"
            return res
        hb = os.path.join(w, "harness", "target", "release", "ubidi-harness")
        # corpus, then the streams
        jobs = [("corpus:" + os.path.basename(f), "%s rerun < %s" % (hb, os.path.join(ROOT, "corpus", f)))
                for f in sorted(os.listdir(os.path.join(ROOT, "corpus")))]
        jobs += [(s, "%s gen %s quick 1 %d 0" % (hb, s, cnt)) for s, cnt in strs]
        for name, cmd in jobs:
            # exit status of the whole line = exit status of the harness side (timeout -> 124, crash -> != 0)
            rc, out = run(["bash", "-c", "timeout 90 %s | %s | grep -m3 -E ' FAIL '; exit ${PIPESTATUS[0]}" % (cmd, DRIVER)], timeout=150)
            fails = [x for x in out.splitlines() if " FAIL " in x]
            if fails:
                res["status"] = "killed"
                res["by"] = name
                res["tokens"] = sorted(set(t for f in fails for t in f.split(" | ")[0].split(" FAIL ")[1].split()))
                return res
            if rc not in (0, 141):
                res["status"] = "killed-crash"
                res["by"] = name
                res["rc"] = rc
                return res
        res["status"] = "survived"
        # the crate's own suite
        rc, out = run(["cargo", "test", "--offline", "--lib", "--test", "conformance_tests"], cwd=os.path.join(w, "crate"), timeout=600)
        res["suite"] = "pass" if rc == 0 else "fail"
        return res
    finally:
        open(path, "w", encoding="utf-8").write(orig)

def main():
    sites = all_sites()
    strs = streams()
    print("automut: %d mutation sites, %d streams (%d cases per mutant), %d workers"
          % (len(sites), len(strs), sum(c for _, c in strs), WORKERS), flush=True)
    if "--list" in sys.argv:
        for s in sites:
            print("%s:%d:%d %s   | %s" % (s["file"], s["line"], s["col"], s["op"], s["text"]))
        return
    shutil.rmtree(SCR, ignore_errors=True)
    os.makedirs(SCR)
    q = queue.Queue()
    for s in sites:
        q.put(s)
    results = []
    lock = threading.Lock()
    t0 = time.time()

    def work(k):
        w = setup_worker(k)
        while True:
            try:
                s = q.get_nowait()
            except queue.Empty:
                return
            try:
                r = evaluate(w, s, strs)
            except Exception as ex:
                r = dict(s)
                r["status"] = "error"
                r["error"] = repr(ex)[:300]
            with lock:
                results.append(r)
                n = len(results)
                if r["status"] == "survived" or n % 25 == 0:
                    print("[%4d/%d %5.0fs] %-12s %s:%d %s%s" % (n, len(sites), time.time() - t0, r["status"], r["file"], r["line"], r["op"],
                          (" suite=" + r.get("suite", "")) if r["status"] == "survived" else ""), flush=True)
                if n % 20 == 0:
                    dump(results, sites, partial=True)

    ths = [threading.Thread(target=work, args=(k,)) for k in range(WORKERS)]
    for t in ths:
        t.start()
    for t in ths:
        t.join()
    dump(results, sites, partial=False)
    shutil.rmtree(SCR, ignore_errors=True)

def dump(results, sites, partial):
    st = {}
    for r in results:
        st[r["status"]] = st.get(r["status"], 0) + 1
    surv = [r for r in results if r["status"] == "survived"]
    os.makedirs(os.path.dirname(OUT), exist_ok=True)
    json.dump({"partial": partial, "sites": len(sites), "evaluated": len(results), "status": st,
               "survivors_suite_pass": [r for r in surv if r.get("suite") == "pass"],
               "survivors_suite_fail": [r for r in surv if r.get("suite") != "pass"],
               "killed_by": {k: sum(1 for r in results if r.get("by") == k) for k in sorted(set(r.get("by") for r in results if r.get("by")))},
               "repo_head": subprocess.run(["git", "-C", REPO, "rev-parse", "HEAD"], stdout=subprocess.PIPE, text=True).stdout.strip(),
               }, open(OUT, "w"), indent=1)
    if not partial:
        print("automut: %s" % json.dumps(st))
        print("automut: survivors that also pass the crate's suite: %d (see %s)" % (sum(1 for r in surv if r.get("suite") == "pass"), OUT))

if __name__ == "__main__":
    main()
