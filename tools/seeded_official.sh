#!/bin/bash
# seeded_official.sh <id> [<id> ...]    e.g. C03-1
# The procedure of the brief: apply the seeded change to /repo itself, run the property's registered quick
# check (full: Lean obligations + correspondence + oracle), undo the change straight afterwards.
cd /verif
for id in "$@"; do
  d=seeded/$id; p=${id%-*}
  if ! git -C /repo diff --quiet; then echo "/repo is dirty, refusing"; exit 2; fi
  git -C /repo apply $PWD/$d/patch.diff || { echo "[$id] patch does not apply"; continue; }
  out=$(./check $p --tier quick 2>&1); rc=$?
  git -C /repo checkout -- .
  line=$(echo "$out" | grep -E "^check" | cut -c1-200)
  viol=$(echo "$out" | grep -c "^VIOLATION property=$p")
  nofail=$(echo "$out" | grep "^VIOLATION property=$p" | grep -c "no-failing-input-found")
  first=$(echo "$out" | grep "^VIOLATION property=$p" | head -1)
  echo "[$id] rc=$rc violations=$viol (without input: $nofail) :: $line"
  python3 - "$d" "$rc" "$viol" "$nofail" "$first" <<'PY'
import json,sys
d,rc,viol,nofail,first=sys.argv[1:6]
m=json.load(open(d+"/meta.json"))
m["official_run"]={"procedure":"git -C /repo apply patch.diff; ./check %s --tier quick; git -C /repo checkout -- ." % m["property"],
  "exit_code":int(rc),"violation_lines":int(viol),"of_which_no_failing_input_found":int(nofail),"first_violation_line":first}
json.dump(m,open(d+"/meta.json","w"),indent=1)
PY
done
# restore evidence/replays of the unchanged tree for the touched properties
