#!/usr/bin/env python3
"""run_check.py <property> [--tier quick|thorough] [--replay FILE]

Decides one property (see DESIGN.md §2.4):
  1. regenerate the table model from /repo, rebuild the property's Lean
     theorems and the driver, audit axioms and forbidden tokens
     (proof obligations);
  2. rebuild the harness against /repo's working tree, run the corpus and the
     generated cases through the real crate and the Lean driver
     (correspondence Impl<->Model, oracle Impl<->Spec);
  3. report: exit 0, or `VIOLATION property=<id> replay=<path>` and exit 1;
  4. write evidence/<id>.json.
"""
import json, os, re, subprocess, sys, time, hashlib, shutil

ROOT = os.path.dirname(os.path.dirname(os.path.abspath(__file__)))
LEAN = os.path.join(ROOT, "lean")
HARN = os.path.join(ROOT, "harness")
# Scratch mode (used only for experiments with seeded changes in a scratch copy of the crate, never by a
# registered command): VERIF_SCRATCH=<dir> puts work/, evidence/, replays/ under <dir> and uses <dir>/harness
# (a copy of harness/ whose path dependency points at the scratch crate); VERIF_SKIP_LEAN=1 skips step 1.
SCRATCH = os.environ.get("VERIF_SCRATCH")
OUTROOT = SCRATCH if SCRATCH else ROOT
if SCRATCH and os.path.isdir(os.path.join(SCRATCH, "harness")):
    HARN = os.path.join(SCRATCH, "harness")
WORK = os.path.join(OUTROOT, "work")
DRIVER = os.path.join(LEAN, ".lake", "build", "bin", "ubidi-driver")
ALLOWED_AXIOMS = {"propext", "Classical.choice", "Quot.sound"}
FORBIDDEN = ["sorry", "admit", "native_decide", "bv_decide", "implemented_by", "unsafe ", "maxHeartbeats 0"]

# property -> generator streams [(harness property tag, share of the case budget)]
# and the verdict tokens that decide it.
PROPS = {
    "C01": dict(streams=[("C01", 0.75), ("STAGE", 0.25)],
                model=["M:levels", "M:panic", "M:st-explicit", "M:st-seq", "M:st-weak", "M:st-neutral", "M:st-levels", "M:nohooks"],
                quick=14000, thorough=1500000),
    "C02": dict(streams=[("C02", 1.0)], model=["M:classes", "M:paras"], quick=20000, thorough=3000000),
    "C03": dict(streams=[("C03", 1.0)], model=["M:rl", "M:rpc"], quick=20000, thorough=3000000),
    "C04": dict(streams=[("C04", 1.0)], model=["M:rv", "M:panic"], quick=30000, thorough=5000000),
    "C05": dict(streams=[("C05", 1.0)], model=["M:runs", "M:druns"], quick=12000, thorough=600000),
    "C06": dict(streams=[("C06", 1.0)], model=["M:ro"], quick=20000, thorough=3000000),
    "C07": dict(streams=[("C07", 0.9), ("STAGE", 0.1)], model=["M:panic", "M:nohooks"], quick=4000, thorough=300000),
    "C08": dict(streams=[("C08", 0.85), ("C12", 0.15)], model=["M:classes", "M:levels", "M:rl", "M:rpc"], quick=16000, thorough=2500000),
    "C09": dict(streams=[("C09", 0.7), ("C01", 0.3)], model=["M:classes", "M:levels", "M:paras"], quick=14000, thorough=3000000),
    "C10": dict(streams=[("C10", 0.7), ("C02", 0.3)], model=["M:classes", "M:levels", "M:paras"], quick=10000, thorough=2000000),
    "C11": dict(streams=[("C11", 0.8), ("STAGE", 0.2)],
                model=["M:levels", "M:panic", "M:runs", "M:ro", "M:st-explicit", "M:st-neutral", "M:st-levels", "M:nohooks"], quick=3000, thorough=150000,
                spec_extra=["S:C01", "S:C02", "S:C05", "S:C06", "S:C07", "S:C08"]),
    "C12": dict(streams=[("C12", 1.0)], model=["M:classes", "M:levels", "M:paras", "M:basedir", "M:rl", "M:runs", "M:ro"], quick=16000, thorough=3000000,
                spec_extra=["S:C01", "S:C02", "S:C03", "S:C05", "S:C06", "S:C16"]),
    "C13": dict(streams=[("C13", 0.7), ("C01", 0.2), ("STAGE", 0.1)], model=["M:levels", "M:st-explicit", "M:st-seq", "M:nohooks"], quick=12000, thorough=2000000),
    "C14": dict(streams=[("C14", 1.0)], model=["M:cls", "M:ver"], quick=2, thorough=2, exhaustive=True),
    "C15": dict(streams=[("C15", 1.0)], model=["M:brk", "M:cls"], quick=2, thorough=2, exhaustive=True),
    "C16": dict(streams=[("C16", 1.0)], model=["M:basedir"], quick=30000, thorough=5000000),
    "C17": dict(streams=[("C17", 1.0)], model=["M:hasrtl", "M:dir", "M:pure"], quick=20000, thorough=3000000),
    "C18": dict(streams=[("C18", 1.0)], model=["M:charat", "M:iter", "M:deiter"], quick=30000, thorough=5000000),
    "C19": dict(streams=[("C19", 1.0)], model=["M:level", "M:ver"], quick=127 + 256 + 3000, thorough=127 + 256 + 1000000, exhaustive=True),
    # every feature build is tied to the SAME Model (bidi + line operations through the driver), and the builds'
    # digests over identical generated texts are compared with each other
    # ... plus, per feature build, the exhaustive sweeps of the class table, the bracket table and Level (a feature
    # may change a lookup path, e.g. a cache that exists only with std)
    # ... and a share of EVERY other operation kind (base direction, reorder_visual, text access and iterators,
    # summary queries, the metamorphic operations), so that "operations x builds" has no empty cell
    "C20": dict(streams=[("C20", 0.4), ("C01", 0.3), ("C06", 0.3), ("C14", 2), ("C15", 2), ("C19", 127 + 256 + 1 + 900 + 60),
                         ("C16", 0.1), ("C04", 0.1), ("C18", 0.1), ("C17", 0.06), ("C12", 0.08), ("C09", 0.06), ("C10", 0.04), ("C13", 0.04), ("C02", 0.06)],
                model=["M:levels", "M:classes", "M:paras", "M:rl", "M:rpc", "M:runs", "M:druns", "M:ro", "M:panic", "M:cls", "M:brk", "M:level", "M:ver",
                       "M:basedir", "M:rv", "M:charat", "M:iter", "M:deiter", "M:hasrtl", "M:dir", "M:pure"],
                quick=3000, thorough=150000,
                spec_extra=["S:C01", "S:C02", "S:C03", "S:C04", "S:C05", "S:C06", "S:C07", "S:C08", "S:C09", "S:C10", "S:C12", "S:C13", "S:C14", "S:C15", "S:C16", "S:C17", "S:C18", "S:C19"]),
}

def _exh(alpha, maxlen):
    t, p = 0, 1
    for _ in range(maxlen + 1):
        t += p * 3
        p *= alpha
    return t

# thorough tier only: exhaustive small-scope streams (support, never presented as proof):
# every class sequence up to the given length x {auto, LTR, RTL}, representatives rotating
EXH = {
    "XFULL": _exh(23, 3),   # all 23 classes, length <= 3
    "XRED": _exh(12, 5),    # L R AL EN ES ET AN CS NSM BN ON WS, length <= 5
    "XCTRL": _exh(10, 5),   # L R EN ON LRE RLE PDF LRI RLI PDI, length <= 5
    "XLINE": _exh(23, 3),   # as XFULL, with a line on character boundaries
}
EXH_FOR = {
    "C01": ["XFULL", "XRED", "XCTRL"], "C02": ["XFULL", "XCTRL"], "C08": ["XFULL", "XRED", "XLINE"], "C11": ["XCTRL"],
    "C07": ["XFULL", "XLINE"], "C17": ["XFULL", "XLINE"], "C03": ["XLINE"], "C05": ["XLINE"], "C06": ["XLINE"],
    "C13": ["XCTRL"], "C09": ["XRED"], "C10": ["XCTRL"], "C12": ["XRED"],
}

# Every build except "hooks" is made WITHOUT --cfg unicode_bidi_verif (RUSTFLAGS="" overrides harness/.cargo/config.toml),
# i.e. the crate exactly as its users compile it; the hooks build exists only to answer the STAGE stream.
FEATURE_SETS = [
    ("default", []),
    ("smallvec", ["--features", "smallvec"]),
    ("serde", ["--features", "serde"]),
    ("smallvec+serde", ["--features", "smallvec,serde"]),
    ("no-default+hardcoded-data", ["--no-default-features", "--features", "hardcoded"]),
    # the crate as users ship it: profile `relna` of harness/Cargo.toml (debug assertions and overflow checks OFF) and
    # without --cfg unicode_bidi_verif; a side effect hidden in a debug_assert!, a wrap-around that only the overflow
    # checks stop, or code under cfg(not(unicode_bidi_verif)) shows here and nowhere else
    ("release-noassert", ["--profile", "relna", "--target-dir", "target-relna"]),
    # the two axes crossed (C20 only): no std with smallvec, and the release-like build with both optional features
    ("no-default+smallvec", ["--no-default-features", "--features", "smallvec,hardcoded"]),
    ("release-noassert+smallvec+serde", ["--profile", "relna", "--target-dir", "target-relna", "--features", "smallvec,serde"]),
    # the crate WITHOUT its feature `hardcoded-data` (how a user who brings his own Unicode data builds it): the harness
    # compiles against stand-ins (harness/src/hd.rs) and runs only the cases that name a data source of their own or
    # need no character data; code the crate keeps under cfg(not(feature = "hardcoded-data")) is in this binary only
    ("no-hardcoded-data", ["--no-default-features", "--features", "std"]),
]
NODATA = FEATURE_SETS[8]
# streams with cases that name their own data source (DS=…): the properties that run one get the no-hardcoded-data build too
DS_STREAMS = {"C12", "C01", "C07", "C13", "C02"}


def sh(cmd, cwd=None, env=None, timeout=None):
    e = dict(os.environ)
    e["CARGO_NET_OFFLINE"] = "true"
    if env:
        e.update(env)
    p = subprocess.run(cmd, cwd=cwd, env=e, stdout=subprocess.PIPE, stderr=subprocess.STDOUT, text=True, timeout=timeout)
    return p.returncode, p.stdout


def strip_lean_comments(src):
    out, i, depth = [], 0, 0
    while i < len(src):
        if src.startswith("/-", i):
            depth += 1
            i += 2
        elif depth and src.startswith("-/", i):
            depth -= 1
            i += 2
        elif depth:
            i += 1
        elif src.startswith("--", i):
            j = src.find("\n", i)
            i = len(src) if j < 0 else j
        else:
            out.append(src[i])
            i += 1
    return "".join(out)


def theorem_names(path):
    if not os.path.exists(path):
        return []
    src = strip_lean_comments(open(path, encoding="utf-8").read())
    return re.findall(r"^\s*theorem\s+([^\s:({\[]+)", src, re.M)


def lean_obligations(prop, log):
    """Returns (obligations, discharged, broken list, detail)."""
    broken = []
    for tr in ("gen_tables.py", "gen_code.py"):
        rc, out = sh([sys.executable, os.path.join(ROOT, "tools", tr)])
        log.append(out.strip())
        if rc != 0:
            broken.append("translator %s failed: %s" % (tr, out.strip()[-300:]))
    # a property's theorems live in Props/Cxx.lean and, where a later layer had to import the first
    # (to avoid import cycles), in Props/Cxx<Suffix>.lean; names are kept as "<module>.<theorem>"
    import glob as _glob
    mods = sorted(os.path.basename(f)[:-5] for f in _glob.glob(os.path.join(LEAN, "UBidi", "Props", prop + "*.lean")))
    names = []
    audit_extra = []   # stage theorems that live in Lemmas/ and are listed in a Props file as `-- AUDIT: <full name>`
    for m in mods:
        fpath = os.path.join(LEAN, "UBidi", "Props", m + ".lean")
        names += ["%s.%s" % (m, n) for n in theorem_names(fpath)]
        audit_extra += re.findall(r"^--\s*AUDIT:\s*(\S+)", open(fpath, encoding="utf-8").read(), re.M)
    t0 = time.time()
    rc, out = sh(["lake", "build", "ubidi-driver"] + ["UBidi.Props." + m for m in mods], cwd=LEAN, timeout=3000)
    log.append("lake build: rc=%d %.1fs" % (rc, time.time() - t0))
    build_ok = rc == 0
    if not build_ok:
        errs = [l for l in out.splitlines() if "error" in l][:8]
        broken.append("lake build %s failed: %s" % (" ".join("UBidi.Props." + m for m in mods), " | ".join(errs)[:600]))
    # forbidden tokens outside comments, whole library
    hits = []
    for dp, _, fs in os.walk(os.path.join(LEAN, "UBidi")):
        for fn in fs:
            if fn.endswith(".lean"):
                src = strip_lean_comments(open(os.path.join(dp, fn), encoding="utf-8").read())
                for tok in FORBIDDEN:
                    if re.search(r"(?<![A-Za-z_])" + re.escape(tok), src):
                        hits.append("%s: %s" % (os.path.relpath(os.path.join(dp, fn), LEAN), tok.strip()))
                if re.search(r"^\s*axiom\s", src, re.M):
                    hits.append("%s: axiom" % fn)
    if hits:
        broken.append("forbidden tokens: " + ", ".join(hits[:10]))
    if prop == "C07":
        # the checked copies of the Model functions (Lemmas/CheckedDefs.lean: the per-paragraph pipeline;
        # Lemmas/CheckedLinesDefs.lean: compute_initial_info and the line queries) may touch arrays only through the
        # checked primitives: below the PRIMITIVES (END) marker no totalised access and no unchecked Model function
        unchecked = {
            "CheckedDefs.lean": "getD|cget|setRange|setAll|setWhileBN|setWhileNsmOrBN|slice|getLast\\??|head!|weakStep|w7Step|resolveWeak|bpStep|seqChars|identifyBracketPairs|scanEnclosed|n0Pair|n12Step|n12|resolveNeutral|resolveLevels|exStep|explicitCompute|seqBounds|seqOfRunFast|prepStep|isolatingRunSequences|fillRemovedLoop|assignLevelsToRemovedChars|resolveSequences|paraLevels|iterForwardsFrom|iterBackwardsFrom|bidiInfo|paragraphBidiInfo",
            "CheckedLinesDefs.lean": "getD|cget|setRange|setAll|slice|getLast\\??|head!|iiStep|computeInitialInfo|l1Step|reorderLevels|reorderedLevels|reorderedLevelsPerChar|revGroups|l2RunsLoop|visualRunsForLine|skipBelow|skipAtLeast|nextRange|reverseRange|rvPass|rvLoop|reorderVisual|reorderLinePieces|reorderLine|paraDirection|levelAt|piecesUnits16|bidiInfo|paragraphBidiInfo",
        }
        for fname, words in unchecked.items():
            cd = os.path.join(LEAN, "UBidi", "Lemmas", fname)
            if not os.path.exists(cd):
                broken.append("Lemmas/%s missing" % fname)
                continue
            src = open(cd, encoding="utf-8").read()
            m = re.search(r"^.-! ## =+ PRIMITIVES \(END\).*$", src, re.M)
            if not m:
                broken.append(fname + ": PRIMITIVES (END) marker not found")
                continue
            body = src[m.end():]
            bad = re.findall(r"\b(?:" + words + r")\b|List\.set|\.set |get!|\]!|\]\?|List\.take|\.take |List\.drop|\.drop ", body)
            if bad:
                broken.append("%s uses unchecked accesses below the primitives section: %s" % (fname, sorted(set(bad))[:6]))
            if re.search(r"^\s*(theorem|lemma|example)\b", src, re.M):
                broken.append(fname + " must contain definitions only")
    # axioms of every property theorem
    axioms = {}
    if build_ok and names:
        os.makedirs(WORK, exist_ok=True)
        audit = os.path.join(WORK, "Audit_%s.lean" % prop)
        with open(audit, "w") as f:
            for m in mods:
                f.write("import UBidi.Props.%s\n" % m)
            for n in names:
                f.write("#print axioms UBidi.Props.%s\n" % n)
            for n in audit_extra:
                f.write("#print axioms %s\n" % n)
        rc, out = sh(["lake", "env", "lean", audit], cwd=LEAN, timeout=1200)
        cur = None
        text = out.replace("\n  ", " ")
        for m in re.finditer(r"'UBidi\.Props\.(%s\w*\.\S+?)' (depends on axioms: \[([^\]]*)\]|does not depend on any axioms)" % prop, text):
            axs = [a.strip() for a in (m.group(3) or "").split(",") if a.strip()]
            axioms[m.group(1)] = axs
        for m in re.finditer(r"'(UBidi\.(?:Lemmas|Expand)\.\S+?)' (depends on axioms: \[([^\]]*)\]|does not depend on any axioms)", text):
            axioms[m.group(1)] = [a.strip() for a in (m.group(3) or "").split(",") if a.strip()]
        names = names + audit_extra
        for n in names:
            if n not in axioms:
                broken.append("theorem %s: axiom audit produced no answer" % n)
            else:
                bad = [a for a in axioms[n] if a not in ALLOWED_AXIOMS]
                if bad:
                    broken.append("theorem %s depends on %s" % (n, ",".join(bad)))
    if build_ok and os.environ.get("VERIF_TIER_INTERNAL") == "thorough":
        t0 = time.time()
        rc, out = sh(["lake", "env", "leanchecker"] + ["UBidi.Props." + m for m in mods], cwd=LEAN, timeout=3000)
        log.append("leanchecker %s: rc=%d %.1fs" % (" ".join(mods), rc, time.time() - t0))
        if rc != 0:
            broken.append("leanchecker rejected UBidi.Props.%s: %s" % (prop, out.strip()[-300:]))
    obligations = len(names) + 3  # theorems + translator + build + hygiene scan
    discharged = obligations - len(broken) if not broken else max(0, obligations - len(broken))
    return names, axioms, obligations, discharged, broken


def build_harness(extra, log, tag="default"):
    t0 = time.time()
    if tag.startswith("release-noassert"):
        rc, out = sh(["cargo", "build", "--offline"] + extra, cwd=HARN, env={"RUSTFLAGS": ""}, timeout=3000)
        built = os.path.join(HARN, "target-relna", "relna", "ubidi-harness")
    elif tag == "hooks":
        rc, out = sh(["cargo", "build", "--release", "--offline"] + extra, cwd=HARN, timeout=3000)
        built = os.path.join(HARN, "target", "release", "ubidi-harness")
    elif tag == "no-hardcoded-data":
        rc, out = sh(["cargo", "build", "--release", "--offline", "--target-dir", "target-nodata"] + extra, cwd=HARN,
                     env={"RUSTFLAGS": ""}, timeout=3000)
        built = os.path.join(HARN, "target-nodata", "release", "ubidi-harness")
    else:
        rc, out = sh(["cargo", "build", "--release", "--offline", "--target-dir", "target-plain"] + extra, cwd=HARN,
                     env={"RUSTFLAGS": ""}, timeout=3000)
        built = os.path.join(HARN, "target-plain", "release", "ubidi-harness")
    log.append("cargo build (%s): rc=%d %.1fs" % (tag, rc, time.time() - t0))
    if rc != 0:
        return None, out
    os.makedirs(WORK, exist_ok=True)
    dst = os.path.join(WORK, "harness-" + tag.replace("+", "_"))
    shutil.copy2(built, dst)
    return dst, out


def run_pipeline(harness_bin, gen_args=None, stdin_file=None, out_prefix="run"):
    """harness | tee lines | driver ; returns (lines_path, verdict_path, proc)"""
    os.makedirs(WORK, exist_ok=True)
    lines = os.path.join(WORK, out_prefix + ".lines")
    verd = os.path.join(WORK, out_prefix + ".verdicts")
    if gen_args is not None:
        cmd = "%s gen %s | tee %s | %s > %s" % (harness_bin, " ".join(str(a) for a in gen_args), lines, DRIVER, verd)
    else:
        cmd = "%s rerun < %s | tee %s | %s > %s" % (harness_bin, stdin_file, lines, DRIVER, verd)
    return lines, verd, subprocess.Popen(["bash", "-c", "set -o pipefail; " + cmd])


def parse_verdicts(lines_path, verd_path):
    """Streams the two files in lock step.  Keeps the full line only for failing cases and a few samples;
    for the others a 64-bit hash of the input (distinctness) and the stats."""
    res = []
    nl = nv = 0
    with open(lines_path, encoding="utf-8", errors="replace") as fl, open(verd_path, encoding="utf-8", errors="replace") as fv:
        il = (l.rstrip("\n") for l in fl if l.startswith("#"))
        iv = (l.rstrip("\n") for l in fv if l.startswith("#"))
        while True:
            l = next(il, None)
            v = next(iv, None)
            if l is not None:
                nl += 1
            if v is not None:
                nv += 1
            if l is None or v is None:
                # count the rest of the longer file
                nl += sum(1 for _ in il)
                nv += sum(1 for _ in iv)
                break
            head, _, stats = v.partition(" | ")
            toks = head.split(" ")
            ident, mode, op = toks[0], toks[1], toks[2]
            fail = toks[4:] if len(toks) > 3 and toks[3] == "FAIL" else []
            keep = bool(fail) or len(res) < 3 or op in ("digest", "serde") or "PANIC" in l
            key = hash(op + " " + input_key(l))
            res.append(dict(id=ident, mode=mode, op=op, fail=fail, stats=stats, line=l if keep else None, key=key,
                            panic=("PANIC" in l)))
    return res, nl, nv


def input_key(line):
    q = line.split(" => ")[0]
    return " ".join(q.split(" ")[2:])


def nontrivial(r):
    m = re.search(r"\bn=(\d+)", r["stats"])
    if m:
        return int(m.group(1)) >= 2
    return True


def shrink(harness_bin, line, token, budget=250):
    """delete elements of the T= / LV= / U= list while `token` keeps failing"""
    q = line.split(" => ")[0]
    m = re.search(r" (T|LV|U)=([0-9A-Fa-f,]*)", q)
    if not m or " line " in q or " meta" in q:
        return line
    key, items = m.group(1), [x for x in m.group(2).split(",") if x]

    def fails(cand):
        q2 = q[:m.start()] + " %s=%s" % (key, ",".join(cand)) + q[m.end():]
        tmp = os.path.join(WORK, "shrink.in")
        open(tmp, "w").write(q2 + "\n")
        p = subprocess.run(["bash", "-c", "%s rerun < %s | tee %s.lines | %s" % (harness_bin, tmp, tmp, DRIVER)],
                           stdout=subprocess.PIPE, text=True)
        ok = token in p.stdout.split(" | ")[0].split(" ")
        return ok, (open(tmp + ".lines").read().strip() if ok else None)

    best = line
    probes = 0
    changed = True
    while changed and probes < budget:
        changed = False
        i = 0
        while i < len(items) and probes < budget:
            cand = items[:i] + items[i + 1:]
            probes += 1
            ok, newline = fails(cand)
            if ok:
                items, best, changed = cand, newline, True
            else:
                i += 1
    return best


def load_known():
    p = os.path.join(ROOT, "known_findings.json")
    if not os.path.exists(p):
        return []
    return json.load(open(p)).get("findings", [])


def matches_known(entry, prop, line):
    if entry.get("status") != "known" or entry.get("property") != prop:
        return False
    key = entry.get("match_input", "")
    return bool(key) and key in line


def main():
    args = sys.argv[1:]
    prop = args[0]
    tier = os.environ.get("VERIF_TIER", "quick")
    replay = None
    i = 1
    while i < len(args):
        if args[i] == "--tier":
            tier = args[i + 1]; i += 2
        elif args[i] == "--replay":
            replay = args[i + 1]; i += 2
        else:
            i += 1
    seed = int(os.environ.get("VERIF_SEED", "1"))
    os.environ["VERIF_TIER_INTERNAL"] = tier
    cfg = PROPS[prop]
    t_start = time.time()
    log = []
    os.makedirs(WORK, exist_ok=True)
    os.makedirs(os.path.join(OUTROOT, "evidence"), exist_ok=True)
    os.makedirs(os.path.join(OUTROOT, "replays"), exist_ok=True)

    if os.environ.get("VERIF_SKIP_LEAN") == "1" and SCRATCH:
        names, axioms, obligations, discharged, broken = [], {}, 1, 1, []
        log.append("scratch mode: Lean obligations skipped")
    else:
        names, axioms, obligations, discharged, broken = lean_obligations(prop, log)
    if not os.path.exists(DRIVER):
        print("run_check: driver missing; lake build failed:\n" + "\n".join(broken))
    relevant_spec = set(["S:" + prop, "S:PANIC", "S:CONV"] + cfg.get("spec_extra", []))
    relevant_model = set(cfg["model"])

    results = []
    exhaustive_streams = []
    harness_problems = []
    digests = {}
    feature_sets = FEATURE_SETS if prop == "C20" else [FEATURE_SETS[0], FEATURE_SETS[5]]
    if prop == "C19":
        feature_sets = feature_sets + [FEATURE_SETS[2]]     # serde: reading a Level is a construction path
    if prop != "C20" and any(sn in DS_STREAMS for sn, _ in cfg["streams"]):
        feature_sets = feature_sets + [NODATA]
    if any(sn == "STAGE" for sn, _ in cfg["streams"]):
        feature_sets = feature_sets + [("hooks", [])]       # the only build with the cfg-guarded hook module
    njobs = 16 if tier == "thorough" else 8
    total = cfg[tier]
    if tier == "thorough" and not cfg.get("exhaustive"):
        # the generators grew long texts (deep-count, limit, stress, level vectors up to 400 entries …) on which the Lean
        # Spec is slow; the random part of the thorough tier is scaled so that all twenty checks take about an hour
        # (VERIF_THOROUGH_SCALE=1 restores the full counts: several hours)
        total = max(1, int(total * float(os.environ.get("VERIF_THOROUGH_SCALE", "0.2"))))
    for tag, extra in feature_sets:
        hb, out = build_harness(extra, log, tag)
        if hb is None:
            harness_problems.append("harness build failed (%s): %s" % (tag, out[-400:]))
            continue
        procs = []
        if replay:
            procs.append((tag, "replay") + run_pipeline(hb, stdin_file=replay, out_prefix="%s-%s-replay" % (prop, tag.replace("+", "_"))))
        else:
            corpus = os.path.join(ROOT, "corpus", prop + ".txt")
            if os.path.exists(corpus) and tag != "hooks":
                procs.append((tag, "corpus") + run_pipeline(hb, stdin_file=corpus, out_prefix="%s-%s-corpus" % (prop, tag.replace("+", "_"))))
            for sname, share in cfg["streams"]:
                # a share above 1 is an absolute number of cases (the exhaustive table sweeps: 2 operations)
                cnt = int(share) if share > 1 else max(1, int(total * share))
                if (sname == "STAGE") != (tag == "hooks"):
                    continue              # STAGE only on the hooks build, everything else only on the builds without it
                if tag == "no-hardcoded-data" and sname not in DS_STREAMS:
                    continue              # nothing in that stream names a data source
                if tag == "release-noassert" and prop != "C20":
                    if share <= 1 and not cfg.get("exhaustive"):
                        cnt = max(1, cnt // 3)   # the same first cases as the default build
                if sname in ("C14", "C15"):
                    shards = [(0, cnt)]
                else:
                    per = (cnt + njobs - 1) // njobs
                    shards = [(k * per, min(per, cnt - k * per)) for k in range(njobs) if cnt - k * per > 0]
                for k, (first, c) in enumerate(shards):
                    procs.append((tag, sname) + run_pipeline(hb, gen_args=[sname, tier, seed, c, first],
                                                           out_prefix="%s-%s-%s-%d" % (prop, tag.replace("+", "_"), sname, k)))
            if tier == "thorough" and tag == "default":
                for sname in EXH_FOR.get(prop, []):
                    cnt = EXH[sname]
                    per = (cnt + njobs - 1) // njobs
                    for k in range(njobs):
                        c = min(per, cnt - k * per)
                        if c > 0:
                            procs.append((tag, sname) + run_pipeline(hb, gen_args=[sname, tier, seed, c, k * per],
                                                                   out_prefix="%s-%s-%s-%d" % (prop, tag.replace("+", "_"), sname, k)))
                    exhaustive_streams.append("%s (%d cases)" % (sname, cnt))
        for tag_, sname, lines, verd, p in procs:
            rc = p.wait()
            rs, nl, nv = parse_verdicts(lines, verd)
            if rc != 0 or nl != nv:
                harness_problems.append("pipeline %s/%s: rc=%d lines=%d verdicts=%d" % (tag_, sname, rc, nl, nv))
            for r in rs:
                r["features"] = tag_
                r["stream"] = sname
            results.extend(rs)
            if rc == 0 and nl == nv and not any(r["fail"] for r in rs):
                for f_ in (lines, verd):
                    try:
                        os.remove(f_)
                    except OSError:
                        pass
            if prop == "C20" and tag_ != "no-hardcoded-data":     # the digest operation needs the built-in data
                h = hashlib.sha256()
                for r in rs:
                    if r["op"] in ("digest",):
                        h.update(r["line"].encode())
                digests.setdefault(tag_, hashlib.sha256()).update(h.digest())

    # ---- verdicts
    spec_fail = [r for r in results if relevant_spec & set(r["fail"])]
    model_diff = [r for r in results if relevant_model & set(r["fail"])]
    violations = []
    known_lines = []
    known = load_known()
    replay_paths = []

    def write_replay(name, content):
        path = os.path.join(OUTROOT, "replays", name)
        open(path, "w").write(content)
        return path

    if prop == "C20":
        ds = {k: v.hexdigest() for k, v in digests.items()}
        if len(set(ds.values())) > 1:
            # find the first differing line
            base = [r for r in results if r["features"] == "default" and r["op"] == "digest"]
            detail = ""
            for tag, _ in FEATURE_SETS[1:8]:
                other = [r for r in results if r["features"] == tag and r["op"] == "digest"]
                for a, b in zip(base, other):
                    if a["line"] != b["line"]:
                        detail = "features=default: %s\nfeatures=%s: %s\n" % (a["line"], tag, b["line"])
                        break
                if detail:
                    break
            path = write_replay("C20-%d-digest.txt" % seed, "# digests differ between feature sets: %s\n%s" % (json.dumps(ds), detail))
            violations.append(("digest mismatch", path, False))

    seen_shrunk = set()
    for r in spec_fail[:50]:
        if any(matches_known(e, prop, r["line"]) for e in known):
            e = [e for e in known if matches_known(e, prop, r["line"])][0]
            known_lines.append("KNOWN-FINDING: property=%s %s" % (prop, e.get("what", "")))
            continue
        if len(violations) >= 3:
            break
        tok = sorted(relevant_spec & set(r["fail"]))[0]
        hb = os.path.join(WORK, "harness-" + r["features"].replace("+", "_"))
        small = shrink(hb, r["line"], tok) if tier in ("quick", "thorough") else r["line"]
        key = input_key(small)
        if key in seen_shrunk:
            continue
        seen_shrunk.add(key)
        if any(matches_known(e, prop, small) for e in known):
            e = [e for e in known if matches_known(e, prop, small)][0]
            known_lines.append("KNOWN-FINDING: property=%s %s" % (prop, e.get("what", "")))
            continue
        name = "%s-%s.txt" % (prop, re.sub(r"[^A-Za-z0-9_-]", "_", r["id"].lstrip("#")))
        content = ("# property %s violated by the implementation: verdict tokens %s\n"
                   "# replay: ./check %s --replay <this file>   (the line below is re-executed on the current /repo)\n"
                   "# original case: %s\n%s\n") % (prop, " ".join(r["fail"]), prop, r["line"][:2000], small)
        violations.append((tok, write_replay(name, content), False))

    if not violations and (broken or model_diff or harness_problems):
        # the property is no longer shown to hold and no failing input was found
        what = []
        for b in broken:
            what.append("proof obligation: " + b)
        for h in harness_problems:
            what.append("harness: " + h)
        first = ""
        if model_diff:
            r = model_diff[0]
            what.append("correspondence Impl<->Model broken on %d case(s); tokens of the first: %s" % (len(model_diff), " ".join(r["fail"])))
            first = r["line"]
        content = "# property %s is no longer shown to hold; no input violating its predicate was found\n" % prop
        content += "".join("# %s\n" % w for w in what)
        if first:
            content += "# first disagreeing case (re-executable):\n%s\n" % first
        path = write_replay("%s-%d-unproved.txt" % (prop, seed), content)
        violations.append(("no-failing-input-found", path, True))

    wall = time.time() - t_start
    # ---- evidence
    evals = len(results)
    keys = set()
    for r in results:
        if nontrivial(r):
            keys.add(r["key"])
    modes = {}
    ops = {}
    for r in results:
        modes[r["mode"]] = modes.get(r["mode"], 0) + 1
        ops[r["op"]] = ops.get(r["op"], 0) + 1
    lens = [int(m.group(1)) for r in results for m in [re.search(r"\bn=(\d+)", r["stats"])] if m]
    maxls = [int(m.group(1)) for r in results for m in [re.search(r"\bmaxl=(\d+)", r["stats"])] if m]
    samples = [r["line"][:400] for r in results if r["line"]][:3]
    thm_samples = ["theorem UBidi.Props.%s  axioms=%s" % (n, axioms.get(n, "?")) for n in names[:6]]
    ev = {
        "property_id": prop,
        "tier": tier,
        "seed": seed,
        "level": "proof",
        "coverage": {
            "obligations": obligations,
            "discharged": discharged,
            "checker_cmd": "cd /verif/lean && lake build UBidi.Props.%s* && lake env lean ../work/Audit_%s.lean   (#print axioms of every theorem)" % (prop, prop),
            "trusted_base": [
                "Lean 4.33.0 kernel; axioms allowed: propext, Classical.choice, Quot.sound (audited per theorem on this run)",
                "Model /verif/lean/UBidi/Model (hand transcription of the crate) tied to /repo by this run's correspondence only",
                "Spec /verif/lean/UBidi/Spec as the reading of UAX #9 and of the property statement",
                "translators tools/gen_tables.py (tables.rs, constants 125/126/63) and tools/gen_code.py (level.rs functions, class predicates, match-arm class sets)",
                "harness + driver + line protocol; Rust std (str, char::decode_utf16, Vec/SmallVec, sort_by_key, binary_search_by)",
            ],
            "theorems": names,
            "axioms_used": axioms,
            "broken_obligations": broken,
            "evaluations": evals,
            "distinct_nontrivial": len(keys),
            "rule": "cases come from the seeded generators of harness/src/gen.rs (modes below) plus the committed corpus; a case is non-trivial when it has at least two characters/levels/units; distinct = distinct (operation, input) pairs",
            "samples": samples + thm_samples,
            "modes": modes,
            "operations": ops,
            "input_length_max": max(lens) if lens else 0,
            "input_length_mean": (sum(lens) / len(lens)) if lens else 0,
            "max_level_seen": max(maxls) if maxls else 0,
            "model_disagreements": len(model_diff),
            "spec_failures": len(spec_fail),
            "panics_seen": sum(1 for r in results if r.get("panic")),
            "exhaustive": bool(cfg.get("exhaustive")),
            "exhaustive_small_scope_streams": exhaustive_streams,
            "feature_sets": [t for t, _ in feature_sets],
            "digests": {k: v.hexdigest() for k, v in digests.items()},
            "log": log,
        },
        "assumptions": [
            "the theorems are about the Model; the tie to the code is the differential correspondence of this run (sampling, except C14/C15/C19 which enumerate their finite domains)",
            "Spec = UAX #9 as transcribed in UBidi/Spec; frozen Unicode 16.0 reference tables as described in ref/PROVENANCE.md",
        ],
        "wall_s": round(wall, 2),
        "violations": len(violations),
    }
    json.dump(ev, open(os.path.join(OUTROOT, "evidence", prop + ".json"), "w"), indent=1)

    for l in sorted(set(known_lines)):
        print(l)
    print("check %s tier=%s seed=%d: %d theorems, %d/%d obligations, %d cases (%d distinct non-trivial), model-diff=%d spec-fail=%d, %.1fs"
          % (prop, tier, seed, len(names), discharged, obligations, evals, len(keys), len(model_diff), len(spec_fail), wall))
    for b in broken:
        print("  broken obligation: " + b)
    for h in harness_problems:
        print("  harness problem: " + h)
    if violations:
        for tok, path, nofail in violations:
            print("VIOLATION property=%s replay=%s%s" % (prop, path, " no-failing-input-found" if nofail else ""))
        sys.exit(1)
    sys.exit(0)


if __name__ == "__main__":
    main()
