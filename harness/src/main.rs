//! ubidi-harness: runs the real crate (path dependency on /repo, rebuilt from the
//! current working tree) on generated or replayed operations and prints one
//! line per operation: the question and the crate's answer.
mod gen;
mod hd;
mod ops;
mod pools;
mod rng;

use std::io::{BufRead, Write};

fn main() {
    // panics are expected outcomes here: keep stderr quiet — but COUNT them: a panic that the crate catches itself
    // (and recovers from) never reaches the harness's own catch_unwind, yet it is a panic, and aborts the process
    // under panic = "abort"
    std::panic::set_hook(Box::new(|_| {
        ops::PANICS_RAISED.fetch_add(1, std::sync::atomic::Ordering::SeqCst);
    }));
    ops::init_nested_reference();
    let args: Vec<String> = std::env::args().collect();
    let stdout = std::io::stdout();
    let mut out = std::io::BufWriter::new(stdout.lock());
    match args.get(1).map(|s| s.as_str()) {
        Some("gen") => {
            let prop = &args[2];
            let tier = &args[3];
            let seed: u64 = args[4].parse().expect("seed");
            let count: usize = args[5].parse().expect("count");
            let first: usize = args.get(6).map(|s| s.parse().expect("first")).unwrap_or(0);
            for n in first..first + count {
                // one PRNG state per case, derived from (seed, n): a case replays alone
                let mut r = rng::Rng::new(seed.wrapping_mul(0x9E3779B97F4A7C15).wrapping_add(n as u64).wrapping_mul(0xD1B54A32D192ED03) ^ (n as u64) << 32 ^ seed);
                let (mode, input) = gen::gen_case(prop, &mut r, n, tier == "thorough");
                let id = format!("#{}-{}-{}", prop, seed, n);
                if cfg!(not(feature = "hardcoded")) && ops::needs_builtin_data(&input) {
                    continue;
                }
                writeln!(out, "{}", ops::run_counted(&id, &mode, &input)).unwrap();
            }
        }
        Some("rerun") => {
            let stdin = std::io::stdin();
            for line in stdin.lock().lines() {
                let line = line.unwrap();
                if let Some((id, mode, input)) = ops::parse_line(&line) {
                    if cfg!(not(feature = "hardcoded")) && ops::needs_builtin_data(&input) {
                        continue;
                    }
                    writeln!(out, "{}", ops::run_counted(&id, &mode, &input)).unwrap();
                }
            }
        }
        Some("features") => {
            let mut f = vec![];
            if cfg!(feature = "std") { f.push("std"); }
            if cfg!(feature = "smallvec") { f.push("smallvec"); }
            if cfg!(feature = "serde") { f.push("serde"); }
            if cfg!(feature = "hardcoded") { f.push("hardcoded-data"); }
            writeln!(out, "{}", f.join(",")).unwrap();
        }
        _ => {
            eprintln!("usage: ubidi-harness gen <prop> <tier> <seed> <count> [first] | rerun < lines | features");
            std::process::exit(2);
        }
    }
}
