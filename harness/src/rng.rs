//! One PRNG state per run: every random choice of a case derives from it, so a
//! (seed, case number) pair replays exactly.
#[derive(Clone)]
pub struct Rng(pub u64);

impl Rng {
    pub fn new(seed: u64) -> Rng {
        let mut r = Rng(seed ^ 0x9E37_79B9_7F4A_7C15);
        if r.0 == 0 {
            r.0 = 0x1234_5678_9ABC_DEF1;
        }
        for _ in 0..4 {
            r.next();
        }
        r
    }
    pub fn next(&mut self) -> u64 {
        // xorshift64*
        let mut x = self.0;
        x ^= x >> 12;
        x ^= x << 25;
        x ^= x >> 27;
        self.0 = x;
        x.wrapping_mul(0x2545_F491_4F6C_DD1D)
    }
    pub fn below(&mut self, n: usize) -> usize {
        if n == 0 {
            0
        } else {
            (self.next() % (n as u64)) as usize
        }
    }
    pub fn range(&mut self, lo: usize, hi: usize) -> usize {
        lo + self.below(hi - lo + 1)
    }
    pub fn chance(&mut self, num: usize, den: usize) -> bool {
        self.below(den) < num
    }
    pub fn pick<'a, T>(&mut self, xs: &'a [T]) -> &'a T {
        &xs[self.below(xs.len())]
    }
}
