//! Generators: structured, mostly-valid inputs per property and mode.
use crate::ops::*;
use crate::pools::*;
use crate::rng::Rng;
use unicode_bidi::BidiClass;
use unicode_bidi::BidiClass::*;

pub const LRE_C: u32 = 0x202A;
pub const RLE_C: u32 = 0x202B;
pub const PDF_C: u32 = 0x202C;
pub const LRO_C: u32 = 0x202D;
pub const RLO_C: u32 = 0x202E;
pub const LRI_C: u32 = 0x2066;
pub const RLI_C: u32 = 0x2067;
pub const FSI_C: u32 = 0x2068;
pub const PDI_C: u32 = 0x2069;

fn pick_char(rng: &mut Rng, c: BidiClass) -> u32 {
    let p = pool(c);
    if rng.chance(1, 2) {
        p[0]
    } else {
        *rng.pick(p)
    }
}

/// per-case random class weights; `boost` multiplies selected classes
fn weights(rng: &mut Rng, boost: &[(BidiClass, usize)], damp_b: bool) -> Vec<(BidiClass, usize)> {
    let mut w: Vec<(BidiClass, usize)> = ALL_CLASSES
        .iter()
        .map(|&c| (c, if rng.chance(1, 2) { 0 } else { rng.range(1, 8) }))
        .collect();
    for (c, k) in boost {
        for e in w.iter_mut() {
            if e.0 == *c {
                e.1 = (e.1 + 1) * k;
            }
        }
    }
    if damp_b {
        for e in w.iter_mut() {
            if e.0 == B && rng.chance(3, 4) {
                e.1 = if rng.chance(1, 3) { 1 } else { 0 };
            }
        }
    }
    if w.iter().all(|e| e.1 == 0) {
        w[9].1 = 1; // L
        w[17].1 = 1; // R
    }
    w
}

fn pick_class(rng: &mut Rng, w: &[(BidiClass, usize)]) -> BidiClass {
    let total: usize = w.iter().map(|e| e.1).sum();
    let mut k = rng.below(total);
    for e in w {
        if k < e.1 {
            return e.0;
        }
        k -= e.1;
    }
    L
}

pub fn gen_text(rng: &mut Rng, mode: &str) -> Vec<u32> {
    match mode {
        "empty" => vec![],
        "anychar" => {
            // scalar values from the WHOLE code space, not only the pools: the pipeline must treat a character by the
            // class the lookup gives it and by nothing else (about 250 distinct scalars reach it otherwise)
            let special: [u32; 45] = [0x0, 0x7F, 0x80, 0xD7FF, 0xE000, 0xFFFE, 0xFFFF, 0x10000, 0x10FFFD, 0x10FFFE, 0x10FFFF, 0x1C, 0x1D, 0x1E, 0x1F, 0x85, 0xA0, 0xAD, 0x34F, 0x61C, 0x180E, 0x2000, 0x200B, 0x200C, 0x200D, 0x200E,
                0x200F, 0x2028, 0x2029, 0x202F, 0x205F, 0x2060, 0x2061, 0x2064, 0x206A, 0x206F, 0x3000, 0xFEFF, 0xFFF9, 0xFFFB, 0xFFFC, 0xFFFD,
                0xE0001, 0xE007F, 0xE01EF];
            let n = rng.range(1, 14);
            (0..n)
                .map(|_| match rng.below(10) {
                    0 | 1 | 2 => *rng.pick(&special),
                    3 | 4 => { let c = *rng.pick(&[L, R, AL, EN, WS, ON]); pick_char(rng, c) }
                    5 => *rng.pick(&[LRI_C, RLI_C, FSI_C, PDI_C, LRE_C, RLE_C, PDF_C, 0x28, 0x29]),
                    6 => rng.below(0x3000) as u32,
                    7 => 0x10000 + rng.below(0x20000) as u32,
                    8 => 0xE0000 + rng.below(0x200) as u32,
                    _ => { let c = rng.below(0x110000) as u32; if (0xD800..0xE000).contains(&c) { 0xFFFD } else { c } }
                })
                .collect()
        }
        "edges" => {
            // a long run of ASCII with the only non-ASCII characters in the first or last few bytes (word-at-a-time
            // scans treat the unaligned head and tail of a buffer separately from its aligned middle)
            let ascii: Vec<u32> = "abcdefghij klmnop qrstuvwxyz 0123456789 ,.-()".chars().map(|c| c as u32).collect();
            let edge = |rng: &mut Rng| -> Vec<u32> { (0..rng.range(1, 3)).map(|_| *rng.pick(&[0x5D0u32, 0x5D1, 0x627, 0x661, 0xE9, 0x10800, 0x2067, 0x202E])).collect() };
            let mut t = vec![];
            if rng.chance(2, 3) { t.extend(edge(rng)); }
            for _ in 0..rng.range(12, 48) { t.push(*rng.pick(&ascii)); }
            if rng.chance(1, 2) { t.extend(edge(rng)); }
            t
        }
        "manyparas" => {
            // several hundred paragraphs (per-paragraph state kept in fixed-size structures; 256 is a natural bound),
            // isolates and brackets in the late ones
            let n = match rng.below(3) { 0 => rng.range(250, 270), 1 => rng.range(300, 400), _ => rng.range(30, 60) };
            let mut t = vec![];
            for k in 0..n {
                let late = k + 6 >= n;
                let m = if late { rng.range(2, 8) } else { rng.range(0, 2) };
                for _ in 0..m {
                    let c = *rng.pick(&[L, R, AL, EN, ON, WS, NSM, LRI, RLI, FSI, PDI, ON]);
                    t.push(if c == ON && rng.chance(1, 2) { *rng.pick(&[0x28u32, 0x29]) } else { pick_char(rng, c) });
                }
                t.push(pick_char(rng, B));
            }
            if rng.chance(1, 2) { t.pop(); }
            t
        }
        "removed" => {
            // text made only of characters that X9 removes (sometimes split into paragraphs): every level run
            // consists of removed characters, the "first / last character that is not removed" searches find nothing
            let n = rng.range(1, 10);
            let mut t: Vec<u32> = (0..n).map(|_| { let c = *rng.pick(&[BN, BN, LRE, RLE, LRO, RLO, PDF, PDF]); pick_char(rng, c) }).collect();
            if rng.chance(1, 4) { let k = rng.below(t.len() + 1); t.insert(k, pick_char(rng, B)); }
            t
        }
        "short" => {
            let w = weights(rng, &[], true);
            let n = rng.range(1, 14);
            (0..n).map(|_| { let c = pick_class(rng, &w); pick_char(rng, c) }).collect()
        }
        "long" => {
            let w = weights(rng, &[], true);
            let n = rng.range(20, 80);
            (0..n).map(|_| { let c = pick_class(rng, &w); pick_char(rng, c) }).collect()
        }
        "iso" => {
            let w = weights(rng, &[(LRI, 3), (RLI, 3), (FSI, 3), (PDI, 4), (B, 1)], false);
            let n = rng.range(2, 30);
            (0..n).map(|_| { let c = pick_class(rng, &w); pick_char(rng, c) }).collect()
        }
        "para" => {
            let w = weights(rng, &[(B, 4), (LRI, 2), (FSI, 2), (PDI, 2), (RLE, 2), (ON, 1)], false);
            let n = rng.range(0, 24);
            (0..n).map(|_| { let c = pick_class(rng, &w); pick_char(rng, c) }).collect()
        }
        "sep" => {
            let w = weights(rng, &[(S, 4), (B, 2), (WS, 4), (BN, 4), (PDF, 3), (LRE, 2), (RLO, 2), (PDI, 2), (LRI, 2)], false);
            let n = rng.range(1, 24);
            (0..n).map(|_| {
                let c = pick_class(rng, &w);
                // favour multi-unit members here
                *rng.pick(pool(c))
            }).collect()
        }
        "words" => {
            let mut t = vec![];
            let nw = rng.range(1, 10);
            for _ in 0..nw {
                let kind = rng.below(6);
                let len = rng.range(1, 5);
                for _ in 0..len {
                    let c = match kind {
                        0 | 1 => L,
                        2 => R,
                        3 => AL,
                        4 => EN,
                        _ => AN,
                    };
                    t.push(pick_char(rng, c));
                }
                let sepc = match rng.below(10) {
                    0..=4 => WS,
                    5 => CS,
                    6 => ES,
                    7 => ET,
                    8 => ON,
                    _ => NSM,
                };
                t.push(pick_char(rng, sepc));
                if rng.chance(1, 8) {
                    t.push(*rng.pick(&[LRE_C, RLE_C, PDF_C, LRI_C, RLI_C, FSI_C, PDI_C, LRO_C, RLO_C]));
                }
            }
            t
        }
        "deep" => {
            let all = [LRE_C, RLE_C, LRO_C, RLO_C, LRI_C, RLI_C, FSI_C];
            let k = rng.range(1, 7);
            let kinds: Vec<u32> = (0..k).map(|_| *rng.pick(&all)).collect();
            let depth = if rng.chance(1, 3) { rng.range(100, 400) } else { rng.range(110, 140) };
            let mut t = vec![];
            let alternate = rng.chance(1, 2);
            for i in 0..depth {
                if alternate && k <= 2 {
                    t.push(if i % 2 == 0 { kinds[0] } else { *kinds.last().unwrap() });
                } else {
                    t.push(*rng.pick(&kinds));
                }
                if rng.chance(1, 8) {
                    let c = *rng.pick(&[L, R, AL, EN, AN, ON, WS, NSM, ET]);
                    t.push(pick_char(rng, c));
                }
            }
            for _ in 0..rng.range(0, 4) {
                let c = *rng.pick(&[L, R, EN, ON, WS]);
                t.push(pick_char(rng, c));
            }
            let m = rng.range(0, depth + 20);
            let pdi_w = rng.range(0, 4);
            for _ in 0..m {
                t.push(if rng.below(4) < pdi_w { PDI_C } else { PDF_C });
                if rng.chance(1, 8) {
                    let c = *rng.pick(&[L, R, AL, EN, AN, ON, WS, S]);
                    t.push(pick_char(rng, c));
                }
            }
            for _ in 0..rng.range(0, 4) {
                let c = *rng.pick(&[L, R, EN, ON, WS, B]);
                t.push(pick_char(rng, c));
            }
            t
        }
        "deep-paras" => {
            // a paragraph that ENDS with 100-150 initiators still open (isolates mostly), then short paragraphs whose
            // level / FSI resolution depends on their own isolates being matched: nothing of the first paragraph's
            // nesting — stack, overflow counts — may survive the paragraph separator (P1: rules apply per paragraph)
            let mut t = vec![];
            let iso_only = rng.chance(2, 3);
            let kinds: Vec<u32> = if iso_only { vec![LRI_C, RLI_C, FSI_C] } else { vec![LRI_C, RLI_C, FSI_C, LRE_C, RLE_C, RLO_C] };
            let depth = rng.range(100, 150);
            for _ in 0..rng.range(0, 2) { let c = *rng.pick(&[L, R, EN]); t.push(pick_char(rng, c)); }
            for _ in 0..depth {
                t.push(*rng.pick(&kinds));
                if rng.chance(1, 12) { let c = *rng.pick(&[L, R, EN, ON]); t.push(pick_char(rng, c)); }
            }
            for _ in 0..rng.range(0, 3) { t.push(*rng.pick(&[PDI_C, PDF_C])); }
            for _ in 0..rng.range(1, 3) {
                t.push(*rng.pick(&[0xAu32, 0xA, 0x2029, 0xD]));
                match rng.below(4) {
                    0 => { t.extend_from_slice(&[LRI_C, 0x31, PDI_C, 0x20]); let c = *rng.pick(&[R, AL, L]); t.push(pick_char(rng, c)); t.push(0x20); t.push(0x61); }
                    1 => { t.extend_from_slice(&[FSI_C, *rng.pick(&[LRI_C, RLI_C]), PDI_C]); let c = *rng.pick(&[R, AL, L]); t.push(pick_char(rng, c)); t.extend_from_slice(&[PDI_C, 0x20, 0x63]); }
                    2 => { for _ in 0..rng.range(1, 4) { t.push(*rng.pick(&[LRI_C, RLI_C, FSI_C])); let c = *rng.pick(&[R, L, EN]); t.push(pick_char(rng, c)); t.push(PDI_C); } let c = *rng.pick(&[R, AL, L, EN]); t.push(pick_char(rng, c)); }
                    _ => { for _ in 0..rng.range(1, 6) { let c = *rng.pick(&[L, R, AL, EN, ON, WS, LRI, RLI, FSI, PDI, PDI]); t.push(pick_char(rng, c)); } }
                }
            }
            t
        }
        "max" => {
            // alternate RLE/LRE (each adds one level) so that depth ~125 is reached, then a little content
            let mut t = vec![];
            for _ in 0..rng.range(0, 2) {
                let c = *rng.pick(&[L, R, EN, WS]);
                t.push(pick_char(rng, c));
            }
            let start_rtl = rng.chance(1, 2);
            let depth = rng.range(121, 128);
            let iso_every = if rng.chance(1, 3) { rng.range(5, 40) } else { 0 };
            for i in 0..depth {
                let rtl = (i % 2 == 0) == start_rtl;
                if iso_every > 0 && i % iso_every == iso_every - 1 {
                    t.push(if rtl { RLI_C } else { LRI_C });
                } else {
                    t.push(if rtl { RLE_C } else { LRE_C });
                }
            }
            for _ in 0..rng.range(1, 5) {
                let c = *rng.pick(&[L, L, R, EN, AN, ON, WS, S, ET, NSM]);
                t.push(pick_char(rng, c));
            }
            for _ in 0..rng.range(0, 6) {
                t.push(*rng.pick(&[PDF_C, PDI_C]));
                if rng.chance(1, 3) {
                    let c = *rng.pick(&[L, R, EN, WS]);
                    t.push(pick_char(rng, c));
                }
            }
            t
        }
        "limit" => {
            // the X1-X8 machine AT the depth limit: embeddings up to level 118-126, then a short free play of initiators,
            // terminators and letters (valid and overflowing isolates and embeddings in every nesting and order), a
            // letter, a few more terminators, a letter — every letter's level shows what the play left on the stack and
            // in the two overflow counts
            let mut t = vec![];
            for _ in 0..rng.range(0, 1) { let c = *rng.pick(&[L, R]); t.push(pick_char(rng, c)); }
            let start_rtl = rng.chance(1, 2);
            let depth = rng.range(118, 126);
            // the climb: embeddings, isolates, or a mix (an isolate entry on top of the stack behaves differently under X7)
            let iso_share = *rng.pick(&[0usize, 0, 1, 2, 4]);
            for i in 0..depth {
                let rtl = (i % 2 == 0) == start_rtl;
                let iso = iso_share > 0 && rng.below(4) < iso_share;
                t.push(match (rtl, iso) { (true, false) => RLE_C, (false, false) => LRE_C, (true, true) => RLI_C, (false, true) => LRI_C });
            }
            let toks = [LRI_C, RLI_C, RLI_C, FSI_C, LRE_C, RLE_C, RLE_C, LRO_C, RLO_C, PDF_C, PDF_C, PDI_C, PDI_C, 0x61, 0x5D0, 0x31];
            for _ in 0..rng.range(3, 12) { t.push(*rng.pick(&toks)); }
            t.push(*rng.pick(&[0x62u32, 0x5D1]));
            for _ in 0..rng.range(1, 8) { t.push(*rng.pick(&[PDF_C, PDF_C, PDI_C, PDI_C, 0x63, 0x5D2])); }
            t.push(*rng.pick(&[0x64u32, 0x5D3, 0x32]));
            t
        }
        "deepiso" => {
            // more isolate initiators open at once than the embedding depth limit, closed almost completely,
            // then strong text: isolate matching (BD9) has no depth limit
            let mut t = vec![];
            for _ in 0..rng.range(0, 2) { let c = *rng.pick(&[WS, ON, EN, L, R]); t.push(pick_char(rng, c)); }
            let n = rng.range(120, 135);
            let kinds = [LRI_C, RLI_C, FSI_C];
            let k = rng.range(1, 3);
            for i in 0..n { t.push(kinds[(i * k + rng.below(2)) % 3]); if rng.chance(1, 40) { t.push(pick_char(rng, ON)); } }
            let close = n - rng.below(4);
            for _ in 0..close.min(n) { t.push(PDI_C); }
            for _ in 0..rng.range(1, 3) { let c = *rng.pick(&[L, R, AL, EN]); t.push(pick_char(rng, c)); }
            for _ in 0..rng.range(0, 4) { t.push(PDI_C); }
            for _ in 0..rng.range(0, 3) { let c = *rng.pick(&[L, R, AL, WS, B]); t.push(pick_char(rng, c)); }
            t
        }
        "siblings" => {
            // one isolating run sequence made of very many level runs: N sibling isolates at the same level
            // (N around 256, where an index narrowed to 8 bits wraps), then a bracket pair / neutrals whose
            // resolution looks back across all the runs
            let mut t = vec![];
            let lead = *rng.pick(&[L, R, AL, EN]);
            t.push(pick_char(rng, lead));
            let n = match rng.below(4) { 0 => rng.range(2, 12), 1 => rng.range(250, 262), _ => rng.range(254, 300) };
            let init = *rng.pick(&[LRI_C, RLI_C, FSI_C]);
            let inner = *rng.pick(&[L, R]);
            let between = *rng.pick(&[L, R, EN, ON]);
            for i in 0..n {
                t.push(if rng.chance(1, 30) { *rng.pick(&[LRI_C, RLI_C, FSI_C]) } else { init });
                t.push(pick_char(rng, inner));
                t.push(PDI_C);
                if i + 1 < n || rng.chance(1, 2) { t.push(pick_char(rng, between)); }
            }
            let k = pick_bracket(rng);
            let s1 = *rng.pick(&[L, R, AL]);
            t.push(pick_char(rng, s1));
            t.push(OPEN_BRACKETS[k]);
            for _ in 0..rng.range(1, 2) { let c = *rng.pick(&[L, R, AL, EN]); t.push(pick_char(rng, c)); }
            t.push(CLOSE_BRACKETS[k]);
            for _ in 0..rng.range(0, 2) { let c = *rng.pick(&[L, R, NSM, ON]); t.push(pick_char(rng, c)); }
            t
        }
        "brk" => {
            let mut t = vec![];
            // around the 63-entry limit of BD16 the exact count matters
            let n = match rng.below(8) {
                0 | 1 => rng.range(61, 67),
                2 | 3 => rng.range(55, 130),
                _ => rng.range(2, 40),
            };
            for _ in 0..rng.range(0, 3) {
                let c = *rng.pick(&[L, R, AL, EN]);
                t.push(pick_char(rng, c));
            }
            let kinds = rng.range(1, 4);
            // completed pairs BEFORE the pending openers (they must survive an overflow of the 63-entry stack),
            // sometimes more than 63 of them (completed pairs do not count against the limit)
            let pre_pairs = match rng.below(40) { 0..=5 => rng.range(1, 4), 6..=11 => rng.range(60, 70), 12 => rng.range(255, 262), _ => 0 };
            for _ in 0..pre_pairs {
                let k = rng.below(kinds);
                t.push(OPEN_BRACKETS[k]);
                let c = *rng.pick(&[L, R, AL, EN]);
                t.push(pick_char(rng, c));
                t.push(CLOSE_BRACKETS[k]);
                if rng.chance(1, 3) { let c = *rng.pick(&[L, R, WS, NSM]); t.push(pick_char(rng, c)); }
            }
            let mut opened = vec![];
            for _ in 0..n {
                let k = rng.below(kinds);
                t.push(OPEN_BRACKETS[k]);
                opened.push(k);
                if rng.chance(1, 10) {
                    let c = *rng.pick(&[L, R, AL, EN, AN, NSM, BN, WS]);
                    t.push(pick_char(rng, c));
                }
                if rng.chance(1, 25) {
                    // an isolate with its own content, splitting the level run
                    t.push(*rng.pick(&[LRI_C, RLI_C]));
                    let c = *rng.pick(&[L, R, EN]);
                    t.push(pick_char(rng, c));
                    if rng.chance(1, 2) {
                        t.push(OPEN_BRACKETS[0]);
                        t.push(CLOSE_BRACKETS[0]);
                    }
                    t.push(PDI_C);
                }
            }
            let c = *rng.pick(&[L, R, AL, EN, AN]);
            t.push(pick_char(rng, c));
            let closes = rng.range(0, n + 3);
            for _ in 0..closes {
                let k = if rng.chance(5, 6) { opened.pop().unwrap_or(0) } else { rng.below(kinds) };
                t.push(CLOSE_BRACKETS[k]);
                if rng.chance(1, 10) {
                    let c = *rng.pick(&[L, R, NSM, BN, EN, WS]);
                    t.push(pick_char(rng, c));
                }
                if rng.chance(1, 25) {
                    t.push(*rng.pick(&[LRI_C, RLI_C]));
                    let c = *rng.pick(&[L, R, EN]);
                    t.push(pick_char(rng, c));
                    t.push(PDI_C);
                }
            }
            for _ in 0..rng.range(0, 3) {
                let c = *rng.pick(&[L, R, AL, EN]);
                t.push(pick_char(rng, c));
            }
            t
        }
        "n0" => {
            // bracket pairs whose N0 resolution matters: [context] OPEN inside CLOSE [NSM/BN]* [neutral] [strong]
            let mut t = vec![];
            let strongs = [L, R, AL, EN, AN];
            for _ in 0..rng.range(0, 2) {
                let c = *rng.pick(&strongs);
                t.push(*rng.pick(pool(c)));
                if rng.chance(1, 2) { t.push(pick_char(rng, WS)); }
            }
            let npairs = rng.range(1, 3);
            // sometimes the pair sits in an embedding that is closed right after the closing bracket and
            // followed, at the same level, by an override: the NSM after the bracket then has an
            // overridden type but is still "originally NSM"
            let wrap = rng.chance(1, 5);
            if wrap { t.push(*rng.pick(&[LRE_C, RLE_C])); let c = *rng.pick(&strongs); t.push(pick_char(rng, c)); }
            // sometimes the pairs are the content of an isolate, and the content starts with removed characters
            // standing directly before the opening bracket (they are stored in the initiator's level run, i.e.
            // outside the content's isolating run sequence)
            let iso = !wrap && rng.chance(1, 5);
            if iso {
                t.push(*rng.pick(&[LRI_C, RLI_C, FSI_C]));
                for _ in 0..rng.range(1, 2) { t.push(*rng.pick(&[0xADu32, 0x200B, LRE_C, RLE_C, PDF_C, 0x2060])); }
            }
            for pi in 0..npairs {
                let k = pick_bracket(rng);
                let k2 = if rng.chance(1, 8) { pick_bracket(rng) } else { k };
                if !(iso && pi == 0) && rng.chance(1, 4) { t.push(*rng.pick(pool(BN))); }
                t.push(OPEN_BRACKETS[k]);
                for _ in 0..rng.range(0, 2) { if rng.chance(1, 3) { let c = *rng.pick(&[NSM, BN]); t.push(*rng.pick(pool(c))); } }
                for _ in 0..rng.range(0, 3) {
                    let c = *rng.pick(&[L, R, AL, EN, AN, ON, WS, NSM, ET]);
                    t.push(*rng.pick(pool(c)));
                }
                if rng.chance(1, 6) {
                    t.push(*rng.pick(&[LRI_C, RLI_C, FSI_C]));
                    let c = *rng.pick(&strongs);
                    t.push(pick_char(rng, c));
                    t.push(PDI_C);
                }
                t.push(CLOSE_BRACKETS[k2]);
                if wrap && pi + 1 == npairs { t.push(PDF_C); t.push(*rng.pick(&[LRO_C, RLO_C, LRE_C, RLE_C])); }
                for _ in 0..rng.range(0, 2) { let c = *rng.pick(&[NSM, NSM, BN]); t.push(*rng.pick(pool(c))); }
                if rng.chance(1, 2) { let c = *rng.pick(&[WS, ON, CS]); t.push(*rng.pick(pool(c))); }
                if rng.chance(2, 3) {
                    let c = *rng.pick(&strongs);
                    t.push(*rng.pick(pool(c)));
                }
            }
            if iso {
                t.push(PDI_C);
                for _ in 0..rng.range(0, 2) { let c = *rng.pick(&[EN, AN, ON, WS, L, R]); t.push(*rng.pick(pool(c))); }
            }
            t
        }
        "weak" => {
            let w = weights(rng, &[(EN, 4), (ES, 3), (ET, 4), (CS, 3), (AN, 3), (NSM, 3), (BN, 3), (AL, 2)], true);
            let n = rng.range(2, 16);
            (0..n).map(|_| { let c = pick_class(rng, &w); *rng.pick(pool(c)) }).collect()
        }
        "brk-order" => {
            // nested pairs whose N0 results depend on the ORDER in which pairs are resolved (BD16: by the position of the
            // opening bracket): the inner pair holds only the opposite direction, so it looks at the context before it
            // — which is the outer opener, re-typed to the embedding direction if the outer pair was resolved first —
            // and then 0..70 more openers, so that the 63-limit is hit after those pairs were found
            let rtl = rng.chance(1, 2);
            let (e_ch, o_ch) = if rtl { (0x5D0u32, 0x61u32) } else { (0x61, 0x5D0) };
            let (k1, k2, k3) = (pick_bracket(rng), pick_bracket(rng), pick_bracket(rng));
            let mut t = vec![e_ch, 0x20, o_ch];
            t.push(OPEN_BRACKETS[k1]);
            t.push(OPEN_BRACKETS[k2]);
            t.push(o_ch + 1);
            t.push(CLOSE_BRACKETS[k2]);
            t.push(e_ch + 1);
            t.push(CLOSE_BRACKETS[k1]);
            let k = *rng.pick(&[0usize, 5, 61, 62, 63, 64, 64, 65, 66, 70]);
            for _ in 0..k { t.push(OPEN_BRACKETS[k3]); }
            if rng.chance(1, 3) { let cl = *rng.pick(&[L, R, EN]); t.push(pick_char(rng, cl)); }
            for _ in 0..rng.range(0, 3) { t.push(CLOSE_BRACKETS[k3]); }
            t
        }
        "deep-count" => {
            // the overflow COUNTS of X5a-X7 around 256: the depth limit reached, then 250-300 further initiators of one
            // kind left open, a letter, as many terminators, a letter, the terminators of the valid part, a letter
            let iso = rng.chance(1, 3);
            let mut t = vec![];
            if iso { t.push(*rng.pick(&[LRI_C, RLI_C])); }
            let fill = *rng.pick(&[LRE_C, RLE_C, LRE_C, LRO_C]);
            for _ in 0..62 { t.push(fill); }
            t.push(0x77);
            let over = *rng.pick(&[250usize, 254, 255, 256, 256, 257, 258, 300]);
            let kind = if iso { *rng.pick(&[LRI_C, RLI_C, FSI_C]) } else { *rng.pick(&[LRE_C, RLE_C, LRO_C, RLO_C]) };
            for _ in 0..over { t.push(kind); }
            t.push(*rng.pick(&[0x78u32, 0x5D0]));
            let closing = (over + rng.range(0, 2)).saturating_sub(rng.range(0, 2));
            for _ in 0..closing { t.push(if iso { PDI_C } else { PDF_C }); }
            t.push(*rng.pick(&[0x79u32, 0x5D1, 0x31]));
            for _ in 0..rng.range(58, 64) { t.push(PDF_C); }
            if iso { t.push(PDI_C); }
            t.push(*rng.pick(&[0x7Au32, 0x5D2]));
            t
        }
        "stale" => {
            // state that one iteration of a rule's loop must not hand to a much later one: an X9-removed character (or
            // an ET run, an NI run) early in the sequence, in a position where its type matters — inside a neutral run
            // between two strong characters, or alone inside a bracket pair — and, some characters later, the
            // construct that consumes such pending state (ET EN for W5, a separator for W4/W6, a bracket pair for N0)
            let mut t = vec![];
            let s1 = *rng.pick(&[R, AL, L]);
            let s2 = *rng.pick(&[R, L, L]);
            t.push(pick_char(rng, s1));
            let bracket = rng.chance(1, 3);
            let k = pick_bracket(rng);
            if bracket { t.push(OPEN_BRACKETS[k]); } else { for _ in 0..rng.range(1, 2) { let c = *rng.pick(&[ON, WS, ON]); t.push(pick_char(rng, c)); } }
            for _ in 0..rng.range(1, 2) { t.push(*rng.pick(&[0x200Bu32, 0xAD, 0x2060, 0x200C, PDF_C, 0xFEFF])); }
            if bracket { t.push(CLOSE_BRACKETS[k]); } else { for _ in 0..rng.range(1, 2) { let c = *rng.pick(&[ON, WS, ON]); t.push(pick_char(rng, c)); } }
            if rng.chance(3, 4) { t.push(0x20); }
            t.push(pick_char(rng, s2));
            for _ in 0..rng.range(0, 3) { let c = *rng.pick(&[WS, L, R, ON, EN, WS]); t.push(pick_char(rng, c)); }
            match rng.below(4) {
                0 | 1 => { for _ in 0..rng.range(1, 2) { t.push(pick_char(rng, ET)); } t.push(pick_char(rng, EN)); }
                2 => { t.push(pick_char(rng, EN)); let sc = *rng.pick(&[ES, CS]); t.push(pick_char(rng, sc)); t.push(pick_char(rng, EN)); }
                _ => { let k2 = pick_bracket(rng); t.push(OPEN_BRACKETS[k2]); let c = *rng.pick(&[L, R, EN]); t.push(pick_char(rng, c)); t.push(CLOSE_BRACKETS[k2]); }
            }
            for _ in 0..rng.range(0, 2) { let c = *rng.pick(&[WS, L, R, ON]); t.push(pick_char(rng, c)); }
            t
        }
        _ => gen_text(rng, "short"),
    }
}

/// index of a bracket pair: half of the time one of the seven common ones, otherwise any of the 64
pub fn pick_bracket(rng: &mut Rng) -> usize {
    if rng.chance(1, 2) { rng.below(7) } else { rng.below(OPEN_BRACKETS.len()) }
}

pub fn pick_mode<'a>(rng: &mut Rng, modes: &[(&'a str, usize)]) -> &'a str {
    let total: usize = modes.iter().map(|m| m.1).sum();
    let mut k = rng.below(total);
    for m in modes {
        if k < m.1 {
            return m.0;
        }
        k -= m.1;
    }
    modes[0].0
}

pub fn pick_dir(rng: &mut Rng) -> Dir {
    *rng.pick(&[Dir::Auto, Dir::Auto, Dir::L0, Dir::L1, Dir::L1])
}

/// scalars -> UTF-16 units, optionally damaged with unpaired surrogates
/// an unpaired-surrogate value; the ends of the two ranges one time in four
fn hi_sur(rng: &mut Rng) -> u32 { if rng.chance(1, 4) { *rng.pick(&[0xD800u32, 0xDBFF]) } else { 0xD800 + rng.below(0x400) as u32 } }
fn lo_sur(rng: &mut Rng) -> u32 { if rng.chance(1, 4) { *rng.pick(&[0xDC00u32, 0xDFFF]) } else { 0xDC00 + rng.below(0x400) as u32 } }

pub fn to_units(rng: &mut Rng, scalars: &[u32], damage: bool) -> Vec<u32> {
    let mut u = vec![];
    for &c in scalars {
        if c >= 0x10000 {
            let v = c - 0x10000;
            u.push(0xD800 + (v >> 10));
            u.push(0xDC00 + (v & 0x3FF));
        } else {
            u.push(c);
        }
        if damage && rng.chance(1, 6) {
            match rng.below(9) {
                4 => {
                    u.push(lo_sur(rng));
                    u.push(lo_sur(rng));
                }
                5 => {
                    u.push(hi_sur(rng));
                    u.push(lo_sur(rng));
                    u.push(lo_sur(rng));
                }
                6 => {
                    u.push(hi_sur(rng));
                    u.push(*rng.pick(&[0x5D0u32, 0x627, 0x31, 0x661, 0x202B, 0x2067, 0x202C, 0x2069, 0xA]));
                }
                7 => {
                    // two (three) unpaired HIGH surrogates in a row, nothing low after them
                    u.push(hi_sur(rng));
                    u.push(hi_sur(rng));
                    if rng.chance(1, 3) { u.push(hi_sur(rng)); }
                }
                8 => {
                    u.push(lo_sur(rng));
                    u.push(hi_sur(rng));
                    u.push(hi_sur(rng));
                    u.push(*rng.pick(&[0x5D0u32, 0x61, 0x31, 0x2069, 0x202C]));
                }
                0 => u.push(hi_sur(rng)),
                1 => u.push(lo_sur(rng)),
                2 => {
                    u.push(lo_sur(rng));
                    u.push(hi_sur(rng));
                }
                _ => {
                    u.push(hi_sur(rng));
                    u.push(hi_sur(rng));
                    u.push(lo_sur(rng));
                }
            }
        }
    }
    u
}

pub const NONFORMAT: [BidiClass; 14] = [L, R, AL, EN, ES, ET, AN, CS, NSM, BN, B, S, WS, ON];
const CARRIERS_A: [u32; 16] = [0x61, 0x62, 0x63, 0x64, 0x65, 0x66, 0x67, 0x68, 0x31, 0x32, 0x28, 0x29, 0x5B, 0x5D, 0x20, 0xA];
const CARRIERS_B: [u32; 19] = [0xE0, 0x5D0, 0x905, 0x10000, 0x1F600, 0x3042, 0x627, 0x20AC, 0x1D7CE, 0x661, 0x3008, 0x3009, 0x10400, 0xFF09, 0x2003, 0x2029, 0x2329, 0x232A, 0xFFFD];

/// A random data source over a small alphabet; returns the spec and the alphabet.
pub fn gen_ds(rng: &mut Rng) -> (DsSpec, Vec<u32>) {
    // all-ASCII alphabets matter too: a data source may give RTL classes to ASCII characters
    let carriers: Vec<u32> = match rng.below(4) {
        0 => CARRIERS_A.to_vec(),
        1 | 2 => CARRIERS_A.iter().chain(CARRIERS_B.iter()).copied().collect(),
        _ => CARRIERS_B.to_vec(),
    };
    let n = rng.range(3, carriers.len().min(14));
    let mut entries: Vec<(u32, BidiClass, Option<(u32, bool)>)> = vec![];
    let mut used = vec![];
    while entries.len() < n {
        let c = *rng.pick(&carriers);
        if used.contains(&c) {
            continue;
        }
        used.push(c);
        let mut cl = *rng.pick(&NONFORMAT);
        if cl == B && rng.chance(2, 3) {
            cl = ON;
        }
        entries.push((c, cl, None));
    }
    // brackets among the ON entries (and sometimes on a non-ON entry: must be ignored)
    let ons: Vec<usize> = (0..entries.len()).filter(|&i| entries[i].1 == ON || rng.chance(1, 10)).collect();
    let mut i = 0;
    // keys: usually the opening character itself; sometimes code points that real Unicode treats as
    // canonically equivalent (U+2329 / U+3008) or otherwise related -- the source's keys are all that counts
    let odd_keys = [0x2329u32, 0x3008, 0x28, 0x5B, 0x232A, 0x3009];
    let use_odd = rng.chance(1, 3);
    let mut nk = rng.below(odd_keys.len());
    while i + 1 < ons.len() {
        let (o, c) = (ons[i], ons[i + 1]);
        let key = if use_odd { nk += 1; odd_keys[nk % odd_keys.len()] } else { entries[o].0 };
        entries[o].2 = Some((key, true));
        entries[c].2 = Some((key, false));
        i += 2;
    }
    let dflt = *rng.pick(&[L, R, ON, EN, WS, AL]);
    (DsSpec { entries, dflt }, used)
}

pub fn gen_ds_text(rng: &mut Rng, alphabet: &[u32]) -> Vec<u32> {
    let n = if rng.chance(1, 3) { rng.range(3, 9) } else { rng.range(1, 24) };
    let fmt = [LRE_C, RLE_C, PDF_C, LRO_C, RLO_C, LRI_C, RLI_C, FSI_C, PDI_C];
    let fmt_den = if alphabet.iter().all(|&c| c < 0x80) && rng.chance(2, 3) { 1000 } else { 6 };
    let mut t: Vec<u32> = (0..n)
        .map(|_| if rng.chance(1, fmt_den) { *rng.pick(&fmt) } else { *rng.pick(alphabet) })
        .collect();
    if rng.chance(1, 6) {
        // code points a "previous character" memo or a sentinel is typically initialised with — whatever class the
        // source gives them (its default, mostly) is the class they have, at the very start of the text too
        let c = *rng.pick(&[0x0u32, 0x0, 0x20, 0xFFFD, 0x10FFFF, 0x41, 0xFFFF]);
        let k = if rng.chance(2, 3) { 0 } else { rng.below(t.len() + 1) };
        for _ in 0..rng.range(1, 3) { t.insert(k, c); }
    }
    t
}

fn char_starts(enc: Enc, text: &[u32]) -> Vec<usize> {
    // boundaries in code units, including the end
    let mut v = vec![];
    match enc {
        Enc::U8 => {
            let mut b = 0;
            for &c in text {
                v.push(b);
                b += char::from_u32(c).map(|c| c.len_utf8()).unwrap_or(3);
            }
            v.push(b);
        }
        Enc::U16 => {
            let u = to_units16(text);
            for s in lossy_segments(&u) {
                v.push(s.0);
            }
            v.push(u.len());
        }
    }
    v
}

/// choose a (paragraph, line) pair on character boundaries from the crate's own paragraphs
pub fn pick_line(rng: &mut Rng, enc: Enc, api: Api, dir: Dir, text: &[u32], ds: &Option<DsSpec>) -> Option<(usize, usize, usize)> {
    let an = analyse(enc, api, dir, text, ds)?;
    if an.paras.is_empty() {
        return None;
    }
    let pi = rng.below(an.paras.len());
    let p = &an.paras[pi];
    let bounds: Vec<usize> = char_starts(enc, text).into_iter().filter(|&b| p.range.start <= b && b <= p.range.end).collect();
    if bounds.len() < 2 {
        return None;
    }
    match rng.below(5) {
        0 => Some((pi, p.range.start, p.range.end)),
        4 => {
            // a one- or two-character line anywhere (reaches lines lying wholly at one level)
            let i = rng.below(bounds.len() - 1);
            let j = (i + rng.range(1, 2)).min(bounds.len() - 1);
            Some((pi, bounds[i], bounds[j]))
        }
        1 => {
            // drop the trailing character(s)
            let k = rng.range(1, (bounds.len() - 1).min(3));
            Some((pi, bounds[0], bounds[bounds.len() - 1 - k].max(bounds[1])))
        }
        _ => {
            let i = rng.below(bounds.len() - 1);
            let j = rng.range(i + 1, bounds.len() - 1);
            Some((pi, bounds[i], bounds[j]))
        }
    }
}

fn gen_levels(rng: &mut Rng) -> Vec<u8> {
    let n = match rng.below(10) {
        0 => 0,
        1 => 1,
        2..=5 => rng.range(2, 12),
        6 | 7 => rng.range(12, 60),
        8 => rng.range(60, 140),       // around 64 / 128 elements (block-wise scans)
        _ => rng.range(140, 400),
    };
    let base = match rng.below(7) {
        0 => 120,
        1 => rng.range(100, 124),
        2 => rng.range(0, 60),
        3 => rng.range(60, 100),
        _ => 0,
    } as u8;
    let spread = *rng.pick(&[1usize, 2, 3, 6]);
    match rng.below(4) {
        0 => (0..n).map(|_| (base as usize + rng.below(spread + 1)).min(126) as u8).collect(),
        1 => {
            // nested shape: walk up and down by one
            let mut cur = base as i32;
            (0..n)
                .map(|_| {
                    cur += rng.below(3) as i32 - 1;
                    cur = cur.clamp(base as i32, (base as i32 + 6).min(126));
                    cur as u8
                })
                .collect()
        }
        2 => {
            let v = (base as usize + rng.below(spread + 1)).min(126) as u8;
            vec![v; n]
        }
        _ => (0..n).map(|_| if rng.chance(1, 6) { 126 } else { (base as usize + rng.below(spread + 2)).min(126) as u8 }).collect(),
    }
}

fn balance(content: &[u32]) -> Vec<u32> {
    let mut out = vec![];
    let mut depth = 0usize;
    for &c in content {
        let is_b = matches!(c, 0xA | 0xD | 0x1C | 0x1D | 0x1E | 0x85 | 0x2029);
        if is_b {
            continue;
        }
        if c == LRI_C || c == RLI_C || c == FSI_C {
            depth += 1;
        } else if c == PDI_C {
            if depth == 0 {
                continue;
            }
            depth -= 1;
        }
        out.push(c);
    }
    for _ in 0..depth {
        out.push(PDI_C);
    }
    out
}

fn bidi_case(rng: &mut Rng, modes: &[(&'static str, usize)], allow_ds: bool) -> (String, Input) {
    // a stream's own list of text modes says where its property is most likely to break; one case in seven is drawn
    // from EVERY mode instead, so that no stream lacks a shape that another stream has (the blind seeded changes kept
    // finding such holes: no deep nesting in C08's stream, no arbitrary scalar values in C07's, ...)
    let mode = if rng.chance(1, 7) { pick_mode(rng, &MODES_ALL) } else { pick_mode(rng, modes) };
    let enc = if rng.chance(2, 3) { Enc::U8 } else { Enc::U16 };
    let api = if rng.chance(3, 4) { Api::B } else { Api::P };
    let dir = pick_dir(rng);
    if allow_ds && rng.chance(1, 6) {
        let (spec, alpha) = gen_ds(rng);
        let t = gen_ds_text(rng, &alpha);
        let text = if enc == Enc::U16 { to_units(rng, &t, false) } else { t };
        return (format!("{}+ds", mode), Input::Bidi { enc, api, dir, text, ds: Some(spec) });
    }
    let t = gen_text(rng, mode);
    let text = if enc == Enc::U16 { let dmg = rng.chance(1, 3); to_units(rng, &t, dmg) } else { t };
    (mode.to_string(), Input::Bidi { enc, api, dir, text, ds: None })
}

fn line_case(rng: &mut Rng, modes: &[(&'static str, usize)]) -> (String, Input) {
    let (mode, inp) = bidi_case(rng, modes, true);
    if let Input::Bidi { enc, api, dir, text, ds } = inp.clone() {
        if let Some((para, a, b)) = pick_line(rng, enc, api, dir, &text, &ds) {
            return (mode, Input::Line { enc, api, dir, text, ds, para, a, b });
        }
    }
    (mode, inp)
}

const MODES_ALL: [(&str, usize); 22] =
    [("anychar", 4), ("edges", 2), ("manyparas", 1), ("removed", 1), ("short", 12), ("long", 4), ("iso", 6), ("deep", 2), ("brk", 4), ("sep", 4), ("words", 6), ("weak", 6), ("para", 4), ("max", 2), ("deep-paras", 1), ("stale", 3), ("brk-order", 2), ("deep-count", 1), ("limit", 2), ("n0", 8), ("deepiso", 1), ("siblings", 1)];

/// Exhaustive small scope (support for the thorough tier, never presented as proof): the `n`-th class
/// sequence over `alphabet`, shortest first, crossed with the three base directions; representatives rotate.
pub const EXH_FULL: [BidiClass; 23] = ALL_CLASSES;
pub const EXH_REDUCED: [BidiClass; 12] = [L, R, AL, EN, ES, ET, AN, CS, NSM, BN, ON, WS];
pub const EXH_CTRL: [BidiClass; 10] = [L, R, EN, ON, LRE, RLE, PDF, LRI, RLI, PDI];

pub fn exh_total(alpha: usize, max_len: usize) -> usize {
    let mut t = 0usize;
    let mut p = 1usize;
    for _ in 0..=max_len {
        t += p * 3;
        p *= alpha;
    }
    t
}

pub fn exh_case(alphabet: &[BidiClass], n: usize, as_line: bool) -> Input {
    let dir = [Dir::Auto, Dir::L0, Dir::L1][n % 3];
    let mut k = n / 3;
    let mut len = 0usize;
    let mut p = 1usize;
    while k >= p {
        k -= p;
        p *= alphabet.len();
        len += 1;
    }
    let mut text = vec![];
    for i in 0..len {
        let c = alphabet[k % alphabet.len()];
        k /= alphabet.len();
        let pl = pool(c);
        text.push(pl[(n / 7 + i) % pl.len()]);
    }
    let enc = if (n / 3) % 2 == 0 { Enc::U8 } else { Enc::U16 };
    let api = if (n / 6) % 4 == 3 { Api::P } else { Api::B };
    let text = if enc == Enc::U16 {
        let mut u = vec![];
        for &c in &text {
            if c >= 0x10000 { let v = c - 0x10000; u.push(0xD800 + (v >> 10)); u.push(0xDC00 + (v & 0x3FF)); } else { u.push(c); }
        }
        u
    } else { text };
    if as_line && len > 0 {
        // the whole first paragraph minus nothing, or a middle piece, on character boundaries
        let bounds = char_starts(enc, &text);
        let a = bounds[(n / 11) % (bounds.len() - 1)];
        let rest: Vec<usize> = bounds.iter().copied().filter(|&b| b > a).collect();
        let b = rest[(n / 13) % rest.len()];
        if let Some(an) = analyse(enc, api, dir, &text, &None) {
            if let Some(pi) = an.paras.iter().position(|p| p.range.start <= a && b <= p.range.end) {
                return Input::Line { enc, api, dir, text, ds: None, para: pi, a, b };
            }
        }
    }
    Input::Bidi { enc, api, dir, text, ds: None }
}

/// the `n`-th generated case of property `prop`
pub fn gen_case(prop: &str, rng: &mut Rng, n: usize, thorough: bool) -> (String, Input) {
    let _ = thorough;
    match prop {
        "STAGE" => {
            let (mode, inp) = bidi_case(rng, &MODES_ALL, true);
            match inp {
                Input::Bidi { enc, dir, text, ds, .. } => (mode, Input::Stage { enc, dir, text, ds }),
                other => (mode, other),
            }
        }
        "XFULL" => ("exh-full".into(), exh_case(&EXH_FULL, n, false)),
        "XRED" => ("exh-reduced".into(), exh_case(&EXH_REDUCED, n, false)),
        "XCTRL" => ("exh-ctrl".into(), exh_case(&EXH_CTRL, n, false)),
        "XLINE" => ("exh-line".into(), exh_case(&EXH_FULL, n, true)),
        "C01" => {
            if n < 4 * OPEN_BRACKETS.len() {
                // every bracket pair of the reference once in each of four N0-sensitive templates (a pair that is
                // not recognised falls through to N1/N2 and gets different levels)
                let k = n / 4;
                let (o, c) = (OPEN_BRACKETS[k], CLOSE_BRACKETS[k]);
                let (t, dir): (Vec<u32>, Dir) = match n % 4 {
                    0 => (vec![0x5D0, o, 0x5D1, 0x20, 0x61, c, 0x5D2], Dir::L0),
                    1 => (vec![0x61, o, 0x62, 0x20, 0x5D0, c, 0x63], Dir::L1),
                    2 => (vec![0x5D0, 0x20, o, 0x61, c, 0x20, 0x62], Dir::Auto),
                    _ => (vec![0x61, 0x20, 0x5D0, o, 0x31, c, 0x300, 0x20, 0x62], Dir::L0),
                };
                let enc = if k % 2 == 0 { Enc::U8 } else { Enc::U16 };
                let text = if enc == Enc::U16 { to_units(rng, &t, false) } else { t };
                return ("brk-all".into(), Input::Bidi { enc, api: Api::B, dir, text, ds: None });
            }
            let m = n - 4 * OPEN_BRACKETS.len();
            if m >= 48 && m < 52 || rng.chance(1, 2500) {
                // a paragraph longer than 65,535 code units: the tail must resolve as after a short prefix
                let tm = pick_mode(rng, &[("n0", 3), ("short", 2), ("weak", 1), ("iso", 1)]);
                let mut tail: Vec<u32> = gen_text(rng, tm).into_iter().filter(|c| !matches!(*c, 0xA | 0xD | 0x1C | 0x1D | 0x1E | 0x85 | 0x2029)).collect();
                tail.truncate(24);
                let enc = if rng.chance(1, 2) { Enc::U8 } else { Enc::U16 };
                let tail = if enc == Enc::U16 { to_units(rng, &tail, false) } else { tail };
                return ("huge".into(), Input::MetaLong { enc, tail, dir: pick_dir(rng), n: 65_500 + rng.below(200) });
            }
            if m < 48 {
                // the BD16 limit, deterministically: k = 61..=66 openers pending at once in ONE isolating run sequence,
                // in contexts where "paired" and "not paired" resolve differently (N0 vs N1/N2), 2 templates x 2
                // directions x 2 encodings; with k >= 64 nothing may pair, with k <= 63 everything does
                let k = 61 + m % 6;
                let v = m / 6;                  // 0..8
                let (o, c) = if v % 2 == 0 { (0x28u32, 0x29u32) } else { (0xFF08, 0xFF09) };
                let mut t: Vec<u32> = if (v / 2) % 2 == 0 { vec![0x61, 0x20, 0x5D0] } else { vec![0x5D0, 0x20, 0x61] };
                for _ in 0..k { t.push(o); }
                t.extend_from_slice(if (v / 2) % 2 == 0 { &[0x5D1, 0x20, 0x62] } else { &[0x62, 0x20, 0x5D1] });
                for _ in 0..k { t.push(c); }
                t.push(if (v / 2) % 2 == 0 { 0x5D2 } else { 0x63 });
                let enc = if v / 4 == 0 { Enc::U8 } else { Enc::U16 };
                let dir = if (v / 2) % 2 == 0 { Dir::L0 } else { Dir::L1 };
                let text = if enc == Enc::U16 { to_units(rng, &t, false) } else { t };
                return ("brk-limit".into(), Input::Bidi { enc, api: Api::B, dir, text, ds: None });
            }
            bidi_case(rng, &MODES_ALL, true)
        }
        "C02" => {
            if n == 0 {
                return ("empty".into(), Input::Bidi { enc: Enc::U8, api: Api::B, dir: Dir::Auto, text: vec![], ds: None });
            }
            if n == 1 {
                return ("empty".into(), Input::Bidi { enc: Enc::U16, api: Api::B, dir: Dir::L1, text: vec![], ds: None });
            }
            bidi_case(rng, &[("para", 10), ("iso", 8), ("short", 4), ("words", 2), ("sep", 2), ("deepiso", 1), ("deep", 1), ("deep-paras", 1), ("manyparas", 1), ("anychar", 3)], true)
        }
        "C05" | "C06" if n == 3 => ("stress".into(), Input::Stress { n: 3_000 }),     // 6,000 runs in one line, LTR and forced RTL
        "C03" | "C05" | "C06" if n < 3 => {
            // a line longer than 65,535 code units (the whole of a one-paragraph text), against the same tail after `a SP`
            let tm = pick_mode(rng, &[("n0", 2), ("short", 2), ("words", 2)]);
            let mut tail: Vec<u32> = gen_text(rng, tm).into_iter().filter(|c| !matches!(*c, 0xA | 0xD | 0x1C | 0x1D | 0x1E | 0x85 | 0x2029)).collect();
            tail.truncate(24);
            let enc = if n % 2 == 0 { Enc::U8 } else { Enc::U16 };
            let tail = if enc == Enc::U16 { to_units(rng, &tail, false) } else { tail };
            ("huge".into(), Input::MetaLong { enc, tail, dir: pick_dir(rng), n: 65_500 + rng.below(200) })
        }
        "C03" | "C06" => line_case(rng, &[("sep", 5), ("short", 3), ("words", 3), ("iso", 2), ("para", 2), ("long", 1), ("siblings", 1), ("edges", 3)]),
        "C05" => line_case(rng, &[("sep", 3), ("short", 3), ("words", 3), ("iso", 2), ("deep", 1), ("long", 2), ("max", 2), ("siblings", 1), ("edges", 2)]),
        "C04" => ("levels".into(), Input::Rv { levels: gen_levels(rng) }),
        "C07" if n == 0 => ("stress".into(), Input::Stress { n: 150_000 }),
        "C07" if n == 1 => ("stress".into(), Input::Stress { n: 300 }),
        "C07" => match rng.below(10) {
            0..=3 => bidi_case(rng, &[("deep", 3), ("brk", 3), ("sep", 2), ("iso", 2), ("para", 2), ("short", 2), ("empty", 1), ("max", 2), ("removed", 2), ("siblings", 1), ("anychar", 3), ("deep-count", 1), ("brk-order", 1)], true),
            4..=8 => line_case(rng, &[("deep", 3), ("max", 4), ("brk", 2), ("sep", 3), ("iso", 2), ("para", 2), ("short", 2), ("removed", 2), ("anychar", 2)]),
            _ => {
                let m = pick_mode(rng, &[("iso", 2), ("para", 2), ("short", 1)]);
                let t = gen_text(rng, m);
                let enc = if rng.chance(1, 2) { Enc::U8 } else { Enc::U16 };
                let text = if enc == Enc::U16 { to_units(rng, &t, true) } else { t };
                ("basedir".into(), Input::BaseDir { enc, text, ds: None })
            }
        },
        "C08" => {
            if rng.chance(1, 2) {
                bidi_case(rng, &[("sep", 3), ("weak", 3), ("brk", 2), ("short", 2), ("iso", 1), ("words", 2), ("n0", 4), ("deep", 1), ("deepiso", 1), ("max", 1), ("deep-count", 1), ("anychar", 1)], true)
            } else {
                line_case(rng, &[("sep", 4), ("weak", 2), ("short", 2), ("words", 2), ("n0", 2), ("para", 2), ("deep", 1), ("deepiso", 1), ("max", 1)])
            }
        }
        "C09" => {
            let mode = pick_mode(rng, &[("short", 4), ("words", 3), ("sep", 2), ("iso", 2), ("weak", 2), ("para", 2), ("brk", 1)]);
            let t = gen_text(rng, mode);
            let dmg = rng.chance(1, 2);
            let units = to_units(rng, &t, dmg);
            let dir = pick_dir(rng);
            // a line on UTF-16 character boundaries
            let u16s = to_units16(&units);
            let segs = lossy_segments(&u16s);
            let mut bounds: Vec<usize> = segs.iter().map(|s| s.0).collect();
            bounds.push(u16s.len());
            let line = if bounds.len() >= 2 {
                let i = rng.below(bounds.len() - 1);
                let j = rng.range(i + 1, bounds.len() - 1);
                (bounds[i], bounds[j])
            } else {
                (0, 0)
            };
            let ds = if rng.chance(1, 8) { Some(gen_ds(rng).0) } else { None };
            (mode.into(), Input::Meta9 { units, dir, ds, line })
        }
        "C10" => {
            let mode = if rng.chance(1, 7) { pick_mode(rng, &MODES_ALL) } else { pick_mode(rng, &[("para", 6), ("iso", 2), ("sep", 2), ("brk", 1), ("words", 2), ("manyparas", 1), ("deep-paras", 3), ("deepiso", 1)]) };
            let mut t = gen_text(rng, mode);
            if rng.chance(1, 2) {
                // make sure there are several paragraphs with unmatched openers before the separator
                let k = rng.below(t.len() + 1);
                t.insert(k, *rng.pick(pool(B)));
                let k2 = rng.below(k + 1);
                t.insert(k2, *rng.pick(&[LRE_C, RLE_C, RLO_C, LRI_C, RLI_C, FSI_C, 0x28, 0x5B]));
            }
            let enc = if rng.chance(2, 3) { Enc::U8 } else { Enc::U16 };
            // UTF-16: ill-formed too (each unpaired surrogate is one character for both analysis types)
            let text = if enc == Enc::U16 { let dmg = rng.chance(1, 3); to_units(rng, &t, dmg) } else { t };
            (mode.into(), Input::Meta10 { enc, text, dir: pick_dir(rng) })
        }
        "C11" => {
            if rng.chance(2, 3) {
                bidi_case(rng, &[("deep", 4), ("brk", 4), ("max", 2), ("limit", 5), ("deep-paras", 1), ("brk-order", 2), ("deep-count", 2)], false)
            } else {
                line_case(rng, &[("deep", 3), ("max", 4), ("brk", 2)])
            }
        }
        "C12" => {
            if rng.chance(1, 7) {
                // two bracket families whose KEYS are code points that real Unicode relates (canonical
                // equivalents, fullwidth forms): only the source's keys may decide what pairs
                let rel = [(0x2329u32, 0x3008u32), (0x3008, 0x2329), (0x232A, 0x3009), (0x28, 0xFF08), (0x5B, 0xFF3B), (0x2329, 0x232A)];
                let (k1, k2) = *rng.pick(&rel);
                let chars: [u32; 4] = if rng.chance(1, 2) { [0x3C, 0x3E, 0xAB, 0xBB] } else { [0x2329, 0x232A, 0x3008, 0x3009] };
                let sr = 0x5D0u32; let sl = 0x61u32;
                let spec = DsSpec { entries: vec![
                    (chars[0], ON, Some((k1, true))), (chars[1], ON, Some((k1, false))),
                    (chars[2], ON, Some((k2, true))), (chars[3], ON, Some((k2, false))),
                    (sr, R, None), (sl, L, None), (0x20, WS, None), (0x31, EN, None)], dflt: ON };
                let mut t = vec![];
                for _ in 0..rng.range(0, 2) { t.push(*rng.pick(&[sr, sl, 0x20])); }
                let o = *rng.pick(&[chars[0], chars[2]]);
                let c = *rng.pick(&[chars[1], chars[3]]);
                t.push(*rng.pick(&[sr, sl]));
                t.push(o);
                for _ in 0..rng.range(0, 2) { t.push(*rng.pick(&[sr, sl, 0x20, 0x31])); }
                t.push(c);
                for _ in 0..rng.range(0, 2) { t.push(*rng.pick(&[sr, sl, 0x20, chars[1], chars[3]])); }
                let enc = if rng.chance(1, 2) { Enc::U8 } else { Enc::U16 };
                let text = if enc == Enc::U16 { to_units(rng, &t, false) } else { t };
                return ("ds-keys".into(), Input::Bidi { enc, api: Api::B, dir: pick_dir(rng), text, ds: Some(spec) });
            }
            if rng.chance(1, 12) {
                // a zero-sized data source type (ops::ZstDs): upper case R, digits AN, < > the only brackets
                let alpha: Vec<u32> = "ABCXYZabcxyz0123<<>>()  .,-\u{5D0}\u{661}".chars().map(|c| c as u32).collect();
                let n = rng.range(1, 16);
                let mut t: Vec<u32> = (0..n).map(|_| *rng.pick(&alpha)).collect();
                if rng.chance(1, 4) { let k = rng.below(t.len() + 1); t.insert(k, *rng.pick(&[LRI_C, RLI_C, FSI_C, PDI_C, RLE_C, PDF_C, 0xA])); }
                let enc = if rng.chance(1, 2) { Enc::U8 } else { Enc::U16 };
                let text = if enc == Enc::U16 { to_units(rng, &t, false) } else { t };
                let spec = crate::ops::zst_spec();
                return if rng.chance(1, 4) {
                    ("ds-zst".into(), Input::BaseDir { enc, text, ds: Some(spec) })
                } else {
                    let api = if rng.chance(2, 3) { Api::B } else { Api::P };
                    ("ds-zst".into(), Input::Bidi { enc, api, dir: pick_dir(rng), text, ds: Some(spec) })
                };
            }
            if rng.chance(1, 10) {
                // no custom source: the convenience constructors against the built-in source passed explicitly (CONV)
                return bidi_case(rng, &MODES_ALL, true);
            }
            if rng.chance(1, 7) {
                // explicit formatting CLASSES on ordinary characters of every width, and ordinary classes on the real
                // formatting characters: only the source's classes count, and X5c / the per-unit copies must follow
                // the width of the character that is there (finding D10)
                let carriers: [u32; 10] = [0x78, 0x79, 0x7A, 0xE9, 0x5D0, 0x905, 0x20AC, 0x10000, 0x1F600, 0x21];
                let fmtc = [FSI, FSI, LRI, RLI, PDI, PDI, LRE, RLE, PDF, LRO, RLO, BN];
                let mut entries: Vec<(u32, BidiClass, Option<(u32, bool)>)> = vec![];
                let mut alpha: Vec<u32> = vec![];
                let k = rng.range(2, 5);
                let mut used: Vec<u32> = vec![];
                while used.len() < k {
                    let c = *rng.pick(&carriers);
                    if used.contains(&c) { continue; }
                    used.push(c);
                    entries.push((c, *rng.pick(&fmtc), None));
                    alpha.push(c);
                }
                for &(c, cl) in &[(0x61u32, L), (0x5D1u32, R), (0x627u32, AL), (0x31u32, EN), (0x20u32, WS), (0x300u32, NSM)] {
                    entries.push((c, cl, None));
                    alpha.push(c);
                }
                if rng.chance(1, 2) {
                    // a real formatting character demoted to an ordinary class
                    let real = *rng.pick(&[FSI_C, LRI_C, RLI_C, PDI_C, LRE_C, PDF_C]);
                    entries.push((real, *rng.pick(&[L, R, ON, EN]), None));
                    alpha.push(real);
                }
                if rng.chance(1, 3) { alpha.push(*rng.pick(&[FSI_C, PDI_C, 0xAu32])); }
                let spec = DsSpec { entries, dflt: *rng.pick(&[L, ON, R]) };
                let n = rng.range(2, 14);
                let t: Vec<u32> = (0..n).map(|_| *rng.pick(&alpha)).collect();
                let enc = if rng.chance(1, 2) { Enc::U8 } else { Enc::U16 };
                let api = if rng.chance(2, 3) { Api::B } else { Api::P };
                let dir = pick_dir(rng);
                let text = if enc == Enc::U16 { to_units(rng, &t, false) } else { t };
                if rng.chance(1, 4) {
                    if let Some((para, a, b)) = pick_line(rng, enc, api, dir, &text, &Some(spec.clone())) {
                        return ("ds-fmt".into(), Input::Line { enc, api, dir, text, ds: Some(spec), para, a, b });
                    }
                }
                if rng.chance(1, 5) {
                    return ("ds-fmt".into(), Input::BaseDir { enc, text, ds: Some(spec) });
                }
                return ("ds-fmt".into(), Input::Bidi { enc, api, dir, text, ds: Some(spec) });
            }
            if rng.chance(1, 6) {
                // brackets whose CLASS is not ON (a data source may say so): W1-W7 can resolve them to ON, after
                // which they pair; retained BN units next to them are then rewritten by the weak stage, which the
                // N0 sweeps over "NSM that follow a bracket" must still step over (finding D9)
                let wk = [ES, CS, ET, NSM, ON, ON];
                // one time in four BOTH brackets are NSM and stand directly after a neutral: W1 makes them ON, and they
                // are then the only brackets of the paragraph (nothing but the weak stage says that N0 has work to do)
                let both_nsm = rng.chance(1, 4);
                let (oc, cc) = if both_nsm { (NSM, NSM) } else { (*rng.pick(&wk), *rng.pick(&wk)) };
                let (o, c) = if rng.chance(1, 2) { (0x28u32, 0x3E8u32) } else { (0x3008, 0x1F600) };
                let (sr, sl, bn, nsm, en, on, ws) = (0x5D0u32, 0x61u32, 0xADu32, 0x300u32, 0x31u32, 0x21u32, 0x20u32);
                let spec = DsSpec { entries: vec![
                    (o, oc, Some((o, true))), (c, cc, Some((o, false))),
                    (sr, R, None), (sl, L, None), (bn, BN, None), (nsm, NSM, None), (en, EN, None), (on, ON, None), (ws, WS, None)], dflt: ON };
                let strong = [sr, sl, en];
                let filler = [sr, sl, en, on, ws, bn, nsm, LRE_C, PDF_C];
                let gap = [bn, bn, LRE_C, RLE_C, PDF_C, nsm];
                let mut t = vec![];
                for _ in 0..rng.range(0, 3) { t.push(*rng.pick(&filler)); }
                for _ in 0..rng.range(1, 3) {
                    if rng.chance(1, 2) { t.push(*rng.pick(&strong)); }
                    if both_nsm { t.push(on); }
                    t.push(o);
                    for _ in 0..rng.range(0, 2) { t.push(*rng.pick(&gap)); }
                    for _ in 0..rng.range(0, 2) { t.push(*rng.pick(&filler)); }
                    if both_nsm { t.push(on); }
                    t.push(c);
                    for _ in 0..rng.range(0, 3) { t.push(*rng.pick(&gap)); }
                    if rng.chance(2, 3) { t.push(nsm); }
                    for _ in 0..rng.range(0, 2) { t.push(*rng.pick(&filler)); }
                }
                let enc = if rng.chance(1, 2) { Enc::U8 } else { Enc::U16 };
                let text = if enc == Enc::U16 { to_units(rng, &t, false) } else { t };
                return ("ds-brkcls".into(), Input::Bidi { enc, api: Api::B, dir: pick_dir(rng), text, ds: Some(spec) });
            }
            if rng.chance(1, 2) {
                // abstract sequence instantiated through two alphabets
                let nsym = rng.range(2, 10);
                let mut syms: Vec<(BidiClass, Option<(usize, bool)>)> = (0..nsym)
                    .map(|_| {
                        let mut c = *rng.pick(&NONFORMAT);
                        if c == B && rng.chance(1, 2) {
                            c = ON;
                        }
                        (c, None)
                    })
                    .collect();
                let ons: Vec<usize> = (0..nsym).filter(|&i| syms[i].0 == ON).collect();
                let mut i = 0;
                while i + 1 < ons.len() {
                    syms[ons[i]].1 = Some((ons[i], true));
                    syms[ons[i + 1]].1 = Some((ons[i], false));
                    i += 2;
                }
                let ca: Vec<u32> = CARRIERS_A[..nsym.min(14)].to_vec();
                let mut cb: Vec<u32> = CARRIERS_B[..nsym.min(14)].to_vec();
                let rot = rng.below(cb.len());
                cb.rotate_left(rot);
                let nsym = nsym.min(14);
                let mk = |car: &[u32]| DsSpec {
                    entries: (0..nsym).map(|k| (car[k], syms[k].0, syms[k].1.map(|(o, b)| (car[o], b)))).collect(),
                    dflt: L,
                };
                let len = rng.range(1, 20);
                let fmt = [LRE_C, RLE_C, PDF_C, LRO_C, RLO_C, LRI_C, RLI_C, FSI_C, PDI_C];
                let seq: Vec<Result<usize, u32>> =
                    (0..len).map(|_| if rng.chance(1, 6) { Err(*rng.pick(&fmt)) } else { Ok(rng.below(nsym)) }).collect();
                let inst = |car: &[u32]| -> Vec<u32> { seq.iter().map(|s| match s { Ok(k) => car[*k], Err(f) => *f }).collect() };
                let enc = if rng.chance(1, 2) { Enc::U8 } else { Enc::U16 };
                let (ta, tb) = (inst(&ca), inst(&cb));
                let (ta, tb) = if enc == Enc::U16 { (to_units(rng, &ta, false), to_units(rng, &tb, false)) } else { (ta, tb) };
                ("ds-pair".into(), Input::Meta12 { enc, dir: pick_dir(rng), text_a: ta, ds_a: mk(&ca), text_b: tb, ds_b: mk(&cb) })
            } else {
                let enc = if rng.chance(1, 2) { Enc::U8 } else { Enc::U16 };
                let api = if rng.chance(3, 4) { Api::B } else { Api::P };
                let dir = pick_dir(rng);
                let (spec, alpha) = gen_ds(rng);
                let t = gen_ds_text(rng, &alpha);
                // ill-formed UTF-16 together with a data source: an unpaired surrogate is looked up as U+FFFD
                let damage = rng.chance(1, 4);
                let text = if enc == Enc::U16 { to_units(rng, &t, damage) } else { t };
                match rng.below(3) {
                    0 => {
                        if let Some((para, a, b)) = pick_line(rng, enc, api, dir, &text, &Some(spec.clone())) {
                            ("ds".into(), Input::Line { enc, api, dir, text, ds: Some(spec), para, a, b })
                        } else {
                            ("ds".into(), Input::Bidi { enc, api, dir, text, ds: Some(spec) })
                        }
                    }
                    1 => ("ds".into(), Input::BaseDir { enc, text, ds: Some(spec) }),
                    _ => ("ds".into(), Input::Bidi { enc, api, dir, text, ds: Some(spec) }),
                }
            }
        }
        "C13" => {
            let pm = pick_mode(rng, &[("short", 3), ("iso", 2), ("words", 2), ("empty", 1), ("weak", 1)]);
            let mut prefix = gen_text(rng, pm);
            prefix.truncate(20);
            let sm = pick_mode(rng, &[("short", 3), ("iso", 2), ("words", 2), ("empty", 1), ("weak", 1)]);
            let mut suffix = gen_text(rng, sm);
            suffix.truncate(20);
            let m1 = pick_mode(rng, &[("short", 3), ("iso", 2), ("words", 2), ("empty", 1), ("brk", 1), ("weak", 1)]);
            let m2 = pick_mode(rng, &[("short", 3), ("iso", 2), ("words", 2), ("empty", 1), ("brk", 1), ("weak", 1)]);
            let mut c1 = gen_text(rng, m1);
            let mut c2 = gen_text(rng, m2);
            c1.truncate(30);
            c2.truncate(30);
            let mut init = *rng.pick(&[LRI_C, RLI_C]);
            let mut tag = "iso-swap";
            let mut force_dir: Option<Dir> = None;
            match rng.below(9) {
                8 => {
                    // the LAST valid initiator: with the paragraph level forced, the initiator sits at embedding level
                    // exactly 124 (an RLI there is valid and takes 125, X5a) or 123 (either kind is valid)
                    tag = "iso-swap-edge";
                    let at124 = rng.chance(2, 3);
                    let mut pre = vec![];
                    if rng.chance(1, 2) {
                        force_dir = Some(Dir::L0);
                        let all_iso = rng.chance(1, 3);
                        for _ in 0..(if at124 { 62 } else { 61 }) { pre.push(if all_iso { LRI_C } else { *rng.pick(&[LRE_C, LRE_C, LRO_C]) }); }
                        if !at124 { pre.push(RLE_C); }
                        if at124 {
                            // at level 124 an LRE / LRO / LRI overflows; opened and closed again it must leave no trace
                            for _ in 0..rng.range(0, 2) {
                                if rng.chance(2, 3) { pre.push(*rng.pick(&[LRE_C, LRO_C])); pre.push(PDF_C); } else { pre.push(LRI_C); pre.push(PDI_C); }
                            }
                        }
                    } else {
                        force_dir = Some(Dir::L1);
                        for _ in 0..61 { pre.push(*rng.pick(&[RLE_C, RLE_C, RLO_C])); }
                        if at124 { pre.push(LRE_C); }
                    }
                    pre.push(*rng.pick(&[0x61u32, 0x5D0, 0x31, 0x20]));
                    prefix = pre;
                    init = if at124 { RLI_C } else { *rng.pick(&[LRI_C, RLI_C]) };
                    c1 = vec![*rng.pick(&[0x61u32, 0x5D0, 0x627, 0x31, 0x661])];
                    c2 = vec![*rng.pick(&[0x62u32, 0x5D1, 0x32, 0x21])];
                    if rng.chance(1, 2) { c1.push(*rng.pick(&[0x61u32, 0x5D0, 0x20])); }
                    suffix = vec![*rng.pick(&[0x5D1u32, 0x62, 0x20, 0x31]), *rng.pick(&[0x5D2u32, 0x63, 0x21])];
                }
                0 | 1 => {
                    // the pair is wrapped by an outer bracket pair with no strong character of its own inside
                    tag = "iso-swap-brk";
                    let k = pick_bracket(rng);
                    let mut pre: Vec<u32> = vec![];
                    for _ in 0..rng.range(0, 3) { let c = *rng.pick(&[L, R, AL, EN, WS]); pre.push(pick_char(rng, c)); }
                    pre.push(OPEN_BRACKETS[k]);
                    if rng.chance(1, 3) { pre.push(pick_char(rng, WS)); }
                    prefix = pre;
                    let mut suf: Vec<u32> = vec![];
                    if rng.chance(1, 3) { suf.push(pick_char(rng, WS)); }
                    suf.push(CLOSE_BRACKETS[k]);
                    for _ in 0..rng.range(0, 3) { let c = *rng.pick(&[L, R, AL, EN, WS, NSM]); suf.push(pick_char(rng, c)); }
                    suffix = suf;
                    c1.truncate(6);
                    c2.truncate(6);
                }
                2 => {
                    // the initiator sits just below the depth limit; the content overflows; terminators follow
                    tag = "iso-swap-deep";
                    // keep the initiator VALID (the property's precondition): embedding level at the
                    // initiator at most 123, so that its own level is at most 125
                    let start_rtl = rng.chance(1, 2);
                    let target = rng.range(119, 123);
                    let mut cur = 1usize; // worst case paragraph level
                    let mut pre = vec![];
                    let mut i = 0;
                    loop {
                        let rtl = (i % 2 == 0) == start_rtl;
                        let next = if rtl { if cur % 2 == 0 { cur + 1 } else { cur + 2 } } else { if cur % 2 == 0 { cur + 2 } else { cur + 1 } };
                        if next > target { break; }
                        pre.push(if rtl { RLE_C } else { LRE_C });
                        cur = next;
                        i += 1;
                    }
                    prefix = pre;
                    if rng.chance(1, 2) { prefix.push(pick_char(rng, L)); }
                    let mk = |rng: &mut Rng| -> Vec<u32> {
                        let mut c = vec![];
                        for _ in 0..rng.range(0, 5) {
                            c.push(*rng.pick(&[LRE_C, RLE_C, LRO_C, RLO_C, PDF_C, 0x61, 0x5D0, 0x31, LRI_C, PDI_C]));
                        }
                        c
                    };
                    c1 = mk(rng);
                    c2 = mk(rng);
                    let mut suf = vec![];
                    for _ in 0..rng.range(1, 5) {
                        suf.push(*rng.pick(&[PDF_C, PDF_C, PDI_C, 0x61, 0x5D0]));
                    }
                    suf.push(*rng.pick(&[0x61u32, 0x5D0, 0x31]));
                    suffix = suf;
                }
                3 => {
                    if rng.chance(1, 4) {
                        // content that opens far more than 125 nested isolates and closes them all (balanced)
                        tag = "iso-swap-deepiso";
                        let n = rng.range(124, 132);
                        let mut c = vec![];
                        for _ in 0..n { c.push(*rng.pick(&[LRI_C, RLI_C])); }
                        let inner = rng.range(0, 2);
                        for _ in 0..(n - inner) { c.push(PDI_C); }
                        c.push(*rng.pick(&[0x5D0u32, 0x61, 0x627]));
                        for _ in 0..inner { c.push(PDI_C); }
                        c1 = c;
                        prefix = (0..rng.range(0, 2)).map(|_| *rng.pick(&[0x20u32, 0x21, 0x31])).collect();
                    }
                }
                4 => {
                    // one content starts with characters X9 removes, directly followed by a bracket pair that N0
                    // resolves to a strong type; those removed characters are stored with the INITIATOR's level run,
                    // so a step that walks text positions instead of the content's own sequence leaks out of the
                    // isolate.  Outside: a strong/number context on both sides that is sensitive to what lies
                    // between initiator and PDI.
                    tag = "iso-swap-rm-brk";
                    let k = pick_bracket(rng);
                    let mut c = vec![];
                    for _ in 0..rng.range(1, 3) { c.push(*rng.pick(&[0xADu32, 0x200B, 0x2060, LRE_C, RLE_C, PDF_C])); }
                    c.push(OPEN_BRACKETS[k]);
                    for _ in 0..rng.range(1, 3) { let cl = *rng.pick(&[L, R, AL, EN, AN]); c.push(pick_char(rng, cl)); }
                    c.push(CLOSE_BRACKETS[k]);
                    if rng.chance(1, 3) { let cl = *rng.pick(&[L, R, NSM]); c.push(pick_char(rng, cl)); }
                    if rng.chance(1, 2) { c1 = c; c2.truncate(4); } else { c2 = c; c1.truncate(4); }
                    let mut pre = vec![];
                    for _ in 0..rng.range(1, 3) { let cl = *rng.pick(&[L, R, AL, EN, AN, WS]); pre.push(pick_char(rng, cl)); }
                    prefix = pre;
                    let mut suf = vec![];
                    for _ in 0..rng.range(1, 3) { let cl = *rng.pick(&[EN, AN, ON, WS, L, R, ES, ET]); suf.push(pick_char(rng, cl)); }
                    suffix = suf;
                }
                _ => {}
            }
            let (mut c1, mut c2) = (balance(&c1), balance(&c2));
            let enc = if rng.chance(1, 3) { Enc::U16 } else { Enc::U8 };
            if enc == Enc::U16 && rng.chance(2, 3) {
                // ill-formed UTF-16 inside the contents: lone HIGH surrogates anywhere (the end — directly before the
                // PDI — included), a lone low one only at the start; each is one neutral character (U+FFFD)
                for c in [&mut c1, &mut c2] {
                    if rng.chance(2, 3) {
                        for _ in 0..rng.range(1, 2) {
                            let k = if rng.chance(1, 2) { c.len() } else { rng.below(c.len() + 1) };
                            c.insert(k, 0xD800 + rng.below(0x400) as u32);
                        }
                        if rng.chance(1, 4) { c.insert(0, 0xDC00 + rng.below(0x400) as u32); }
                    }
                }
            }
            let dir = pick_dir(rng);
            (tag.into(), Input::Meta13 { enc, dir: force_dir.unwrap_or(dir), prefix, init, c1, c2, suffix })
        }
        "C14" => match n {
            0 => ("table".into(), Input::Cls),
            _ => ("table".into(), Input::Ver),
        },
        "C15" => match n {
            0 => ("table".into(), Input::Brk),
            _ => ("table".into(), Input::Cls),
        },
        "C16" => {
            if rng.chance(1, 60) {
                // several hundred paragraphs WITHOUT a strong character (empty, white space, numbers, neutrals, matched
                // isolates around strong text), then one that has one: the full-text variant must find it
                let n = *rng.pick(&[3usize, 40, 254, 255, 256, 257, 300]) + rng.below(3);
                let mut t: Vec<u32> = vec![];
                for _ in 0..n {
                    for _ in 0..rng.range(0, 2) { let c = *rng.pick(&[WS, ON, EN, CS, ET]); t.push(pick_char(rng, c)); }
                    if rng.chance(1, 10) { t.extend_from_slice(&[RLI_C, 0x5D0, PDI_C]); }
                    t.push(*rng.pick(pool(B)));
                }
                t.push(*rng.pick(&[0x5D0u32, 0x61, 0x627]));
                let enc = if rng.chance(1, 2) { Enc::U8 } else { Enc::U16 };
                let text = if enc == Enc::U16 { to_units(rng, &t, false) } else { t };
                return ("neutralparas".into(), Input::BaseDir { enc, text, ds: None });
            }
            if rng.chance(1, 60) {
                // several hundred isolate initiators open at once, then as many PDIs (minus a few), then strong text:
                // the depth counter must not wrap at 256
                let n = rng.range(250, 300);
                let mut t: Vec<u32> = (0..n).map(|_| *rng.pick(&[LRI_C, RLI_C, FSI_C])).collect();
                let close = n - rng.below(3);
                for _ in 0..close { t.push(PDI_C); }
                t.push(*rng.pick(&[0x5D0u32, 0x61, 0x627]));
                for _ in 0..rng.range(0, 3) { t.push(PDI_C); }
                t.push(*rng.pick(&[0x5D0u32, 0x61]));
                let enc = if rng.chance(1, 2) { Enc::U8 } else { Enc::U16 };
                return ("isocount".into(), Input::BaseDir { enc, text: t, ds: None });
            }
            let mode = pick_mode(rng, &[("iso", 10), ("para", 10), ("short", 4), ("words", 2), ("empty", 2), ("deepiso", 1), ("siblings", 1), ("manyparas", 1), ("anychar", 2)]);
            let enc = if rng.chance(1, 2) { Enc::U8 } else { Enc::U16 };
            if rng.chance(1, 6) {
                let (spec, alpha) = gen_ds(rng);
                let t = gen_ds_text(rng, &alpha);
                let text = if enc == Enc::U16 { to_units(rng, &t, false) } else { t };
                return (format!("{}+ds", mode), Input::BaseDir { enc, text, ds: Some(spec) });
            }
            let mut t = gen_text(rng, mode);
            if rng.chance(1, 3) {
                // neutral first paragraph, strong later
                let mut pre: Vec<u32> = (0..rng.range(0, 4)).map(|_| { let c = *rng.pick(&[WS, ON, EN, PDI, LRI]); pick_char(rng, c) }).collect();
                pre.push(*rng.pick(pool(B)));
                pre.extend(t);
                t = pre;
            }
            let text = if enc == Enc::U16 { let d = rng.chance(1, 4); to_units(rng, &t, d) } else { t };
            (mode.into(), Input::BaseDir { enc, text, ds: None })
        }
        "C17" => {
            if rng.chance(1, 2) {
                // with caller-supplied data sources too: the summary queries may rest on the stored levels only, not on
                // what real Unicode says about the characters of the text
                let (m, mut i) = bidi_case(rng, &[("short", 4), ("words", 3), ("sep", 2), ("para", 2), ("empty", 1)], true);
                if let Input::Bidi { ref mut dir, .. } = i {
                    if rng.chance(1, 2) {
                        *dir = Dir::L1;
                    }
                }
                (m, i)
            } else {
                // single-paragraph type, forced RTL, LTR/neutral content
                let n = rng.range(1, 10);
                let t: Vec<u32> = (0..n).map(|_| { let c = *rng.pick(&[L, L, L, WS, ON, EN, S, ES, ET, CS, NSM, BN, B]); pick_char(rng, c) }).collect();
                let enc = if rng.chance(1, 2) { Enc::U8 } else { Enc::U16 };
                let text = if enc == Enc::U16 { to_units(rng, &t, false) } else { t.clone() };
                let dir = *rng.pick(&[Dir::L1, Dir::L1, Dir::Auto, Dir::L0]);
                if rng.chance(1, 6) {
                    // an EMPTY line — the property quantifies over the empty text, whose only line is 0..0 — on any
                    // character boundary, the end of the text included; judged on `reorder_line` only (S:C17)
                    let t2: Vec<u32> = if rng.chance(1, 4) { vec![] } else { t.clone() };
                    let k = rng.below(t2.len() + 1);
                    let (text, a) = if enc == Enc::U16 {
                        (to_units(rng, &t2, false), to_units(rng, &t2[..k], false).len())
                    } else {
                        let a = t2[..k].iter().map(|c| char::from_u32(*c).map_or(1, |ch| ch.len_utf8())).sum();
                        (t2, a)
                    };
                    let api = if rng.chance(1, 3) { Api::B } else { Api::P };
                    let dir = if dir == Dir::L1 { Dir::Auto } else { dir };
                    return ("emptyline".into(), Input::Line { enc, api, dir, text, ds: None, para: 0, a, b: a });
                }
                if let Some((para, a, b)) = pick_line(rng, enc, Api::P, dir, &text, &None) {
                    ("pure".into(), Input::Line { enc, api: Api::P, dir, text, ds: None, para, a, b })
                } else {
                    ("pure".into(), Input::Bidi { enc, api: Api::P, dir, text, ds: None })
                }
            }
        }
        "C18" => {
            if rng.chance(1, 5) {
                // the UTF-8 side: characters of every encoded width
                let n = rng.range(0, 9);
                let text: Vec<u32> = (0..n)
                    .map(|_| *rng.pick(&[0x41u32, 0x7F, 0x80, 0xE9, 0x5D0, 0x7FF, 0x800, 0x905, 0x2068, 0xFFFD, 0xFFFF, 0x10000, 0x1F600, 0xE0001, 0x10FFFF, 0x20, 0xA]))
                    .collect();
                return ("str".into(), Input::S8 { text });
            }
            let n = rng.range(0, 12);
            let units: Vec<u32> = (0..n)
                .map(|_| match rng.below(8) {
                    0 | 1 => 0xD800 + rng.below(0x400) as u32,
                    2 | 3 => 0xDC00 + rng.below(0x400) as u32,
                    4 => *rng.pick(&[0x41u32, 0x20, 0x5D0, 0xFFFD, 0xFFFF, 0xD7FF, 0xE000, 0xDBFF, 0xDFFF, 0xD800, 0xDC00, 0xDBFF, 0xDFFF]),
                    _ => 0x41 + rng.below(26) as u32,
                })
                .collect();
            // the extreme surrogate pairs (U+10000, U+10FFFF, U+103FF, U+10FC00) as adjacent units
            let mut units = units;
            if rng.chance(1, 6) {
                let pr = *rng.pick(&[(0xD800u32, 0xDC00u32), (0xDBFF, 0xDFFF), (0xD800, 0xDFFF), (0xDBFF, 0xDC00)]);
                let at = rng.below(units.len() + 1);
                units.insert(at, pr.1);
                units.insert(at, pr.0);
            }
            let n = units.len();
            let k = rng.range(0, n + 3);
            let bias = rng.below(10);
            let ops: String = match bias {
                0 | 1 | 2 => "b".repeat(n + 2),
                3 | 4 => "f".repeat(n + 2),
                5 => { let a = rng.below(n + 1); format!("{}{}", "f".repeat(a), "b".repeat(n + 2 - a)) }
                6 => { let a = rng.below(n + 1); format!("{}{}", "b".repeat(a), "f".repeat(n + 2 - a)) }
                _ => (0..k).map(|_| if rng.chance(1, 2) { 'f' } else { 'b' }).collect(),
            };
            ("u16".into(), Input::U16 { units, ops })
        }
        "C19" => {
            if n == 126 + 256 + 1 + 900 {
                // deserialisation is a construction path too (answered only by a build with the serde feature)
                return ("serde".into(), Input::Serde);
            }
            if n <= 126 {
                ("level".into(), Input::Lvl { l: n as u8 })
            } else if n <= 126 + 256 {
                ("u8".into(), Input::U8 { n: (n - 127) as u8 })
            } else if n <= 126 + 256 + 900 {
                // one odd level at every position of slices of length 1..=40 (word-at-a-time scans, chunk
                // boundaries), the rest even
                let k = n - (126 + 256 + 1);
                let mut len = 1; let mut pos = k;
                while pos >= len { pos -= len; len += 1; }
                let base = (rng.below(63) * 2) as u8;
                let mut levels: Vec<u8> = (0..len).map(|_| if rng.chance(1, 2) { base } else { (rng.below(63) * 2) as u8 }).collect();
                if len <= 40 { levels[pos] = (rng.below(63) * 2 + 1) as u8; }
                ("slice-one-odd".into(), Input::HasRtl { levels })
            } else {
                let len = match rng.below(8) { 0 | 1 => rng.range(12, 70), 2 => rng.range(200, 600), 3 => rng.range(4000, 5000), _ => rng.range(0, 12) };
                let even = rng.chance(1, 2);
                let mut levels: Vec<u8> = (0..len)
                    .map(|_| {
                        let v = rng.below(126) as u8;
                        if even || len > 100 { v & !1 } else { v }
                    })
                    .collect();
                // long slices: all even, or exactly one odd level somewhere (often near the end)
                if len > 100 && rng.chance(2, 3) {
                    let pos = if rng.chance(1, 2) { len - 1 - rng.below(8.min(len)) } else { rng.below(len) };
                    levels[pos] |= 1;
                }
                ("slice".into(), Input::HasRtl { levels })
            }
        }
        "C20" => {
            if n == 0 {
                return ("serde".into(), Input::Serde);
            }
            // containers differ in how they empty, drain and grow: texts built to expose state left over from an
            // earlier iteration or paragraph get a share of their own
            let mode = if rng.chance(1, 8) { *rng.pick(&["stale", "stale", "deep-paras", "manyparas"]) } else { pick_mode(rng, &MODES_ALL) };
            let t = gen_text(rng, mode);
            let enc = if rng.chance(2, 3) { Enc::U8 } else { Enc::U16 };
            let text = if enc == Enc::U16 { to_units(rng, &t, false) } else { t };
            (mode.into(), Input::Digest { enc, dir: pick_dir(rng), text })
        }
        _ => bidi_case(rng, &MODES_ALL, true),
    }
}
