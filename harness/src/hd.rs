//! The part of the crate's API that exists only with its feature `hardcoded-data`.
//!
//! With the harness feature `hardcoded` (default) these are the crate's own items.  Without it — the way a user who
//! brings his own Unicode data builds the crate — they are stand-ins that are never executed: `needs_builtin_data`
//! makes `main` skip every case that would use the built-in tables, so that one harness source compiles for both and
//! the code the crate keeps under `cfg(not(feature = "hardcoded-data"))` is in a harness binary too.
#[cfg(feature = "hardcoded")]
pub use unicode_bidi::{bidi_class, get_base_direction, get_base_direction_full, HardcodedBidiData};

#[cfg(not(feature = "hardcoded"))]
mod shim {
    use unicode_bidi::data_source::BidiMatchedOpeningBracket;
    use unicode_bidi::{utf16, BidiClass, BidiDataSource, BidiInfo, Direction, InitialInfo, Level, ParagraphBidiInfo};
    const WHY: &str = "this harness build has no built-in data: the case should have been skipped";
    pub struct HardcodedBidiData;
    impl BidiDataSource for HardcodedBidiData {
        fn bidi_class(&self, _c: char) -> BidiClass {
            unreachable!("{}", WHY)
        }
        fn bidi_matched_opening_bracket(&self, _c: char) -> Option<BidiMatchedOpeningBracket> {
            unreachable!("{}", WHY)
        }
    }
    pub fn bidi_class(_c: char) -> BidiClass {
        unreachable!("{}", WHY)
    }
    pub fn get_base_direction<T: ?Sized>(_t: &T) -> Direction {
        unreachable!("{}", WHY)
    }
    pub fn get_base_direction_full<T: ?Sized>(_t: &T) -> Direction {
        unreachable!("{}", WHY)
    }
    /// `X::new(text, level)` of the six analysis types
    pub trait BuiltinNew<'t> {
        type Text: ?Sized + 't;
        fn new(text: &'t Self::Text, level: Option<Level>) -> Self;
    }
    macro_rules! shim_new {
        ($($ty:ty => $text:ty),*) => {$(
            impl<'t> BuiltinNew<'t> for $ty {
                type Text = $text;
                fn new(_text: &'t $text, _level: Option<Level>) -> Self {
                    unreachable!("{}", WHY)
                }
            }
        )*};
    }
    shim_new!(BidiInfo<'t> => str, InitialInfo<'t> => str, ParagraphBidiInfo<'t> => str,
              utf16::BidiInfo<'t> => [u16], utf16::InitialInfo<'t> => [u16], utf16::ParagraphBidiInfo<'t> => [u16]);
}
#[cfg(not(feature = "hardcoded"))]
pub use shim::*;
