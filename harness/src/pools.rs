//! Character pools: for every Bidi_Class, members of every UTF-8 / UTF-16
//! length that the class has.  The lists are fixed here (not derived from the
//! crate's table), so a generated text does not depend on the code under test.
use unicode_bidi::BidiClass;
use unicode_bidi::BidiClass::*;

pub const ALL_CLASSES: [BidiClass; 23] = [
    AL, AN, B, BN, CS, EN, ES, ET, FSI, L, LRE, LRI, LRO, NSM, ON, PDF, PDI, R, RLE, RLI, RLO, S, WS,
];

pub fn class_name(c: BidiClass) -> &'static str {
    match c {
        AL => "AL", AN => "AN", B => "B", BN => "BN", CS => "CS", EN => "EN", ES => "ES", ET => "ET",
        FSI => "FSI", L => "L", LRE => "LRE", LRI => "LRI", LRO => "LRO", NSM => "NSM", ON => "ON",
        PDF => "PDF", PDI => "PDI", R => "R", RLE => "RLE", RLI => "RLI", RLO => "RLO", S => "S", WS => "WS",
    }
}

pub fn class_of_name(s: &str) -> Option<BidiClass> {
    ALL_CLASSES.iter().copied().find(|c| class_name(*c) == s)
}

/// Representatives of a class (Unicode 16.0 values; 1-, 2-, 3-, 4-byte members
/// where the class has them).
pub fn pool(c: BidiClass) -> &'static [u32] {
    match c {
        L => &[0x61, 0x41, 0x7A, 0xE9, 0x905, 0x10000, 0x200E],
        R => &[0x5D0, 0x5D1, 0x7C1, 0xFB1D, 0x10800, 0x200F],
        AL => &[0x627, 0x628, 0x710, 0xFB50, 0x1EE00, 0x61C],
        EN => &[0x31, 0x32, 0x39, 0xB2, 0x6F1, 0xFF11, 0x1D7CE],
        ES => &[0x2B, 0x2D, 0x207A, 0xFB29, 0xFF0B],
        ET => &[0x23, 0x24, 0x25, 0xA2, 0x20AC, 0x1E2FF],
        AN => &[0x661, 0x662, 0x600, 0x66B, 0x10D30, 0x10E60],
        CS => &[0x2C, 0x2E, 0x3A, 0x2F, 0xA0, 0x60C, 0x202F, 0xFE50],
        NSM => &[0x300, 0x591, 0x20D0, 0x101FD, 0xE0100, 0x64B],
        BN => &[0x8, 0x7F, 0xAD, 0x200B, 0x2060, 0xE0001],
        B => &[0xA, 0xD, 0x1C, 0x85, 0x2029],
        S => &[0x9, 0xB, 0x1F],
        WS => &[0x20, 0xC, 0x1680, 0x2003, 0x3000],
        ON => &[0x21, 0x26, 0x28, 0x29, 0x5B, 0x5D, 0xA1, 0x2190, 0x2329, 0x232A, 0x3008, 0x3009, 0xFF08, 0xFF09, 0x1F300],
        LRE => &[0x202A],
        RLE => &[0x202B],
        PDF => &[0x202C],
        LRO => &[0x202D],
        RLO => &[0x202E],
        LRI => &[0x2066],
        RLI => &[0x2067],
        FSI => &[0x2068],
        PDI => &[0x2069],
    }
}

pub const OPEN_BRACKETS: [u32; 7] = [0x28, 0x5B, 0x7B, 0x2329, 0x3008, 0xFF08, 0x2768];
pub const CLOSE_BRACKETS: [u32; 7] = [0x29, 0x5D, 0x7D, 0x232A, 0x3009, 0xFF09, 0x2769];
