//! Operations: parse an input line, run the real crate in-process (every call
//! under catch_unwind), print the question and the crate's answer on one line.
#![allow(deprecated)]
use crate::pools::{class_name, class_of_name, ALL_CLASSES};
use std::borrow::Cow;
use std::collections::HashMap;
use std::panic::{catch_unwind, AssertUnwindSafe};
use unicode_bidi::data_source::BidiMatchedOpeningBracket;
use unicode_bidi::utf16;
#[allow(unused_imports)]
use crate::hd::{self, *};
use unicode_bidi::{
    BidiClass, BidiDataSource, BidiInfo, Direction, InitialInfo, Level, LevelRun,
    Paragraph, ParagraphBidiInfo, ParagraphInfo, TextSource,
};

#[derive(Clone, Copy, PartialEq, Debug)]
pub enum Enc {
    U8,
    U16,
}
#[derive(Clone, Copy, PartialEq, Debug)]
pub enum Api {
    B,
    P,
}
#[derive(Clone, Copy, PartialEq, Debug)]
pub enum Dir {
    Auto,
    L0,
    L1,
}

impl Dir {
    pub fn level(self) -> Option<Level> {
        match self {
            Dir::Auto => None,
            Dir::L0 => Some(Level::ltr()),
            Dir::L1 => Some(Level::rtl()),
        }
    }
    pub fn tag(self) -> &'static str {
        match self {
            Dir::Auto => "a",
            Dir::L0 => "0",
            Dir::L1 => "1",
        }
    }
}

/// A caller-supplied data source: explicit entries, a default class for every
/// other character; the nine explicit formatting characters keep their own
/// classes unless listed.
#[derive(Clone, Debug, PartialEq)]
pub struct DsSpec {
    pub entries: Vec<(u32, BidiClass, Option<(u32, bool)>)>,
    pub dflt: BidiClass,
}

pub struct CustomDs {
    map: HashMap<char, (BidiClass, Option<(char, bool)>)>,
    dflt: BidiClass,
}

impl CustomDs {
    pub fn new(spec: &DsSpec) -> CustomDs {
        let mut map = HashMap::new();
        for (cp, cl, br) in &spec.entries {
            if let Some(c) = char::from_u32(*cp) {
                map.insert(c, (*cl, br.and_then(|(o, b)| char::from_u32(o).map(|oc| (oc, b)))));
            }
        }
        CustomDs { map, dflt: spec.dflt }
    }
}

/// A data source whose methods themselves use the crate (a pure, total function all the same): an analysis in progress
/// must not share hidden state (a per-thread scratch buffer, a cache) with analyses started from inside the callback.
pub struct ReentrantDs<'a>(pub &'a CustomDs);
/// set when an analysis started from INSIDE a data-source callback gave another answer than the same analysis outside
pub static NESTED_BAD: std::sync::atomic::AtomicUsize = std::sync::atomic::AtomicUsize::new(0);
static NESTED_REF: std::sync::OnceLock<String> = std::sync::OnceLock::new();
#[cfg(not(feature = "hardcoded"))]
pub fn nested_probe() -> String {
    // the same probe on the zero-sized caller-supplied source (upper case is R, `<` `>` the only brackets)
    let ii = InitialInfo::new_with_data_source(&ZstDs, "\u{2067}a\u{2068}B(\u{2066}", None);
    let b = BidiInfo::new_with_data_source(&ZstDs, "B<A>a <b\u{2067}c>\u{2069}1", Some(Level::ltr()));
    let ro = b.reorder_line(&b.paragraphs[0], b.paragraphs[0].range.clone());
    let d = unicode_bidi::get_base_direction_with_data_source(&ZstDs, "\u{2067}x\u{2069}B");
    format!("{:?}|{}|{:?}|{}|{}", ii.original_classes, ii.paragraphs.len(), b.levels.iter().map(|l| l.number()).collect::<Vec<u8>>(), ro, dir_str(&d))
}
#[cfg(feature = "hardcoded")]
pub fn nested_probe() -> String {
    let ii = InitialInfo::new("\u{2067}a\u{2068}\u{5D0}(\u{2066}", None);
    // `ב [ א ] a` in an LTR paragraph: N0 gives the closing bracket level 1, N1/N2 alone would give it 0
    let b = BidiInfo::new("\u{5D1}[\u{5D0}]a (b\u{2067}c)\u{2069}1", Some(Level::ltr()));
    let ro = b.reorder_line(&b.paragraphs[0], b.paragraphs[0].range.clone());
    let d = hd::get_base_direction("\u{2067}x\u{2069}\u{5D0}");
    format!("{:?}|{}|{:?}|{}|{}", ii.original_classes, ii.paragraphs.len(), b.levels.iter().map(|l| l.number()).collect::<Vec<u8>>(), ro, dir_str(&d))
}
/// to be called once, outside any callback, before the first case
pub fn init_nested_reference() {
    let _ = NESTED_REF.set(nested_probe());
}
impl<'a> ReentrantDs<'a> {
    fn poke() {
        let got = nested_probe();
        if NESTED_REF.get().map_or(false, |r| *r != got) {
            NESTED_BAD.fetch_add(1, std::sync::atomic::Ordering::SeqCst);
        }
    }
}
impl<'a> BidiDataSource for ReentrantDs<'a> {
    fn bidi_class(&self, c: char) -> BidiClass {
        Self::poke();
        self.0.bidi_class(c)
    }
    fn bidi_matched_opening_bracket(&self, c: char) -> Option<BidiMatchedOpeningBracket> {
        Self::poke();
        self.0.bidi_matched_opening_bracket(c)
    }
}

/// A ZERO-SIZED caller-supplied data source (nothing about the type `D` — its size, its being `Copy`, … — may stand
/// in for "this is the built-in data"): upper-case ASCII is R, ASCII digits are AN, `<` `>` are the only bracket pair,
/// the nine explicit formatting characters keep their class, everything else is L.  `zst_spec()` is the same source
/// as a `DsSpec`, which is what goes over the line protocol to the driver.
pub struct ZstDs;
impl BidiDataSource for ZstDs {
    fn bidi_class(&self, c: char) -> BidiClass {
        match c {
            'A'..='Z' => BidiClass::R,
            '0'..='9' => BidiClass::AN,
            '<' | '>' => BidiClass::ON,
            _ => format_class(c).unwrap_or(BidiClass::L),
        }
    }
    fn bidi_matched_opening_bracket(&self, c: char) -> Option<BidiMatchedOpeningBracket> {
        match c {
            '<' => Some(BidiMatchedOpeningBracket { opening: '<', is_open: true }),
            '>' => Some(BidiMatchedOpeningBracket { opening: '<', is_open: false }),
            _ => None,
        }
    }
}
pub fn zst_spec() -> DsSpec {
    let mut entries: Vec<(u32, BidiClass, Option<(u32, bool)>)> = vec![];
    for c in 'A'..='Z' { entries.push((c as u32, BidiClass::R, None)); }
    for c in '0'..='9' { entries.push((c as u32, BidiClass::AN, None)); }
    entries.push(('<' as u32, BidiClass::ON, Some(('<' as u32, true))));
    entries.push(('>' as u32, BidiClass::ON, Some(('<' as u32, false))));
    DsSpec { entries, dflt: BidiClass::L }
}

pub fn format_class(c: char) -> Option<BidiClass> {
    use BidiClass::*;
    match c as u32 {
        0x202A => Some(LRE),
        0x202B => Some(RLE),
        0x202C => Some(PDF),
        0x202D => Some(LRO),
        0x202E => Some(RLO),
        0x2066 => Some(LRI),
        0x2067 => Some(RLI),
        0x2068 => Some(FSI),
        0x2069 => Some(PDI),
        _ => None,
    }
}

impl BidiDataSource for CustomDs {
    fn bidi_class(&self, c: char) -> BidiClass {
        if let Some((cl, _)) = self.map.get(&c) {
            return *cl;
        }
        format_class(c).unwrap_or(self.dflt)
    }
    fn bidi_matched_opening_bracket(&self, c: char) -> Option<BidiMatchedOpeningBracket> {
        match self.map.get(&c) {
            Some((_, Some((o, is_open)))) => Some(BidiMatchedOpeningBracket { opening: *o, is_open: *is_open }),
            _ => None,
        }
    }
}

#[derive(Clone, Debug, PartialEq)]
pub enum Input {
    Bidi { enc: Enc, api: Api, dir: Dir, text: Vec<u32>, ds: Option<DsSpec> },
    Line { enc: Enc, api: Api, dir: Dir, text: Vec<u32>, ds: Option<DsSpec>, para: usize, a: usize, b: usize },
    Rv { levels: Vec<u8> },
    BaseDir { enc: Enc, text: Vec<u32>, ds: Option<DsSpec> },
    /// stage outputs of the first paragraph through the cfg-guarded hooks
    Stage { enc: Enc, dir: Dir, text: Vec<u32>, ds: Option<DsSpec> },
    U16 { units: Vec<u32>, ops: String },
    /// the UTF-8 text source (`impl TextSource for str`, `Utf8IndexLenIter`)
    S8 { text: Vec<u32> },
    Lvl { l: u8 },
    U8 { n: u8 },
    HasRtl { levels: Vec<u8> },
    Cls,
    Brk,
    Ver,
    /// C09: UTF-16 API vs UTF-8 API on the lossy decoding
    Meta9 { units: Vec<u32>, dir: Dir, ds: Option<DsSpec>, line: (usize, usize) },
    /// C10: whole text vs each paragraph substring; single-paragraph type
    Meta10 { enc: Enc, text: Vec<u32>, dir: Dir },
    /// C01 on inputs far longer than the Model can replay: a paragraph `a×N SP tail` (N about 70,000, beyond 2^16 code
    /// units) must give `tail` the levels it gets in `a SP tail`
    MetaLong { enc: Enc, tail: Vec<u32>, dir: Dir, n: usize },
    /// C12: same abstract class sequence through different characters
    Meta12 { enc: Enc, dir: Dir, text_a: Vec<u32>, ds_a: DsSpec, text_b: Vec<u32>, ds_b: DsSpec },
    /// C13: replace the content of a matched isolate
    Meta13 { enc: Enc, dir: Dir, prefix: Vec<u32>, init: u32, c1: Vec<u32>, c2: Vec<u32>, suffix: Vec<u32> },
    /// C07 / C05 / C06 at a size the Model cannot replay: `(a א)×n` as UTF-16 is one LTR paragraph of 2n runs whose
    /// reordering is the text itself; a recursion per run or per character overflows the stack (an abort, which no
    /// catch_unwind sees: the harness process dies and the check reports the broken pipeline)
    Stress { n: usize },
    /// C20: digest of all outputs for one text (compared across feature builds)
    Digest { enc: Enc, dir: Dir, text: Vec<u32> },
    /// C20: serde round trip of every level
    Serde,
}

// ---------- formatting ----------

pub fn hexlist(v: &[u32]) -> String {
    v.iter().map(|x| format!("{:X}", x)).collect::<Vec<_>>().join(",")
}
pub fn parse_hexlist(s: &str) -> Vec<u32> {
    if s.is_empty() {
        return vec![];
    }
    s.split(',').map(|x| u32::from_str_radix(x, 16).expect("hex")).collect()
}
pub fn numlist<T: std::fmt::Display>(v: &[T]) -> String {
    v.iter().map(|x| format!("{}", x)).collect::<Vec<_>>().join(",")
}
pub fn parse_numlist(s: &str) -> Vec<u8> {
    if s.is_empty() {
        return vec![];
    }
    s.split(',').map(|x| x.parse().expect("num")).collect()
}
fn levels_str(v: &[Level]) -> String {
    v.iter().map(|l| l.number().to_string()).collect::<Vec<_>>().join(",")
}
fn classes_str(v: &[BidiClass]) -> String {
    v.iter().map(|c| class_name(*c)).collect::<Vec<_>>().join(",")
}
fn paras_str(v: &[ParagraphInfo]) -> String {
    v.iter().map(|p| format!("{}:{}:{}", p.range.start, p.range.end, p.level.number())).collect::<Vec<_>>().join(";")
}
fn runs_str(v: &[LevelRun]) -> String {
    v.iter().map(|r| format!("{}:{}", r.start, r.end)).collect::<Vec<_>>().join(";")
}
fn dir_str(d: &Direction) -> &'static str {
    match d {
        Direction::Ltr => "Ltr",
        Direction::Rtl => "Rtl",
        Direction::Mixed => "Mixed",
    }
}
pub fn ds_str(ds: &Option<DsSpec>) -> String {
    match ds {
        None => "-".to_string(),
        Some(spec) => {
            let mut parts: Vec<String> = spec
                .entries
                .iter()
                .map(|(cp, cl, br)| {
                    let b = match br {
                        None => "-".to_string(),
                        Some((o, true)) => format!("o{:X}", o),
                        Some((o, false)) => format!("c{:X}", o),
                    };
                    format!("{:X}:{}:{}", cp, class_name(*cl), b)
                })
                .collect();
            parts.push(format!("*:{}", class_name(spec.dflt)));
            parts.join(";")
        }
    }
}
pub fn parse_ds(s: &str) -> Option<DsSpec> {
    if s == "-" {
        return None;
    }
    let mut entries = vec![];
    let mut dflt = BidiClass::L;
    for part in s.split(';') {
        let f: Vec<&str> = part.split(':').collect();
        if f[0] == "*" {
            dflt = class_of_name(f[1]).expect("class");
        } else {
            let cp = u32::from_str_radix(f[0], 16).expect("hex");
            let cl = class_of_name(f[1]).expect("class");
            let br = if f[2] == "-" {
                None
            } else {
                let o = u32::from_str_radix(&f[2][1..], 16).expect("hex");
                Some((o, f[2].starts_with('o')))
            };
            entries.push((cp, cl, br));
        }
    }
    Some(DsSpec { entries, dflt })
}

/// A text handed to the crate as a SUB-SLICE of a larger buffer, at an offset that varies from case to case: the
/// crate must not depend on where its input lies (alignment, being a whole allocation).
pub struct Sh8(String, usize);
impl Sh8 {
    pub fn as_str(&self) -> &str {
        &self.0[self.1..]
    }
}
pub struct Sh16(Vec<u16>, usize);
impl Sh16 {
    pub fn as_slice(&self) -> &[u16] {
        &self.0[self.1..]
    }
}
fn shift_of(text: &[u32]) -> usize {
    (text.len() + text.iter().fold(0usize, |a, &c| a.wrapping_add(c as usize))) % 8
}
pub fn shifted8(text: &[u32]) -> Sh8 {
    let k = shift_of(text);
    let mut b = String::with_capacity(k + text.len() * 4);
    for _ in 0..k { b.push('#'); }
    b.push_str(&to_string8(text));
    Sh8(b, k)
}
pub fn shifted16(text: &[u32]) -> Sh16 {
    let k = shift_of(text);
    let mut b: Vec<u16> = vec![0x23; k];
    b.extend(to_units16(text));
    Sh16(b, k)
}

pub fn to_string8(text: &[u32]) -> String {
    text.iter().map(|&c| char::from_u32(c).unwrap_or('\u{FFFD}')).collect()
}
pub fn to_units16(text: &[u32]) -> Vec<u16> {
    text.iter().map(|&u| u as u16).collect()
}

/// panics raised anywhere (counted by the panic hook) and panics that arrived at one of the harness's own guards
pub static PANICS_RAISED: std::sync::atomic::AtomicUsize = std::sync::atomic::AtomicUsize::new(0);
pub static PANICS_SEEN: std::sync::atomic::AtomicUsize = std::sync::atomic::AtomicUsize::new(0);

fn guard<T>(f: impl FnOnce() -> T) -> Option<T> {
    let r = catch_unwind(AssertUnwindSafe(f)).ok();
    if r.is_none() {
        PANICS_SEEN.fetch_add(1, std::sync::atomic::Ordering::SeqCst);
    }
    r
}

/// `run`, plus ` HIDDENPANIC=<n>` when more panics were raised during the operation than the harness caught: the
/// crate panicked and swallowed it (std::panic::catch_unwind inside the crate) — still a panic for C07
/// does the operation use the crate's built-in tables?  (`main` skips such cases in the harness build without the
/// crate feature `hardcoded-data`; what is left names a data source of its own or needs no character data at all)
pub fn needs_builtin_data(input: &Input) -> bool {
    match input {
        Input::Bidi { ds, .. } | Input::Line { ds, .. } | Input::BaseDir { ds, .. } | Input::Stage { ds, .. } | Input::Meta9 { ds, .. } => ds.is_none(),
        Input::Meta12 { .. } | Input::Rv { .. } | Input::U16 { .. } | Input::Lvl { .. } | Input::U8 { .. } | Input::HasRtl { .. } => false,
        _ => true,
    }
}

pub fn run_counted(id: &str, mode: &str, input: &Input) -> String {
    use std::sync::atomic::Ordering::SeqCst;
    let (r0, s0) = (PANICS_RAISED.load(SeqCst), PANICS_SEEN.load(SeqCst));
    let line = run(id, mode, input);
    let hidden = (PANICS_RAISED.load(SeqCst) - r0).saturating_sub(PANICS_SEEN.load(SeqCst) - s0);
    let line = if hidden > 0 { format!("{} HIDDENPANIC={}", line, hidden) } else { line };
    if NESTED_BAD.swap(0, SeqCst) > 0 { format!("{} NESTEDBAD=1", line) } else { line }
}
fn or_panic(o: Option<String>) -> String {
    o.unwrap_or_else(|| "PANIC".to_string())
}

fn key<'a>(fields: &'a HashMap<String, String>, k: &str) -> &'a str {
    fields.get(k).map(|s| s.as_str()).unwrap_or_else(|| panic!("missing field {}", k))
}

pub fn parse_enc(s: &str) -> Enc {
    if s == "16" {
        Enc::U16
    } else {
        Enc::U8
    }
}
pub fn parse_dir(s: &str) -> Dir {
    match s {
        "0" => Dir::L0,
        "1" => Dir::L1,
        _ => Dir::Auto,
    }
}
fn enc_tag(e: Enc) -> &'static str {
    if e == Enc::U16 {
        "16"
    } else {
        "8"
    }
}

/// Parse the input part of a line `#id mode op k=v ... [=> answer]`.
pub fn parse_line(line: &str) -> Option<(String, String, Input)> {
    let line = line.trim();
    if line.is_empty() || !line.starts_with('#') {
        return None;
    }
    let input_part = line.split(" => ").next().unwrap();
    let toks: Vec<&str> = input_part.split(' ').filter(|t| !t.is_empty()).collect();
    if toks.len() < 3 {
        return None;
    }
    let id = toks[0].to_string();
    let mode = toks[1].to_string();
    let op = toks[2];
    let mut f = HashMap::new();
    for t in &toks[3..] {
        if let Some(p) = t.find('=') {
            f.insert(t[..p].to_string(), t[p + 1..].to_string());
        }
    }
    let input = match op {
        "bidi" => Input::Bidi {
            enc: parse_enc(key(&f, "enc")),
            api: if key(&f, "api") == "P" { Api::P } else { Api::B },
            dir: parse_dir(key(&f, "dir")),
            text: parse_hexlist(key(&f, "T")),
            ds: parse_ds(key(&f, "DS")),
        },
        "line" => Input::Line {
            enc: parse_enc(key(&f, "enc")),
            api: if key(&f, "api") == "P" { Api::P } else { Api::B },
            dir: parse_dir(key(&f, "dir")),
            text: parse_hexlist(key(&f, "T")),
            ds: parse_ds(key(&f, "DS")),
            para: key(&f, "para").parse().unwrap(),
            a: key(&f, "a").parse().unwrap(),
            b: key(&f, "b").parse().unwrap(),
        },
        "rv" => Input::Rv { levels: parse_numlist(key(&f, "LV")) },
        "basedir" => Input::BaseDir {
            enc: parse_enc(key(&f, "enc")),
            text: parse_hexlist(key(&f, "T")),
            ds: parse_ds(key(&f, "DS")),
        },
        "stage" => Input::Stage {
            enc: parse_enc(key(&f, "enc")),
            dir: parse_dir(key(&f, "dir")),
            text: parse_hexlist(key(&f, "T")),
            ds: parse_ds(key(&f, "DS")),
        },
        "u16" => Input::U16 { units: parse_hexlist(key(&f, "U")), ops: key(&f, "OPS").to_string() },
        "s8" => Input::S8 { text: parse_hexlist(key(&f, "T")) },
        "lvl" => Input::Lvl { l: key(&f, "l").parse().unwrap() },
        "u8" => Input::U8 { n: key(&f, "n").parse().unwrap() },
        "hasrtl" => Input::HasRtl { levels: parse_numlist(key(&f, "LV")) },
        "cls" => Input::Cls,
        "brk" => Input::Brk,
        "ver" => Input::Ver,
        "meta9" => Input::Meta9 {
            units: parse_hexlist(key(&f, "U")),
            dir: parse_dir(key(&f, "dir")),
            ds: parse_ds(key(&f, "DS")),
            line: (key(&f, "la").parse().unwrap(), key(&f, "lb").parse().unwrap()),
        },
        "stress" => Input::Stress { n: key(&f, "n").parse().unwrap() },
        "metalong" => Input::MetaLong {
            enc: parse_enc(key(&f, "enc")),
            tail: parse_hexlist(key(&f, "T")),
            dir: parse_dir(key(&f, "dir")),
            n: key(&f, "n").parse().unwrap(),
        },
        "meta10" => Input::Meta10 {
            enc: parse_enc(key(&f, "enc")),
            text: parse_hexlist(key(&f, "T")),
            dir: parse_dir(key(&f, "dir")),
        },
        "meta12" => Input::Meta12 {
            enc: parse_enc(key(&f, "enc")),
            dir: parse_dir(key(&f, "dir")),
            text_a: parse_hexlist(key(&f, "TA")),
            ds_a: parse_ds(key(&f, "DSA")).unwrap(),
            text_b: parse_hexlist(key(&f, "TB")),
            ds_b: parse_ds(key(&f, "DSB")).unwrap(),
        },
        "meta13" => Input::Meta13 {
            enc: parse_enc(f.get("enc").map(|s| s.as_str()).unwrap_or("8")),
            dir: parse_dir(key(&f, "dir")),
            prefix: parse_hexlist(key(&f, "PRE")),
            init: u32::from_str_radix(key(&f, "INIT"), 16).unwrap(),
            c1: parse_hexlist(key(&f, "C1")),
            c2: parse_hexlist(key(&f, "C2")),
            suffix: parse_hexlist(key(&f, "SUF")),
        },
        "digest" => Input::Digest {
            enc: parse_enc(key(&f, "enc")),
            dir: parse_dir(key(&f, "dir")),
            text: parse_hexlist(key(&f, "T")),
        },
        "serde" => Input::Serde,
        _ => return None,
    };
    Some((id, mode, input))
}

// ---------- analysis wrappers over both encodings ----------

pub struct Analysis {
    pub classes: Vec<BidiClass>,
    pub levels: Vec<Level>,
    pub paras: Vec<ParagraphInfo>,
    pub pure: Option<bool>,
    pub dirs: Vec<Direction>,
    pub has_rtl: bool,
    /// per paragraph: `Paragraph::level_at` at EVERY offset of the paragraph, and `ParagraphInfo::len()`
    pub level_at: Vec<(Vec<Level>, usize)>,
    pub ii_same: bool,
}

fn analyse8<D: BidiDataSource>(ds: &D, s: &str, api: Api, dir: Dir) -> Analysis {
    match api {
        Api::B => {
            let info = BidiInfo::new_with_data_source(ds, s, dir.level());
            let ii = InitialInfo::new_with_data_source(ds, s, dir.level());
            // `Paragraph` built on the analysis' own element for even paragraphs, on a detached clone for odd ones
            let dirs = info.paragraphs.iter().enumerate().map(|(k, p)| { let c = p.clone(); Paragraph::new(&info, if k % 2 == 0 { p } else { &c }).direction() }).collect();
            let level_at = info
                .paragraphs
                .iter()
                .map(|p| {
                    let pc = p.clone();
                    let pa = Paragraph::new(&info, if p.range.start % 2 == 1 { p } else { &pc });
                    ((0..p.range.end - p.range.start).map(|k| pa.level_at(k)).collect::<Vec<Level>>(), p.len())
                })
                .collect();
            Analysis {
                ii_same: plain(&ii.original_classes, &[], &ii.paragraphs) == plain(&info.original_classes, &[], &info.paragraphs),
                has_rtl: info.has_rtl(),
                classes: info.original_classes,
                levels: info.levels,
                paras: info.paragraphs,
                pure: None,
                dirs,
                level_at,
            }
        }
        Api::P => {
            let info = ParagraphBidiInfo::new_with_data_source(ds, s, dir.level());
            let d = info.direction();
            Analysis {
                has_rtl: info.has_rtl(),
                paras: vec![ParagraphInfo { range: 0..s.len(), level: info.paragraph_level }],
                pure: Some(info.is_pure_ltr),
                classes: info.original_classes,
                levels: info.levels,
                dirs: vec![d],
                level_at: vec![],
                ii_same: true,
            }
        }
    }
}

fn analyse16<D: BidiDataSource>(ds: &D, s: &[u16], api: Api, dir: Dir) -> Analysis {
    match api {
        Api::B => {
            let info = utf16::BidiInfo::new_with_data_source(ds, s, dir.level());
            let ii = utf16::InitialInfo::new_with_data_source(ds, s, dir.level());
            let dirs = info.paragraphs.iter().enumerate().map(|(k, p)| { let c = p.clone(); utf16::Paragraph::new(&info, if k % 2 == 0 { p } else { &c }).direction() }).collect();
            let level_at = info
                .paragraphs
                .iter()
                .map(|p| {
                    let pc = p.clone();
                    let pa = utf16::Paragraph::new(&info, if p.range.start % 2 == 1 { p } else { &pc });
                    ((0..p.range.end - p.range.start).map(|k| pa.level_at(k)).collect::<Vec<Level>>(), p.len())
                })
                .collect();
            Analysis {
                ii_same: plain(&ii.original_classes, &[], &ii.paragraphs) == plain(&info.original_classes, &[], &info.paragraphs),
                has_rtl: info.has_rtl(),
                classes: info.original_classes,
                levels: info.levels,
                paras: info.paragraphs,
                pure: None,
                dirs,
                level_at,
            }
        }
        Api::P => {
            let info = utf16::ParagraphBidiInfo::new_with_data_source(ds, s, dir.level());
            let d = info.direction();
            Analysis {
                has_rtl: info.has_rtl(),
                paras: vec![ParagraphInfo { range: 0..s.len(), level: info.paragraph_level }],
                pure: Some(info.is_pure_ltr),
                classes: info.original_classes,
                levels: info.levels,
                dirs: vec![d],
                level_at: vec![],
                ii_same: true,
            }
        }
    }
}

pub fn analyse(enc: Enc, api: Api, dir: Dir, text: &[u32], ds: &Option<DsSpec>) -> Option<Analysis> {
    guard(|| match (enc, ds) {
        (Enc::U8, None) => analyse8(&HardcodedBidiData, shifted8(text).as_str(), api, dir),
        (Enc::U8, Some(spec)) if *spec == zst_spec() => analyse8(&ZstDs, shifted8(text).as_str(), api, dir),
        (Enc::U16, Some(spec)) if *spec == zst_spec() => analyse16(&ZstDs, shifted16(text).as_slice(), api, dir),
        (Enc::U8, Some(spec)) if shift_of(text) % 4 == 3 && text.len() <= 40 => analyse8(&ReentrantDs(&CustomDs::new(spec)), shifted8(text).as_str(), api, dir),
        (Enc::U16, Some(spec)) if shift_of(text) % 4 == 3 && text.len() <= 40 => analyse16(&ReentrantDs(&CustomDs::new(spec)), shifted16(text).as_slice(), api, dir),
        (Enc::U8, Some(spec)) => analyse8(&CustomDs::new(spec), shifted8(text).as_str(), api, dir),
        (Enc::U16, None) => analyse16(&HardcodedBidiData, shifted16(text).as_slice(), api, dir),
        (Enc::U16, Some(spec)) => analyse16(&CustomDs::new(spec), shifted16(text).as_slice(), api, dir),
    })
}

fn analysis_fields(a: &Analysis) -> String {
    let mut s = format!("C={} L={} P={}", classes_str(&a.classes), levels_str(&a.levels), paras_str(&a.paras));
    if let Some(p) = a.pure {
        s += &format!(" PURE={}", p as u8);
    }
    s += &format!(
        " DIR={} HR={} LA={} II={}",
        a.dirs.iter().map(|d| dir_str(d)).collect::<Vec<_>>().join(";"),
        a.has_rtl as u8,
        a.level_at.iter().map(|(v, n)| format!("{}:{}", n, levels_str(v))).collect::<Vec<_>>().join(";"),
        if a.ii_same { "same" } else { "diff" }
    );
    s
}

/// plain data of an analysis, compared with std's `==` on numbers (never with the crate's own `PartialEq`, which a
/// change to the crate could make blind)
type Plain = (Vec<u8>, Vec<u8>, Vec<(usize, usize, u8)>);
fn cls_idx(c: BidiClass) -> u8 {
    ALL_CLASSES.iter().position(|x| *x == c).unwrap() as u8
}
fn plain(classes: &[BidiClass], levels: &[Level], paras: &[ParagraphInfo]) -> Plain {
    (
        classes.iter().map(|c| cls_idx(*c)).collect(),
        levels.iter().map(|l| l.number()).collect(),
        paras.iter().map(|p| (p.range.start, p.range.end, p.level.number())).collect(),
    )
}

/// does the convenience constructor agree with the explicit built-in source?
fn conv_same(enc: Enc, api: Api, dir: Dir, text: &[u32]) -> Option<bool> {
    guard(|| conv_same_plain(enc, api, dir, text))
}

fn conv_same_plain(enc: Enc, api: Api, dir: Dir, text: &[u32]) -> bool {
    let hd = HardcodedBidiData;
    let one = |l: Level, n: usize| vec![ParagraphInfo { range: 0..n, level: l }];
    match (enc, api) {
        (Enc::U8, Api::B) => {
            let s = to_string8(text);
            let (a, b) = (BidiInfo::new(&s, dir.level()), BidiInfo::new_with_data_source(&hd, &s, dir.level()));
            let (c, d) = (InitialInfo::new(&s, dir.level()), InitialInfo::new_with_data_source(&hd, &s, dir.level()));
            plain(&a.original_classes, &a.levels, &a.paragraphs) == plain(&b.original_classes, &b.levels, &b.paragraphs)
                && a.text == b.text
                && plain(&c.original_classes, &[], &c.paragraphs) == plain(&d.original_classes, &[], &d.paragraphs)
                && plain(&c.original_classes, &[], &c.paragraphs) == plain(&a.original_classes, &[], &a.paragraphs)
        }
        (Enc::U8, Api::P) => {
            let s = to_string8(text);
            let (a, b) = (ParagraphBidiInfo::new(&s, dir.level()), ParagraphBidiInfo::new_with_data_source(&hd, &s, dir.level()));
            plain(&a.original_classes, &a.levels, &one(a.paragraph_level, s.len())) == plain(&b.original_classes, &b.levels, &one(b.paragraph_level, s.len()))
                && a.text == b.text && a.is_pure_ltr == b.is_pure_ltr
        }
        (Enc::U16, Api::B) => {
            let s = to_units16(text);
            let (a, b) = (utf16::BidiInfo::new(&s, dir.level()), utf16::BidiInfo::new_with_data_source(&hd, &s, dir.level()));
            let (c, d) = (utf16::InitialInfo::new(&s, dir.level()), utf16::InitialInfo::new_with_data_source(&hd, &s, dir.level()));
            plain(&a.original_classes, &a.levels, &a.paragraphs) == plain(&b.original_classes, &b.levels, &b.paragraphs)
                && a.text == b.text
                && plain(&c.original_classes, &[], &c.paragraphs) == plain(&d.original_classes, &[], &d.paragraphs)
                && plain(&c.original_classes, &[], &c.paragraphs) == plain(&a.original_classes, &[], &a.paragraphs)
        }
        (Enc::U16, Api::P) => {
            let s = to_units16(text);
            let (a, b) = (utf16::ParagraphBidiInfo::new(&s, dir.level()), utf16::ParagraphBidiInfo::new_with_data_source(&hd, &s, dir.level()));
            plain(&a.original_classes, &a.levels, &one(a.paragraph_level, s.len())) == plain(&b.original_classes, &b.levels, &one(b.paragraph_level, s.len()))
                && a.text == b.text && a.is_pure_ltr == b.is_pure_ltr
        }
    }
}

#[allow(dead_code)]
fn conv_same_old(enc: Enc, api: Api, dir: Dir, text: &[u32]) -> Option<bool> {
    guard(|| match (enc, api) {
        (Enc::U8, Api::B) => {
            let s = to_string8(text);
            BidiInfo::new(&s, dir.level()) == BidiInfo::new_with_data_source(&HardcodedBidiData, &s, dir.level())
                && InitialInfo::new(&s, dir.level()) == InitialInfo::new_with_data_source(&HardcodedBidiData, &s, dir.level())
        }
        (Enc::U8, Api::P) => {
            let s = to_string8(text);
            ParagraphBidiInfo::new(&s, dir.level())
                == ParagraphBidiInfo::new_with_data_source(&HardcodedBidiData, &s, dir.level())
        }
        (Enc::U16, Api::B) => {
            let s = to_units16(text);
            utf16::BidiInfo::new(&s, dir.level())
                == utf16::BidiInfo::new_with_data_source(&HardcodedBidiData, &s, dir.level())
                && utf16::InitialInfo::new(&s, dir.level())
                    == utf16::InitialInfo::new_with_data_source(&HardcodedBidiData, &s, dir.level())
        }
        (Enc::U16, Api::P) => {
            let s = to_units16(text);
            utf16::ParagraphBidiInfo::new(&s, dir.level())
                == utf16::ParagraphBidiInfo::new_with_data_source(&HardcodedBidiData, &s, dir.level())
        }
    })
}

pub struct LineOut {
    /// the measured line asked a second time, after other lines were asked of the same object, gave the same answers
    pub rep: bool,
    pub rl: Option<Vec<Level>>,
    pub rpc: Option<Vec<Level>>,
    pub vr: Option<(Vec<Level>, Vec<LevelRun>)>,
    pub druns: Option<Vec<LevelRun>>,
    pub ro: Option<(Vec<u32>, bool)>,
}

macro_rules! line_calls {
    ($info:expr, $mk:expr, $pidx:expr, $para_clone:expr, $a:expr, $b:expr, $is_b:expr, $conv:expr) => {{
        // the paragraph argument: the analysis' OWN element (`&info.paragraphs[i]`, what callers normally pass) in
        // half of the cases, a clone taken from another analysis object in the other half
        let own = $is_b && ($a + $b + $pidx) % 2 == 0 && $pidx < $info.0.as_ref().map_or(0, |i| i.paragraphs.len());
        let own_ref;
        let pref: &ParagraphInfo = if own { own_ref = &$info.0.as_ref().unwrap().paragraphs[$pidx]; own_ref } else { $para_clone };
        // warm-up: other lines are asked of the SAME analysis object first (the whole paragraph, its first unit range
        // up to the line start, the line end up to the paragraph end) so that a result remembered from a previous
        // call cannot pass for the answer to this one
        let (wa, wb) = (pref.range.start, pref.range.end);
        for (x, y) in [(wa, wb), (wa, $a), ($b, wb)] {
            if x < y && (x, y) != ($a, $b) {
                let _ = guard(|| {
                    if $is_b {
                        let i = $info.0.as_ref().unwrap();
                        (i.reordered_levels(pref, x..y).len(), i.visual_runs(pref, x..y).1.len(), i.reorder_line(pref, x..y).len())
                    } else {
                        let i = $info.1.as_ref().unwrap();
                        (i.reordered_levels(x..y).len(), i.visual_runs(x..y).1.len(), i.reorder_line(x..y).len())
                    }
                });
            }
        }
        let rl = guard(|| if $is_b { $info.0.as_ref().unwrap().reordered_levels(pref, $a..$b) } else { $info.1.as_ref().unwrap().reordered_levels($a..$b) });
        let rpc = guard(|| if $is_b { $info.0.as_ref().unwrap().reordered_levels_per_char(pref, $a..$b) } else { $info.1.as_ref().unwrap().reordered_levels_per_char($a..$b) });
        let vr = guard(|| if $is_b { $info.0.as_ref().unwrap().visual_runs(pref, $a..$b) } else { $info.1.as_ref().unwrap().visual_runs($a..$b) });
        let druns = match &rl {
            Some(l) => guard(|| unicode_bidi::deprecated::visual_runs($a..$b, l)),
            None => None,
        };
        let ro = guard(|| {
            let c = if $is_b { $info.0.as_ref().unwrap().reorder_line(pref, $a..$b) } else { $info.1.as_ref().unwrap().reorder_line($a..$b) };
            let borrowed = matches!(c, Cow::Borrowed(_));
            ($conv(&c), borrowed)
        });
        // ... and the measured line once more
        let rl2 = guard(|| if $is_b { $info.0.as_ref().unwrap().reordered_levels(pref, $a..$b) } else { $info.1.as_ref().unwrap().reordered_levels($a..$b) });
        let vr2 = guard(|| if $is_b { $info.0.as_ref().unwrap().visual_runs(pref, $a..$b) } else { $info.1.as_ref().unwrap().visual_runs($a..$b) });
        let ro2 = guard(|| {
            let c = if $is_b { $info.0.as_ref().unwrap().reorder_line(pref, $a..$b) } else { $info.1.as_ref().unwrap().reorder_line($a..$b) };
            $conv(&c)
        });
        // three FRESH analysis objects, each asked one of the line queries as its very FIRST query — made AFTER the
        // measured calls: made before them they would hand the right answer to a result cache shared between equal
        // analyses (keyed by text and levels) and so hide that the warm-up lines had poisoned it (red-team #11)
        let fresh_ro = $mk().and_then(|i2| guard(|| {
            let c = if $is_b { let i = i2.0.as_ref().unwrap(); let p = if own { i.paragraphs[$pidx].clone() } else { pref.clone() }; i.reorder_line(&p, $a..$b) } else { i2.1.as_ref().unwrap().reorder_line($a..$b) };
            $conv(&c)
        }));
        let fresh_vr = $mk().and_then(|i2| guard(|| {
            let (l, r) = if $is_b { let i = i2.0.as_ref().unwrap(); i.visual_runs(&i.paragraphs.get($pidx).cloned().unwrap_or_else(|| pref.clone()), $a..$b) } else { i2.1.as_ref().unwrap().visual_runs($a..$b) };
            (l.iter().map(|x| x.number()).collect::<Vec<u8>>(), r)
        }));
        let fresh_rl = $mk().and_then(|i2| guard(|| {
            let l = if $is_b { let i = i2.0.as_ref().unwrap(); i.reordered_levels(&i.paragraphs.get($pidx).cloned().unwrap_or_else(|| pref.clone()), $a..$b) } else { i2.1.as_ref().unwrap().reordered_levels($a..$b) };
            l.iter().map(|x| x.number()).collect::<Vec<u8>>()
        }));
        let lv = |v: &Option<Vec<Level>>| v.as_ref().map(|x| x.iter().map(|l| l.number()).collect::<Vec<u8>>());
        let fresh_ok = fresh_ro == ro.as_ref().map(|v| v.0.clone())
            && fresh_vr == vr.as_ref().map(|v| (v.0.iter().map(|x| x.number()).collect::<Vec<u8>>(), v.1.clone()))
            && fresh_rl == lv(&rl);
        let rep = fresh_ok && lv(&rl) == lv(&rl2)
            && vr.as_ref().map(|v| (lv(&Some(v.0.clone())), v.1.clone())) == vr2.as_ref().map(|v| (lv(&Some(v.0.clone())), v.1.clone()))
            && ro.as_ref().map(|v| v.0.clone()) == ro2;
        LineOut { rep, rl, rpc, vr, druns, ro }
    }};
}

pub struct LineCtx {
    pub analysis: Analysis,
    pub out: LineOut,
}

pub fn run_line(enc: Enc, api: Api, dir: Dir, text: &[u32], ds: &Option<DsSpec>, para: usize, a: usize, b: usize) -> Option<LineCtx> {
    let analysis = analyse(enc, api, dir, text, ds)?;
    let pinfo = analysis.paras.get(para).cloned().unwrap_or(ParagraphInfo { range: 0..0, level: Level::ltr() });
    let is_b = api == Api::B;
    let hd = HardcodedBidiData;
    let out = match enc {
        Enc::U8 => {
            let sh = shifted8(text);
            let s: &str = sh.as_str();
            let mk = || -> Option<(Option<BidiInfo>, Option<ParagraphBidiInfo>)> { guard(|| match (api, ds) {
                (Api::B, None) => (Some(BidiInfo::new_with_data_source(&hd, &s, dir.level())), None),
                (Api::B, Some(spec)) => (Some(BidiInfo::new_with_data_source(&CustomDs::new(spec), &s, dir.level())), None),
                (Api::P, None) => (None, Some(ParagraphBidiInfo::new_with_data_source(&hd, &s, dir.level()))),
                (Api::P, Some(spec)) => (None, Some(ParagraphBidiInfo::new_with_data_source(&CustomDs::new(spec), &s, dir.level()))),
            }) };
            let infos = mk()?;
            let conv = |c: &Cow<str>| c.chars().map(|ch| ch as u32).collect::<Vec<u32>>();
            line_calls!(infos, mk, para, &pinfo, a, b, is_b, conv)
        }
        Enc::U16 => {
            let sh = shifted16(text);
            let s: &[u16] = sh.as_slice();
            let mk = || -> Option<(Option<utf16::BidiInfo>, Option<utf16::ParagraphBidiInfo>)> { guard(|| match (api, ds) {
                (Api::B, None) => (Some(utf16::BidiInfo::new_with_data_source(&hd, &s, dir.level())), None),
                (Api::B, Some(spec)) => (Some(utf16::BidiInfo::new_with_data_source(&CustomDs::new(spec), &s, dir.level())), None),
                (Api::P, None) => (None, Some(utf16::ParagraphBidiInfo::new_with_data_source(&hd, &s, dir.level()))),
                (Api::P, Some(spec)) => (None, Some(utf16::ParagraphBidiInfo::new_with_data_source(&CustomDs::new(spec), &s, dir.level()))),
            }) };
            let infos = mk()?;
            let conv = |c: &Cow<[u16]>| c.iter().map(|u| *u as u32).collect::<Vec<u32>>();
            line_calls!(infos, mk, para, &pinfo, a, b, is_b, conv)
        }
    };
    Some(LineCtx { analysis, out })
}

#[cfg(unicode_bidi_verif)]
fn stage_generic<'a, T: TextSource<'a> + ?Sized, D: BidiDataSource>(
    ds: &D,
    text: &'a T,
    classes: &[BidiClass],
    para_level: Level,
) -> String {
    use unicode_bidi::verif_hooks as h;
    use unicode_bidi::LevelRunVec;
    let n = TextSource::len(text);
    let has_iso = classes.iter().any(|c| matches!(c, BidiClass::RLI | BidiClass::LRI | BidiClass::FSI));
    let mut levels = vec![para_level; n];
    let mut pcs = classes.to_vec();
    let mut runs = LevelRunVec::new();
    h::explicit_compute(text, para_level, classes, &mut levels, &mut pcs, &mut runs);
    let xl = levels_str(&levels);
    let xp = classes_str(&pcs);
    let xr = runs.iter().map(|r| format!("{}:{}", r.start, r.end)).collect::<Vec<_>>().join(";");
    let mut seqs = h::IsolatingRunSequenceVec::new();
    h::isolating_run_sequences(para_level, classes, &levels, runs, has_iso, &mut seqs);
    let sq = seqs
        .iter()
        .map(|s| {
            format!(
                "{},{},{}",
                s.runs.iter().map(|r| format!("{}:{}", r.start, r.end)).collect::<Vec<_>>().join("+"),
                class_name(s.sos),
                class_name(s.eos)
            )
        })
        .collect::<Vec<_>>()
        .join("|");
    let mut w = vec![];
    let mut nn = vec![];
    for seq in &seqs {
        h::resolve_weak(text, seq, &mut pcs);
        w.push(classes_str(&pcs));
        h::resolve_neutral(text, ds, seq, &levels, classes, &mut pcs);
        nn.push(classes_str(&pcs));
    }
    h::resolve_levels(&pcs, &mut levels);
    format!(
        "HASISO={} XL={} XP={} XR={} SQ={} W={} N={} FL={}",
        has_iso as u8, xl, xp, xr, sq, w.join(";"), nn.join(";"), levels_str(&levels)
    )
}

/// std-only lossy segmentation of UTF-16 (independent of the crate):
/// (start, scalar, len)
pub fn lossy_segments(units: &[u16]) -> Vec<(usize, u32, usize)> {
    let mut out = vec![];
    let mut pos = 0;
    for r in char::decode_utf16(units.iter().copied()) {
        match r {
            Ok(c) => {
                out.push((pos, c as u32, c.len_utf16()));
                pos += c.len_utf16();
            }
            Err(_) => {
                out.push((pos, 0xFFFD, 1));
                pos += 1;
            }
        }
    }
    out
}

fn fnv(h: &mut u64, s: &str) {
    for b in s.bytes() {
        *h ^= b as u64;
        *h = h.wrapping_mul(0x100000001b3);
    }
}

/// minimal serde deserializer: one integer, offered to the visitor with a chosen integer type
#[cfg(feature = "serde")]
struct IntDe {
    n: i64,
    kind: u8,
}
#[cfg(feature = "serde")]
impl<'de> serde::Deserializer<'de> for IntDe {
    type Error = serde::de::value::Error;
    fn deserialize_any<V: serde::de::Visitor<'de>>(self, v: V) -> Result<V::Value, Self::Error> {
        match self.kind {
            0 => v.visit_u8(self.n as u8),
            1 => v.visit_u16(self.n as u16),
            2 => v.visit_u32(self.n as u32),
            3 => v.visit_u64(self.n as u64),
            4 => v.visit_i8(self.n as i8),
            5 => v.visit_i16(self.n as i16),
            6 => v.visit_i32(self.n as i32),
            _ => v.visit_i64(self.n),
        }
    }
    fn deserialize_newtype_struct<V: serde::de::Visitor<'de>>(self, _name: &'static str, v: V) -> Result<V::Value, Self::Error> {
        v.visit_newtype_struct(self)
    }
    serde::forward_to_deserialize_any! {
        bool i8 i16 i32 i64 i128 u8 u16 u32 u64 u128 f32 f64 char str string bytes byte_buf option unit unit_struct
        seq tuple tuple_struct map struct enum identifier ignored_any
    }
}

pub fn run(id: &str, mode: &str, input: &Input) -> String {
    let head = format!("{} {}", id, mode);
    match input {
        Input::Bidi { enc, api, dir, text, ds } => {
            let q = format!(
                "{} bidi enc={} api={} dir={} T={} DS={}",
                head, enc_tag(*enc), if *api == Api::B { "B" } else { "P" }, dir.tag(), hexlist(text), ds_str(ds)
            );
            match analyse(*enc, *api, *dir, text, ds) {
                Some(a) => {
                    let conv = if ds.is_none() {
                        match conv_same(*enc, *api, *dir, text) {
                            Some(true) => " CONV=same",
                            Some(false) => " CONV=diff",
                            None => " CONV=PANIC",
                        }
                    } else {
                        ""
                    };
                    format!("{} => {}{}", q, analysis_fields(&a), conv)
                }
                None => format!("{} => PANIC", q),
            }
        }
        Input::Line { enc, api, dir, text, ds, para, a, b } => {
            let q = format!(
                "{} line enc={} api={} dir={} T={} DS={} para={} a={} b={}",
                head, enc_tag(*enc), if *api == Api::B { "B" } else { "P" }, dir.tag(), hexlist(text), ds_str(ds), para, a, b
            );
            match run_line(*enc, *api, *dir, text, ds, *para, *a, *b) {
                Some(ctx) => {
                    let an = &ctx.analysis;
                    let pl = an.paras.get(*para).map(|p| p.level.number()).unwrap_or(0);
                    let o = &ctx.out;
                    format!(
                        "{} => C={} L={} PL={} HR={} RL={} RPC={} VL={} RUNS={} DRUNS={} RO={} BOR={} REP={}",
                        q,
                        classes_str(&an.classes),
                        levels_str(&an.levels),
                        pl,
                        an.has_rtl as u8,
                        or_panic(o.rl.as_ref().map(|v| levels_str(v))),
                        or_panic(o.rpc.as_ref().map(|v| levels_str(v))),
                        or_panic(o.vr.as_ref().map(|v| levels_str(&v.0))),
                        or_panic(o.vr.as_ref().map(|v| runs_str(&v.1))),
                        or_panic(o.druns.as_ref().map(|v| runs_str(v))),
                        or_panic(o.ro.as_ref().map(|v| hexlist(&v.0))),
                        o.ro.as_ref().map(|v| (v.1 as u8).to_string()).unwrap_or_else(|| "PANIC".into()),
                        o.rep as u8,
                    )
                }
                None => format!("{} => PANIC", q),
            }
        }
        Input::Rv { levels } => {
            let q = format!("{} rv LV={}", head, numlist(levels));
            let lv: Vec<Level> = levels.iter().map(|&n| Level::new(n).expect("level")).collect();
            let r1 = guard(|| BidiInfo::reorder_visual(&lv));
            let r2 = guard(|| ParagraphBidiInfo::reorder_visual(&lv));
            let r3 = guard(|| utf16::BidiInfo::reorder_visual(&lv));
            let r4 = guard(|| utf16::ParagraphBidiInfo::reorder_visual(&lv));
            let all_same = r1 == r2 && r2 == r3 && r3 == r4;
            format!("{} => R={} SAME={}", q, or_panic(r1.map(|v| numlist(&v))), all_same as u8)
        }
        Input::BaseDir { enc, text, ds } => {
            let q = format!("{} basedir enc={} T={} DS={}", head, enc_tag(*enc), hexlist(text), ds_str(ds));
            let hd = HardcodedBidiData;
            let r = guard(|| {
                let (d, df) = match (enc, ds) {
                    (Enc::U8, None) => {
                        let s = to_string8(text);
                        let d1 = hd::get_base_direction(s.as_str());
                        let d2 = unicode_bidi::get_base_direction_with_data_source(&hd, s.as_str());
                        let f1 = hd::get_base_direction_full(s.as_str());
                        let f2 = unicode_bidi::get_base_direction_full_with_data_source(&hd, s.as_str());
                        assert!(d1 == d2 && f1 == f2, "convenience base direction differs");
                        (d1, f1)
                    }
                    (Enc::U8, Some(spec)) if *spec == zst_spec() => {
                        let s = to_string8(text);
                        (
                            unicode_bidi::get_base_direction_with_data_source(&ZstDs, s.as_str()),
                            unicode_bidi::get_base_direction_full_with_data_source(&ZstDs, s.as_str()),
                        )
                    }
                    (Enc::U16, Some(spec)) if *spec == zst_spec() => {
                        let s = to_units16(text);
                        (
                            unicode_bidi::get_base_direction_with_data_source(&ZstDs, s.as_slice()),
                            unicode_bidi::get_base_direction_full_with_data_source(&ZstDs, s.as_slice()),
                        )
                    }
                    (Enc::U8, Some(spec)) => {
                        let s = to_string8(text);
                        let c = CustomDs::new(spec);
                        (
                            unicode_bidi::get_base_direction_with_data_source(&c, s.as_str()),
                            unicode_bidi::get_base_direction_full_with_data_source(&c, s.as_str()),
                        )
                    }
                    (Enc::U16, None) => {
                        let s = to_units16(text);
                        let d1 = hd::get_base_direction(s.as_slice());
                        let d2 = unicode_bidi::get_base_direction_with_data_source(&hd, s.as_slice());
                        let f1 = hd::get_base_direction_full(s.as_slice());
                        let f2 = unicode_bidi::get_base_direction_full_with_data_source(&hd, s.as_slice());
                        assert!(d1 == d2 && f1 == f2, "convenience base direction differs");
                        (d1, f1)
                    }
                    (Enc::U16, Some(spec)) => {
                        let s = to_units16(text);
                        let c = CustomDs::new(spec);
                        (
                            unicode_bidi::get_base_direction_with_data_source(&c, s.as_slice()),
                            unicode_bidi::get_base_direction_full_with_data_source(&c, s.as_slice()),
                        )
                    }
                };
                (d, df)
            });
            let an = analyse(*enc, Api::B, Dir::Auto, text, ds);
            match (r, an) {
                (Some((d, df)), Some(an)) => format!(
                    "{} => D={} DF={} C={} P={}",
                    q, dir_str(&d), dir_str(&df), classes_str(&an.classes), paras_str(&an.paras)
                ),
                _ => format!("{} => PANIC", q),
            }
        }
        Input::Stage { enc, dir, text, ds } => {
            let q = format!("{} stage enc={} dir={} T={} DS={}", head, enc_tag(*enc), dir.tag(), hexlist(text), ds_str(ds));
            #[cfg(unicode_bidi_verif)]
            {
                let hd = HardcodedBidiData;
                let r = guard(|| match enc {
                    Enc::U8 => {
                        let s = to_string8(text);
                        let (cl, ps) = match ds {
                            None => { let ii = InitialInfo::new_with_data_source(&hd, &s, dir.level()); (ii.original_classes, ii.paragraphs) }
                            Some(spec) => { let ii = InitialInfo::new_with_data_source(&CustomDs::new(spec), &s, dir.level()); (ii.original_classes, ii.paragraphs) }
                        };
                        match ps.first() {
                            None => "EMPTY".to_string(),
                            Some(p) => {
                                let sub = &s[p.range.clone()];
                                let c = &cl[p.range.clone()];
                                let body = match ds {
                                    None => stage_generic(&hd, sub, c, p.level),
                                    Some(spec) => stage_generic(&CustomDs::new(spec), sub, c, p.level),
                                };
                                format!("PR={}:{} PL={} C={} {}", p.range.start, p.range.end, p.level.number(), classes_str(c), body)
                            }
                        }
                    }
                    Enc::U16 => {
                        let s = to_units16(text);
                        let (cl, ps) = match ds {
                            None => { let ii = utf16::InitialInfo::new_with_data_source(&hd, &s, dir.level()); (ii.original_classes, ii.paragraphs) }
                            Some(spec) => { let ii = utf16::InitialInfo::new_with_data_source(&CustomDs::new(spec), &s, dir.level()); (ii.original_classes, ii.paragraphs) }
                        };
                        match ps.first() {
                            None => "EMPTY".to_string(),
                            Some(p) => {
                                let sub = &s[p.range.clone()];
                                let c = &cl[p.range.clone()];
                                let body = match ds {
                                    None => stage_generic(&hd, sub, c, p.level),
                                    Some(spec) => stage_generic(&CustomDs::new(spec), sub, c, p.level),
                                };
                                format!("PR={}:{} PL={} C={} {}", p.range.start, p.range.end, p.level.number(), classes_str(c), body)
                            }
                        }
                    }
                });
                format!("{} => {}", q, or_panic(r))
            }
            #[cfg(not(unicode_bidi_verif))]
            {
                format!("{} => NOHOOKS", q)
            }
        }
        Input::U16 { units, ops } => {
            let q = format!("{} u16 U={} OPS={}", head, hexlist(units), if ops.is_empty() { "-" } else { ops });
            let u = to_units16(units);
            let r = guard(|| {
                let t: &[u16] = &u;
                let ca: Vec<String> = (0..=t.len() + 1)
                    .map(|i| match t.char_at(i) {
                        Some((c, l)) => format!("{:X}:{}", c as u32, l),
                        None => "-".to_string(),
                    })
                    .collect();
                // "random access at an index returns ... nothing otherwise": also far beyond the text
                let far16 = [usize::MAX, usize::MAX - 1, usize::MAX / 2, t.len() + 2, t.len() + 1000, 1 << 32];
                let far_ok16 = far16.iter().all(|&i| i <= t.len() || t.char_at(i).is_none());
                let ci: Vec<String> = t.char_indices().map(|(i, c)| format!("{}:{:X}", i, c as u32)).collect();
                let il: Vec<String> = t.indices_lengths().map(|(i, l)| format!("{}:{}", i, l)).collect();
                let ch: Vec<String> = t.chars().map(|c| format!("{:X}", c as u32)).collect();
                let cl: Vec<String> = t.chars().map(|c| <[u16] as TextSource>::char_len(c).to_string()).collect();
                // nth / nth_back / count / last / skip+step_by / rev / size_hint from fresh iterators
                let h = |c: Option<char>| c.map(|c| format!("{:X}", c as u32)).unwrap_or_else(|| "-".to_string());
                let nth: Vec<String> = (0..=t.len() + 1).map(|k| h(t.chars().nth(k))).collect();
                let nthb: Vec<String> = (0..=t.len() + 1).map(|k| h(t.chars().nth_back(k))).collect();
                let step: Vec<String> = t.chars().skip(1).step_by(2).map(|c| format!("{:X}", c as u32)).collect();
                let rev: Vec<String> = t.chars().rev().map(|c| format!("{:X}", c as u32)).collect();
                let nchars = t.chars().count();
                let (lo, hi) = t.chars().size_hint();
                let hint_ok = lo <= nchars && hi.map_or(true, |x| x >= nchars);
                let ci_ok = {
                    let all: Vec<(usize, char)> = t.char_indices().collect();
                    let il_all: Vec<(usize, usize)> = t.indices_lengths().collect();
                    t.char_indices().count() == all.len() && t.char_indices().last() == all.last().copied()
                        && (0..=all.len() + 1).all(|k| t.char_indices().nth(k) == all.get(k).copied())
                        && t.indices_lengths().count() == il_all.len() && t.indices_lengths().last() == il_all.last().copied()
                        && (0..=il_all.len() + 1).all(|k| t.indices_lengths().nth(k) == il_all.get(k).copied())
                        && all.len() == nchars && il_all.len() == nchars
                };
                let meth = format!("{}|{}|{}|{}|{}|{}|{}", nth.join(","), nthb.join(","), step.join(","), rev.join(","), nchars, h(t.chars().last()), (hint_ok && ci_ok) as u8);
                let mut it = t.chars();
                let mut outs = vec![];
                for o in ops.chars() {
                    let r = if o == 'f' { it.next() } else { it.next_back() };
                    outs.push(match r {
                        Some(c) => format!("{:X}", c as u32),
                        None => "-".to_string(),
                    });
                }
                // subrange over every pair of character boundaries: the characters of the sub-text
                let mut bounds: Vec<usize> = t.indices_lengths().map(|(i, _)| i).collect();
                bounds.push(t.len());
                let mut sub = vec![];
                if bounds.len() <= 9 {
                    for (x, &a) in bounds.iter().enumerate() {
                        for &b in &bounds[x..] {
                            let st = t.subrange(a..b);
                            sub.push(format!("{}-{}:{}:{}", a, b, TextSource::len(st), st.chars().map(|c| format!("{:X}", c as u32)).collect::<Vec<_>>().join(".")));
                        }
                    }
                }
                format!(
                    "LEN={} CA={} CI={} IL={} CH={} CL={} IT={} SUB={} METH={} FAR={}",
                    TextSource::len(t), ca.join(","), ci.join(","), il.join(","), ch.join(","), cl.join(","), outs.join(","), sub.join(","), meth, far_ok16 as u8
                )
            });
            format!("{} => {}", q, or_panic(r))
        }
        Input::S8 { text } => {
            let q = format!("{} s8 T={}", head, hexlist(text));
            let s = to_string8(text);
            let r = guard(|| {
                let t: &str = s.as_str();
                let n = TextSource::len(t);
                let ca: Vec<String> = (0..=n + 1)
                    .map(|i| match TextSource::char_at(t, i) {
                        Some((c, l)) => format!("{:X}:{}", c as u32, l),
                        None => "-".to_string(),
                    })
                    .collect();
                let ci: Vec<String> = TextSource::char_indices(t).map(|(i, c)| format!("{}:{:X}", i, c as u32)).collect();
                let il: Vec<String> = TextSource::indices_lengths(t).map(|(i, l)| format!("{}:{}", i, l)).collect();
                let ch: Vec<String> = TextSource::chars(t).map(|c| format!("{:X}", c as u32)).collect();
                let cl: Vec<String> = TextSource::chars(t).map(|c| <str as TextSource>::char_len(c).to_string()).collect();
                let mut bounds: Vec<usize> = TextSource::indices_lengths(t).map(|(i, _)| i).collect();
                bounds.push(n);
                let mut sub = vec![];
                if bounds.len() <= 9 {
                    for (x, &a) in bounds.iter().enumerate() {
                        for &b in &bounds[x..] {
                            let st = TextSource::subrange(t, a..b);
                            sub.push(format!("{}-{}:{}:{}", a, b, TextSource::len(st), TextSource::chars(st).map(|c| format!("{:X}", c as u32)).collect::<Vec<_>>().join(".")));
                        }
                    }
                }
                let far8 = [usize::MAX, usize::MAX - 1, usize::MAX / 2, n + 2, n + 1000, 1 << 32];
                let far_ok8 = far8.iter().all(|&i| i <= n || TextSource::char_at(t, i).is_none());
                format!("LEN={} CA={} CI={} IL={} CH={} CL={} SUB={} FAR={}", n, ca.join(","), ci.join(","), il.join(","), ch.join(","), cl.join(","), sub.join(","), far_ok8 as u8)
            });
            format!("{} => {}", q, or_panic(r))
        }
        Input::Lvl { l } => {
            let q = format!("{} lvl l={}", head, l);
            let r = guard(|| {
                let lv = Level::new(*l).expect("valid level");
                let mut s = format!(
                    "NUM={} LTR={} RTL={} CLS={} NL={} NR={} LG={} U8={}",
                    lv.number(), lv.is_ltr() as u8, lv.is_rtl() as u8, class_name(lv.bidi_class()),
                    lv.new_explicit_next_ltr().map(|x| x.number().to_string()).unwrap_or("E".into()),
                    lv.new_explicit_next_rtl().map(|x| x.number().to_string()).unwrap_or("E".into()),
                    lv.new_lowest_ge_rtl().map(|x| x.number().to_string()).unwrap_or("E".into()),
                    u8::from(lv),
                );
                let mut raise = vec![];
                let mut raisex = vec![];
                let mut lower = vec![];
                for amt in 0..=255u8 {
                    let mut a = lv;
                    let ok = a.raise(amt).is_ok();
                    raise.push(format!("{}{}", if ok { "" } else { "E" }, a.number()));
                    let mut b = lv;
                    let ok = b.raise_explicit(amt).is_ok();
                    raisex.push(format!("{}{}", if ok { "" } else { "E" }, b.number()));
                    let mut c = lv;
                    let ok = c.lower(amt).is_ok();
                    lower.push(format!("{}{}", if ok { "" } else { "E" }, c.number()));
                }
                let cmp: String = (0..=126u8)
                    .map(|m| {
                        let o = Level::new(m).unwrap();
                        match lv.cmp(&o) {
                            std::cmp::Ordering::Less => '<',
                            std::cmp::Ordering::Equal => '=',
                            std::cmp::Ordering::Greater => '>',
                        }
                    })
                    .collect();
                let streq = (lv == lv.number().to_string().as_str()) && (lv == lv.number().to_string()) && (lv == "x");
                // every relational operator against every level (PartialOrd / PartialEq are separate impls from Ord)
                let mut rel_ok = true;
                for m in 0..=126u8 {
                    let o = Level::new(m).unwrap();
                    let (a, b) = (lv.number(), m);
                    rel_ok &= (lv < o) == (a < b) && (lv <= o) == (a <= b) && (lv > o) == (a > b) && (lv >= o) == (a >= b)
                        && (lv == o) == (a == b) && (lv != o) == (a != b)
                        && lv.partial_cmp(&o) == Some(a.cmp(&b)) && lv.max(o).number() == a.max(b) && lv.min(o).number() == a.min(b);
                }
                // string equality must also be FALSE where it should: other numbers, padded / signed / wrapped forms
                let mut nstreq = 0u32;
                for m in 0..=300u32 {
                    if m != lv.number() as u32 && (lv == m.to_string().as_str() || lv == m.to_string()) { nstreq += 1; }
                }
                for bad in [format!("0{}", lv.number()), format!("+{}", lv.number()), format!(" {}", lv.number()), format!("{}", lv.number() as u32 + 256), String::new(), "X".to_string(), "xx".to_string()] {
                    if lv == bad.as_str() || lv == bad { nstreq += 1; }
                }
                s += &format!(" RAISE={} RAISEX={} LOWER={} CMP={} STREQ={} REL={} NSTREQ={}", raise.join(","), raisex.join(","), lower.join(","), cmp, streq as u8, rel_ok as u8, nstreq);
                s
            });
            format!("{} => {}", q, or_panic(r))
        }
        Input::U8 { n } => {
            let q = format!("{} u8 n={}", head, n);
            let new = Level::new(*n).map(|x| x.number().to_string()).unwrap_or("E".into());
            let newx = Level::new_explicit(*n).map(|x| x.number().to_string()).unwrap_or("E".into());
            let from = guard(|| Level::from(*n).number().to_string());
            // Level::vec is the checked bulk conversion: it must reject what Level::from rejects
            let vec1 = guard(|| Level::vec(&[0, *n, 1]).iter().map(|l| l.number().to_string()).collect::<Vec<_>>().join(","));
            // ... also inside longer slices (block-wise validation): n at every position of a slice of 19 valid numbers
            let mut vec_long_ok = true;
            for pos in 0..19usize {
                let mut v: Vec<u8> = (0..19u8).map(|k| k * 6).collect();
                v[pos] = *n;
                let r = guard(|| Level::vec(&v).iter().map(|l| l.number()).collect::<Vec<u8>>());
                vec_long_ok &= if *n <= 126 { r == Some(v.clone()) } else { r.is_none() };
            }
            let r8 = guard(|| Level::vec(&[*n; 8]).iter().map(|l| l.number()).collect::<Vec<u8>>());
            vec_long_ok &= if *n <= 126 { r8 == Some(vec![*n; 8]) } else { r8.is_none() };
            format!("{} => NEW={} NEWX={} FROM={} VEC={} VECL={}", q, new, newx, or_panic(from), or_panic(vec1), vec_long_ok as u8)
        }
        Input::HasRtl { levels } => {
            let q = format!("{} hasrtl LV={}", head, numlist(levels));
            let lv: Vec<Level> = levels.iter().map(|&n| Level::new(n).expect("level")).collect();
            let h = unicode_bidi::level::has_rtl(&lv);
            let v = Level::vec(levels);
            let su = Level::from_slice_unchecked(levels);
            format!("{} => H={} VEC={} SLICE={}", q, h as u8, (v == lv) as u8, (su == &lv[..]) as u8)
        }
        Input::Cls => {
            let q = format!("{} cls", head);
            let mut runs: Vec<(u32, u32, BidiClass)> = vec![];
            let mut same = true;
            let mut panics: Vec<u32> = vec![];
            for cp in 0..=0x10FFFFu32 {
                if let Some(c) = char::from_u32(cp) {
                    let r = guard(|| (hd::bidi_class(c), HardcodedBidiData.bidi_class(c)));
                    let cl = match r {
                        Some((a, b)) => {
                            if a != b {
                                same = false;
                            }
                            a
                        }
                        None => {
                            if panics.len() < 8 {
                                panics.push(cp);
                            }
                            continue;
                        }
                    };
                    match runs.last_mut() {
                        Some(r) if r.2 == cl && r.1 + 1 == cp => r.1 = cp,
                        _ => runs.push((cp, cp, cl)),
                    }
                }
            }
            // the answer must not depend on the ORDER of the lookups (a remembered interval or cache would show):
            // the same table again descending, in a stride permutation, and ping-ponging around every run boundary
            let asc: Vec<u8> = {
                let mut v = vec![255u8; 0x110000];
                for (a, b, c) in &runs { for cp in *a..=*b { v[cp as usize] = cls_idx(*c); } }
                v
            };
            let mut order_bad: Vec<u32> = vec![];
            let mut probe = |cp: u32, bad: &mut Vec<u32>| {
                if let Some(c) = char::from_u32(cp) {
                    let got = guard(|| (cls_idx(hd::bidi_class(c)), cls_idx(HardcodedBidiData.bidi_class(c))));
                    if got != Some((asc[cp as usize], asc[cp as usize])) && asc[cp as usize] != 255 && bad.len() < 8 { bad.push(cp); }
                }
            };
            for cp in (0..=0x10FFFFu32).rev() { probe(cp, &mut order_bad); }
            for i in 0..0x110000u32 { probe((i.wrapping_mul(7919)) % 0x110000, &mut order_bad); }
            for (a, b, _) in &runs {
                for &(x, y) in &[(*a, a.wrapping_sub(1)), (*b, *b + 1), (*b + 1, *b), (a.wrapping_sub(1), *a), (*b, *a), (*a, *b)] {
                    if x <= 0x10FFFF && y <= 0x10FFFF { probe(x, &mut order_bad); probe(y, &mut order_bad); probe(x, &mut order_bad); }
                }
            }
            let s: Vec<String> = runs.iter().map(|(a, b, c)| format!("{:X}-{:X}:{}", a, b, class_name(*c))).collect();
            format!("{} => SAME={} PANICS={} ORDER={} R={}", q, same as u8, hexlist(&panics), if order_bad.is_empty() { "same".to_string() } else { hexlist(&order_bad) }, s.join(";"))
        }
        Input::Brk => {
            let q = format!("{} brk", head);
            let mut some = vec![];
            let mut none = 0u32;
            for cp in 0..=0x10FFFFu32 {
                if let Some(c) = char::from_u32(cp) {
                    match guard(|| HardcodedBidiData.bidi_matched_opening_bracket(c)) {
                        Some(Some(m)) => some.push(format!("{:X}:{}{:X}", cp, if m.is_open { "o" } else { "c" }, m.opening as u32)),
                        Some(None) => none += 1,
                        None => some.push(format!("{:X}:PANIC", cp)),
                    }
                }
            }
            format!("{} => NONE={} B={}", q, none, some.join(";"))
        }
        Input::Ver => {
            use unicode_bidi::format_chars as fc;
            let v = unicode_bidi::UNICODE_VERSION;
            format!(
                "{} ver => V={}.{}.{} MAXI={} MAXX={} FC=ALM:{:X};LRM:{:X};RLM:{:X};LRI:{:X};RLI:{:X};FSI:{:X};PDI:{:X};LRE:{:X};RLE:{:X};PDF:{:X};LRO:{:X};RLO:{:X} LTR={} RTL={}",
                head, v.0, v.1, v.2, Level::max_implicit_depth(), Level::max_explicit_depth(),
                fc::ALM as u32, fc::LRM as u32, fc::RLM as u32, fc::LRI as u32, fc::RLI as u32, fc::FSI as u32,
                fc::PDI as u32, fc::LRE as u32, fc::RLE as u32, fc::PDF as u32, fc::LRO as u32, fc::RLO as u32,
                Level::ltr().number(), Level::rtl().number(),
            )
        }
        Input::Meta9 { units, dir, ds, line } => {
            let q = format!("{} meta9 U={} dir={} DS={} la={} lb={}", head, hexlist(units), dir.tag(), ds_str(ds), line.0, line.1);
            let u = to_units16(units);
            let segs = lossy_segments(&u);
            let text8: Vec<u32> = segs.iter().map(|s| s.1).collect();
            // map a UTF-16 unit offset on a boundary to the UTF-8 byte offset
            let mut off8 = vec![0usize; u.len() + 1];
            let mut b = 0usize;
            for s in &segs {
                for j in 0..s.2 {
                    off8[s.0 + j] = b;
                }
                b += char::from_u32(s.1).unwrap().len_utf8();
            }
            off8[u.len()] = b;
            let mut a_parts = vec![];
            let mut b_parts = vec![];
            for api in [Api::B, Api::P] {
                let a16 = analyse(Enc::U16, api, *dir, units, ds);
                let a8 = analyse(Enc::U8, api, *dir, &text8, ds);
                match (a16, a8) {
                    (Some(a16), Some(a8)) => {
                        let starts8: Vec<usize> = segs.iter().map(|s| off8[s.0]).collect();
                        a_parts.push(format!(
                            "c={};l={};p={};d={};h={}",
                            classes_str(&segs.iter().map(|s| a16.classes[s.0]).collect::<Vec<_>>()),
                            levels_str(&segs.iter().map(|s| a16.levels[s.0]).collect::<Vec<_>>()),
                            a16.paras.iter().map(|p| format!("{}:{}:{}", off8[p.range.start], off8[p.range.end], p.level.number())).collect::<Vec<_>>().join("/"),
                            a16.dirs.iter().map(|d| dir_str(d)).collect::<Vec<_>>().join("/"),
                            a16.has_rtl as u8,
                        ));
                        b_parts.push(format!(
                            "c={};l={};p={};d={};h={}",
                            classes_str(&starts8.iter().map(|&i| a8.classes[i]).collect::<Vec<_>>()),
                            levels_str(&starts8.iter().map(|&i| a8.levels[i]).collect::<Vec<_>>()),
                            a8.paras.iter().map(|p| format!("{}:{}:{}", p.range.start, p.range.end, p.level.number())).collect::<Vec<_>>().join("/"),
                            a8.dirs.iter().map(|d| dir_str(d)).collect::<Vec<_>>().join("/"),
                            a8.has_rtl as u8,
                        ));
                        // a line inside paragraph 0 region given in UTF-16 offsets
                        let (la, lb) = *line;
                        if la < lb && lb <= u.len() {
                            // find paragraph containing la for api B
                            let pidx16 = a16.paras.iter().position(|p| p.range.start <= la && lb <= p.range.end);
                            if let Some(pi) = pidx16 {
                                let l16 = run_line(Enc::U16, api, *dir, units, ds, pi, la, lb);
                                let l8 = run_line(Enc::U8, api, *dir, &text8, ds, pi, off8[la], off8[lb]);
                                if let (Some(l16), Some(l8)) = (l16, l8) {
                                    let in_line: Vec<&(usize, u32, usize)> = segs.iter().filter(|s| s.0 >= la && s.0 < lb).collect();
                                    let rl16 = l16.out.rl.as_ref().map(|v| levels_str(&in_line.iter().map(|s| v[s.0]).collect::<Vec<_>>()));
                                    let rl8 = l8.out.rl.as_ref().map(|v| levels_str(&in_line.iter().map(|s| v[off8[s.0]]).collect::<Vec<_>>()));
                                    let runs16 = l16.out.vr.as_ref().map(|v| v.1.iter().map(|r| format!("{}:{}", off8[r.start], off8[r.end])).collect::<Vec<_>>().join("/"));
                                    let runs8 = l8.out.vr.as_ref().map(|v| v.1.iter().map(|r| format!("{}:{}", r.start, r.end)).collect::<Vec<_>>().join("/"));
                                    // reordered line, compared character for character: the characters are the
                                    // segments of the INPUT (an unpaired surrogate stays one character, read as
                                    // U+FFFD, even when the copy of an LTR run puts it next to another one), in
                                    // the order given by the crate's own runs; the flattened output must be
                                    // exactly these characters (LTR runs verbatim, RTL runs re-encoded).
                                    let ro16 = match (&l16.out.vr, &l16.out.ro) {
                                        (Some((lv, runs)), Some((flat, _))) => {
                                            let mut chars: Vec<u32> = vec![];
                                            let mut units: Vec<u32> = vec![];
                                            for r in runs {
                                                let mut ss: Vec<&(usize, u32, usize)> = segs.iter().filter(|s| s.0 >= r.start && s.0 < r.end).collect();
                                                let rtl = lv[r.start].is_rtl();
                                                if rtl { ss.reverse(); }
                                                for s in ss {
                                                    chars.push(s.1);
                                                    if rtl {
                                                        let mut buf = [0u16; 2];
                                                        for x in char::from_u32(s.1).unwrap().encode_utf16(&mut buf).iter() { units.push(*x as u32); }
                                                    } else {
                                                        for j in 0..s.2 { units.push(u[s.0 + j] as u32); }
                                                    }
                                                }
                                            }
                                            if &units == flat { Some(hexlist(&chars)) } else { Some(format!("FLATTENED-OUTPUT-DIFFERS:{}", hexlist(flat))) }
                                        }
                                        _ => None,
                                    };
                                    let ro8 = l8.out.ro.as_ref().map(|v| hexlist(&v.0));
                                    // for well-formed input: exact UTF-16 encoding
                                    let wf = segs.iter().all(|s| !(s.1 == 0xFFFD && (0xD800..=0xDFFF).contains(&(u[s.0] as u32))));
                                    let exact16 = l16.out.ro.as_ref().map(|v| hexlist(&v.0));
                                    let exact8 = l8.out.ro.as_ref().map(|v| {
                                        let s: String = v.0.iter().map(|&c| char::from_u32(c).unwrap()).collect();
                                        hexlist(&s.encode_utf16().map(|x| x as u32).collect::<Vec<_>>())
                                    });
                                    // the per-character line levels as each API returns them: one entry per character of
                                    // the WHOLE text (an unpaired surrogate is one character)
                                    let rpc16 = l16.out.rpc.as_ref().map(|v| levels_str(v));
                                    let rpc8 = l8.out.rpc.as_ref().map(|v| levels_str(v));
                                    a_parts.push(format!("rl={};rpc={};runs={};ro={}", or_panic(rl16), or_panic(rpc16), or_panic(runs16), or_panic(ro16)));
                                    b_parts.push(format!("rl={};rpc={};runs={};ro={}", or_panic(rl8), or_panic(rpc8), or_panic(runs8), or_panic(ro8)));
                                    if wf {
                                        a_parts.push(format!("x={}", or_panic(exact16)));
                                        b_parts.push(format!("x={}", or_panic(exact8)));
                                    }
                                } else {
                                    a_parts.push("linepanic".into());
                                    b_parts.push("ok".into());
                                }
                            }
                        }
                    }
                    (x, y) => {
                        a_parts.push(format!("panic16={}", x.is_none()));
                        b_parts.push(format!("panic16={}", y.is_none()));
                    }
                }
            }
            // base direction
            let bd = guard(|| {
                let s8 = to_string8(&text8);
                match ds {
                    None => (
                        format!("{}{}", dir_str(&hd::get_base_direction(u.as_slice())), dir_str(&hd::get_base_direction_full(u.as_slice()))),
                        format!("{}{}", dir_str(&hd::get_base_direction(s8.as_str())), dir_str(&hd::get_base_direction_full(s8.as_str()))),
                    ),
                    Some(spec) => {
                        let c = CustomDs::new(spec);
                        (
                            format!("{}{}", dir_str(&unicode_bidi::get_base_direction_with_data_source(&c, u.as_slice())), dir_str(&unicode_bidi::get_base_direction_full_with_data_source(&c, u.as_slice()))),
                            format!("{}{}", dir_str(&unicode_bidi::get_base_direction_with_data_source(&c, s8.as_str())), dir_str(&unicode_bidi::get_base_direction_full_with_data_source(&c, s8.as_str()))),
                        )
                    }
                }
            });
            match bd {
                Some((x, y)) => {
                    a_parts.push(format!("bd={}", x));
                    b_parts.push(format!("bd={}", y));
                }
                None => {
                    a_parts.push("bd=PANIC".into());
                    b_parts.push("bd=ok".into());
                }
            }
            format!("{} => A={} B={}", q, a_parts.join("|"), b_parts.join("|"))
        }
        Input::Stress { n } => {
            let q = format!("{} stress n={}", head, n);
            let mut u: Vec<u16> = Vec::with_capacity(2 * n);
            for _ in 0..*n { u.push(0x61); u.push(0x5D0); }
            let r = guard(|| {
                let b = utf16::BidiInfo::new(&u, None);
                let p = b.paragraphs[0].clone();
                let (lv, runs) = b.visual_runs(&p, p.range.clone());
                let ro = b.reorder_line(&p, p.range.clone());
                let q8 = utf16::ParagraphBidiInfo::new(&u, None);
                let runs_p = q8.visual_runs(0..u.len()).1.len();
                let s8: String = (0..*n).map(|_| "a\u{5D0}").collect();
                let b8 = BidiInfo::new(&s8, None);
                let p8 = b8.paragraphs[0].clone();
                let runs8 = b8.visual_runs(&p8, p8.range.clone()).1.len();
                let ro8 = b8.reorder_line(&p8, p8.range.clone());
                // the same text with the paragraph level forced to 1: `a` at level 2, `א` at level 1, and rule L2 must
                // reverse the order of the 2n one-character runs (the reordered line is the text backwards)
                let br = utf16::BidiInfo::new(&u, Some(Level::rtl()));
                let pr = br.paragraphs[0].clone();
                let (lvr, runs_r) = br.visual_runs(&pr, pr.range.clone());
                let ror = br.reorder_line(&pr, pr.range.clone());
                let rev: Vec<u16> = u.iter().rev().copied().collect();
                let rtl_ok = runs_r.len() == 2 * *n && runs_r[0].start == 2 * *n - 1 && runs_r[2 * *n - 1].start == 0
                    && lvr.iter().map(|l| l.number() as usize).sum::<usize>() == 3 * *n && ror.as_ref() == rev.as_slice();
                format!(
                    "PARAS={} RUNS={} RUNSP={} RUNS8={} LSUM={} SAME={} RTL={}",
                    b.paragraphs.len(), runs.len(), runs_p, runs8,
                    lv.iter().map(|l| l.number() as usize).sum::<usize>(),
                    (ro.as_ref() == u.as_slice() && ro8.as_ref() == s8.as_str()) as u8,
                    rtl_ok as u8
                )
            });
            format!("{} => {}", q, or_panic(r))
        }
        Input::MetaLong { enc, tail, dir, n } => {
            let q = format!("{} metalong enc={} dir={} n={} T={}", head, enc_tag(*enc), dir.tag(), n, hexlist(tail));
            let tail_levels = |prefix_len: usize| -> String {
                let mut t: Vec<u32> = vec![0x61; prefix_len];
                t.push(0x20);
                let tail_units: Vec<u32> = if *enc == Enc::U16 { tail.clone() } else { tail.clone() };
                t.extend(tail_units);
                let levels = match analyse(*enc, Api::B, *dir, &t, &None) {
                    Some(a) => format!("l={};p={}", levels_str(&a.levels[prefix_len + 1..]), a.paras.len()),
                    None => "PANIC".to_string(),
                };
                // the whole paragraph as one line, both analysis types: line levels of the tail, number of runs beyond
                // the prefix's, the reordered line without the prefix letters
                let mut parts = vec![levels];
                for api in [Api::B, Api::P] {
                    let nunits = if *enc == Enc::U8 { to_string8(&t).len() } else { t.len() };
                    parts.push(match run_line(*enc, api, *dir, &t, &None, 0, 0, nunits) {
                        Some(c) => format!(
                            "rl={};ro={};rep={}",
                            or_panic(c.out.rl.as_ref().map(|v| levels_str(&v[prefix_len + 1..]))),
                            or_panic(c.out.ro.as_ref().map(|v| hexlist(&v.0.iter().copied().filter(|&x| x != 0x61).collect::<Vec<u32>>()))),
                            c.out.rep as u8
                        ),
                        None => "PANIC".to_string(),
                    });
                }
                let bd = guard(|| if *enc == Enc::U8 {
                    let s = to_string8(&t);
                    format!("{}{}", dir_str(&hd::get_base_direction(s.as_str())), dir_str(&hd::get_base_direction_full(s.as_str())))
                } else {
                    let s = to_units16(&t);
                    format!("{}{}", dir_str(&hd::get_base_direction(s.as_slice())), dir_str(&hd::get_base_direction_full(s.as_slice())))
                });
                parts.push(or_panic(bd));
                parts.join("|")
            };
            format!("{} => A={} B={}", q, tail_levels(*n), tail_levels(1))
        }
        Input::Meta10 { enc, text, dir } => {
            let q = format!("{} meta10 enc={} T={} dir={}", head, enc_tag(*enc), hexlist(text), dir.tag());
            let whole = analyse(*enc, Api::B, *dir, text, &None);
            let mut a_parts = vec![];
            let mut b_parts = vec![];
            match whole {
                None => {
                    a_parts.push("PANIC".to_string());
                    b_parts.push("ok".to_string());
                }
                Some(w) => {
                    // unit offsets -> text element offsets
                    let starts: Vec<usize> = match enc {
                        Enc::U8 => {
                            let mut v = vec![];
                            let mut b = 0;
                            for &c in text.iter() {
                                v.push(b);
                                b += char::from_u32(c).unwrap().len_utf8();
                            }
                            v.push(b);
                            v
                        }
                        Enc::U16 => (0..=text.len()).collect(),
                    };
                    for p in &w.paras {
                        let ia = starts.iter().position(|&s| s == p.range.start);
                        let ib = starts.iter().position(|&s| s == p.range.end);
                        let (ia, ib) = match (ia, ib) {
                            (Some(x), Some(y)) => (x, y),
                            _ => {
                                a_parts.push("offboundary".into());
                                b_parts.push("ok".into());
                                continue;
                            }
                        };
                        let sub = &text[ia..ib];
                        a_parts.push(format!(
                            "c={};l={};pl={}",
                            classes_str(&w.classes[p.range.clone()]),
                            levels_str(&w.levels[p.range.clone()]),
                            p.level.number()
                        ));
                        match analyse(*enc, Api::B, *dir, sub, &None) {
                            Some(s) => b_parts.push(format!(
                                "c={};l={};pl={}",
                                classes_str(&s.classes),
                                levels_str(&s.levels),
                                s.paras.iter().map(|x| x.level.number().to_string()).collect::<Vec<_>>().join("+")
                            )),
                            None => b_parts.push("PANIC".into()),
                        }
                        // the single-paragraph type on the same substring
                        if let Some(sp) = analyse(*enc, Api::P, *dir, sub, &None) {
                            a_parts.push(format!(
                                "P:c={};l={};pl={}",
                                classes_str(&w.classes[p.range.clone()]),
                                levels_str(&w.levels[p.range.clone()]),
                                p.level.number()
                            ));
                            b_parts.push(format!(
                                "P:c={};l={};pl={}",
                                classes_str(&sp.classes),
                                levels_str(&sp.levels),
                                sp.paras[0].level.number()
                            ));
                            // whole-paragraph line and a sub-line through both types
                            let n = sub.len();
                            let ends: Vec<usize> = match enc {
                                Enc::U8 => {
                                    let mut v = vec![0];
                                    let mut b = 0;
                                    for &c in sub.iter() {
                                        b += char::from_u32(c).unwrap().len_utf8();
                                        v.push(b);
                                    }
                                    v
                                }
                                Enc::U16 => (0..=n).collect(),
                            };
                            let total = *ends.last().unwrap();
                            for (la, lb) in [(0usize, total), (ends[n / 3], ends[(2 * n + 2) / 3])] {
                                if la >= lb {
                                    continue;
                                }
                                let lb_ = run_line(*enc, Api::B, *dir, sub, &None, 0, la, lb);
                                let lp_ = run_line(*enc, Api::P, *dir, sub, &None, 0, la, lb);
                                let f = |x: &Option<LineCtx>| match x {
                                    Some(c) => format!(
                                        "rl={};rpc={};runs={};ro={}",
                                        or_panic(c.out.rl.as_ref().map(|v| levels_str(v))),
                                        or_panic(c.out.rpc.as_ref().map(|v| levels_str(v))),
                                        or_panic(c.out.vr.as_ref().map(|v| runs_str(&v.1))),
                                        or_panic(c.out.ro.as_ref().map(|v| hexlist(&v.0)))
                                    ),
                                    None => "PANIC".into(),
                                };
                                a_parts.push(f(&lb_));
                                b_parts.push(f(&lp_));
                            }
                        } else {
                            a_parts.push("ok".into());
                            b_parts.push("P:PANIC".into());
                        }
                    }
                }
            }
            format!("{} => A={} B={}", q, a_parts.join("|"), b_parts.join("|"))
        }
        Input::Meta12 { enc, dir, text_a, ds_a, text_b, ds_b } => {
            let q = format!(
                "{} meta12 enc={} dir={} TA={} DSA={} TB={} DSB={}",
                head, enc_tag(*enc), dir.tag(), hexlist(text_a), ds_str(&Some(ds_a.clone())), hexlist(text_b), ds_str(&Some(ds_b.clone()))
            );
            let per_char = |text: &[u32], ds: &DsSpec| -> String {
                match analyse(*enc, Api::B, *dir, text, &Some(ds.clone())) {
                    None => "PANIC".to_string(),
                    Some(a) => {
                        // character starts
                        let mut starts = vec![];
                        let mut pos = 0usize;
                        match enc {
                            Enc::U8 => {
                                for &c in text {
                                    starts.push(pos);
                                    pos += char::from_u32(c).unwrap().len_utf8();
                                }
                            }
                            Enc::U16 => {
                                for s in lossy_segments(&to_units16(text)) {
                                    starts.push(s.0);
                                }
                            }
                        }
                        let idx_of = |off: usize| starts.iter().position(|&s| s == off).unwrap_or(starts.len());
                        format!(
                            "c={};l={};p={}",
                            classes_str(&starts.iter().map(|&i| a.classes[i]).collect::<Vec<_>>()),
                            levels_str(&starts.iter().map(|&i| a.levels[i]).collect::<Vec<_>>()),
                            a.paras.iter().map(|p| format!("{}:{}:{}", idx_of(p.range.start), idx_of(p.range.end), p.level.number())).collect::<Vec<_>>().join("/")
                        )
                    }
                }
            };
            format!("{} => A={} B={}", q, per_char(text_a, ds_a), per_char(text_b, ds_b))
        }
        Input::Meta13 { enc, dir, prefix, init, c1, c2, suffix } => {
            // enc=16: every list is a list of scalar values and LONE surrogates (each one code unit; the generator never
            // puts a lone low surrogate after a lone high one), encoded element by element
            let q = format!(
                "{} meta13 enc={} dir={} PRE={} INIT={:X} C1={} C2={} SUF={}",
                head, enc_tag(*enc), dir.tag(), hexlist(prefix), init, hexlist(c1), hexlist(c2), hexlist(suffix)
            );
            let build = |content: &[u32]| -> Vec<u32> {
                let mut t = prefix.clone();
                t.push(*init);
                t.extend_from_slice(content);
                t.push(0x2069);
                t.extend_from_slice(suffix);
                t
            };
            let outside = |content: &[u32]| -> String {
                let t = build(content);
                let units16: Vec<u32> = t.iter().flat_map(|&c| if c >= 0x10000 { vec![0xD800 + ((c - 0x10000) >> 10), 0xDC00 + ((c - 0x10000) & 0x3FF)] } else { vec![c] }).collect();
                match analyse(*enc, Api::B, *dir, if *enc == Enc::U16 { &units16 } else { &t }, &None) {
                    None => "PANIC".into(),
                    Some(a) => {
                        let mut starts = vec![];
                        let mut pos = 0usize;
                        for &c in &t {
                            starts.push(pos);
                            pos += if *enc == Enc::U16 { if c >= 0x10000 { 2 } else { 1 } } else { char::from_u32(c).unwrap().len_utf8() };
                        }
                        let n1 = prefix.len() + 1;
                        let n2 = n1 + content.len();
                        let lv: Vec<Level> = (0..t.len()).filter(|&i| i < n1 || i >= n2).map(|i| a.levels[starts[i]]).collect();
                        // paragraph containing the initiator
                        let ioff = starts[prefix.len()];
                        let pl = a.paras.iter().find(|p| p.range.start <= ioff && ioff < p.range.end).map(|p| p.level.number()).unwrap_or(255);
                        format!("l={};pl={}", levels_str(&lv), pl)
                    }
                }
            };
            format!("{} => A={} B={}", q, outside(c1), outside(c2))
        }
        Input::Digest { enc, dir, text } => {
            let q = format!("{} digest enc={} dir={} T={}", head, enc_tag(*enc), dir.tag(), hexlist(text));
            let mut h: u64 = 0xcbf29ce484222325;
            for api in [Api::B, Api::P] {
                match analyse(*enc, api, *dir, text, &None) {
                    Some(a) => {
                        fnv(&mut h, &analysis_fields(&a));
                        for (pi, p) in a.paras.iter().enumerate() {
                            if p.range.is_empty() {
                                continue;
                            }
                            if let Some(c) = run_line(*enc, api, *dir, text, &None, pi, p.range.start, p.range.end) {
                                fnv(&mut h, &or_panic(c.out.rl.as_ref().map(|v| levels_str(v))));
                                fnv(&mut h, &or_panic(c.out.vr.as_ref().map(|v| runs_str(&v.1))));
                                fnv(&mut h, &or_panic(c.out.ro.as_ref().map(|v| hexlist(&v.0))));
                            } else {
                                fnv(&mut h, "LINEPANIC");
                            }
                        }
                    }
                    None => fnv(&mut h, "PANIC"),
                }
            }
            format!("{} => H={:016X}", q, h)
        }
        Input::Serde => {
            let q = format!("{} serde", head);
            #[cfg(feature = "serde")]
            {
                let mut bad = vec![];
                for n in 0..=126u8 {
                    let l = Level::new(n).unwrap();
                    let ok = guard(|| match serde_json::to_string(&l) {
                        Ok(s) => match serde_json::from_str::<Level>(&s) {
                            Ok(back) => back == l && s == n.to_string(),
                            Err(_) => false,
                        },
                        Err(_) => false,
                    });
                    if ok != Some(true) {
                        bad.push(n);
                    }
                }
                // a Level written by ANY format must read back: a minimal deserializer that hands the number to the
                // visitor as u8 / u16 / u32 / u64 / i8 / i16 / i32 / i64 (what binary and signed-integer formats do;
                // serde_json alone only ever calls visit_u64)
                for n in 0..=126u8 {
                    for kind in 0..8u8 {
                        let got = guard(|| <Level as serde::Deserialize>::deserialize(IntDe { n: n as i64, kind }).ok().map(|l| l.number()));
                        if got != Some(Some(n)) && !bad.contains(&n) {
                            bad.push(n);
                        }
                    }
                    let v = guard(|| serde_json::to_value(Level::new(n).unwrap()).ok().and_then(|v| v.as_u64()));
                    if v != Some(Some(n as u64)) && !bad.contains(&n) {
                        bad.push(n);
                    }
                }
                // ... and NO format may produce a Level outside 0..=126 ("a Level value is always in 0..=126"):
                // every number 127..=255 must be rejected, whichever integer type the format hands to the visitor
                let mut accepted = vec![];
                for n in 127..=255u16 {
                    let mut acc = false;
                    for kind in 0..8u8 {
                        if (kind == 4 && n > 127) || (kind == 0 && n > 255) { continue; }
                        let got = guard(|| <Level as serde::Deserialize>::deserialize(IntDe { n: n as i64, kind }).ok().map(|l| l.number()));
                        if !matches!(got, Some(None)) { acc = true; }
                    }
                    let j = guard(|| serde_json::from_str::<Level>(&n.to_string()).ok().map(|l| l.number()));
                    if !matches!(j, Some(None)) { acc = true; }
                    if acc { accepted.push(n as u8); }
                }
                // whole vectors of computed levels survive the round trip as well
                let v: Vec<Level> = (0..=126u8).map(|n| Level::new(n).unwrap()).collect();
                let ok = guard(|| match serde_json::to_string(&v) {
                    Ok(s) => matches!(serde_json::from_str::<Vec<Level>>(&s), Ok(back) if back == v),
                    Err(_) => false,
                });
                if ok != Some(true) {
                    bad.push(255);
                }
                format!("{} => SERDE=on BAD={} ACCEPTED={}", q, numlist(&bad), numlist(&accepted))
            }
            #[cfg(not(feature = "serde"))]
            {
                format!("{} => SERDE=off BAD= ACCEPTED=", q)
            }
        }
    }
}
