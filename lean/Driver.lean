/-
  Driver — reads the harness's lines (question + the crate's answer), recomputes
  the Model's answer (correspondence) and evaluates the property predicates of
  the Spec on the crate's answer (oracle).  One verdict line per input line:

      <id> <mode> <op> ok | FAIL <tokens>      | <stats>

  tokens:  M:<field>  — Model and crate disagree on <field>
           S:<Cxx>    — the crate's answer violates the predicate of property Cxx
-/
import UBidi.Model.Reorder
import UBidi.Spec.UAX9
import UBidi.Spec.Reorder
import UBidi.Ref.Ucd16

open UBidi

namespace Drv

def hexDigit (c : Char) : Option Nat :=
  if '0' ≤ c ∧ c ≤ '9' then some (c.toNat - '0'.toNat)
  else if 'A' ≤ c ∧ c ≤ 'F' then some (c.toNat - 'A'.toNat + 10)
  else if 'a' ≤ c ∧ c ≤ 'f' then some (c.toNat - 'a'.toNat + 10)
  else none

def parseHex (s : String) : Option Nat :=
  if s.isEmpty then none
  else s.toList.foldl (fun acc c => match acc, hexDigit c with
    | some a, some d => some (a * 16 + d)
    | _, _ => none) (some 0)

def splitList (s : String) (sep : String) : List String :=
  if s.isEmpty then [] else s.splitOn sep

def hexList (s : String) : List Nat := (splitList s ",").filterMap parseHex
def natList (s : String) : List Nat := (splitList s ",").filterMap String.toNat?
def classList (s : String) : List BidiClass := (splitList s ",").filterMap BidiClass.ofName?

abbrev Fields := List (String × String)

def getF (f : Fields) (k : String) : String :=
  match f.find? (fun kv => kv.1 == k) with
  | some kv => kv.2
  | none => ""

def hasF (f : Fields) (k : String) : Bool := f.any (fun kv => kv.1 == k)

def parseFields (toks : List String) : Fields :=
  toks.filterMap (fun t =>
    match t.splitOn "=" with
    | k :: v :: rest => some (k, String.intercalate "=" (v :: rest))
    | _ => none)

def parseParas (s : String) (sep : String := ";") : List ParaInfo :=
  (splitList s sep).filterMap (fun p =>
    match (p.splitOn ":").map String.toNat? with
    | [some a, some b, some l] => some { start := a, stop := b, level := l }
    | _ => none)

def parseRuns (s : String) : List (Nat × Nat) :=
  (splitList s ";").filterMap (fun p =>
    match (p.splitOn ":").map String.toNat? with
    | [some a, some b] => some (a, b)
    | _ => none)

/-- the nine explicit formatting characters keep their class under a custom source -/
def formatClass (c : Nat) : Option BidiClass :=
  if c == 0x202A then some .LRE else if c == 0x202B then some .RLE else if c == 0x202C then some .PDF
  else if c == 0x202D then some .LRO else if c == 0x202E then some .RLO else if c == 0x2066 then some .LRI
  else if c == 0x2067 then some .RLI else if c == 0x2068 then some .FSI else if c == 0x2069 then some .PDI
  else none

def parseDs (s : String) : DataSource :=
  if s == "-" then hardcoded
  else
    let parts := splitList s ";"
    let entries : List (Nat × BidiClass × Option Bracket) := parts.filterMap (fun p =>
      match p.splitOn ":" with
      | [cp, cl, br] =>
        match parseHex cp, BidiClass.ofName? cl with
        | some c, some k =>
          let b : Option Bracket :=
            if br == "-" then none
            else match parseHex (br.drop 1).toString with
              | some o => some { opening := o, isOpen := br.startsWith "o" }
              | none => none
          some (c, k, b)
        | _, _ => none
      | _ => none)
    let dflt : BidiClass := (parts.filterMap (fun p =>
      match p.splitOn ":" with
      | ["*", cl] => BidiClass.ofName? cl
      | _ => none)).headD .L
    { cls := fun c => match entries.find? (fun e => e.1 == c) with
        | some e => e.2.1
        | none => (formatClass c).getD dflt,
      brk := fun c => match entries.find? (fun e => e.1 == c) with
        | some e => e.2.2
        | none => none }

def mkText (enc : String) (t : List Nat) : Text :=
  if enc == "16" then Utf16.toText t else Text.ofScalars t

def parseDir (s : String) : Option Nat :=
  if s == "0" then some 0 else if s == "1" then some 1 else none

def dirName (d : Direction) : String := d.name

def joinNat (xs : List Nat) : String := String.intercalate "," (xs.map toString)

/-! ### Spec-side predicates on the crate's answers -/

/-- per-character view: class and level at each character start -/
def atStarts {α} (t : Text) (xs : List α) (d : α) : List α := t.segs.map (fun s => xs.getD s.start d)

/-- all units of every character carry the same entry -/
def uniform {α} [BEq α] (t : Text) (xs : List α) (d : α) : Bool :=
  t.segs.all (fun s => (List.range s.len).all (fun j => xs.getD (s.start + j) d == xs.getD s.start d))

def specDirection (ls : List Nat) : Direction :=
  if ls.all (· % 2 == 0) && !ls.isEmpty then .ltr
  else if ls.all (· % 2 == 1) then .rtl
  else .mixed

/-- C02 partition: non-empty, contiguous, from 0 to len, each paragraph ends
    right after a B or at the end, and contains no other B -/
def partitionOk (t : Text) (rawCls : List BidiClass) (paras : List ParaInfo) : Bool :=
  let segStarts := t.segs.map (·.start)
  let bEnds := (t.segs.zip rawCls).filterMap (fun (s, c) => if c == .B then some (s.start + s.len) else none)
  let expectedEnds := if bEnds.getLast? == some t.len || t.len == 0 then bEnds else bEnds ++ [t.len]
  let expected : List (Nat × Nat) := (expectedEnds.foldl (fun (acc : List (Nat × Nat) × Nat) e => (acc.1 ++ [(acc.2, e)], e)) ([], 0)).1
  let _ := segStarts
  paras.map (fun p => (p.start, p.stop)) == expected

def sliceL {α} (xs : List α) (a b : Nat) : List α := (xs.drop a).take (b - a)

/-- the characters (segments) of `t` inside `[a,b)` -/
def segsIn (t : Text) (a b : Nat) : List Seg := t.segs.filter (fun s => a ≤ s.start && s.start < b)

structure Verdict where
  toks : List String := []
  stats : String := ""

def Verdict.add (v : Verdict) (cond : Bool) (tok : String) : Verdict :=
  if cond then v else { v with toks := v.toks ++ [tok] }

/-- spec levels for one paragraph from reported classes -/
def specParaLevels (ds : DataSource) (t : Text) (classes : List BidiClass) (p : ParaInfo) : List Nat :=
  let segs := segsIn t p.start p.stop
  let chars : List Spec.Ch := segs.map (fun s => { cls := classes.getD s.start .ON, brk := ds.brk s.cp })
  Spec.paragraphLevels p.level chars

/-- UAX #9 levels of every character of the text, from nothing but the text and the data source's answers (P1 split,
    P2/P3, X5c, X1–I2): property C01 is about the TEXT, so the crate's levels are compared with these and not with
    what the rules give for the classes / paragraph levels the crate itself reports (those are C02's subject) -/
def specTextLevels (ds : DataSource) (t : Text) (dflt : Option Nat) : List Nat :=
  let chars0 : List Spec.Ch := t.segs.map (fun s => { cls := ds.cls s.cp, brk := ds.brk s.cp })
  (Spec.splitParagraphs chars0).flatMap (fun pc =>
    let raw := pc.map (·.cls)
    let chars : List Spec.Ch := (pc.zip (Spec.resolveFSI raw)).map (fun (c, k) => { c with cls := k })
    Spec.paragraphLevels (Spec.paraLevel dflt raw) chars)

def checkBidi (f : Fields) (ans : Fields) (panicked : Bool) : Verdict :=
  let enc := getF f "enc"
  let api := getF f "api"
  let dflt := parseDir (getF f "dir")
  let tcp := hexList (getF f "T")
  let ds := parseDs (getF f "DS")
  let t := mkText enc tcp
  let v : Verdict := { stats := s!"n={t.segs.length} units={t.len}" }
  if api == "B" then
    let m := bidiInfo ds t dflt
    if panicked then
      (v.add (m.err.isSome) "M:panic").add false "S:C07"
    else
      let c := classList (getF ans "C")
      let l := natList (getF ans "L")
      let ps := parseParas (getF ans "P")
      let v := v.add m.err.isNone "M:panic"
      let v := v.add (m.classes == c) "M:classes"
      let v := v.add (m.levels == l) "M:levels"
      let v := v.add (m.paras == ps) "M:paras"
      let v := v.add (getF ans "HR" == (if m.hasRtl then "1" else "0")) "M:hasrtl"
      let mdirs := String.intercalate ";" (m.paras.map (fun p => dirName (paraDirection (slice m.levels p.start p.stop))))
      let v := v.add (getF ans "DIR" == mdirs) "M:dir"
      -- Spec
      let raw := t.segs.map (fun s => ds.cls s.cp)
      let v := v.add (c.length == t.len && l.length == t.len) "S:C08"
      let v := v.add (uniform t c .ON && uniform t l 0) "S:C08"
      let v := v.add (ps.all (fun p => (slice l p.start p.stop).all (fun x => p.level ≤ x && x ≤ 126))) "S:C08"
      let v := v.add (partitionOk t raw ps) "S:C02"
      let v := v.add (getF ans "II" == "same") "S:C02"
      -- per paragraph: level and FSI resolution
      let perPara := ps.all (fun p =>
        let segs := segsIn t p.start p.stop
        let rawP := segs.map (fun s => ds.cls s.cp)
        let repP := segs.map (fun s => c.getD s.start .ON)
        p.level == Spec.paraLevel dflt rawP && repP == Spec.resolveFSI rawP)
      let v := v.add perPara "S:C02"
      let v := v.add (specTextLevels ds t dflt == atStarts t l 0) "S:C01"
      -- C17
      let sdirs := String.intercalate ";" (ps.map (fun p => dirName (specDirection (slice l p.start p.stop))))
      let v := v.add (getF ans "DIR" == sdirs) "S:C17"
      let v := v.add (getF ans "HR" == (if l.any (· % 2 == 1) then "1" else "0")) "S:C17"
      -- `ParagraphInfo::len()` and `Paragraph::level_at(k)` for every offset k of every paragraph
      let la := String.intercalate ";" (ps.map (fun p =>
        s!"{p.stop - p.start}:{String.intercalate "," ((slice l p.start p.stop).map toString)}"))
      let v := v.add (getF ans "LA" == la) "S:C17"
      -- the convenience constructors (`BidiInfo::new`, `InitialInfo::new`, … — the entry points most properties
      -- name) against the built-in source passed explicitly: a difference violates C12's last sentence AND makes
      -- every answer above (computed through `new_with_data_source`) say nothing about `new`, so it counts for
      -- whatever property the stream serves (`S:CONV` is relevant to every check); a panic is a C07 violation
      let v := v.add (getF ans "CONV" != "diff" && getF ans "CONV" != "PANIC") "S:C12"
      let v := v.add (getF ans "CONV" != "diff" && getF ans "CONV" != "PANIC") "S:CONV"
      let v := v.add (getF ans "CONV" != "PANIC") "S:C07"
      { v with stats := v.stats ++ s!" paras={ps.length} maxl={l.foldl max 0}" }
  else
    let m := paragraphBidiInfo ds t dflt
    if panicked then
      (v.add (m.err.isSome) "M:panic").add false "S:C07"
    else
      let c := classList (getF ans "C")
      let l := natList (getF ans "L")
      let ps := parseParas (getF ans "P")
      let pl := (ps.head?.map (·.level)).getD 0
      let v := v.add m.err.isNone "M:panic"
      let v := v.add (m.classes == c) "M:classes"
      let v := v.add (m.levels == l) "M:levels"
      let v := v.add (m.paraLevel == pl) "M:paras"
      let v := v.add (getF ans "PURE" == (if m.pureLtr then "1" else "0")) "M:pure"
      let v := v.add (getF ans "HR" == (if m.hasRtl then "1" else "0")) "M:hasrtl"
      let v := v.add (getF ans "DIR" == dirName (paraDirection m.levels)) "M:dir"
      let raw := t.segs.map (fun s => ds.cls s.cp)
      let v := v.add (c.length == t.len && l.length == t.len) "S:C08"
      let v := v.add (uniform t c .ON && uniform t l 0) "S:C08"
      let v := v.add (l.all (fun x => pl ≤ x && x ≤ 126)) "S:C08"
      -- a single paragraph: either no B, or only a final B
      let single := !(raw.dropLast.any (· == .B))
      let v := if single then
          let p : ParaInfo := { start := 0, stop := t.len, level := pl }
          let v := v.add (pl == Spec.paraLevel dflt raw && atStarts t c .ON == Spec.resolveFSI raw) "S:C02"
          v.add (specTextLevels ds t dflt == atStarts t l 0) "S:C01"
        else v
      let v := v.add (getF ans "DIR" == dirName (specDirection l)) "S:C17"
      let v := v.add (getF ans "HR" == "1" || !(l.any (· % 2 == 1))) "S:C17"
      -- the convenience constructors (`BidiInfo::new`, `InitialInfo::new`, … — the entry points most properties
      -- name) against the built-in source passed explicitly: a difference violates C12's last sentence AND makes
      -- every answer above (computed through `new_with_data_source`) say nothing about `new`, so it counts for
      -- whatever property the stream serves (`S:CONV` is relevant to every check); a panic is a C07 violation
      let v := v.add (getF ans "CONV" != "diff" && getF ans "CONV" != "PANIC") "S:C12"
      let v := v.add (getF ans "CONV" != "diff" && getF ans "CONV" != "PANIC") "S:CONV"
      let v := v.add (getF ans "CONV" != "PANIC") "S:C07"
      { v with stats := v.stats ++ s!" paras=1 maxl={l.foldl max 0}" }

/-- visual order of code units described by runs: odd runs reversed -/
def runsOrder (lv : List Nat) (runs : List (Nat × Nat)) : List Nat :=
  runs.flatMap (fun r =>
    let idx := List.range' r.1 (r.2 - r.1)
    if (lv.getD r.1 0) % 2 == 1 then idx.reverse else idx)

def runsPartitionOk (lv : List Nat) (a b : Nat) (runs : List (Nat × Nat)) : Bool :=
  let sorted := runs.foldl (fun acc r =>
    let rec ins : List (Nat × Nat) → List (Nat × Nat)
      | [] => [r]
      | q :: qs => if r.1 < q.1 then r :: q :: qs else q :: ins qs
    ins acc) []
  let nonEmpty := runs.all (fun r => r.1 < r.2)
  let cover := (sorted.foldl (fun (acc : Bool × Nat) r => (acc.1 && r.1 == acc.2, r.2)) (true, a))
  let oneLevel := runs.all (fun r => (List.range' r.1 (r.2 - r.1)).all (fun i => lv.getD i 0 == lv.getD r.1 0))
  let maximal := sorted.all (fun r => r.2 == b || lv.getD r.2 0 != lv.getD r.1 0)
  nonEmpty && cover.1 && cover.2 == b && oneLevel && maximal

/-- `spec` (diagnostic, used by tools/spec_vs_icu.py only): no implementation answer is judged; the Spec's own
    answer for a one-paragraph text with the built-in data is printed into the stats — paragraph level, X5c classes,
    UAX #9 levels, and the levels after L1 for the whole paragraph taken as one line -/
def specDump (f : Fields) : Verdict :=
  let cs := hexList (getF f "T")
  let dflt := parseDir (getF f "dir")
  let raw := cs.map hardcoded.cls
  let rep := Spec.resolveFSI raw
  let pl := Spec.paraLevel dflt raw
  let chars : List Spec.Ch := (cs.zip rep).map (fun (c, k) => { cls := k, brk := hardcoded.brk c })
  let lv := Spec.paragraphLevels pl chars
  let l1 := Spec.lineLevels pl (rep.zip lv)
  { stats := s!"pl={pl} lv={joinNat lv} l1={joinNat l1}" }

def checkLine (f : Fields) (ans : Fields) (panicked : Bool) : Verdict :=
  let enc := getF f "enc"
  let tcp := hexList (getF f "T")
  let t := mkText enc tcp
  let a := (getF f "a").toNat?.getD 0
  let b := (getF f "b").toNat?.getD 0
  let v : Verdict := { stats := s!"n={t.segs.length} units={t.len} line={b - a}" }
  if panicked then v.add false "S:C07"
  else if a == b then
    -- an empty line: outside C05/C06/C07 ("every non-empty line"); C17 quantifies over the empty text, whose only line
    -- is empty: without an RTL level, `reorder_line` returns the (empty) line unchanged
    if getF ans "HR" == "0" then v.add (getF ans "RO" == "") "S:C17" else v
  else
    let c := classList (getF ans "C")
    let l := natList (getF ans "L")
    let pl := (getF ans "PL").toNat?.getD 0
    let anyPanic := ["RL", "RPC", "VL", "RUNS", "DRUNS", "RO"].any (fun k => getF ans k == "PANIC")
    -- Model (relative: the crate's own classes / levels / paragraph level)
    let (mrl, e1) := reorderedLevels t c l pl a b
    let (mrpc, _) := reorderedLevelsPerChar t c l pl a b
    let (mruns, e2) := visualRunsForLine mrl a b
    let (mro, e3) := reorderLine t c l pl a b
    let v := v.add ((getF ans "RL" == "PANIC") == e1.isSome) "M:panic"
    let v := v.add ((getF ans "RUNS" == "PANIC") == (e1.isSome || e2.isSome)) "M:panic"
    let v := v.add ((getF ans "RO" == "PANIC") == e3.isSome) "M:panic"
    let v := v.add (!anyPanic) "S:C07"
    -- a call that panics returns nothing: the property about its result is violated too
    let v := v.add (getF ans "RL" != "PANIC" && getF ans "RPC" != "PANIC") "S:C03"
    let v := v.add (getF ans "VL" != "PANIC" && getF ans "RUNS" != "PANIC" && getF ans "DRUNS" != "PANIC") "S:C05"
    let v := v.add (getF ans "RO" != "PANIC") "S:C06"
    if anyPanic then v
    else
      let rl := natList (getF ans "RL")
      let rpc := natList (getF ans "RPC")
      let vl := natList (getF ans "VL")
      let runs := parseRuns (getF ans "RUNS")
      let druns := parseRuns (getF ans "DRUNS")
      let ro := hexList (getF ans "RO")
      let v := v.add (mrl == rl) "M:rl"
      let v := v.add (mrpc == rpc) "M:rpc"
      let v := v.add (mruns == runs) "M:runs"
      let v := v.add (mruns == druns) "M:druns"
      let lineSegs := segsIn t a b
      let lineUnits := if enc == "16" then sliceL tcp a b else lineSegs.map (·.cp)
      let mroOut : List Nat := match mro with
        | none => lineUnits
        | some ps => if enc == "16" then piecesUnits16 tcp ps else piecesChars ps
      let v := v.add (mroOut == ro) "M:ro"
      let v := v.add ((getF ans "BOR" == "1") == mro.isNone) "M:bor"
      -- the same line asked again after OTHER lines were asked of the same analysis object must give the same
      -- answers (a result remembered across calls would show here); it counts against the three line properties
      let v := (((v.add (getF ans "REP" == "1") "S:C03").add (getF ans "REP" == "1") "S:C05").add (getF ans "REP" == "1") "S:C06")
      -- Spec C03
      let perChar := lineSegs.map (fun s => (c.getD s.start .ON, l.getD s.start 0))
      let l1 := Spec.lineLevels pl perChar
      let expectRl := l.take a ++ (lineSegs.zip l1).flatMap (fun (s, x) => List.replicate s.len x) ++ l.drop b
      let v := v.add (rl == expectRl) "S:C03"
      let v := v.add (rpc == atStarts t rl 0) "S:C03"
      let v := v.add (uniform t rl 0 && rl.length == t.len) "S:C08"
      let v := v.add (rpc.length == t.segs.length) "S:C08"
      -- Spec C05
      -- "the returned levels are the L1 line levels": against the Spec's L1 of the resolved levels, not against the
      -- crate's own `reordered_levels` (the two share their code); the runs are judged on the levels returned with them
      let v := v.add (vl == expectRl) "S:C05"
      let v := v.add (runsPartitionOk vl a b runs) "S:C05"
      let lineLv := sliceL vl a b
      let v := v.add (runsOrder vl runs == (Spec.l2 lineLv).map (· + a)) "S:C05"
      let v := v.add (druns == runs) "S:C05"
      -- Spec C06 (UTF-16: well-formed text only)
      let wellFormed := enc != "16" || lineSegs.all (fun s => !(s.cp == 0xFFFD && tcp.getD s.start 0 != 0xFFFD))
      let order := Spec.l2 l1
      let expectChars := order.map (fun k => (lineSegs.getD k default).cp)
      let expectOut := if enc == "16" then expectChars.flatMap encode16 else expectChars
      let v := if wellFormed then v.add (ro == expectOut) "S:C06" else v
      let v := if wellFormed && !(l1.any (· % 2 == 1)) then v.add (ro == lineUnits) "S:C06" else v
      -- Spec C17: single-paragraph type says "no RTL" ⇒ the line comes back unchanged
      let v := if getF f "api" == "P" && getF ans "HR" == "0" then
          (v.add (ro == lineUnits) "S:C17").add (!(l.any (· % 2 == 1))) "S:C17"
        else v
      { v with stats := v.stats ++ s!" runs={runs.length} maxl={lineLv.foldl max 0} minl={lineLv.foldl min 200}" }

def isPerm (xs : List Nat) : Bool :=
  (List.range xs.length).all (fun i => xs.count i == 1)

def checkRv (f : Fields) (ans : Fields) : Verdict :=
  let lv := natList (getF f "LV")
  let v : Verdict := { stats := s!"n={lv.length} maxl={lv.foldl max 0} minl={lv.foldl min 200}" }
  let (m, e) := reorderVisual lv
  if getF ans "R" == "PANIC" then (v.add e.isSome "M:panic").add false "S:C04"
  else
    let r := natList (getF ans "R")
    let v := v.add e.isNone "M:panic"
    let v := v.add (m == r) "M:rv"
    let v := v.add (r.length == lv.length && isPerm r) "S:C04"
    let v := v.add (r == Spec.l2 lv) "S:C04"
    let v := v.add (lv.any (· % 2 == 1) || r == List.range lv.length) "S:C04"
    v.add (getF ans "SAME" == "1") "S:C04"

/-- P2 verdict of a paragraph's classes -/
def p2Dir (cs : List BidiClass) : Direction :=
  match Spec.firstStrong (cs.length + 1) cs with
  | some .L => .ltr
  | some _ => .rtl
  | none => .mixed

def checkBaseDir (f : Fields) (ans : Fields) (panicked : Bool) : Verdict :=
  let enc := getF f "enc"
  let tcp := hexList (getF f "T")
  let ds := parseDs (getF f "DS")
  let t := mkText enc tcp
  let v : Verdict := { stats := s!"n={t.segs.length}" }
  if panicked then v.add false "S:C07"
  else
    let d := getF ans "D"
    let df := getF ans "DF"
    let v := v.add (dirName (baseDirection ds t false) == d) "M:basedir"
    let v := v.add (dirName (baseDirection ds t true) == df) "M:basedir"
    -- Spec: split into paragraphs by the data source's classes
    let raw := t.segs.map (fun s => ds.cls s.cp)
    let paras := Spec.splitParagraphs (raw.map (fun c => ({ cls := c } : Spec.Ch)))
    let pcls := paras.map (fun p => p.map (·.cls))
    let first := (pcls.head?.map p2Dir).getD .mixed
    let full := ((pcls.map p2Dir).find? (· != .mixed)).getD .mixed
    let v := v.add (dirName first == d) "S:C16"
    let v := v.add (dirName full == df) "S:C16"
    -- agreement with the auto-detected paragraph levels of the full analysis
    let ps := parseParas (getF ans "P")
    let lvlOf (x : Direction) : Nat := if x == .rtl then 1 else 0
    let v := v.add (d == "Mixed" || (ps.head?.map (·.level)) == some (lvlOf first)) "S:C16"
    let k := (pcls.map p2Dir).findIdx? (· != .mixed)
    let v := match k with
      | some k => v.add ((ps[k]?.map (fun (p : ParaInfo) => p.level)) == some (lvlOf full)) "S:C16"
      | none => v
    { v with stats := v.stats ++ s!" paras={pcls.length}" }

/-- expected outputs of a sequence of next / next_back on a double-ended
    iteration over `chars` -/
def dequeSim : List Nat → List Char → List String
  | _, [] => []
  | cs, o :: os =>
    if o == 'f' then
      match cs with
      | [] => "-" :: dequeSim [] os
      | c :: rest => (String.ofList (Nat.toDigits 16 c)).toUpper :: dequeSim rest os
    else
      match cs.getLast? with
      | none => "-" :: dequeSim [] os
      | some c => (String.ofList (Nat.toDigits 16 c)).toUpper :: dequeSim cs.dropLast os

def hexStr (n : Nat) : String := (String.ofList (Nat.toDigits 16 n)).toUpper

def iterSim (u : List Nat) : Utf16.Iter → List Char → List String
  | _, [] => []
  | it, o :: os =>
    let (r, it') := if o == 'f' then Utf16.Iter.next u it else Utf16.Iter.nextBack u it
    (match r with | some c => hexStr c | none => "-") :: iterSim u it' os

/-- all pairs `(a, b)` of a sorted list with `a` not after `b` in the list (including `a = b`) -/
def pairsLe : List Nat → List (Nat × Nat)
  | [] => []
  | a :: rest => ((a :: rest).map (fun b => (a, b))) ++ pairsLe rest

/-- the `SUB=` field as the Model computes it: `Text.subrange` over every pair of character boundaries -/
def subStr (t : Text) : String :=
  let bounds := t.segs.map (·.start) ++ [t.len]
  if bounds.length ≤ 9 then
    String.intercalate "," ((pairsLe bounds).map (fun (a, b) =>
      let st := t.subrange a b
      s!"{a}-{b}:{st.len}:{String.intercalate "." (st.segs.map (fun sg => hexStr sg.cp))}"))
  else ""

def checkU16 (f : Fields) (ans : Fields) (panicked : Bool) : Verdict :=
  let u := hexList (getF f "U")
  let ops := if getF f "OPS" == "-" then [] else (getF f "OPS").toList
  let v : Verdict := { stats := s!"n={u.length} ops={ops.length}" }
  if panicked then v.add false "S:C07"
  else
    let segs := Utf16.segments u
    let ca := String.intercalate "," ((List.range (u.length + 2)).map (fun i =>
      match Utf16.charAt u i with
      | some (c, l) => s!"{hexStr c}:{l}"
      | none => "-"))
    let ci := String.intercalate "," (segs.map (fun s => s!"{s.start}:{hexStr s.cp}"))
    let il := String.intercalate "," (segs.map (fun s => s!"{s.start}:{s.len}"))
    let ch := String.intercalate "," (segs.map (fun s => hexStr s.cp))
    let v := v.add (getF ans "CA" == ca) "M:charat"
    let v := v.add (getF ans "CI" == ci && getF ans "IL" == il && getF ans "CH" == ch) "M:iter"
    let it := String.intercalate "," (iterSim u (Utf16.Iter.new u) ops)
    let v := v.add (getF ans "IT" == it) "M:deiter"
    -- Spec: lossy decoding
    let lo := Spec.lossy u
    let starts := (lo.foldl (fun (acc : List Nat × Nat) x => (acc.1 ++ [acc.2], acc.2 + x.2)) ([], 0)).1
    let sci := String.intercalate "," ((starts.zip lo).map (fun (s, x) => s!"{s}:{hexStr x.1}"))
    let sil := String.intercalate "," ((starts.zip lo).map (fun (s, x) => s!"{s}:{x.2}"))
    let sch := String.intercalate "," (lo.map (fun x => hexStr x.1))
    let scl := String.intercalate "," (lo.map (fun x => toString x.2))
    let sca := String.intercalate "," ((List.range (u.length + 2)).map (fun i =>
      match (starts.zip lo).find? (fun (s, _) => s == i) with
      | some (_, x) => s!"{hexStr x.1}:{x.2}"
      | none => "-"))
    let v := v.add (getF ans "CI" == sci && getF ans "IL" == sil && getF ans "CH" == sch) "S:C18"
    let v := v.add (getF ans "CL" == scl) "S:C18"
    let v := v.add (getF ans "CA" == sca) "S:C18"
    let v := v.add (getF ans "LEN" == toString u.length && (lo.map (·.2)).foldl (· + ·) 0 == u.length) "S:C18"
    let sit := String.intercalate "," (dequeSim (lo.map (·.1)) ops)
    let v := v.add (getF ans "IT" == sit) "S:C18"
    -- the other Iterator methods (nth, nth_back, skip+step_by, rev, count, last, size_hint), from the lossy decoding
    let cs := lo.map (·.1)
    let hx (o : Option Nat) : String := match o with | some c => hexStr c | none => "-"
    let n := cs.length
    let nth := String.intercalate "," ((List.range (u.length + 2)).map (fun k => hx cs[k]?))
    let nthb := String.intercalate "," ((List.range (u.length + 2)).map (fun k => hx (if k < n then cs[n - 1 - k]? else none)))
    let step := String.intercalate "," (((cs.drop 1).zipIdx.filter (fun p => p.2 % 2 == 0)).map (fun p => hexStr p.1))
    let rev := String.intercalate "," (cs.reverse.map hexStr)
    let meth := s!"{nth}|{nthb}|{step}|{rev}|{n}|{hx cs.getLast?}|1"
    let v := v.add (getF ans "METH" == meth) "S:C18"
    -- subrange over every pair of character boundaries (reported only for texts of at most 8 characters)
    let t := Utf16.toText u
    let v := v.add (getF ans "SUB" == subStr t) "M:iter"
    -- Spec: the characters of the lossy decoding that start in [a, b)
    let bounds := starts ++ [u.length]
    let ssub := if bounds.length ≤ 9 then
        String.intercalate "," ((pairsLe bounds).map (fun (a, b) =>
          let cs := ((starts.zip lo).filter (fun (st, _) => a ≤ st && st < b)).map (fun (_, x) => hexStr x.1)
          s!"{a}-{b}:{b - a}:{String.intercalate "." cs}"))
      else ""
    let v := v.add (getF ans "SUB" == ssub) "S:C18"
    v.add (getF ans "FAR" == "1") "S:C18"

/-- `<str as TextSource>`: char_at at every offset, the three iterators, char_len, len, subrange -/
def checkS8 (f : Fields) (ans : Fields) (panicked : Bool) : Verdict :=
  let cs := hexList (getF f "T")
  let v : Verdict := { stats := s!"n={cs.length}" }
  if panicked then v.add false "S:C07"
  else
    let t := Text.ofScalars cs
    let ca := String.intercalate "," ((List.range (t.len + 2)).map (fun i =>
      match t.charAt i with
      | some sg => s!"{hexStr sg.cp}:{sg.len}"
      | none => "-"))
    let ci := String.intercalate "," (t.segs.map (fun sg => s!"{sg.start}:{hexStr sg.cp}"))
    let il := String.intercalate "," (t.segs.map (fun sg => s!"{sg.start}:{sg.len}"))
    let ch := String.intercalate "," (t.segs.map (fun sg => hexStr sg.cp))
    let cl := String.intercalate "," (t.segs.map (fun sg => toString (Enc.utf8.charLen sg.cp)))
    let v := v.add (getF ans "CA" == ca) "M:charat"
    let v := v.add (getF ans "CI" == ci && getF ans "IL" == il && getF ans "CH" == ch && getF ans "CL" == cl
                    && getF ans "LEN" == toString t.len && getF ans "SUB" == subStr t) "M:iter"
    -- Spec: UTF-8 lengths by scalar value, offsets by summation (independent of `Text.layout`)
    let w (c : Nat) : Nat := if c < 0x80 then 1 else if c < 0x800 then 2 else if c < 0x10000 then 3 else 4
    let starts := (cs.foldl (fun (acc : List Nat × Nat) c => (acc.1 ++ [acc.2], acc.2 + w c)) ([], 0)).1
    let total := (cs.map w).foldl (· + ·) 0
    let sil := String.intercalate "," ((starts.zip cs).map (fun (st, c) => s!"{st}:{w c}"))
    let sci := String.intercalate "," ((starts.zip cs).map (fun (st, c) => s!"{st}:{hexStr c}"))
    let sca := String.intercalate "," ((List.range (total + 2)).map (fun i =>
      match (starts.zip cs).find? (fun (st, _) => st == i) with
      | some (_, c) => s!"{hexStr c}:{w c}"
      | none => "-"))
    let v := v.add (getF ans "IL" == sil && getF ans "CI" == sci && getF ans "CA" == sca
                    && getF ans "LEN" == toString total) "S:C18"
    let bounds := starts ++ [total]
    let ssub := if bounds.length ≤ 9 then
        String.intercalate "," ((pairsLe bounds).map (fun (a, b) =>
          let xs := ((starts.zip cs).filter (fun (st, _) => a ≤ st && st < b)).map (fun (_, c) => hexStr c)
          s!"{a}-{b}:{b - a}:{String.intercalate "." xs}"))
      else ""
    let v := v.add (getF ans "SUB" == ssub) "S:C18"
    v.add (getF ans "FAR" == "1") "S:C18"

def resStr (o : Option Nat) (orig : Nat) : String :=
  match o with
  | some n => toString n
  | none => s!"E{orig}"

def checkLvl (f : Fields) (ans : Fields) (panicked : Bool) : Verdict :=
  let l := (getF f "l").toNat?.getD 0
  let v : Verdict := { stats := "" }
  if panicked then v.add false "S:C19"
  else
    let optS (o : Option Nat) : String := match o with | some n => toString n | none => "E"
    -- Model
    let v := v.add (getF ans "NL" == optS (Level.newExplicitNextLtr l)) "M:level"
    let v := v.add (getF ans "NR" == optS (Level.newExplicitNextRtl l)) "M:level"
    let v := v.add (getF ans "LG" == optS (Level.newLowestGeRtl l)) "M:level"
    let v := v.add (getF ans "LTR" == (if Level.isLtr l then "1" else "0")) "M:level"
    let v := v.add (getF ans "RTL" == (if Level.isRtl l then "1" else "0")) "M:level"
    let v := v.add (getF ans "CLS" == (Level.bidiClass l).name) "M:level"
    let amts := List.range 256
    let mraise := String.intercalate "," (amts.map (fun a => resStr (Level.raise l a) l))
    let mraisex := String.intercalate "," (amts.map (fun a => resStr (Level.raiseExplicit l a) l))
    let mlower := String.intercalate "," (amts.map (fun a => resStr (Level.lower l a) l))
    let v := v.add (getF ans "RAISE" == mraise) "M:level"
    let v := v.add (getF ans "RAISEX" == mraisex) "M:level"
    let v := v.add (getF ans "LOWER" == mlower) "M:level"
    -- Spec (plain arithmetic on ℕ)
    let v := v.add (getF ans "NUM" == toString l && getF ans "U8" == toString l) "S:C19"
    let v := v.add (getF ans "LTR" == (if l % 2 == 0 then "1" else "0") && getF ans "RTL" == (if l % 2 == 1 then "1" else "0")) "S:C19"
    let v := v.add (getF ans "CLS" == (if l % 2 == 1 then "R" else "L")) "S:C19"
    let leastGt (p : Nat → Bool) : Option Nat := ((List.range 130).find? (fun n => n > l && p n)).bind (fun n => if n ≤ 125 then some n else none)
    let v := v.add (getF ans "NL" == optS (leastGt (· % 2 == 0))) "S:C19"
    let v := v.add (getF ans "NR" == optS (leastGt (· % 2 == 1))) "S:C19"
    let lg : Option Nat := ((List.range 130).find? (fun n => n ≥ l && n % 2 == 1)).bind (fun n => if n ≤ 126 then some n else none)
    let v := v.add (getF ans "LG" == optS lg) "S:C19"
    let sraise := String.intercalate "," (amts.map (fun a => if l + a ≤ 126 then toString (l + a) else s!"E{l}"))
    let sraisex := String.intercalate "," (amts.map (fun a => if l + a ≤ 125 then toString (l + a) else s!"E{l}"))
    let slower := String.intercalate "," (amts.map (fun a => if a ≤ l then toString (l - a) else s!"E{l}"))
    let v := v.add (getF ans "RAISE" == sraise && getF ans "RAISEX" == sraisex && getF ans "LOWER" == slower) "S:C19"
    let scmp := String.ofList ((List.range 127).map (fun m => if l < m then '<' else if l == m then '=' else '>'))
    let v := v.add (getF ans "CMP" == scmp) "S:C19"
    let v := v.add (getF ans "STREQ" == "1") "S:C19"
    -- all six relational operators, partial_cmp, max/min against every level agree with the numbers; string
    -- equality is false for every other number and for padded / signed / wrapped spellings
    (v.add (getF ans "REL" == "1") "S:C19").add (getF ans "NSTREQ" == "0") "S:C19"

def checkU8 (f : Fields) (ans : Fields) : Verdict :=
  let n := (getF f "n").toNat?.getD 0
  let v : Verdict := {}
  let optS (o : Option Nat) : String := match o with | some n => toString n | none => "E"
  let v := v.add (getF ans "NEW" == optS (Level.new n) && getF ans "NEWX" == optS (Level.newExplicit n)) "M:level"
  let v := v.add (getF ans "NEW" == (if n ≤ 126 then toString n else "E")) "S:C19"
  let v := v.add (getF ans "NEWX" == (if n ≤ 125 then toString n else "E")) "S:C19"
  let v := v.add (getF ans "FROM" == (if n ≤ 126 then toString n else "PANIC")) "S:C19"
  let v := v.add (getF ans "VEC" == (if n ≤ 126 then s!"0,{n},1" else "PANIC")) "S:C19"
  v.add (getF ans "VECL" == "1") "S:C19"

def checkHasRtl (f : Fields) (ans : Fields) : Verdict :=
  let lv := natList (getF f "LV")
  let v : Verdict := { stats := s!"n={lv.length}" }
  let v := v.add (getF ans "H" == (if Level.hasRtl lv then "1" else "0")) "M:level"
  let v := v.add (getF ans "H" == (if lv.any (· % 2 == 1) then "1" else "0")) "S:C19"
  v.add (getF ans "VEC" == "1" && getF ans "SLICE" == "1") "S:C19"

def parseRange (s : String) : Option (Nat × Nat × BidiClass) :=
  match s.splitOn ":" with
  | [r, c] =>
    match r.splitOn "-", BidiClass.ofName? c with
    | [a, b], some k =>
      match parseHex a, parseHex b with
      | some x, some y => some (x, y, k)
      | _, _ => none
    | _, _ => none
  | _ => none

def isScalar (c : Nat) : Bool := c < 0xD800 || (0xE000 ≤ c && c ≤ 0x10FFFF)

/-- first code point of `[lo,hi]` on which `g` differs from `k` -/
def firstDiff (g : Nat → BidiClass) (k : BidiClass) (lo hi : Nat) : Option Nat :=
  (List.range' lo (hi + 1 - lo)).find? (fun c => g c != k)

def checkCls (ans : Fields) : Verdict :=
  let rs := (splitList (getF ans "R") ";").filterMap parseRange
  let v : Verdict := { stats := s!"ranges={rs.length}" }
  let total := (rs.map (fun r => r.2.1 + 1 - r.1)).foldl (· + ·) 0
  let v := v.add (total == 1112064) "M:cls"
  let md := rs.findSome? (fun r => firstDiff bidiClass r.2.2 r.1 r.2.1)
  let v := match md with
    | some c => { (v.add false "M:cls") with stats := v.stats ++ s!" modeldiff@{hexStr c}" }
    | none => v
  let sd := rs.findSome? (fun r => firstDiff Ref.bidiClass16 r.2.2 r.1 r.2.1)
  let v := match sd with
    | some c => { (v.add false "S:C14") with stats := v.stats ++ s!" refdiff@{hexStr c}" }
    | none => v
  let v := v.add (getF ans "SAME" == "1") "S:C14"
  -- "a total function whose answer does not depend on search order": descending, permuted and ping-pong probes
  let v := if getF ans "ORDER" != "same" then { (v.add false "S:C14") with stats := v.stats ++ s!" order-dependent@{getF ans "ORDER"}" } else v
  let v := if getF ans "PANICS" != "" then { (v.add false "S:C14") with stats := v.stats ++ s!" lookup-panics@{getF ans "PANICS"}" } else v
  -- C15: every bracket character of the reference has class ON in the crate's table
  let crateCls (c : Nat) : BidiClass := ((rs.find? (fun r => r.1 ≤ c && c ≤ r.2.1)).map (·.2.2)).getD .L
  let notOn := Ref.brackets16.find? (fun b => crateCls b.1 != .ON)
  match notOn with
  | some b => { (v.add false "S:C15") with stats := v.stats ++ s!" bracketNotON@{hexStr b.1}" }
  | none => v

def checkBrk (ans : Fields) : Verdict :=
  let es : List (Nat × Bool × Nat) := (splitList (getF ans "B") ";").filterMap (fun p =>
    match p.splitOn ":" with
    | [c, r] =>
      match parseHex c, parseHex (r.drop 1).toString with
      | some x, some o => some (x, r.startsWith "o", o)
      | _, _ => none
    | _ => none)
  let v : Verdict := { stats := s!"brackets={es.length}" }
  let none_ := (getF ans "NONE").toNat?.getD 0
  let v := v.add (es.length + none_ == 1112064) "M:brk"
  let v := v.add (((getF ans "B").splitOn "PANIC").length == 1) "S:C15"
  -- Model: the same `some` set (the Model is `none` elsewhere iff the counts agree and each listed agrees)
  let v := v.add (es.all (fun e => bracket e.1 == some { opening := e.2.2, isOpen := e.2.1 })) "M:brk"
  let modelSome := (Gen.pairsTable.flatMap (fun p => [p.1, p.2.1])).eraseDups
  let v := v.add (modelSome.all (fun c => es.any (fun e => e.1 == c)) && modelSome.length == es.length) "M:brk"
  -- Spec: the frozen reference
  let v := v.add (es.length == Ref.brackets16.length) "S:C15"
  let v := v.add (Ref.brackets16.all (fun b =>
    match es.find? (fun e => e.1 == b.1) with
    | some e => e.2.1 == b.2.1 && (
        -- same key exactly for partners and canonical equivalents, different otherwise
        Ref.brackets16.all (fun b2 =>
          match es.find? (fun e2 => e2.1 == b2.1) with
          | some e2 => (e.2.2 == e2.2.2) == (b.2.2 == b2.2.2)
          | none => false))
    | none => false)) "S:C15"
  v

def checkVer (ans : Fields) : Verdict :=
  let v : Verdict := {}
  let v := v.add (getF ans "V" == s!"{Gen.unicodeVersion.1}.{Gen.unicodeVersion.2.1}.{Gen.unicodeVersion.2.2}") "M:ver"
  let v := v.add (getF ans "MAXI" == toString Gen.maxImplicitDepth && getF ans "MAXX" == toString Gen.maxExplicitDepth) "M:ver"
  let v := v.add (getF ans "V" == "16.0.0") "S:C14"
  let v := v.add (getF ans "FC" == "ALM:61C;LRM:200E;RLM:200F;LRI:2066;RLI:2067;FSI:2068;PDI:2069;LRE:202A;RLE:202B;PDF:202C;LRO:202D;RLO:202E") "S:C14"
  let v := v.add (getF ans "MAXI" == "126" && getF ans "MAXX" == "125" && getF ans "LTR" == "0" && getF ans "RTL" == "1") "S:C19"
  v

def checkEq (prop : String) (ans : Fields) : Verdict :=
  let v : Verdict := {}
  let a := getF ans "A"
  let b := getF ans "B"
  let v := v.add (a == b) s!"S:{prop}"
  v.add (!((a.splitOn "PANIC").length > 1 || (b.splitOn "PANIC").length > 1)) "S:C07"

def parseSeqs (s : String) : List IRSeq :=
  (splitList s "|").filterMap (fun q =>
    match q.splitOn "," with
    | [rs, sos, eos] =>
      match BidiClass.ofName? sos, BidiClass.ofName? eos with
      | some a, some b =>
        some { runs := (splitList rs "+").filterMap (fun r =>
                 match (r.splitOn ":").map String.toNat? with
                 | [some x, some y] => some (x, y)
                 | _ => none), sos := a, eos := b }
      | _, _ => none
    | _ => none)

/-- Stage-level correspondence through the cfg-guarded hooks: every stage function of the Model is fed the
    crate's own output of the previous stage and compared with the crate's output of that stage. -/
def checkStage (f : Fields) (ans : Fields) (panicked : Bool) (raw : String) : Verdict :=
  let enc := getF f "enc"
  let tcp := hexList (getF f "T")
  let ds := parseDs (getF f "DS")
  let t0 := mkText enc tcp
  let v : Verdict := { stats := s!"n={t0.segs.length} units={t0.len}" }
  if panicked then v.add false "S:C07"
  else if raw.trimAscii.toString == "EMPTY" then v
  else if raw.trimAscii.toString == "NOHOOKS" then v.add false "M:nohooks"
  else
    let pr := parseRuns (getF ans "PR")
    let (a, b) := pr.headD (0, 0)
    let t := t0.subrange a b
    let pl := (getF ans "PL").toNat?.getD 0
    let ocs := classList (getF ans "C")
    let hasIso := getF ans "HASISO" == "1"
    let xl := natList (getF ans "XL")
    let xp := classList (getF ans "XP")
    let xr := parseRuns (getF ans "XR")
    let sq := parseSeqs (getF ans "SQ")
    let ws := (splitList (getF ans "W") ";").map classList
    let ns := (splitList (getF ans "N") ";").map classList
    let fl := natList (getF ans "FL")
    -- explicit
    let ex := explicitCompute t pl ocs
    let v := v.add (ex.levels == xl && ex.pcs == xp && ex.runs == xr && ex.err.isNone) "M:st-explicit"
    -- sequences, from the crate's explicit output
    let (ms, e1) := isolatingRunSequences pl ocs xl xr hasIso
    let v := v.add (ms == sq && e1.isNone) "M:st-seq"
    -- weak / neutral per sequence, each from the crate's previous snapshot
    let charLenAt := fun i => (t.charAt i).map (·.len)
    let rec go (k : Nat) (prev : List BidiClass) (seqs : List IRSeq) (v : Verdict) : Verdict :=
      match seqs with
      | [] => v
      | seq :: rest =>
        let w := ws.getD k []
        let n := ns.getD k []
        let v := v.add (resolveWeak charLenAt seq prev == w) "M:st-weak"
        let (mn, e) := resolveNeutral ds t seq xl ocs w
        let v := v.add (mn == n && e.isNone) "M:st-neutral"
        go (k + 1) n rest v
    let v := go 0 xp sq v
    let lastPcs := (ns.getLast?).getD xp
    let (ml, e3) := resolveLevels lastPcs xl
    let v := v.add (ml == fl && e3.isNone) "M:st-levels"
    { v with stats := v.stats ++ s!" seqs={sq.length} runs={xr.length}" }

def processLine (line : String) : Option String :=
  let line := line.trimAscii.toString
  if line.isEmpty || !line.startsWith "#" then none
  else
    let (q, a) := match line.splitOn " => " with
      | [q, a] => (q, a)
      | [q] => (q, "")
      | q :: rest => (q, String.intercalate " => " rest)
      | [] => ("", "")
    let qt := (q.splitOn " ").filter (· != "")
    match qt with
    | id :: mode :: op :: rest =>
      let f := parseFields rest
      let panicked := a.trimAscii.toString == "PANIC"
      let ans := parseFields ((a.splitOn " ").filter (· != ""))
      let v : Verdict := match op with
        | "bidi" => checkBidi f ans panicked
        | "line" => checkLine f ans panicked
        | "rv" => checkRv f ans
        | "basedir" => checkBaseDir f ans panicked
        | "stage" => checkStage f ans panicked a
        | "u16" => checkU16 f ans panicked
        | "s8" => checkS8 f ans panicked
        | "spec" => specDump f
        | "lvl" => checkLvl f ans panicked
        | "u8" => checkU8 f ans
        | "hasrtl" => checkHasRtl f ans
        | "cls" => checkCls ans
        | "brk" => checkBrk ans
        | "ver" => checkVer ans
        | "meta9" => checkEq "C09" ans
        | "meta10" => checkEq "C10" ans
        | "metalong" =>
          -- levels, line levels and reordered line of the tail after a prefix of 65,5xx letters = after one letter:
          -- a difference counts against the level property and the three line properties
          let v := checkEq "C01" ans
          if v.toks.contains "S:C01" then ((v.add false "S:C03").add false "S:C05").add false "S:C06" else v
        | "stress" =>
          -- `(a א)×n`: one paragraph, 2n runs in every API, level sum n, reordered line = the text
          let n := (getF f "n").toNat?.getD 0
          let ok := getF ans "PARAS" == "1" && getF ans "RUNS" == toString (2 * n) && getF ans "RUNSP" == toString (2 * n)
                    && getF ans "RUNS8" == toString (2 * n) && getF ans "LSUM" == toString n && getF ans "SAME" == "1"
                    && getF ans "RTL" == "1"
          ((({} : Verdict).add ok "S:C07").add ok "S:C05").add ok "S:C06"
        | "meta12" => checkEq "C12" ans
        | "meta13" => checkEq "C13" ans
        | "digest" => {}
        | "serde" => (({} : Verdict).add (getF ans "BAD" == "") "S:C20").add (getF ans "ACCEPTED" == "") "S:C19"
        | _ => ({} : Verdict).add false "M:unknown-op"
      -- a call that panics outright gives no answer at all: every property about its result is violated
      let v := if panicked then v.add false "S:PANIC" else v
      -- a panic raised during the operation that never reached the harness (caught inside the crate) is still a panic
      let v := if hasF ans "HIDDENPANIC" then (v.add false "S:C07").add false "S:PANIC" else v
      -- an analysis started from inside a data-source callback answered differently from the same analysis outside
      let v := if hasF ans "NESTEDBAD" then ((v.add false "S:C12").add false "S:C01").add false "S:CONV" else v
      let verdict := if v.toks.isEmpty then "ok" else "FAIL " ++ String.intercalate " " v.toks.eraseDups
      some s!"{id} {mode} {op} {verdict} | {v.stats}"
    | _ => none

end Drv

partial def loop (h : IO.FS.Stream) (out : IO.FS.Stream) : IO Unit := do
  let line ← h.getLine
  if line.isEmpty then return ()
  match Drv.processLine line with
  | some s => out.putStrLn s
  | none => pure ()
  loop h out

def main : IO Unit := do
  let stdin ← IO.getStdin
  let stdout ← IO.getStdout
  loop stdin stdout
