/-
  UBidi.Model.Prepare — prepare.rs: isolating run sequences (BD13), sos/eos
  (X10), and the forward/backward walks over a multi-run sequence.
-/
import UBidi.Model.Level
namespace UBidi
open BidiClass

structure IRSeq where
  runs : List (Nat × Nat)
  sos : BidiClass
  eos : BidiClass
  deriving DecidableEq, Repr, Inhabited

def runIndices (r : Nat × Nat) : List Nat := List.range' r.1 (r.2 - r.1)

namespace IRSeq

/-- every code-unit index of the sequence, in order -/
def indices (s : IRSeq) : List Nat := s.runs.flatMap runIndices

/-- `iter_forwards_from(pos, level_run_index)` -/
def iterForwardsFrom (s : IRSeq) (pos runIdx : Nat) : List Nat :=
  match s.runs.drop runIdx with
  | [] => []
  | r :: rest => List.range' pos (r.2 - pos) ++ rest.flatMap runIndices

/-- `iter_backwards_from(pos, level_run_index)`: `pos` excluded, nearest first,
    earlier runs walked back-to-front as well. -/
def iterBackwardsFrom (s : IRSeq) (pos runIdx : Nat) : List Nat :=
  match s.runs[runIdx]? with
  | none => []
  | some cur =>
    (List.range' cur.1 (pos - cur.1)).reverse ++
      (s.runs.take runIdx).reverse.flatMap (fun r => (runIndices r).reverse)

end IRSeq

def notRemoved (c : BidiClass) : Bool := !c.removedByX9

/-- index of the last element satisfying `p` (`rposition`) -/
def rposition {α} (p : α → Bool) (xs : List α) : Option Nat :=
  match (xs.reverse.findIdx? p) with
  | some k => some (xs.length - 1 - k)
  | none => none

def slice {α} (xs : List α) (a b : Nat) : List α := (xs.drop a).take (b - a)

/-- sos/eos of one sequence (general path, prepare.rs:162-231). -/
def seqBounds (paraLevel : Nat) (ocs : List BidiClass) (levels : List Nat)
    (runs : List (Nat × Nat)) : IRSeq × Option Panic :=
  match runs with
  | [] => ({ runs := runs, sos := L, eos := L }, some .prepareAssert)
  | r0 :: _ =>
    let startOfSeq := r0.1
    let endOfSeq := (runs.getLast?.getD r0).2
    let s0 : IRSeq := { runs := runs, sos := L, eos := L }
    let all := s0.indices
    let seqLevel := levels.getD ((all.find? (fun i => notRemoved (ocs.getD i ON))).getD startOfSeq) 0
    let endLevel := levels.getD ((all.reverse.find? (fun i => notRemoved (ocs.getD i ON))).getD (endOfSeq - 1)) 0
    let predLevel := match rposition notRemoved (ocs.take startOfSeq) with
      | some idx => levels.getD idx 0
      | none => paraLevel
    let lastNonRemoved := ((ocs.take endOfSeq).reverse.find? notRemoved).getD BN
    let succLevel :=
      if lastNonRemoved.isIsolateInitiator then paraLevel
      else match (ocs.drop endOfSeq).findIdx? notRemoved with
        | some idx => levels.getD (endOfSeq + idx) 0
        | none => paraLevel
    ({ runs := runs, sos := Level.bidiClass (max seqLevel predLevel),
       eos := Level.bidiClass (max endLevel succLevel) }, none)

/-- fast path, one sequence per level run (prepare.rs:67-110). -/
def seqOfRunFast (paraLevel : Nat) (ocs : List BidiClass) (levels : List Nat) (run : Nat × Nat) : IRSeq :=
  let runLevels := slice levels run.1 run.2
  let runClasses := slice ocs run.1 run.2
  let seqLevel := runLevels.getD ((runClasses.findIdx? notRemoved).getD 0) 0
  let endLevel := runLevels.getD ((rposition notRemoved runClasses).getD (run.2 - run.1 - 1)) 0
  let predLevel := match rposition notRemoved (ocs.take run.1) with
    | some idx => levels.getD idx 0
    | none => paraLevel
  let succLevel := match (ocs.drop run.2).findIdx? notRemoved with
    | some idx => levels.getD (run.2 + idx) 0
    | none => paraLevel
  { runs := [run], sos := Level.bidiClass (max seqLevel predLevel),
    eos := Level.bidiClass (max endLevel succLevel) }

structure PrepState where
  stack : List (List (Nat × Nat))       -- top first; bottom entry is the initial `vec![]`
  done : List (List (Nat × Nat))
  err : Option Panic := none
  deriving Repr, Inhabited

/-- One iteration of `for run in runs` of the general path. -/
def prepStep (ocs : List BidiClass) (st : PrepState) (run : Nat × Nat) : PrepState :=
  let err := orErr st.err (if run.1 < run.2 && !st.stack.isEmpty then none else some .prepareAssert)
  let startClass := ocs.getD run.1 ON
  let endClass := ((slice ocs run.1 run.2).reverse.find? notRemoved).getD startClass
  let (seq0, stack1) :=
    if startClass == PDI && st.stack.length > 1 then (st.stack.head!, st.stack.tail)
    else ([], st.stack)
  let seq := seq0 ++ [run]
  if endClass.isIsolateInitiator then { stack := seq :: stack1, done := st.done, err := err }
  else { stack := stack1, done := st.done ++ [seq], err := err }

/-- `prepare::isolating_run_sequences` -/
def isolatingRunSequences (paraLevel : Nat) (ocs : List BidiClass) (levels : List Nat)
    (runs : List (Nat × Nat)) (hasIso : Bool) : List IRSeq × Option Panic :=
  if !hasIso then (runs.map (seqOfRunFast paraLevel ocs levels), none)
  else
    let st := runs.foldl (prepStep ocs) { stack := [[]], done := [] }
    let seqs := st.done ++ st.stack.filter (fun s => !s.isEmpty)
    let rs := seqs.map (seqBounds paraLevel ocs levels)
    (rs.map (·.1), rs.foldl (fun e r => orErr e r.2) st.err)

end UBidi
