/-
  UBidi.Model.Explicit — explicit.rs `compute` (X1–X8, level runs BD7).
-/
import UBidi.Model.Level
namespace UBidi
open BidiClass

inductive OStatus where
  | neutral | rtl | ltr | isolate
  deriving DecidableEq, Repr, Inhabited

structure Status where
  level : Nat
  status : OStatus
  deriving DecidableEq, Repr, Inhabited

structure ExState where
  stack : List Status               -- directional status stack, top first
  oi : Nat := 0                     -- overflow_isolate_count
  oe : Nat := 0                     -- overflow_embedding_count
  vi : Nat := 0                     -- valid_isolate_count
  levels : List Nat := []           -- emitted so far, one per code unit
  pcs : List BidiClass := []        -- processing classes emitted so far
  runs : List (Nat × Nat) := []
  curLevel : Nat := 0
  curStart : Nat := 0
  err : Option Panic := none
  deriving Repr, Inhabited

/-- the `while !matches!(stack.pop(), None | Some(Isolate))` loop -/
def popThroughIsolate : List Status → List Status
  | [] => []
  | s :: rest => if s.status = .isolate then rest else popThroughIsolate rest

def applyOverride (st : OStatus) (c : BidiClass) : BidiClass :=
  match st with
  | .rtl => R
  | .ltr => L
  | _ => c

/-- What one character does to the machine: new machine fields and the level
    and processing class of the character. -/
structure ExCharOut where
  stack : List Status
  oi : Nat
  oe : Nat
  vi : Nat
  level : Nat
  pc : BidiClass
  err : Option Panic

def exChar (paraLevel : Nat) (stack : List Status) (oi oe vi : Nat) (oc : BidiClass) : ExCharOut :=
  match stack with
  | [] =>
    { stack := stack, oi := oi, oe := oe, vi := vi, level := paraLevel, pc := oc,
      err := some .explicitStackEmpty }
  | last :: _ =>
    match oc with
    | RLE | LRE | RLO | LRO | RLI | LRI | FSI =>
      let isIso := oc.isIsolateInitiator
      let pc0 := if isIso then applyOverride last.status oc else oc
      let newLevel := if oc.isRtlInitiator then Level.newExplicitNextRtl last.level
                      else Level.newExplicitNextLtr last.level
      match newLevel with
      | some nl =>
        if oi == 0 && oe == 0 then
          let st : OStatus := match oc with
            | RLO => .rtl | LRO => .ltr | RLI | LRI | FSI => .isolate | _ => .neutral
          { stack := { level := nl, status := st } :: stack, oi := oi, oe := oe,
            vi := if isIso then vi + 1 else vi,
            level := if isIso then last.level else nl,
            pc := if isIso then pc0 else BN, err := none }
        else if isIso then
          { stack := stack, oi := oi + 1, oe := oe, vi := vi, level := last.level, pc := pc0, err := none }
        else
          { stack := stack, oi := oi, oe := if oi == 0 then oe + 1 else oe, vi := vi,
            level := last.level, pc := BN, err := none }
      | none =>
        if isIso then
          { stack := stack, oi := oi + 1, oe := oe, vi := vi, level := last.level, pc := pc0, err := none }
        else
          { stack := stack, oi := oi, oe := if oi == 0 then oe + 1 else oe, vi := vi,
            level := last.level, pc := BN, err := none }
    | PDI =>
      let (stack', oi', oe', vi') :=
        if oi > 0 then (stack, oi - 1, oe, vi)
        else if vi > 0 then (popThroughIsolate stack, oi, 0, vi - 1)
        else (stack, oi, oe, vi)
      match stack' with
      | [] => { stack := stack', oi := oi', oe := oe', vi := vi', level := paraLevel, pc := oc,
                err := some .explicitStackEmpty }
      | last' :: _ =>
        { stack := stack', oi := oi', oe := oe', vi := vi', level := last'.level,
          pc := applyOverride last'.status PDI, err := none }
    | PDF =>
      let (stack', oe') :=
        if oi > 0 then (stack, oe)
        else if oe > 0 then (stack, oe - 1)
        else if last.status != .isolate && stack.length ≥ 2 then (stack.tail, oe)
        else (stack, oe)
      match stack' with
      | [] => { stack := stack', oi := oi, oe := oe', vi := vi, level := paraLevel, pc := BN,
                err := some .explicitStackEmpty }
      | last' :: _ =>
        { stack := stack', oi := oi, oe := oe', vi := vi, level := last'.level, pc := BN, err := none }
    | B => { stack := stack, oi := oi, oe := oe, vi := vi, level := paraLevel, pc := B, err := none }
    | c =>
      { stack := stack, oi := oi, oe := oe, vi := vi, level := last.level,
        pc := if c != BN then applyOverride last.status c else c, err := none }

/-- One iteration of `for (i, len) in text.indices_lengths()`. -/
def exStep (paraLevel : Nat) (ocs : List BidiClass) (st : ExState) (s : Seg) : ExState :=
  let i := s.start
  let oc := ocs.getD i ON
  let r := exChar paraLevel st.stack st.oi st.oe st.vi oc
  let err := orErr st.err (orErr (if i < ocs.length then none else some .indexOutOfBounds) r.err)
  let st' : ExState :=
    { st with stack := r.stack, oi := r.oi, oe := r.oe, vi := r.vi,
              levels := st.levels ++ List.replicate s.len r.level,
              pcs := st.pcs ++ List.replicate s.len r.pc, err := err }
  if i == 0 then { st' with curLevel := r.level }
  else if !oc.removedByX9 && r.level != st'.curLevel then
    { st' with runs := st'.runs ++ [(st'.curStart, i)], curLevel := r.level, curStart := i }
  else st'

structure ExplicitOut where
  levels : List Nat
  pcs : List BidiClass
  runs : List (Nat × Nat)
  err : Option Panic
  deriving Repr, Inhabited

/-- `explicit::compute(text, para_level, original_classes, levels, processing_classes, runs)`;
    `levels` enters filled with `para_level`, `processing_classes` as a copy of
    `original_classes`; both leave as returned here. -/
def explicitCompute (t : Text) (paraLevel : Nat) (ocs : List BidiClass) : ExplicitOut :=
  let st0 : ExState := { stack := [{ level := paraLevel, status := .neutral }],
                         err := if t.len = ocs.length then none else some .explicitLenMismatch }
  let st := t.segs.foldl (exStep paraLevel ocs) st0
  let n := st.levels.length
  { levels := st.levels, pcs := st.pcs,
    runs := if n > st.curStart then st.runs ++ [(st.curStart, n)] else st.runs,
    err := st.err }

end UBidi
