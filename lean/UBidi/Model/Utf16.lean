/-
  UBidi.Model.Utf16 — utf16.rs: `char_at`, the three forward iterators and the
  double-ended `Utf16CharIter`, over a list of 16-bit code units.
-/
import UBidi.Model.Basic
namespace UBidi.Utf16

def isHigh (u : Nat) : Bool := u / 1024 == 0xD800 / 1024      -- (code & 0xFC00) == 0xD800
def isLow (u : Nat) : Bool := u / 1024 == 0xDC00 / 1024       -- (code & 0xFC00) == 0xDC00
def isSurrogate (u : Nat) : Bool := 0xD800 ≤ u && u ≤ 0xDFFF  -- char::from_u32 fails

def replacement : Nat := 0xFFFD

def combine (hi lo : Nat) : Nat := 0x10000 + (hi - 0xD800) * 1024 + (lo - 0xDC00)

/-- `<[u16] as TextSource>::char_at`: `(scalar, length)` -/
def charAt (t : List Nat) (index : Nat) : Option (Nat × Nat) :=
  match t[index]? with
  | none => none
  | some c =>
    if !isSurrogate c then some (c, 1)
    else if isLow c && index > 0 && isHigh (t.getD (index - 1) 0) then none
    else
      -- char::decode_utf16(self[index..]).next()
      if isHigh c then
        match t[index + 1]? with
        | some d => if isLow d then some (combine c d, 2) else some (replacement, 1)
        | none => some (replacement, 1)
      else some (replacement, 1)

/-- `Utf16CharIndexIter` / `Utf16IndexLenIter` / `Utf16CharIter::next` share
    this stepping: at `cur`, `char_at(cur)` or stop. -/
def iterFrom (t : List Nat) : Nat → Nat → List Seg
  | 0, _ => []
  | fuel + 1, cur =>
    match charAt t cur with
    | some (c, l) => { start := cur, cp := c, len := l } :: iterFrom t fuel (cur + l)
    | none => []

/-- `text.char_indices()` with lengths (fuel = number of units suffices: every
    step advances by at least one unit). -/
def segments (t : List Nat) : List Seg := iterFrom t (t.length + 1) 0

def toText (t : List Nat) : Text := { enc := .utf16, len := t.length, segs := segments t }

/-- State of `Utf16CharIter`. -/
structure Iter where
  cur : Nat
  stop : Nat
  deriving DecidableEq, Repr

def Iter.new (t : List Nat) : Iter := { cur := 0, stop := t.length }

/-- `Iterator::next` (with the `end_pos` guard of the repaired code). -/
def Iter.next (t : List Nat) (it : Iter) : Option Nat × Iter :=
  if it.cur ≥ it.stop then (none, it)
  else
    match charAt t it.cur with
    | some (c, l) => (some c, { it with cur := it.cur + l })
    | none => (none, it)

/-- `DoubleEndedIterator::next_back` -/
def Iter.nextBack (t : List Nat) (it : Iter) : Option Nat × Iter :=
  if it.stop ≤ it.cur then (none, it)
  else
    let e := it.stop - 1
    let u := t.getD e 0
    if !isSurrogate u then (some u, { it with stop := e })
    else if e > it.cur then
      match charAt t (e - 1) with
      | some (c, l) =>
        if l == 2 then (some c, { it with stop := e - 1 })
        else (some replacement, { it with stop := e })
      | none => (some replacement, { it with stop := e })
    else (some replacement, { it with stop := e })

end UBidi.Utf16
