/-
  UBidi.Model.Implicit — implicit.rs: `resolve_weak` (single pass W1–W7),
  `identify_bracket_pairs` (BD16), `resolve_neutral` (N0–N2), `resolve_levels`
  (I1/I2).  All arrays are per code unit, indices are paragraph-relative.
-/
import UBidi.Model.Prepare
import UBidi.Model.CharData
namespace UBidi
open BidiClass

abbrev Classes := List BidiClass

@[inline] def cget (pcs : Classes) (i : Nat) : BidiClass := pcs.getD i ON

/-- write `v` at every index of `idxs` -/
def setAll (pcs : Classes) (idxs : List Nat) (v : BidiClass) : Classes :=
  idxs.foldl (fun p j => p.set j v) pcs

/-- `for idx in it { if pcs[idx] != BN { break }; pcs[idx] = v }` -/
def setWhileBN (pcs : Classes) (it : List Nat) (v : BidiClass) : Classes :=
  match it with
  | [] => pcs
  | idx :: rest => if cget pcs idx != BN then pcs else setWhileBN (pcs.set idx v) rest v

structure WState where
  pcs : Classes
  prevW4 : BidiClass
  prevW5 : BidiClass
  prevW1 : BidiClass
  lastStrongIsAL : Bool := false
  etRun : List Nat := []
  bnRun : List Nat := []
  deriving Repr, Inhabited

/-- One iteration of the inner loop of `resolve_weak` at unit `i` of run `runIdx`. -/
def weakStep (charLenAt : Nat → Option Nat) (seq : IRSeq) (st : WState) (ri : Nat × Nat) : WState :=
  let runIdx := ri.1
  let i := ri.2
  if cget st.pcs i == BN then { st with bnRun := st.bnRun ++ [i] }
  else
    let c0 := cget st.pcs i
    -- W1
    let c1 := if c0 == NSM then
                (match st.prevW1 with
                 | RLI | LRI | FSI | PDI => ON
                 | p => p)
              else c0
    let w2class := c1
    let prevW1 := c1
    -- W2 / W3
    let c2 := match c1 with
      | EN => if st.lastStrongIsAL then AN else EN
      | AL => R
      | c => c
    let lastAL := match w2class with
      | L | R => false
      | AL => true
      | _ => st.lastStrongIsAL
    let classBeforeW456 := c2
    let pcs := st.pcs.set i c2
    -- W4 / W5 / W6 (separators)
    let (pcs, etRun) :=
      match c2 with
      | EN => (setAll pcs st.etRun EN, [])
      | ES | CS =>
        (match charLenAt i with
         | some charLen =>
           let nextClass0 :=
             ((seq.iterForwardsFrom (i + charLen) runIdx).map (cget pcs)).find? notRemoved |>.getD seq.eos
           let nextClass := if nextClass0 == EN && lastAL then AN else nextClass0
           let c3 := match st.prevW4, c2, nextClass with
             | EN, ES, EN => EN
             | EN, CS, EN => EN
             | AN, CS, AN => AN
             | _, _, _ => ON
           let pcs := pcs.set i c3
           if c3 == ON then
             let pcs := setWhileBN pcs (seq.iterBackwardsFrom i runIdx) ON
             let pcs := setWhileBN pcs (seq.iterForwardsFrom (i + charLen) runIdx) ON
             (pcs, st.etRun)
           else (pcs, st.etRun)
         | none => (pcs.set i (cget pcs (i - 1)), st.etRun))
      | ET =>
        (match st.prevW5 with
         | EN => (pcs.set i EN, st.etRun)
         | _ => (pcs, st.etRun ++ st.bnRun ++ [i]))
      | _ => (pcs, st.etRun)
    let prevW5 := cget pcs i
    let (pcs, etRun) := if prevW5 != ET then (setAll pcs etRun ON, []) else (pcs, etRun)
    { pcs := pcs, prevW4 := classBeforeW456, prevW5 := prevW5, prevW1 := prevW1,
      lastStrongIsAL := lastAL, etRun := etRun, bnRun := [] }

/-- the W7 pass -/
def w7Step (st : Classes × Bool) (i : Nat) : Classes × Bool :=
  match cget st.1 i with
  | EN => if st.2 then (st.1.set i L, st.2) else st
  | L => (st.1, true)
  | R | AL => (st.1, false)
  | _ => st

/-- `(run_index, i)` for every unit of the sequence, in order -/
def IRSeq.indexed (s : IRSeq) : List (Nat × Nat) :=
  (s.runs.zipIdx).flatMap (fun (r, k) => (runIndices r).map (fun i => (k, i)))

/-- `implicit::resolve_weak(text, sequence, processing_classes)` -/
def resolveWeak (charLenAt : Nat → Option Nat) (seq : IRSeq) (pcs : Classes) : Classes :=
  let st0 : WState := { pcs := pcs, prevW4 := seq.sos, prevW5 := seq.sos, prevW1 := seq.sos }
  let st := seq.indexed.foldl (weakStep charLenAt seq) st0
  let pcs := setAll st.pcs st.etRun ON
  (seq.indices.foldl w7Step (pcs, seq.sos == L)).1

structure BracketPair where
  start : Nat
  stop : Nat
  startRun : Nat
  endRun : Nat
  deriving DecidableEq, Repr, Inhabited

structure BPState where
  stack : List (Nat × Nat × Nat) := []     -- (opening, index, run), top first
  pairs : List BracketPair := []
  stopped : Bool := false
  deriving Repr, Inhabited

/-- search the stack from the top for `opening`; on a match return the entry and
    the stack with everything from the top through the match removed -/
def findOpening (opening : Nat) : List (Nat × Nat × Nat) → Option ((Nat × Nat × Nat) × List (Nat × Nat × Nat))
  | [] => none
  | e :: rest => if e.1 == opening then some (e, rest) else findOpening opening rest

/-- one character `(run_index, seg)` of `identify_bracket_pairs` -/
def bpStep (ds : DataSource) (ocs pcs : Classes) (st : BPState) (x : Nat × Seg) : BPState :=
  if st.stopped then st
  else
    let runIdx := x.1
    let actual := x.2.start
    if cget pcs actual != ON || (cget ocs actual).removedByX9 then st
    else match ds.brk x.2.cp with
      | none => st
      | some m =>
        if m.isOpen then
          if st.stack.length ≥ Gen.bracketStackLimit then { st with stopped := true }
          else { st with stack := (m.opening, actual, runIdx) :: st.stack }
        else match findOpening m.opening st.stack with
          | some (e, rest) =>
            { st with stack := rest,
                      pairs := st.pairs ++ [{ start := e.2.1, stop := actual, startRun := e.2.2, endRun := runIdx }] }
          | none => st

/-- insertion into a list sorted by `start`, after equal keys (stable) -/
def insertPair (p : BracketPair) : List BracketPair → List BracketPair
  | [] => [p]
  | q :: qs => if p.start < q.start then p :: q :: qs else q :: insertPair p qs

/-- `sort_by_key(|r| r.start)` (stable) -/
def sortPairs (ps : List BracketPair) : List BracketPair :=
  ps.foldl (fun acc p => insertPair p acc) []

/-- the characters of the sequence with their run index
    (`text.subrange(level_run).char_indices()` for every run) -/
def seqChars (t : Text) (seq : IRSeq) : List (Nat × Seg) :=
  (seq.runs.zipIdx).flatMap (fun (r, k) =>
    (t.segs.filter (fun s => r.1 ≤ s.start && s.start < r.2)).map (fun s => (k, s)))

def identifyBracketPairs (ds : DataSource) (t : Text) (seq : IRSeq) (ocs pcs : Classes) : List BracketPair :=
  sortPairs ((seqChars t seq).foldl (bpStep ds ocs pcs) {}).pairs

/-- the scan of the characters enclosed by a pair: `(found_e, found_not_e)` -/
def scanEnclosed (pcs : Classes) (e notE : BidiClass) (stop : Nat) : List Nat → Bool → Bool × Bool
  | [], fne => (false, fne)
  | i :: rest, fne =>
    if i ≥ stop then (false, fne)
    else
      let c := cget pcs i
      if c == e then (true, fne)
      else if c == notE then scanEnclosed pcs e notE stop rest true
      else if c == EN || c == AN then
        (if e == L then scanEnclosed pcs e notE stop rest true else (true, fne))
      else scanEnclosed pcs e notE stop rest fne

/-- `for idx in it { if oc[idx] == NSM { pcs[idx] = v } else if !removed_by_x9(oc[idx]) { break } }`
    (original classes only: a unit X9 removes is stepped over and never written; repaired form, finding D9) -/
def setWhileNsmOrBN (ocs pcs : Classes) (it : List Nat) (v : BidiClass) : Classes :=
  match it with
  | [] => pcs
  | idx :: rest =>
    if cget ocs idx == NSM then setWhileNsmOrBN ocs (pcs.set idx v) rest v
    else if (cget ocs idx).removedByX9 then setWhileNsmOrBN ocs pcs rest v
    else pcs

/-- N0 for one bracket pair -/
def n0Pair (t : Text) (seq : IRSeq) (e : BidiClass) (ocs : Classes)
    (st : Classes × Option Panic) (pair : BracketPair) : Classes × Option Panic :=
  let pcs := st.1
  let notE := if e == L then R else L
  match t.charAt pair.start with
  | none => (pcs, orErr st.2 (some .bracketNoChar))
  | some sseg =>
    let startLen := t.enc.charLen sseg.cp
    let (foundE, foundNotE) :=
      scanEnclosed pcs e notE pair.stop (seq.iterForwardsFrom (pair.start + startLen) pair.startRun) false
    let classToSet : Option BidiClass :=
      if foundE then some e
      else if foundNotE then
        let prev := (((seq.iterBackwardsFrom pair.start pair.startRun).map (cget pcs)).find?
                      (fun c => c == L || c == R || c == EN || c == AN)).getD seq.sos
        some (if prev == EN || prev == AN then R else prev)
      else none
    match classToSet with
    | none => (pcs, st.2)
    | some v =>
      match t.charAt pair.stop with
      | none => (pcs, orErr st.2 (some .bracketNoChar))
      | some eseg =>
        let endLen := t.enc.charLen eseg.cp
        let pcs := setRange pcs pair.start startLen v
        let pcs := setRange pcs pair.stop endLen v
        let pcs := setWhileBN pcs (seq.iterBackwardsFrom pair.start pair.startRun) v
        let pcs := setWhileNsmOrBN ocs pcs (seq.iterForwardsFrom (pair.start + startLen) pair.startRun) v
        let pcs := setWhileNsmOrBN ocs pcs (seq.iterForwardsFrom (pair.stop + endLen) pair.endRun) v
        (pcs, st.2)

def isNIorBN (c : BidiClass) : Bool := c.isNI || c == BN

def n12Class (prev next e : BidiClass) : BidiClass :=
  match prev, next with
  | L, L => L
  | R, R | R, AN | R, EN | AN, R | AN, AN | AN, EN | EN, R | EN, AN | EN, EN => R
  | _, _ => e

structure N12State where
  pcs : Classes
  prev : BidiClass
  pending : List Nat := []
  deriving Repr, Inhabited

/-- N1/N2 as a left fold: NI/BN units are collected in `pending`; the first
    other unit (or the end, with `eos`) resolves them. -/
def n12Step (e : BidiClass) (st : N12State) (i : Nat) : N12State :=
  let c := cget st.pcs i
  if isNIorBN c then { st with pending := st.pending ++ [i] }
  else
    match st.pending with
    | [] => { st with prev := c }
    | _ => { pcs := setAll st.pcs st.pending (n12Class st.prev c e), prev := c, pending := [] }

def n12 (seq : IRSeq) (e : BidiClass) (pcs : Classes) : Classes :=
  let st := seq.indices.foldl (n12Step e) { pcs := pcs, prev := seq.sos }
  match st.pending with
  | [] => st.pcs
  | _ => setAll st.pcs st.pending (n12Class st.prev seq.eos e)

/-- `implicit::resolve_neutral` -/
def resolveNeutral (ds : DataSource) (t : Text) (seq : IRSeq) (levels : List Nat)
    (ocs pcs : Classes) : Classes × Option Panic :=
  match seq.runs with
  | [] => (pcs, some .indexOutOfBounds)
  | r0 :: _ =>
    let e := Level.bidiClass (levels.getD r0.1 0)
    let pairs := identifyBracketPairs ds t seq ocs pcs
    let (pcs, err) := pairs.foldl (n0Pair t seq e ocs) (pcs, none)
    (n12 seq e pcs, err)

/-- one unit of `resolve_levels` -/
def resolveLevel (lvl : Nat) (c : BidiClass) : Nat × Option Panic :=
  let amount : Nat :=
    match Level.isRtl lvl, c with
    | false, AN | false, EN => 2
    | false, R | true, L | true, EN | true, AN => 1
    | _, _ => 0
  if amount == 0 then (lvl, none)
  else match Level.raise lvl amount with
    | some l => (l, none)
    | none => (lvl, some .raiseOverflow)

/-- `implicit::resolve_levels` -/
def resolveLevels (pcs : Classes) (levels : List Nat) : List Nat × Option Panic :=
  let rs := (levels.zip pcs).map (fun (l, c) => resolveLevel l c)
  (rs.map (·.1), rs.foldl (fun e r => orErr e r.2)
                   (if pcs.length = levels.length then none else some .lenMismatch))

end UBidi
