/-
  UBidi.Model.Reorder — lib.rs / utf16.rs / deprecated.rs: `reorder_levels` (L1),
  `reordered_levels(_per_char)`, `visual_runs_for_line`, `deprecated::visual_runs`,
  `reorder_visual` (L2), `reorder_line`, and the summary queries.
-/
import UBidi.Model.Pipeline
import UBidi.Model.Utf16
namespace UBidi
open BidiClass

structure L1State where
  levels : List Nat
  resetFrom : Option Nat := some 0
  resetTo : Option Nat := none
  prev : Nat
  err : Option Panic := none
  deriving Repr, Inhabited

/-- One iteration of `for (i, c) in line_text.char_indices()` of `reorder_levels`. -/
def l1Step (enc : Enc) (lineClasses : Classes) (paraLevel : Nat) (st : L1State) (s : Seg) : L1State :=
  let i := s.start
  let st :=
    match cget lineClasses i with
    | B | S =>
      { st with err := orErr st.err (if st.resetTo.isNone then none else some .resetToAssert)
                resetTo := some (i + enc.charLen s.cp)
                resetFrom := if st.resetFrom.isNone then some i else st.resetFrom }
    | WS | FSI | LRI | RLI | PDI =>
      { st with resetFrom := if st.resetFrom.isNone then some i else st.resetFrom }
    | RLE | LRE | RLO | LRO | PDF | BN =>
      { st with resetFrom := if st.resetFrom.isNone then some i else st.resetFrom
                levels := setRange st.levels i (enc.charLen s.cp) st.prev }
    | _ => { st with resetFrom := none }
  let st :=
    match st.resetFrom, st.resetTo with
    | some a, some b => { st with levels := setRange st.levels a (b - a) paraLevel, resetFrom := none, resetTo := none }
    | _, _ => st
  { st with prev := st.levels.getD i 0 }

/-- `reorder_levels(line_classes, line_levels, line_text, para_level)`; everything
    line-relative. -/
def reorderLevels (lineClasses : Classes) (lineLevels : List Nat) (lineText : Text) (paraLevel : Nat) :
    List Nat × Option Panic :=
  let st := lineText.segs.foldl (l1Step lineText.enc lineClasses paraLevel)
              { levels := lineLevels, prev := paraLevel }
  match st.resetFrom with
  | some a => (setRange st.levels a (st.levels.length - a) paraLevel, st.err)
  | none => (st.levels, st.err)

/-- `BidiInfo::reordered_levels(para, line)` / `ParagraphBidiInfo::reordered_levels(line)`:
    the whole level vector with L1 applied inside `line`. -/
def reorderedLevels (t : Text) (classes : Classes) (levels : List Nat) (paraLevel : Nat)
    (a b : Nat) : List Nat × Option Panic :=
  if a > levels.length || b > levels.length then (levels, some .lineOutOfRange)
  else if a > b || b > classes.length then (levels, some .indexOutOfBounds)
  else if t.enc == .utf8 && !(t.isBoundary a && t.isBoundary b) then (levels, some .sliceBoundary)
  else
    let (ll, e) := reorderLevels (slice classes a b) (slice levels a b) (t.subrange a b) paraLevel
    (levels.take a ++ ll ++ levels.drop b, e)

/-- `reordered_levels_per_char` -/
def reorderedLevelsPerChar (t : Text) (classes : Classes) (levels : List Nat) (paraLevel : Nat)
    (a b : Nat) : List Nat × Option Panic :=
  let (lv, e) := reorderedLevels t classes levels paraLevel a b
  (t.segs.map (fun s => lv.getD s.start 0), e)

/-- consecutive level runs (the first loop of `visual_runs_for_line`): `i` is the
    index of the head of the remaining levels -/
def findRuns (start runLevel i stop : Nat) : List Nat → List (Nat × Nat)
  | [] => [(start, stop)]
  | l :: ls =>
    if l != runLevel then (start, i) :: findRuns i l (i + 1) stop ls
    else findRuns start runLevel (i + 1) stop ls

/-- reverse every maximal group of consecutive runs satisfying `p`
    (`acc` holds the current group, already reversed) -/
def revGroups (p : (Nat × Nat) → Bool) : List (Nat × Nat) → List (Nat × Nat) → List (Nat × Nat)
  | acc, [] => acc
  | acc, r :: rs => if p r then revGroups p (r :: acc) rs else acc ++ r :: revGroups p [] rs

/-- the `while max_level >= min_level` loop; `fuel` bounds the iterations -/
def l2RunsLoop (levels : List Nat) (minL : Nat) : Nat → Nat → List (Nat × Nat) → List (Nat × Nat) × Option Panic
  | 0, _, runs => (runs, none)
  | fuel + 1, maxL, runs =>
    if maxL ≥ minL then
      let runs := revGroups (fun r => levels.getD r.1 0 ≥ maxL) [] runs
      match Level.lower maxL 1 with
      | some m => l2RunsLoop levels minL fuel m runs
      | none => (runs, some .lowerUnderflow)
    else (runs, none)

/-- `visual_runs_for_line(levels, line)` and `deprecated::visual_runs(line, levels)`
    (the two copies are the same algorithm): the runs in visual order. -/
def visualRunsForLine (levels : List Nat) (a b : Nat) : List (Nat × Nat) × Option Panic :=
  match levels[a]? with
  | none => ([], some .emptyLine)
  | some l0 =>
    let runs := findRuns a l0 (a + 1) b (slice levels (a + 1) b)
    let lv := slice levels a b
    let minL := lv.foldl min l0
    let maxL := lv.foldl max l0
    match Level.newLowestGeRtl minL with
    | none => (runs, none)          -- lowest level is the maximum level: nothing to reorder
    | some minOdd => l2RunsLoop levels minOdd (maxL + 1) maxL runs

/-- `next_range(levels, start_index, max)` of `reorder_visual` -/
def skipBelow (levels : List Nat) (maxL : Nat) : Nat → Nat → Nat
  | 0, i => i
  | fuel + 1, i =>
    match levels[i]? with
    | some l => if l ≥ maxL then i else skipBelow levels maxL fuel (i + 1)
    | none => i

def skipAtLeast (levels : List Nat) (maxL : Nat) : Nat → Nat → Nat
  | 0, i => i
  | fuel + 1, i =>
    match levels[i]? with
    | some l => if l < maxL then i else skipAtLeast levels maxL fuel (i + 1)
    | none => i

def nextRange (levels : List Nat) (startIndex maxL : Nat) : Nat × Nat :=
  if levels.isEmpty || startIndex ≥ levels.length then (startIndex, startIndex)
  else
    let s := skipBelow levels maxL levels.length startIndex
    if levels[s]?.isNone then (s, s)
    else (s, skipAtLeast levels maxL levels.length (s + 1))

/-- reverse `xs[a..b]` in place -/
def reverseRange {α} (xs : List α) (a b : Nat) : List α :=
  xs.take a ++ (slice xs a b).reverse ++ xs.drop b

/-- the inner `loop` for one value of `max` -/
def rvPass (levels : List Nat) (maxL : Nat) : Nat → Nat → List Nat → List Nat
  | 0, _, result => result
  | fuel + 1, pos, result =>
    let r := nextRange levels pos maxL
    let result := reverseRange result r.1 r.2
    if r.2 ≥ levels.length then result else rvPass levels maxL fuel r.2 result

def rvLoop (levels : List Nat) (minL : Nat) : Nat → Nat → List Nat → List Nat × Option Panic
  | 0, _, result => (result, none)
  | fuel + 1, maxL, result =>
    if minL ≤ maxL then
      let result := rvPass levels maxL (levels.length + 1) 0 result
      match Level.lower maxL 1 with
      | some m => rvLoop levels minL fuel m result
      | none => (result, some .lowerUnderflow)
    else (result, none)

/-- `reorder_visual(levels)` -/
def reorderVisual (levels : List Nat) : List Nat × Option Panic :=
  match levels with
  | [] => ([], none)
  | l0 :: _ =>
    let minL := levels.foldl min l0
    let maxL := levels.foldl max l0
    let result := List.range levels.length
    if minL == maxL && Level.isLtr minL then (result, none)
    else match Level.newLowestGeRtl minL with
      | none => (result, some .lowestGeRtl)
      | some minOdd => rvLoop levels minOdd (maxL + 1) maxL result

/-- A piece of a reordered line: the characters of one run, in output order;
    `verbatim` = copied as code units (LTR run), otherwise decoded, reversed
    and re-encoded (RTL run). -/
structure Piece where
  verbatim : Bool
  segs : List Seg
  deriving Repr, Inhabited

/-- the free function `reorder_line(text, line, levels, runs)`; `none` = the
    line is returned as is (borrowed). -/
def reorderLinePieces (t : Text) (levels : List Nat) (runs : List (Nat × Nat)) :
    Option (List Piece) × Option Panic :=
  if runs.all (fun r => Level.isLtr (levels.getD r.1 0)) then (none, none)
  else
    let bad := runs.any (fun r => !(t.isBoundary r.1 && t.isBoundary r.2))
    let pieces := runs.map (fun r =>
      let segs := t.segs.filter (fun s => r.1 ≤ s.start && s.start < r.2)
      if Level.isRtl (levels.getD r.1 0) then { verbatim := false, segs := segs.reverse : Piece }
      else { verbatim := true, segs := segs })
    (some pieces, if bad && t.enc == .utf8 then some .sliceBoundary else none)

/-- `BidiInfo::reorder_line(para, line)` / `ParagraphBidiInfo::reorder_line(line)` -/
def reorderLine (t : Text) (classes : Classes) (levels : List Nat) (paraLevel : Nat) (a b : Nat) :
    Option (List Piece) × Option Panic :=
  if a > b || b > levels.length then (none, some .indexOutOfBounds)
  else if !Level.hasRtl (slice levels a b) && Level.isLtr paraLevel then
    (none, if t.enc == .utf8 && !(t.isBoundary a && t.isBoundary b) then some .sliceBoundary else none)
  else
    let (lv, e1) := reorderedLevels t classes levels paraLevel a b
    match e1 with
    | some e => (none, some e)
    | none =>
      let (runs, e2) := visualRunsForLine lv a b
      match e2 with
      | some e => (none, some e)
      | none => reorderLinePieces t lv runs

/-- the scalar values of the result, for either encoding (lone surrogates of a
    UTF-16 text read as U+FFFD) -/
def piecesChars (ps : List Piece) : List Nat := ps.flatMap (fun p => p.segs.map (·.cp))

/-- the UTF-16 result as code units: verbatim pieces copy `units`, the others
    re-encode the decoded characters -/
def encode16 (c : Nat) : List Nat :=
  if c < 0x10000 then [c] else [0xD800 + (c - 0x10000) / 1024, 0xDC00 + (c - 0x10000) % 1024]

def piecesUnits16 (units : List Nat) (ps : List Piece) : List Nat :=
  ps.flatMap (fun p => p.segs.flatMap (fun s =>
    if p.verbatim then slice units s.start (s.start + s.len) else encode16 s.cp))

/-- `para_direction` -/
def paraDirectionLoop : Bool → Bool → List Nat → Direction
  | ltr, _, [] => if ltr then .ltr else .rtl
  | ltr, rtl, l :: ls =>
    if Level.isLtr l then (if rtl then .mixed else paraDirectionLoop true rtl ls)
    else (if ltr then .mixed else paraDirectionLoop ltr true ls)

def paraDirection (levels : List Nat) : Direction := paraDirectionLoop false false levels

/-- `BidiInfo::has_rtl` -/
def BidiInfo.hasRtl (b : BidiInfo) : Bool := Level.hasRtl b.levels

/-- `ParagraphBidiInfo::has_rtl` -/
def ParagraphBidiInfo.hasRtl (p : ParagraphBidiInfo) : Bool := !p.pureLtr || Level.isRtl p.paraLevel

/-- `Paragraph::level_at(pos)` -/
def levelAt (levels : List Nat) (p : ParaInfo) (pos : Nat) : Option Nat := levels[p.start + pos]?

end UBidi
