/-
  UBidi.Model.Initial — lib.rs `compute_initial_info` (P1–P3, X5c, the
  pure-LTR / has-isolate flags) and `get_base_direction_impl`.
-/
import UBidi.Model.CharData
namespace UBidi
open BidiClass

structure Flags where
  pureLtr : Bool
  hasIso : Bool
  deriving DecidableEq, Repr, Inhabited

structure IIState where
  classes : List BidiClass := []
  stack : List Nat := []            -- isolate_stack, innermost first
  paraStart : Nat := 0
  paraLevel : Option Nat := none
  pureLtr : Bool := true
  hasIso : Bool := false
  paras : List ParaInfo := []
  flags : List Flags := []
  err : Option Panic := none
  deriving Repr, Inhabited

/-- One iteration of `for (i, c) in text.char_indices()`. -/
def iiStep (ds : DataSource) (t : Text) (split : Bool) (dflt : Option Nat)
    (st : IIState) (s : Seg) : IIState :=
  let enc := t.enc
  let cls := ds.cls s.cp
  let len := enc.charLen s.cp
  let i := s.start
  let st := { st with classes := st.classes ++ List.replicate len cls }
  match cls with
  | B =>
    if split then
      let paraEnd := i + len
      { st with
        paras := st.paras ++ [{ start := st.paraStart, stop := paraEnd, level := st.paraLevel.getD 0 }]
        flags := st.flags ++ [{ pureLtr := st.pureLtr, hasIso := st.hasIso }]
        paraStart := paraEnd
        paraLevel := dflt
        pureLtr := true
        hasIso := false
        stack := [] }
    else st
  | L | R | AL =>
    let st := if cls != L then { st with pureLtr := false } else st
    match st.stack with
    | start :: _ =>
      if st.classes.getD start ON == FSI then
        -- X5c: `for j in 0..text.char_at(start).map_or(1, |(_, len)| len)`: every code unit of the
        -- character at `start`, whatever its width (repaired form, finding D10; before: `T::char_len(chars::FSI)`)
        let n := match t.charAt start with | some fsi => fsi.len | none => 1
        let v := if cls == L then LRI else RLI
        { st with
          classes := setRange st.classes start n v
          err := orErr st.err (if start + n ≤ st.classes.length then none else some .indexOutOfBounds) }
      else st
    | [] =>
      if st.paraLevel.isNone then
        { st with paraLevel := some (if cls != L then 1 else 0) }
      else st
  | AN | LRE | RLE | LRO | RLO => { st with pureLtr := false }
  | RLI | LRI | FSI => { st with pureLtr := false, hasIso := true, stack := i :: st.stack }
  | PDI => { st with stack := st.stack.tail }
  | _ => st

structure InitialOut where
  classes : List BidiClass
  paras : List ParaInfo
  flags : List Flags
  lastLevel : Nat
  lastPureLtr : Bool
  lastHasIso : Bool
  err : Option Panic
  deriving Repr, Inhabited

/-- `compute_initial_info(data_source, text, default_para_level, split_paragraphs)` -/
def computeInitialInfo (ds : DataSource) (t : Text) (dflt : Option Nat) (split : Bool) : InitialOut :=
  let st0 : IIState := { paraLevel := dflt }
  let st := t.segs.foldl (iiStep ds t split dflt) st0
  let (paras, flags) :=
    if split && st.paraStart < t.len then
      (st.paras ++ [{ start := st.paraStart, stop := t.len, level := st.paraLevel.getD 0 }],
       st.flags ++ [{ pureLtr := st.pureLtr, hasIso := st.hasIso }])
    else (st.paras, st.flags)
  { classes := st.classes, paras := paras, flags := flags,
    lastLevel := st.paraLevel.getD 0, lastPureLtr := st.pureLtr, lastHasIso := st.hasIso,
    err := st.err }

inductive Direction where
  | ltr | rtl | mixed
  deriving DecidableEq, Repr, Inhabited

def Direction.name : Direction → String
  | .ltr => "Ltr" | .rtl => "Rtl" | .mixed => "Mixed"

/-- `get_base_direction_impl`: scan with an isolate depth counter. -/
def baseDirLoop (ds : DataSource) (full : Bool) : Nat → List Nat → Direction
  | _, [] => .mixed
  | depth, c :: cs =>
    match ds.cls c with
    | LRI | RLI | FSI => baseDirLoop ds full (depth + 1) cs
    | PDI => baseDirLoop ds full (if depth > 0 then depth - 1 else depth) cs
    | L => if depth == 0 then .ltr else baseDirLoop ds full depth cs
    | R | AL => if depth == 0 then .rtl else baseDirLoop ds full depth cs
    | B => if full then baseDirLoop ds full 0 cs else .mixed
    | _ => baseDirLoop ds full depth cs

def baseDirection (ds : DataSource) (t : Text) (full : Bool) : Direction :=
  baseDirLoop ds full 0 (t.segs.map (·.cp))

end UBidi
