/-
  UBidi.Model.CharData — char_data/mod.rs: the range-table lookup and the
  bracket lookup, over the tables regenerated from tables.rs.
-/
import UBidi.Model.Basic
import UBidi.Gen.Tables
namespace UBidi

/-- The comparator closure of `bsearch_range_value_table`. -/
inductive Ord3 where | less | equal | greater
  deriving DecidableEq, Repr

def rangeCmp (c : Nat) (r : Nat × Nat × BidiClass) : Ord3 :=
  if r.1 ≤ c ∧ c ≤ r.2.1 then .equal else if r.2.1 < c then .less else .greater

/-- The `while size > 1` loop of `slice::binary_search_by` (Rust 1.95 std),
    `fuel` bounds the iterations (`size` at least halves... strictly decreases). -/
def bsearchLoop (t : Array (Nat × Nat × BidiClass)) (c : Nat) : Nat → Nat → Nat → Nat
  | 0, base, _ => base
  | fuel + 1, base, size =>
    if size > 1 then
      let half := size / 2
      let mid := base + half
      let base' := if rangeCmp c (t.getD mid (0, 0, .L)) = .greater then base else mid
      bsearchLoop t c fuel base' (size - half)
    else base

/-- `bsearch_range_value_table(c, r)`; default `L`. -/
def bsearchTable (t : Array (Nat × Nat × BidiClass)) (c : Nat) : BidiClass :=
  if t.size = 0 then .L
  else
    let base := bsearchLoop t c t.size 0 t.size
    let r := t.getD base (0, 0, .L)
    if rangeCmp c r = .equal then r.2.2 else .L

def classArray : Array (Nat × Nat × BidiClass) := Gen.classTable.toArray

/-- `unicode_bidi::bidi_class` / `HardcodedBidiData::bidi_class` -/
def bidiClass (c : Nat) : BidiClass := bsearchTable classArray c

/-- The order-independent reading of a range table: the class of the first
    range containing `c`, else `L`. -/
def lookupTable : List (Nat × Nat × BidiClass) → Nat → BidiClass
  | [], _ => .L
  | (lo, hi, cl) :: rest, c => if lo ≤ c ∧ c ≤ hi then cl else lookupTable rest c

structure Bracket where
  opening : Nat
  isOpen : Bool
  deriving DecidableEq, Repr, Inhabited

/-- `char_data::bidi_matched_opening_bracket`: first matching triple. -/
def bracketIn : List (Nat × Nat × Option Nat) → Nat → Option Bracket
  | [], _ => none
  | (o, cl, norm) :: rest, c =>
    if o = c ∨ cl = c then some { opening := norm.getD o, isOpen := o = c }
    else bracketIn rest c

def bracket (c : Nat) : Option Bracket := bracketIn Gen.pairsTable c

/-- A `BidiDataSource`: class and bracket lookup.  The Model consults nothing
    else about a character. -/
structure DataSource where
  cls : Nat → BidiClass
  brk : Nat → Option Bracket

def hardcoded : DataSource := { cls := bidiClass, brk := bracket }

end UBidi
