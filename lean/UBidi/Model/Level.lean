/-
  UBidi.Model.Level — level.rs.  A `Level` is a `u8`; the Model keeps the number
  in `Nat` and writes the `u8` and range checks out.  Operations that return
  `Result` return `Option` (`none` = `Err(OutOfRangeNumber)`).
-/
import UBidi.Model.Basic
import UBidi.Gen.Tables
namespace UBidi.Level

def maxImplicit : Nat := Gen.maxImplicitDepth
def maxExplicit : Nat := Gen.maxExplicitDepth

/-- `Level::new(number: u8)` -/
def new (n : Nat) : Option Nat := if n ≤ maxImplicit then some n else none
/-- `Level::new_explicit` -/
def newExplicit (n : Nat) : Option Nat := if n ≤ maxExplicit then some n else none

def isLtr (l : Nat) : Bool := l % 2 == 0
def isRtl (l : Nat) : Bool := l % 2 == 1

/-- `u8::checked_add` -/
def checkedAdd (a b : Nat) : Option Nat := if a + b ≤ 255 then some (a + b) else none
/-- `u8::checked_sub` -/
def checkedSub (a b : Nat) : Option Nat := if b ≤ a then some (a - b) else none

/-- `Level::raise`: `some l'` on success (the new value), `none` on `Err`
    (the value is left untouched by the caller). -/
def raise (l amount : Nat) : Option Nat :=
  match checkedAdd l amount with
  | some n => if n ≤ maxImplicit then some n else none
  | none => none

def raiseExplicit (l amount : Nat) : Option Nat :=
  match checkedAdd l amount with
  | some n => if n ≤ maxExplicit then some n else none
  | none => none

def lower (l amount : Nat) : Option Nat := checkedSub l amount

/-- `(self.0 + 2) & !1` on `u8` (no overflow for `self.0 ≤ 126`). -/
def nextLtrRaw (l : Nat) : Nat := ((l + 2) / 2) * 2
/-- `(self.0 + 1) | 1` -/
def nextRtlRaw (l : Nat) : Nat := if (l + 1) % 2 == 1 then l + 1 else l + 2
/-- `self.0 | 1` -/
def orOne (l : Nat) : Nat := if l % 2 == 1 then l else l + 1

def newExplicitNextLtr (l : Nat) : Option Nat := newExplicit (nextLtrRaw l)
def newExplicitNextRtl (l : Nat) : Option Nat := newExplicit (nextRtlRaw l)
def newLowestGeRtl (l : Nat) : Option Nat := new (orOne l)

def bidiClass (l : Nat) : BidiClass := if isRtl l then .R else .L

/-- `level::has_rtl` -/
def hasRtl (ls : List Nat) : Bool := ls.any isRtl

end UBidi.Level
