/-
  UBidi.Model.Pipeline — lib.rs `compute_bidi_info_for_para`,
  `assign_levels_to_removed_chars`, `BidiInfo::new_with_data_source`,
  `ParagraphBidiInfo::new_with_data_source` (UTF-8 and UTF-16: the generic code
  is shared, only the `Text` differs).
-/
import UBidi.Model.Initial
import UBidi.Model.Explicit
import UBidi.Model.Implicit
namespace UBidi
open BidiClass

/-- `assign_levels_to_removed_chars` -/
def fillRemovedLoop : Nat → List BidiClass → List Nat → List Nat
  | _, _, [] => []
  | prev, c :: cs, l :: ls =>
    let l' := if c.removedByX9 then prev else l
    l' :: fillRemovedLoop l' cs ls
  | _, [], l :: ls => l :: ls

def assignLevelsToRemovedChars (paraLevel : Nat) (ocs : List BidiClass) (levels : List Nat) : List Nat :=
  fillRemovedLoop paraLevel ocs levels

/-- the `for sequence in &sequences` loop -/
def resolveSequences (ds : DataSource) (t : Text) (levels : List Nat) (ocs : Classes)
    (seqs : List IRSeq) (pcs : Classes) : Classes × Option Panic :=
  seqs.foldl (fun (st : Classes × Option Panic) seq =>
    let pcs1 := resolveWeak (fun i => (t.charAt i).map (·.len)) seq st.1
    let (pcs2, e) := resolveNeutral ds t seq levels ocs pcs1
    (pcs2, orErr st.2 e)) (pcs, none)

/-- `compute_bidi_info_for_para`: the levels of one paragraph.  `t` and `ocs`
    are the paragraph's text and original classes (paragraph-relative). -/
def paraLevels (ds : DataSource) (paraLevel : Nat) (pureLtr hasIso : Bool) (t : Text)
    (ocs : Classes) : List Nat × Option Panic :=
  if paraLevel == 0 && pureLtr then (List.replicate t.len paraLevel, none)
  else
    let ex := explicitCompute t paraLevel ocs
    let (seqs, e1) := isolatingRunSequences paraLevel ocs ex.levels ex.runs hasIso
    let (pcs, e2) := resolveSequences ds t ex.levels ocs seqs ex.pcs
    let (lv, e3) := resolveLevels pcs ex.levels
    (assignLevelsToRemovedChars paraLevel ocs lv, orErr ex.err (orErr e1 (orErr e2 e3)))

structure BidiInfo where
  classes : Classes
  levels : List Nat
  paras : List ParaInfo
  err : Option Panic
  deriving Repr, Inhabited

/-- `BidiInfo::new_with_data_source` (both encodings) -/
def bidiInfo (ds : DataSource) (t : Text) (dflt : Option Nat) : BidiInfo :=
  let ii := computeInitialInfo ds t dflt true
  let r := (ii.paras.zip ii.flags).foldl (fun (acc : List Nat × Option Panic) pf =>
      let p := pf.1
      let (lv, e) := paraLevels ds p.level pf.2.pureLtr pf.2.hasIso (t.subrange p.start p.stop)
                       (slice ii.classes p.start p.stop)
      (acc.1 ++ lv, orErr acc.2 e)) ([], ii.err)
  { classes := ii.classes, levels := r.1, paras := ii.paras, err := r.2 }

structure ParagraphBidiInfo where
  classes : Classes
  levels : List Nat
  paraLevel : Nat
  pureLtr : Bool
  err : Option Panic
  deriving Repr, Inhabited

/-- `ParagraphBidiInfo::new_with_data_source` (both encodings) -/
def paragraphBidiInfo (ds : DataSource) (t : Text) (dflt : Option Nat) : ParagraphBidiInfo :=
  let ii := computeInitialInfo ds t dflt false
  let (lv, e) := paraLevels ds ii.lastLevel ii.lastPureLtr ii.lastHasIso t ii.classes
  { classes := ii.classes, levels := lv, paraLevel := ii.lastLevel, pureLtr := ii.lastPureLtr,
    err := orErr ii.err e }

/-- `InitialInfo::new_with_data_source` -/
def initialInfo (ds : DataSource) (t : Text) (dflt : Option Nat) : InitialOut :=
  computeInitialInfo ds t dflt true

end UBidi
