/-
  UBidi.Model.Basic — shared types of the Model.

  Import-free (core Lean only) so that the driver links as a native executable.
-/
namespace UBidi

/-- `BidiClass`, constructors in the order of `enum BidiClass` in
    /repo/src/char_data/tables.rs (the translator checks the order). -/
inductive BidiClass where
  | AL | AN | B | BN | CS | EN | ES | ET | FSI | L | LRE | LRI | LRO | NSM | ON
  | PDF | PDI | R | RLE | RLI | RLO | S | WS
  deriving DecidableEq, Repr, Inhabited, BEq

namespace BidiClass

def name : BidiClass → String
  | AL => "AL" | AN => "AN" | B => "B" | BN => "BN" | CS => "CS" | EN => "EN" | ES => "ES"
  | ET => "ET" | FSI => "FSI" | L => "L" | LRE => "LRE" | LRI => "LRI" | LRO => "LRO"
  | NSM => "NSM" | ON => "ON" | PDF => "PDF" | PDI => "PDI" | R => "R" | RLE => "RLE"
  | RLI => "RLI" | RLO => "RLO" | S => "S" | WS => "WS"

def all : List BidiClass :=
  [AL, AN, B, BN, CS, EN, ES, ET, FSI, L, LRE, LRI, LRO, NSM, ON, PDF, PDI, R, RLE, RLI, RLO, S, WS]

def ofName? (s : String) : Option BidiClass :=
  all.find? (fun c => c.name == s)

/-- prepare.rs `removed_by_x9` -/
def removedByX9 : BidiClass → Bool
  | RLE | LRE | RLO | LRO | PDF | BN => true
  | _ => false

/-- char_data/mod.rs `is_rtl` -/
def isRtlInitiator : BidiClass → Bool
  | RLE | RLO | RLI => true
  | _ => false

def isIsolateInitiator : BidiClass → Bool
  | RLI | LRI | FSI => true
  | _ => false

/-- implicit.rs `is_NI` -/
def isNI : BidiClass → Bool
  | B | S | WS | ON | FSI | LRI | RLI | PDI => true
  | _ => false

end BidiClass

/-- The panic sites of the crate that the Model represents explicitly.  A Model
    function never fails; it records the first site it would have panicked at in
    a sticky `err` field and continues with a default, so every Model function
    is a total pure function and "no panic" is the theorem `err = none`. -/
inductive Panic where
  | explicitStackEmpty      -- explicit.rs `stack.last().unwrap()`
  | explicitLenMismatch     -- explicit.rs:42 assert_eq!
  | raiseOverflow           -- implicit.rs `raise(..).expect`
  | lowestGeRtl             -- lib.rs/deprecated.rs `new_lowest_ge_rtl().expect`
  | lowerUnderflow          -- `lower(1).expect`
  | emptyLine               -- `levels[start]` on an empty line / index out of range
  | sliceBoundary           -- `str` slicing off a character boundary
  | bracketNoChar           -- implicit.rs `chars().next().unwrap()`
  | prepareAssert           -- prepare.rs:124-125,163 / pop().unwrap()
  | resetToAssert           -- lib.rs:1161 assert_eq!(reset_to, None)
  | indexOutOfBounds        -- an index expression out of range
  | lineOutOfRange          -- lib.rs:547-548 asserts
  | lenMismatch             -- implicit.rs:584 assert_eq!
  deriving DecidableEq, Repr, Inhabited

def Panic.name : Panic → String
  | .explicitStackEmpty => "explicitStackEmpty"
  | .explicitLenMismatch => "explicitLenMismatch"
  | .raiseOverflow => "raiseOverflow"
  | .lowestGeRtl => "lowestGeRtl"
  | .lowerUnderflow => "lowerUnderflow"
  | .emptyLine => "emptyLine"
  | .sliceBoundary => "sliceBoundary"
  | .bracketNoChar => "bracketNoChar"
  | .prepareAssert => "prepareAssert"
  | .resetToAssert => "resetToAssert"
  | .indexOutOfBounds => "indexOutOfBounds"
  | .lineOutOfRange => "lineOutOfRange"
  | .lenMismatch => "lenMismatch"

/-- first error wins -/
def orErr (a b : Option Panic) : Option Panic :=
  match a with
  | some e => some e
  | none => b

/-- A character of a text: first code-unit index, scalar value, number of code
    units. -/
structure Seg where
  start : Nat
  cp : Nat
  len : Nat
  deriving DecidableEq, Repr, Inhabited

/-- The encodings of a `TextSource`.  `utf8` and `utf16` are the crate's two
    implementations (`str`, `[u16]`); `utf32` (one code unit per character) is not
    a Rust type: the generic code is parametric in the text source, and this
    instance is what "results do not depend on how many code units a character
    occupies" (C08, C09, C12) is stated against. -/
inductive Enc where
  | utf8 | utf16 | utf32
  deriving DecidableEq, Repr, Inhabited

/-- `char::len_utf8` -/
def utf8Len (c : Nat) : Nat :=
  if c < 0x80 then 1 else if c < 0x800 then 2 else if c < 0x10000 then 3 else 4

/-- `char::len_utf16` -/
def utf16Len (c : Nat) : Nat :=
  if c < 0x10000 then 1 else 2

/-- `T::char_len(ch)` -/
def Enc.charLen : Enc → Nat → Nat
  | .utf8, c => utf8Len c
  | .utf16, c => utf16Len c
  | .utf32, _ => 1

/-- What the generic code sees of a `TextSource`: the encoding (for
    `T::char_len`), the length in code units and the characters with their
    positions (`char_indices` / `indices_lengths` / `char_at`). -/
structure Text where
  enc : Enc
  len : Nat
  segs : List Seg
  deriving Repr, Inhabited

namespace Text

/-- `TextSource::char_at`: `some` exactly at character starts. -/
def charAt (t : Text) (i : Nat) : Option Seg :=
  t.segs.find? (fun s => s.start == i)

/-- `TextSource::subrange(a..b)` for a range on character boundaries: the
    characters that start in `[a,b)`, re-indexed from `a`. -/
def subrange (t : Text) (a b : Nat) : Text :=
  { enc := t.enc, len := b - a,
    segs := (t.segs.filter (fun s => a ≤ s.start && s.start < b)).map
              (fun s => { s with start := s.start - a }) }

/-- Is `i` a character boundary of `t` (a character start or the end)? -/
def isBoundary (t : Text) (i : Nat) : Bool :=
  i == t.len || t.segs.any (fun s => s.start == i)

/-- Lay out scalar values as consecutive characters from offset `pos`. -/
def layout (enc : Enc) : Nat → List Nat → List Seg
  | _, [] => []
  | pos, c :: cs => { start := pos, cp := c, len := enc.charLen c } :: layout enc (pos + enc.charLen c) cs

def totalLen (enc : Enc) (cs : List Nat) : Nat :=
  (cs.map enc.charLen).foldl (· + ·) 0

/-- A `&str` given by its scalar values (`str::char_indices`, std, trusted). -/
def ofScalars (cs : List Nat) : Text :=
  { enc := .utf8, len := totalLen .utf8 cs, segs := layout .utf8 0 cs }

end Text

/-- `segs` tile `[pos, e)`: consecutive, each at least one unit long. -/
def SegsFrom : Nat → List Seg → Nat → Prop
  | pos, [], e => pos = e
  | pos, s :: ss, e => s.start = pos ∧ 0 < s.len ∧ SegsFrom (pos + s.len) ss e

/-- A well-formed text: the characters tile `[0, len)` and every character's
    length is the encoding's length of its scalar value.  Holds for every
    `&str` (`Text.ofScalars`) and every `&[u16]` (`Utf16.toText`), and for
    sub-ranges on character boundaries; theorems about the generic code take
    it as their hypothesis. -/
structure Text.WF (t : Text) : Prop where
  tiles : SegsFrom 0 t.segs t.len
  lens : ∀ s ∈ t.segs, s.len = t.enc.charLen s.cp

/-- Levels are `Nat`; the `u8` / 125 / 126 checks are in `Model.Level`. -/
structure ParaInfo where
  start : Nat
  stop : Nat
  level : Nat
  deriving DecidableEq, Repr, Inhabited

/-- replace `xs[i ..< i+n]` by `v` (indices beyond the end are ignored). -/
def setRange {α} (xs : List α) (i n : Nat) (v : α) : List α :=
  match n with
  | 0 => xs
  | n + 1 => setRange (xs.set (i + n) v) i n v

end UBidi
