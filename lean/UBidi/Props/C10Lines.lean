/-
  C10, the clause on LINE queries — a paragraph of a multi-paragraph text is analysed exactly as its
  substring alone, also for the line queries (`reordered_levels`, `visual_runs`, `reorder_line`).

  Their results carry absolute code-unit positions, so the statement is "equal up to the shift by the paragraph
  start": `reorderedLevels_shift`, `visualRuns_shift`, `reorderLine_shift` for arbitrary vectors, and
  `C10_lines` for what `BidiInfo` / `ParagraphBidiInfo` store (via `C10.C10_slice`).
  Vocabulary: `shiftRun s (x, y) = (x + s, y + s)`, `shiftSeg s g = { g with start := g.start + s }`,
  `shiftPiece s p = { p with segs := p.segs.map (shiftSeg s) }` (UBidi/Lemmas/C10Lines*.lean).
-/
import UBidi.Props.C10
import UBidi.Lemmas.C10LinesPieces
import UBidi.Lemmas.C10LinesParas
namespace UBidi.Props.C10Lines
open UBidi UBidi.Lemmas.C10Lines

/-! ### the vocabulary, by its equations -/

theorem shiftRun_def (s : Nat) (r : Nat × Nat) : shiftRun s r = (r.1 + s, r.2 + s) := rfl
theorem shiftSeg_def (s : Nat) (g : Seg) : shiftSeg s g = { start := g.start + s, cp := g.cp, len := g.len } := rfl
theorem shiftPiece_def (s : Nat) (p : Piece) :
    shiftPiece s p = { verbatim := p.verbatim, segs := p.segs.map (shiftSeg s) } := rfl

/-! ### the shift lemmas (arbitrary class / level vectors) -/

/-- `reordered_levels` (rule L1 on a line): for a line `[a,b)` inside a range `[s,e)` of the text that ends on
    a character boundary, with class and level vectors that reach `e`: the result restricted to `[s,e)` is the
    result for the line `[a-s, b-s)` of the sub-text `[s,e)` with the restricted vectors, and the panic
    behaviour is the same.  (No well-formedness is needed; the line may be empty and need not be on character
    boundaries — then both sides report the same slicing panic for a `str`.) -/
theorem reorderedLevels_shift (t : Text) (classes : Classes) (levels : List Nat) (pl s e a b : Nat)
    (hs : s ≤ a) (hab : a ≤ b) (hbe : b ≤ e) (het : e ≤ t.len) (hec : e ≤ classes.length)
    (hel : e ≤ levels.length) (hbd : t.isBoundary e = true) :
    slice (reorderedLevels t classes levels pl a b).1 s e
        = (reorderedLevels (t.subrange s e) (slice classes s e) (slice levels s e) pl (a - s) (b - s)).1 ∧
      (reorderedLevels t classes levels pl a b).2
        = (reorderedLevels (t.subrange s e) (slice classes s e) (slice levels s e) pl (a - s) (b - s)).2 :=
  Lemmas.C10Lines.reorderedLevels_shift t classes levels pl s e a b hs hab hbe het hec hel hbd

/-- `visual_runs_for_line` reads the levels of the line only: on the restriction of the level vector to `[s,e)`
    it returns the same runs, shifted by `s`, and the same panic status -/
theorem visualRuns_shift (lv : List Nat) (s e a b : Nat) (h : s ≤ a ∧ a < b ∧ b ≤ e ∧ e ≤ lv.length) :
    visualRunsForLine lv a b
      = ((visualRunsForLine (slice lv s e) (a - s) (b - s)).1.map (fun r => (r.1 + s, r.2 + s)),
         (visualRunsForLine (slice lv s e) (a - s) (b - s)).2) :=
  Lemmas.C10Lines.visualRuns_shift lv s e a b h

/-- `reorder_line`: for a non-empty line `[a,b)` inside `[s,e)`, the pieces returned for the whole text are the
    pieces returned for the sub-text `[s,e)` (restricted vectors, line `[a-s, b-s)`) with every character's
    `start` shifted by `s`; "line returned unchanged" (`none`) and the panic status coincide -/
theorem reorderLine_shift (t : Text) (classes : Classes) (levels : List Nat) (pl s e a b : Nat)
    (hs : s ≤ a) (hab : a < b) (hbe : b ≤ e) (het : e ≤ t.len) (hec : e ≤ classes.length)
    (hel : e ≤ levels.length) (hbd : t.isBoundary e = true) :
    reorderLine t classes levels pl a b
      = ((reorderLine (t.subrange s e) (slice classes s e) (slice levels s e) pl (a - s) (b - s)).1.map
            (·.map (shiftPiece s)),
         (reorderLine (t.subrange s e) (slice classes s e) (slice levels s e) pl (a - s) (b - s)).2) :=
  Lemmas.C10Lines.reorderLine_shift t classes levels pl s e a b hs hab hbe het hec hel hbd

/-! ### C10 for line queries -/

/-- what the statement needs to know about a reported paragraph — all of it follows from well-formedness -/
theorem C10_para_facts (ds : DataSource) (t : Text) (hwf : t.WF) (d : Option Nat) (p : ParaInfo)
    (hp : p ∈ (bidiInfo ds t d).paras) :
    p.start < p.stop ∧ p.stop ≤ t.len ∧ t.isBoundary p.stop = true ∧
    p.stop ≤ (bidiInfo ds t d).classes.length ∧ p.stop ≤ (bidiInfo ds t d).levels.length :=
  para_facts ds t hwf d p hp

/-- **C10 for line queries**: for every paragraph `p` that `BidiInfo` reports for a well-formed text and every
    non-empty line `[a,b)` inside `p`, the line queries of `BidiInfo` on the whole text are the line queries of
    `ParagraphBidiInfo` of the substring `text[p.range]` on the line `[a - p.start, b - p.start)`, up to the
    shift by `p.start`:
    * `reordered_levels`: the whole-text result restricted to `p.range` is the paragraph's result; same panic;
    * `visual_runs`: the same runs, shifted; same panic;
    * `reorder_line`: the same pieces (same characters, same order, same verbatim/reversed flags), starts
      shifted; unchanged-line case and panic status coincide.
    The line need not lie on character boundaries (both sides then report the same `str`-slicing panic). -/
theorem C10_lines (ds : DataSource) (t : Text) (hwf : t.WF) (d : Option Nat) (p : ParaInfo)
    (hp : p ∈ (bidiInfo ds t d).paras) (a b : Nat) (hpa : p.start ≤ a) (hab : a < b) (hbp : b ≤ p.stop) :
    let bi := bidiInfo ds t d
    let q := paragraphBidiInfo ds (t.subrange p.start p.stop) d
    let tp := t.subrange p.start p.stop
    (slice (reorderedLevels t bi.classes bi.levels p.level a b).1 p.start p.stop
        = (reorderedLevels tp q.classes q.levels q.paraLevel (a - p.start) (b - p.start)).1 ∧
      (reorderedLevels t bi.classes bi.levels p.level a b).2
        = (reorderedLevels tp q.classes q.levels q.paraLevel (a - p.start) (b - p.start)).2) ∧
    visualRunsForLine bi.levels a b
      = ((visualRunsForLine q.levels (a - p.start) (b - p.start)).1.map (fun r => (r.1 + p.start, r.2 + p.start)),
         (visualRunsForLine q.levels (a - p.start) (b - p.start)).2) ∧
    reorderLine t bi.classes bi.levels p.level a b
      = ((reorderLine tp q.classes q.levels q.paraLevel (a - p.start) (b - p.start)).1.map
            (·.map (shiftPiece p.start)),
         (reorderLine tp q.classes q.levels q.paraLevel (a - p.start) (b - p.start)).2) := by
  obtain ⟨_, f2, f3, f4, f5⟩ := para_facts ds t hwf d p hp
  obtain ⟨c1, c2, c3, _⟩ := C10.C10_slice ds t hwf d p hp
  simp only [] at c1 c2 c3 ⊢
  rw [c1, c2, c3]
  exact ⟨reorderedLevels_shift t _ _ p.level p.start p.stop a b hpa (by omega) hbp f2 f4 f5 f3,
    visualRuns_shift _ p.start p.stop a b ⟨hpa, hab, hbp, f5⟩,
    reorderLine_shift t _ _ p.level p.start p.stop a b hpa hab hbp f2 f4 f5 f3⟩

/-! ### non-vacuity and tests -/

/-- the text of the `C10_slice` example: "א RLI ␊ a(ב) PS 1", three paragraphs [0,6) [6,14) [14,15) -/
def exText : Text := Text.ofScalars [0x5D0, 0x2067, 0x0A, 0x61, 0x28, 0x5D1, 0x29, 0x2029, 0x31]

/- non-vacuity: the hypotheses of `C10_lines` hold for the middle paragraph [6,14) and the line [7,11) "(ב)" -/
example : exText.WF ∧ ({ start := 6, stop := 14, level := 0 } : ParaInfo) ∈ (bidiInfo hardcoded exText none).paras ∧
    6 ≤ 7 ∧ 7 < 11 ∧ 11 ≤ 14 :=
  ⟨Lemmas.C10.ofScalars_WF _, by decide +kernel, by decide, by decide, by decide⟩

/- test (literal): the two sides there — runs and pieces at offsets 7.. in the whole text, 1.. in the paragraph -/
example :
    visualRunsForLine (bidiInfo hardcoded exText none).levels 7 11 = ([(7, 8), (8, 10), (10, 11)], none) ∧
    visualRunsForLine (paragraphBidiInfo hardcoded (exText.subrange 6 14) none).levels 1 5
      = ([(1, 2), (2, 4), (4, 5)], none) ∧
    (reorderLine exText (bidiInfo hardcoded exText none).classes (bidiInfo hardcoded exText none).levels 0 7 11).1.map
        (·.map (fun p => (p.verbatim, p.segs)))
      = some [(true, [⟨7, 0x28, 1⟩]), (false, [⟨8, 0x5D1, 2⟩]), (true, [⟨10, 0x29, 1⟩])] ∧
    (reorderLine (exText.subrange 6 14) (paragraphBidiInfo hardcoded (exText.subrange 6 14) none).classes
        (paragraphBidiInfo hardcoded (exText.subrange 6 14) none).levels 0 1 5).1.map
        (·.map (fun p => (p.verbatim, p.segs)))
      = some [(true, [⟨1, 0x28, 1⟩]), (false, [⟨2, 0x5D1, 2⟩]), (true, [⟨4, 0x29, 1⟩])] := by
  decide +kernel

/- test (literal): `a < b` cannot be weakened to `a ≤ b` for `reorder_line` / `visual_runs`: for the empty line at
   the end of the first (RTL) paragraph of "א ␊ a" the whole-text query reads the level of the next paragraph's
   first unit, the paragraph-alone query indexes past its level vector (`emptyLine`) -/
example :
    let t := Text.ofScalars [0x5D0, 0x0A, 0x61]
    let bi := bidiInfo hardcoded t none
    let q := paragraphBidiInfo hardcoded (t.subrange 0 3) none
    ({ start := 0, stop := 3, level := 1 } : ParaInfo) ∈ bi.paras ∧
    (reorderLine t bi.classes bi.levels 1 3 3).2 = none ∧
    (reorderLine (t.subrange 0 3) q.classes q.levels q.paraLevel 3 3).2 = some .emptyLine := by
  decide +kernel

end UBidi.Props.C10Lines
