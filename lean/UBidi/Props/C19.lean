/-
  C19 — Level keeps its numeric invariants under every operation.

  The Model keeps the number of a `Level` in ℕ and writes the `u8` and range
  checks out; the constants 125 / 126 come from the translator (level.rs).
  Every statement is for all arguments (the `u8` domain is the hypothesis
  `≤ 255` where Rust's type gives it).
-/
import UBidi.Model.Level
namespace UBidi.Props.C19
open UBidi UBidi.Level

theorem constants : maxImplicit = 126 ∧ maxExplicit = 125 := by decide

/-- `Level::new` accepts exactly 0..=126 and returns the number unchanged. -/
theorem new_spec (n : Nat) : Level.new n = if n ≤ 126 then some n else none := by
  unfold Level.new; rw [constants.1]

theorem newExplicit_spec (n : Nat) : newExplicit n = if n ≤ 125 then some n else none := by
  unfold newExplicit; rw [constants.2]

/-- `raise` succeeds exactly when the exact sum is in range, with the exact
    sum; nothing wraps (a `u8` overflow is an error, not a wrap-around). -/
theorem raise_spec (l a : Nat) : raise l a = if l + a ≤ 126 then some (l + a) else none := by
  unfold raise checkedAdd; rw [constants.1]
  by_cases h : l + a ≤ 255
  · simp [h]
  · have : ¬ l + a ≤ 126 := by omega
    simp [h, this]

theorem raiseExplicit_spec (l a : Nat) :
    raiseExplicit l a = if l + a ≤ 125 then some (l + a) else none := by
  unfold raiseExplicit checkedAdd; rw [constants.2]
  by_cases h : l + a ≤ 255
  · simp [h]
  · have : ¬ l + a ≤ 125 := by omega
    simp [h, this]

theorem lower_spec (l a : Nat) : lower l a = if a ≤ l then some (l - a) else none := by
  unfold lower checkedSub; rfl

/-- Every successful operation on a valid level yields a valid level. -/
theorem raise_valid (l a l' : Nat) (h : raise l a = some l') : l' ≤ 126 := by
  rw [raise_spec] at h; split at h <;> simp at h; omega

theorem raiseExplicit_valid (l a l' : Nat) (h : raiseExplicit l a = some l') : l' ≤ 125 := by
  rw [raiseExplicit_spec] at h; split at h <;> simp at h; omega

theorem lower_valid (l a l' : Nat) (hl : l ≤ 126) (h : lower l a = some l') : l' ≤ 126 := by
  rw [lower_spec] at h; split at h <;> simp at h; omega

/-- the bit tricks: `(n + 2) & !1` is the least even number greater than `n` -/
theorem nextLtrRaw_spec (l : Nat) :
    nextLtrRaw l % 2 = 0 ∧ l < nextLtrRaw l ∧ ∀ m, l < m → m % 2 = 0 → nextLtrRaw l ≤ m := by
  unfold nextLtrRaw; refine ⟨by omega, by omega, fun m h1 h2 => by omega⟩

/-- `(n + 1) | 1` is the least odd number greater than `n` -/
theorem nextRtlRaw_spec (l : Nat) :
    nextRtlRaw l % 2 = 1 ∧ l < nextRtlRaw l ∧ ∀ m, l < m → m % 2 = 1 → nextRtlRaw l ≤ m := by
  unfold nextRtlRaw
  by_cases h : (l + 1) % 2 = 1
  · simp [h]; exact fun m h1 h2 => by omega
  · have h' : ((l + 1) % 2 == 1) = false := by simp; omega
    simp [h']; refine ⟨by omega, fun m h1 h2 => by omega⟩

/-- `n | 1` is the least odd number not below `n` -/
theorem orOne_spec (l : Nat) :
    orOne l % 2 = 1 ∧ l ≤ orOne l ∧ ∀ m, l ≤ m → m % 2 = 1 → orOne l ≤ m := by
  unfold orOne
  by_cases h : l % 2 = 1
  · simp [h]; exact fun m h1 _ => h1
  · have h' : (l % 2 == 1) = false := by simp; omega
    simp [h']; refine ⟨by omega, fun m h1 h2 => by omega⟩

/-- next-LTR: the least greater even level, or failure beyond 125 -/
theorem newExplicitNextLtr_spec (l : Nat) :
    newExplicitNextLtr l = if nextLtrRaw l ≤ 125 then some (nextLtrRaw l) else none := by
  unfold newExplicitNextLtr; rw [newExplicit_spec]

theorem newExplicitNextRtl_spec (l : Nat) :
    newExplicitNextRtl l = if nextRtlRaw l ≤ 125 then some (nextRtlRaw l) else none := by
  unfold newExplicitNextRtl; rw [newExplicit_spec]

/-- lowest-odd-at-least fails only for 126 (among valid levels) -/
theorem newLowestGeRtl_fails_iff (l : Nat) (hl : l ≤ 126) : newLowestGeRtl l = none ↔ l = 126 := by
  unfold newLowestGeRtl; rw [new_spec]; unfold orOne
  by_cases h : l % 2 = 1
  · simp [h]; omega
  · have h' : (l % 2 == 1) = false := by simp; omega
    simp [h']; omega

theorem newLowestGeRtl_some (l r : Nat) (h : newLowestGeRtl l = some r) :
    r % 2 = 1 ∧ l ≤ r ∧ r ≤ 126 ∧ ∀ m, l ≤ m → m % 2 = 1 → r ≤ m := by
  unfold newLowestGeRtl at h; rw [new_spec] at h
  split at h <;> simp at h
  subst h
  have := orOne_spec l
  exact ⟨this.1, this.2.1, by assumption, this.2.2⟩

/-- parity queries and the class of a level agree with the number -/
theorem parity (l : Nat) :
    (isLtr l = true ↔ l % 2 = 0) ∧ (isRtl l = true ↔ l % 2 = 1) ∧
    (Level.bidiClass l = if l % 2 = 1 then .R else .L) := by
  unfold isLtr isRtl Level.bidiClass isRtl
  refine ⟨by simp, by simp, ?_⟩
  by_cases h : l % 2 = 1 <;> simp [h]

/-- `has_rtl` on a slice is true exactly when it contains an odd level -/
theorem hasRtl_iff (ls : List Nat) : hasRtl ls = true ↔ ∃ l ∈ ls, l % 2 = 1 := by
  unfold hasRtl isRtl; simp

/-- non-vacuity: the premises above are met by concrete levels -/
example : raise 124 2 = some 126 ∧ raise 125 2 = none ∧ raise 200 100 = none ∧
    newExplicitNextLtr 124 = none ∧ newExplicitNextRtl 124 = some 125 ∧ newLowestGeRtl 126 = none ∧
    lower 3 4 = none := by decide

end UBidi.Props.C19
