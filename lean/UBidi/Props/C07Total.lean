/-
  C07 — analysis and reordering never panic — without the uniformity hypothesis of the `_partial`
  theorems of Props/C07.lean: the levels stored by the analysis are uniform within every character
  (`C08Uniform.C08_uniform_levels_multi` / `_single`, from the pipeline-level Expand theorem), so
  `reorder_line` on a `str` cuts the text on character boundaries only.

  * `C07_total`            — `BidiInfo`, any data source (no FSI-width proviso is needed any more, since the
    repair of finding D10), any well-formed text
  * `C07_total_single`     — `ParagraphBidiInfo`, the same
  * `C07_total_str`        — every `&str`, built-in tables, `BidiInfo`
  * `C07_total_str_single` — every `&str`, built-in tables, `ParagraphBidiInfo`
  (`C07.C07_total_u16` — every `&[u16]` — was complete already.)
-/
import UBidi.Props.C07
import UBidi.Props.C08Uniform
namespace UBidi.Props.C07Total
open UBidi UBidi.BidiClass

/-- C03's copy of `UniformOn` has the same body as C08's -/
theorem uniformOn_iff {α} (t : Text) (xs : List α) : C03.UniformOn t xs ↔ C08.UniformOn t xs := Iff.rfl

/-- `BidiInfo`: construction and every query (`reordered_levels`, `reordered_levels_per_char`, `visual_runs`,
    `reorder_visual`, `reorder_line`) on every non-empty line (inside the text; on character boundaries for a
    `str`) with every paragraph return normally -/
theorem C07_total (ds : DataSource) (t : Text) (hwf : t.WF) (d : Option Nat)
    (hd : d = none ∨ d = some 0 ∨ d = some 1) :
    (bidiInfo ds t d).err = none ∧
    ∀ p ∈ (bidiInfo ds t d).paras, ∀ a b, a < b → b ≤ t.len →
      (t.enc = .utf8 → t.isBoundary a = true ∧ t.isBoundary b = true) →
      C07.LineQueriesOK t (bidiInfo ds t d).classes (bidiInfo ds t d).levels p.level a b :=
  C07.C07_total_partial ds t hwf d hd
    (fun _ => (uniformOn_iff t _).2 (C08Uniform.C08_uniform_levels_multi ds t hwf d))

/-- `ParagraphBidiInfo`: construction and every query on every non-empty line return normally -/
theorem C07_total_single (ds : DataSource) (t : Text) (hwf : t.WF)
    (d : Option Nat) (hd : d = none ∨ d = some 0 ∨ d = some 1) :
    (paragraphBidiInfo ds t d).err = none ∧
    ∀ a b, a < b → b ≤ t.len → (t.enc = .utf8 → t.isBoundary a = true ∧ t.isBoundary b = true) →
      C07.LineQueriesOK t (paragraphBidiInfo ds t d).classes (paragraphBidiInfo ds t d).levels
        (paragraphBidiInfo ds t d).paraLevel a b :=
  C07.C07_total_single_partial ds t hwf d hd
    (fun _ => (uniformOn_iff t _).2 (C08Uniform.C08_uniform_levels_single ds t hwf d))

/-- **every `&str`, built-in data — complete** (`BidiInfo`): for every list of scalar values, each
    base-direction choice: the construction returns normally, and so does every query on every non-empty
    line on character boundaries, with every paragraph -/
theorem C07_total_str (cs : List Nat) (d : Option Nat) (hd : d = none ∨ d = some 0 ∨ d = some 1) :
    let t := Text.ofScalars cs
    (bidiInfo hardcoded t d).err = none ∧
    ∀ p ∈ (bidiInfo hardcoded t d).paras, ∀ a b, a < b → t.isBoundary a = true → t.isBoundary b = true →
      C07.LineQueriesOK t (bidiInfo hardcoded t d).classes (bidiInfo hardcoded t d).levels p.level a b :=
  C07.C07_total_str_partial cs d hd
    ((uniformOn_iff _ _).2 (C08Uniform.C08_uniform_levels_multi hardcoded _ (C01.Base.ofScalars_WF cs) d))

/-- the same for `ParagraphBidiInfo` -/
theorem C07_total_str_single (cs : List Nat) (d : Option Nat) (hd : d = none ∨ d = some 0 ∨ d = some 1) :
    let t := Text.ofScalars cs
    (paragraphBidiInfo hardcoded t d).err = none ∧
    ∀ a b, a < b → t.isBoundary a = true → t.isBoundary b = true →
      C07.LineQueriesOK t (paragraphBidiInfo hardcoded t d).classes (paragraphBidiInfo hardcoded t d).levels
        (paragraphBidiInfo hardcoded t d).paraLevel a b := by
  intro t
  have hwf : t.WF := C01.Base.ofScalars_WF cs
  obtain ⟨m1, m2⟩ := C07_total_single hardcoded t hwf d hd
  refine ⟨m1, fun a b hab ha hbb => m2 a b hab ?_ (fun _ => ⟨ha, hbb⟩)⟩
  rcases (Lemmas.C03.isBoundary_iff t b).1 hbb with h | ⟨s, hs, h⟩
  · omega
  · have := (Lemmas.C03.SegsFrom_bounds hwf.tiles).2 s hs; omega

/-! ### non-vacuity -/

/-- `C02.exText` ("FSI א PDI ⏎ a FSI RLI b PDI ב" as a `&str`): `[9, 22)` is its second paragraph (test), and
    the line `[10, 20)` (FSI RLI b PDI) is on character boundaries (test); no hypothesis about the levels
    is left to check -/
example : C07.LineQueriesOK C02.exText (bidiInfo hardcoded C02.exText none).classes
    (bidiInfo hardcoded C02.exText none).levels 0 10 20 :=
  (C07_total_str [0x2068, 0x5D0, 0x2069, 0x0A, 0x61, 0x2068, 0x2067, 0x62, 0x2069, 0x5D1] none (Or.inl rfl)).2
    { start := 9, stop := 22, level := 0 }
    (by decide +kernel) 10 20 (by decide) (by decide +kernel) (by decide +kernel)

/-- the general form on the same text -/
example : (bidiInfo hardcoded C02.exText none).err = none ∧ (paragraphBidiInfo hardcoded C02.exText none).err = none :=
  ⟨(C07_total hardcoded C02.exText C02.exText_wf none (Or.inl rfl)).1,
   (C07_total_single hardcoded C02.exText C02.exText_wf none (Or.inl rfl)).1⟩

end UBidi.Props.C07Total
