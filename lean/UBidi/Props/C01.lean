/- C01 — resolved levels follow UAX #9.  (first layer; see DESIGN.md §5) -/
import UBidi.Model.Pipeline
import UBidi.Spec.UAX9
namespace UBidi.Props.C01
open UBidi

/-- the removed-character fill keeps one level per code unit -/
theorem fill_length (prev : Nat) (ocs : List BidiClass) (lv : List Nat) :
    (fillRemovedLoop prev ocs lv).length = lv.length := by
  induction lv generalizing prev ocs with
  | nil => cases ocs <;> simp [fillRemovedLoop]
  | cons l ls ih => cases ocs <;> simp [fillRemovedLoop, ih]

end UBidi.Props.C01
