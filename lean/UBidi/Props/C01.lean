/-
  C01 — resolved levels follow UAX #9.

  Base layer of the proof (stage lemmas; see DESIGN.md §5):
  * `C01_fill_spec`      — StageFill: what `assign_levels_to_removed_chars` computes,
  * `C01_stageI`         — StageI: `resolve_levels` is rules I1/I2 and cannot overflow,
  * `C01_lengths`        — every stage keeps one entry per code unit,
  * `C01_removed_carry`  — second sentence of C01 for the whole pipeline of one paragraph.
  Helper lemmas: UBidi/Lemmas/C01Base.lean.
-/
import UBidi.Model.Pipeline
import UBidi.Spec.UAX9
import UBidi.Lemmas.C01Base
namespace UBidi.Props.C01
open UBidi

/-- the removed-character fill keeps one level per code unit -/
theorem fill_length (prev : Nat) (ocs : List BidiClass) (lv : List Nat) :
    (fillRemovedLoop prev ocs lv).length = lv.length :=
  Base.fillLoop_length prev ocs lv

/-- StageFill: what `assign_levels_to_removed_chars` computes.  A unit whose original
    class is removed by X9 takes the (already filled) level of the unit before it, the
    first unit of the paragraph takes the paragraph level; every other unit keeps its level. -/
theorem C01_fill_spec (pl : Nat) (ocs : List BidiClass) (lv : List Nat)
    (h : ocs.length = lv.length) (i : Nat) (hi : i < lv.length) :
    (assignLevelsToRemovedChars pl ocs lv)[i]? =
      if (ocs.getD i .ON).removedByX9 then
        (if i = 0 then some pl else (assignLevelsToRemovedChars pl ocs lv)[i - 1]?)
      else lv[i]? := by
  have _ := h   -- not needed: see `Base.fillLoop_spec`
  exact Base.fillLoop_spec pl ocs lv i hi

/-- non-vacuity / test of `C01_fill_spec` on a literal: `L RLE BN R` with levels `0 9 9 1`
    gives `0 0 0 1`; with a removed first unit the paragraph level is used. -/
example : assignLevelsToRemovedChars 0 [.L, .RLE, .BN, .R] [0, 9, 9, 1] = [0, 0, 0, 1] ∧
    assignLevelsToRemovedChars 1 [.LRE, .L, .PDF] [7, 2, 7] = [1, 2, 2] := by decide

/-- StageI: `resolve_levels` is rules I1/I2 (`Spec.implicitLevel`, unit by unit), and
    cannot overflow when the explicit levels are ≤ 125. -/
theorem C01_stageI (pcs : List BidiClass) (lv : List Nat) (hlen : pcs.length = lv.length)
    (h : ∀ l ∈ lv, l ≤ 125) :
    (resolveLevels pcs lv).1 = (lv.zip pcs).map (fun (l, c) => Spec.implicitLevel l c) ∧
    (resolveLevels pcs lv).2 = none := by
  have key : ∀ x ∈ lv.zip pcs, resolveLevel x.1 x.2 = (Spec.implicitLevel x.1 x.2, none) := by
    intro x hx
    exact Base.resolveLevel_spec x.1 x.2 (h _ (List.of_mem_zip hx).1)
  constructor
  · simp only [resolveLevels, List.map_map]
    apply List.map_congr_left
    intro x hx
    simp [key x hx]
  · simp only [resolveLevels, hlen, if_true]
    rw [List.foldl_map]
    apply Base.foldl_orErr_none (fun (x : Nat × BidiClass) => (resolveLevel x.1 x.2).2)
    intro x hx; rw [key x hx]

/-- non-vacuity of `C01_stageI`: the hypotheses hold for the extreme levels 124/125, and the
    bound 125 is sharp (at 126 the Model reports the overflow panic).  (test on literals) -/
example : resolveLevels [.EN, .L, .R, .AN] [124, 125, 125, 0] = ([126, 126, 125, 2], none) ∧
    (resolveLevels [.R] [126]).2 = some .raiseOverflow := by decide

/-- every stage keeps one entry per code unit: the levels of a paragraph have exactly
    `t.len` entries. -/
theorem C01_lengths (ds : DataSource) (pl : Nat) (pure hasIso : Bool) (t : Text) (hwf : t.WF)
    (ocs : List BidiClass) (hlen : ocs.length = t.len) :
    (paraLevels ds pl pure hasIso t ocs).1.length = t.len := by
  have _ := hlen
  exact Base.paraLevels_length ds pl pure hasIso t hwf ocs

/-- C01, second sentence, for the whole pipeline of one paragraph: a code unit whose original
    class is removed by X9 carries the level of the unit before it (the paragraph level
    when it is the first unit of the paragraph). -/
theorem C01_removed_carry (ds : DataSource) (pl : Nat) (pure hasIso : Bool) (t : Text)
    (hwf : t.WF) (ocs : List BidiClass) (hlen : ocs.length = t.len) (i : Nat) (hi : i < t.len)
    (hr : (ocs.getD i .ON).removedByX9 = true) :
    let lv := (paraLevels ds pl pure hasIso t ocs).1
    lv[i]? = if i = 0 then some pl else lv[i - 1]? := by
  intro lv
  by_cases hp : (pl == 0 && pure) = true
  · have hlv : lv = List.replicate t.len pl := by
      simp only [lv, paraLevels, hp, if_true]
    rw [hlv]
    have h1 : i - 1 < t.len := by omega
    simp [hi, h1]
  · have hlv : lv = assignLevelsToRemovedChars pl ocs
        (resolveLevels (resolveSequences ds t (explicitCompute t pl ocs).levels ocs
          (isolatingRunSequences pl ocs (explicitCompute t pl ocs).levels
            (explicitCompute t pl ocs).runs hasIso).1 (explicitCompute t pl ocs).pcs).1
          (explicitCompute t pl ocs).levels).1 := by
      simp only [lv, paraLevels, hp]
      rfl
    rw [hlv]
    have hl : ocs.length = (resolveLevels (resolveSequences ds t (explicitCompute t pl ocs).levels ocs
          (isolatingRunSequences pl ocs (explicitCompute t pl ocs).levels
            (explicitCompute t pl ocs).runs hasIso).1 (explicitCompute t pl ocs).pcs).1
          (explicitCompute t pl ocs).levels).1.length := by
      simp only [Base.resolveLevels_length, Base.resolveSequences_length,
        (Base.explicit_levels t hwf pl ocs).1, (Base.explicit_pcs t hwf pl ocs).1, Nat.min_self, hlen]
    have := C01_fill_spec pl ocs _ hl i (by rw [← hl, hlen]; exact hi)
    rw [this, hr]; rfl

/-- non-vacuity of `C01_lengths` / `C01_removed_carry`: the `&str` "a RLE alef PDF 1"
    (10 code units) with its original classes meets the hypotheses; units 1..3 (RLE) and
    6..8 (PDF) are removed by X9, and the Model's levels show the carry.  (`ofScalars_WF`
    is a proof for every `&str`; the rest is a test on this literal.) -/
example :
    let t := Text.ofScalars [0x61, 0x202B, 0x5D0, 0x202C, 0x31]
    let ocs : List BidiClass := [.L, .RLE, .RLE, .RLE, .R, .R, .PDF, .PDF, .PDF, .EN]
    t.WF ∧ ocs.length = t.len ∧ (ocs.getD 1 .ON).removedByX9 = true ∧
      (ocs.getD 6 .ON).removedByX9 = true ∧
      (paraLevels hardcoded 0 false false t ocs).1 = [0, 0, 0, 0, 1, 1, 1, 1, 1, 2] :=
  ⟨Base.ofScalars_WF _, by decide, by decide, by decide, by decide +kernel⟩

end UBidi.Props.C01
