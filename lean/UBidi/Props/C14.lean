/- C14 — bidi_class is Bidi_Class 16.0: the built-in table is sorted, non-empty, non-overlapping;
   the binary search is total and equals the order-independent lookup on every sorted table;
   the table agrees with the frozen Unicode 16.0 reference on every code point; the format
   characters have their defining classes. -/
import UBidi.Model.CharData
import UBidi.Ref.Ucd16
import UBidi.Lemmas.C14
namespace UBidi.Props.C14
open UBidi

theorem version : Gen.unicodeVersion = (16, 0, 0) := by decide

/-- Bool checker: every row has lo ≤ hi and hi < lo of the next row. -/
def sortedB : List (Nat × Nat × BidiClass) → Bool := Lemmas.C14.sortedB

/-- test of the checker on literals: accepts a sorted table, rejects an empty range,
    an overlap and an out-of-order pair -/
example : sortedB [(0, 8, .BN), (9, 9, .S), (0x41, 0x5A, .L)] = true
    ∧ sortedB [(5, 4, .BN)] = false
    ∧ sortedB [(0, 9, .BN), (9, 12, .S)] = false
    ∧ sortedB [(10, 12, .BN), (0, 3, .S)] = false := by decide

/-- the crate's table: ranges non-empty, sorted, non-overlapping (proof over the whole table) -/
theorem C14_sorted : sortedB Gen.classTable = true := by decide +kernel

/-- the frozen reference table has the same shape -/
theorem C14_ref_sorted : sortedB Ref.classTable16 = true := by decide +kernel

/-- The binary search (as std implements it) finds exactly what the order-independent lookup
    finds, for EVERY sorted table.  In particular it is total: no index is out of range
    (`Array.getD` defaults are never the answer unless the table is empty). -/
theorem C14_bsearch (t : List (Nat × Nat × BidiClass)) (h : sortedB t = true) (c : Nat) :
    bsearchTable t.toArray c = lookupTable t c :=
  Lemmas.C14.bsearch_eq_lookup t (Lemmas.C14.sorted_of_sortedB t h) c

/-- totality: on a sorted non-empty table the index the search ends on is inside the table, so
    the final `t[base]` read of `bsearch_range_value_table` cannot be out of range (the Model reads
    with `Array.getD`; this shows the default is never used). -/
theorem C14_bsearch_total (t : List (Nat × Nat × BidiClass)) (h : sortedB t = true) (hne : t ≠ [])
    (c : Nat) : bsearchLoop t.toArray c t.toArray.size 0 t.toArray.size < t.toArray.size := by
  have hlen : 1 ≤ t.length := List.length_pos_iff.2 hne
  rw [List.size_toArray]
  exact (Lemmas.C14.bsearchLoop_spec t (Lemmas.C14.sorted_of_sortedB t h) c t.length 0 t.length
    (Nat.le_refl _) hlen (by omega) (Or.inl rfl) (fun j hj hjl => by omega)).1

/-- non-vacuity: the crate's table is sorted and non-empty -/
theorem C14_index_in_range (c : Nat) :
    bsearchLoop classArray c classArray.size 0 classArray.size < classArray.size :=
  C14_bsearch_total Gen.classTable C14_sorted (by decide +kernel) c

/-- non-vacuity: the hypothesis of `C14_bsearch` holds for the crate's table, so
    `bidiClass` is the order-independent lookup -/
theorem C14_bidiClass_eq_lookup (c : Nat) : bidiClass c = lookupTable Gen.classTable c :=
  C14_bsearch Gen.classTable C14_sorted c

/-- order independence: in a sorted table the answer is the class of THE range containing c -/
theorem C14_lookup_mem (t : List (Nat × Nat × BidiClass)) (h : sortedB t = true)
    (r : Nat × Nat × BidiClass) (hr : r ∈ t) (c : Nat) (hc : r.1 ≤ c ∧ c ≤ r.2.1) :
    lookupTable t c = r.2.2 :=
  Lemmas.C14.lookup_mem t (Lemmas.C14.sorted_of_sortedB t h) r hr c hc

/-- non-vacuity (test on literals): a row of the crate's table and a code point in it -/
example : lookupTable Gen.classTable 0x35 = .EN :=
  C14_lookup_mem Gen.classTable C14_sorted (0x30, 0x39, .EN)
    (List.mem_of_getElem? (i := 17) (by decide +kernel)) 0x35 (by decide)

theorem C14_lookup_default (t : List (Nat × Nat × BidiClass)) (c : Nat)
    (h : ∀ r ∈ t, ¬ (r.1 ≤ c ∧ c ≤ r.2.1)) : lookupTable t c = .L :=
  Lemmas.C14.lookup_default t c h

/-- non-vacuity (test on literals) -/
example : lookupTable [(0, 8, .BN), (9, 9, .S)] 100 = .L :=
  C14_lookup_default _ 100 (by decide)

/-- Bool comparison of two range tables: equal canonical forms (rows of the default class `L`
    dropped, adjacent rows of one class merged). -/
def tablesAgree (a b : List (Nat × Nat × BidiClass)) : Bool :=
  decide (Lemmas.C14.canon a = Lemmas.C14.canon b)

/-- test of the checker on literals: different row splits / explicit-vs-default `L` agree;
    a changed class or a shifted boundary does not -/
example : tablesAgree [(0, 3, .BN), (4, 8, .BN), (9, 9, .L), (20, 30, .R)] [(0, 8, .BN), (20, 25, .R), (26, 30, .R)] = true
    ∧ tablesAgree [(0, 8, .BN)] [(0, 8, .S)] = false
    ∧ tablesAgree [(0, 8, .BN)] [(0, 7, .BN)] = false := by decide

theorem tablesAgree_sound (a b : List (Nat × Nat × BidiClass)) (h : tablesAgree a b = true)
    (ha : sortedB a = true) (hb : sortedB b = true) (c : Nat) :
    lookupTable a c = lookupTable b c := by
  have h' : Lemmas.C14.canon a = Lemmas.C14.canon b := of_decide_eq_true h
  rw [← Lemmas.C14.lookup_canon a (Lemmas.C14.sorted_of_sortedB a ha),
    ← Lemmas.C14.lookup_canon b (Lemmas.C14.sorted_of_sortedB b hb), h']

theorem C14_tablesAgree : tablesAgree Gen.classTable Ref.classTable16 = true := by decide +kernel

/-- The crate's table and the frozen Unicode 16.0 reference give the same class to EVERY
    code point (no restriction to scalar values: on surrogates and above U+10FFFF both sides
    answer the default `L`). -/
theorem C14_ref (c : Nat) : bidiClass c = lookupTable Ref.classTable16 c := by
  rw [C14_bidiClass_eq_lookup]
  exact tablesAgree_sound _ _ C14_tablesAgree C14_sorted C14_ref_sorted c

/-- the format characters have their defining classes, and the constants their code points -/
theorem C14_format : bidiClass Gen.fcLRE = .LRE ∧ bidiClass Gen.fcRLE = .RLE ∧ bidiClass Gen.fcPDF = .PDF ∧
    bidiClass Gen.fcLRO = .LRO ∧ bidiClass Gen.fcRLO = .RLO ∧ bidiClass Gen.fcLRI = .LRI ∧
    bidiClass Gen.fcRLI = .RLI ∧ bidiClass Gen.fcFSI = .FSI ∧ bidiClass Gen.fcPDI = .PDI ∧
    bidiClass Gen.fcLRM = .L ∧ bidiClass Gen.fcRLM = .R ∧ bidiClass Gen.fcALM = .AL ∧
    Gen.fcLRE = 0x202A ∧ Gen.fcRLE = 0x202B ∧ Gen.fcPDF = 0x202C ∧ Gen.fcLRO = 0x202D ∧ Gen.fcRLO = 0x202E ∧
    Gen.fcLRI = 0x2066 ∧ Gen.fcRLI = 0x2067 ∧ Gen.fcFSI = 0x2068 ∧ Gen.fcPDI = 0x2069 ∧
    Gen.fcLRM = 0x200E ∧ Gen.fcRLM = 0x200F ∧ Gen.fcALM = 0x61C := by
  simp only [C14_bidiClass_eq_lookup]
  decide +kernel

end UBidi.Props.C14
