/- C14 — bidi_class is Bidi_Class 16.0.  (first layer) -/
import UBidi.Model.CharData
import UBidi.Ref.Ucd16
namespace UBidi.Props.C14
open UBidi

theorem version : Gen.unicodeVersion = (16, 0, 0) := by decide

end UBidi.Props.C14
