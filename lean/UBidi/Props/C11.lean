/-
  C11 — Depth limits: nesting beyond 125 follows the overflow rules.

  However deeply embeddings, overrides and isolates are nested, the explicit levels
  computed by `explicit::compute` never exceed 125 and the resolved levels never exceed
  126; the `stack.last().unwrap()` and `raise(..).expect` sites are unreachable.
  The Model's per-character machine `exChar` is shown to be the UAX #9 machine
  `Spec.xStep` (rules X2–X8 with the overflow counters), a balanced block leaves the
  machine state unchanged from any reachable state, and an initiator met in overflow
  changes nothing but a counter.

  Helper lemmas: `UBidi/Lemmas/C11Inv.lean` (invariant, `exChar` case by case),
  `UBidi/Lemmas/C11Compute.lean` (the fold of `explicitCompute`, I1/I2),
  `UBidi/Lemmas/C11Sim.lean` (`absStatus`, `Spec.xStep` case by case, simulation),
  `UBidi/Lemmas/C11Balance.lean` (`Balanced`, `runState`, balance).
-/
import UBidi.Lemmas.C11Inv
import UBidi.Lemmas.C11Compute
import UBidi.Lemmas.C11Sim
import UBidi.Lemmas.C11Balance
import UBidi.Spec.UAX9
namespace UBidi.Props.C11
open UBidi UBidi.BidiClass

/-! ## The invariant (`ExInv` is defined in `UBidi/Lemmas/C11Inv.lean`)

`ExInv pl stack oi oe vi` says: `pl ≤ 1`; `StackOK pl stack` — the stack is non-empty, its
bottom entry is `⟨pl, .neutral⟩`, levels strictly increase towards the top and every
pushed level is ≤ 125; and `vi = isoCount stack`, the number of `.isolate` entries. -/

/-- what `ExInv` gives, in plain list terms -/
theorem ExInv_spelled_out {pl : Nat} {stack : List Status} {oi oe vi : Nat}
    (h : ExInv pl stack oi oe vi) :
    pl ≤ 1 ∧ stack ≠ [] ∧ stack.getLast? = some ⟨pl, .neutral⟩ ∧
    (∀ s ∈ stack, pl ≤ s.level ∧ s.level ≤ 125) ∧
    List.Pairwise (fun a b => b.level < a.level) stack ∧
    vi = (stack.filter (fun s => s.status = .isolate)).length := by
  refine ⟨h.pl_le, h.ok.ne_nil, h.ok.bottom, StackOK.levels (by have := h.pl_le; omega) h.ok,
    h.ok.increasing, ?_⟩
  rw [h.vi_eq]
  clear h
  induction stack with
  | nil => rfl
  | cons a r ih =>
    rw [isoCount_cons, ih]
    by_cases ha : a.status = .isolate <;> simp [ha] <;> omega

/-- the initial state of `explicit::compute` satisfies the invariant -/
theorem C11_inv_init (pl : Nat) (h : pl ≤ 1) : ExInv pl [⟨pl, .neutral⟩] 0 0 0 :=
  ⟨h, rfl, rfl⟩

/-- one character preserves the invariant, does not hit `stack.last().unwrap()` on an empty
    stack, and is given a level in `[pl, 125]` -/
theorem C11_inv_step {pl : Nat} {stack : List Status} {oi oe vi : Nat}
    (h : ExInv pl stack oi oe vi) (oc : BidiClass) :
    let r := exChar pl stack oi oe vi oc
    ExInv pl r.stack r.oi r.oe r.vi ∧ r.err = none ∧ pl ≤ r.level ∧ r.level ≤ 125 := by
  obtain ⟨last, rest, rfl⟩ := h.cons
  exact inv_step_cons h oc

/-- non-vacuity (test): a reachable state with a valid isolate and a pending embedding overflow -/
example : ExInv 1 [⟨4, .isolate⟩, ⟨3, .rtl⟩, ⟨1, .neutral⟩] 0 2 1 := by decide

private theorem st0_inv (t : Text) (pl : Nat) (hpl : pl ≤ 1) (ocs : List BidiClass) :
    StInv pl { stack := [{ level := pl, status := .neutral }],
               err := if t.len = ocs.length then none else some .explicitLenMismatch } :=
  ⟨C11_inv_init pl hpl, by intro l hl; simp at hl⟩

/-- explicit levels never exceed 125 (and are never below the paragraph level), for every
    text — well-formed or not — and every class array -/
theorem C11_explicit_le_125 (t : Text) (pl : Nat) (hpl : pl ≤ 1) (ocs : List BidiClass) :
    ∀ l ∈ (explicitCompute t pl ocs).levels, pl ≤ l ∧ l ≤ 125 :=
  (fold_inv ocs t.segs _ (st0_inv t pl hpl ocs)).lv

/-- the `stack.last().unwrap()` sites, the `assert_eq!` on the lengths and the
    `original_classes[i]` index never fail -/
theorem C11_explicit_no_panic (t : Text) (hwf : t.WF) (pl : Nat) (hpl : pl ≤ 1)
    (ocs : List BidiClass) (hlen : ocs.length = t.len) : (explicitCompute t pl ocs).err = none := by
  have hb := (segsFrom_bounds t.segs 0 t.len hwf.tiles).2
  refine fold_err ocs t.segs _ (st0_inv t pl hpl ocs) ?_ (fun s hs => by rw [hlen]; exact (hb s hs).2)
  simp [hlen]

/-- one level and one processing class per code unit -/
theorem C11_explicit_length (t : Text) (hwf : t.WF) (pl : Nat) (ocs : List BidiClass) :
    (explicitCompute t pl ocs).levels.length = t.len ∧ (explicitCompute t pl ocs).pcs.length = t.len := by
  have := fold_len pl ocs t.segs
    { stack := [{ level := pl, status := .neutral }],
      err := if t.len = ocs.length then none else some .explicitLenMismatch } 0 t.len hwf.tiles
  simpa [explicitCompute] using this

/-- a `&str` of 130 nested RLE (U+202B, three code units each) and the letter `a`, with its
    per-code-unit classes -/
def deepText : Text := Text.ofScalars (List.replicate 130 0x202B ++ [0x61])
def deepClasses : List BidiClass := List.replicate (130 * 3) RLE ++ [L]

/-- non-vacuity: `deepText` meets the hypotheses of the three theorems above … -/
example : deepText.WF ∧ (0 : Nat) ≤ 1 ∧ deepClasses.length = deepText.len :=
  ⟨ofScalars_WF _, by decide, by decide +kernel⟩
/-- … and (test, by evaluation) the bound is attained: the levels of `deepText` go up to 125,
    the letter sits at level 125, and nothing panics -/
example : (explicitCompute deepText 0 deepClasses).levels.foldl max 0 = 125 ∧
    (explicitCompute deepText 0 deepClasses).levels.getLast? = some 125 ∧
    (explicitCompute deepText 0 deepClasses).err = none := by decide +kernel

private theorem foldl_orErr_none :
    ∀ (rs : List (Nat × Option Panic)), (∀ r ∈ rs, r.2 = none) →
      rs.foldl (fun e r => orErr e r.2) none = none
  | [], _ => rfl
  | r :: rs, h => by
    rw [List.foldl_cons, h r (by simp)]
    exact foldl_orErr_none rs (fun x hx => h x (by simp [hx]))

/-- I1/I2 cannot overflow: resolved levels never exceed 126 and `raise(..).expect` is unreachable -/
theorem C11_resolved_le_126 (pcs : List BidiClass) (lv : List Nat) (h : ∀ l ∈ lv, l ≤ 125)
    (hlen : pcs.length = lv.length) :
    (∀ l ∈ (resolveLevels pcs lv).1, l ≤ 126) ∧ (resolveLevels pcs lv).2 = none ∧
    (resolveLevels pcs lv).1.length = lv.length := by
  unfold resolveLevels
  refine ⟨?_, ?_, ?_⟩
  · intro l hl
    simp only [List.mem_map] at hl
    obtain ⟨r, ⟨⟨a, c⟩, hac, rfl⟩, rfl⟩ := hl
    exact (resolveLevel_ok a c (h a (List.of_mem_zip hac).1)).1
  · simp only [hlen, if_true]
    apply foldl_orErr_none
    intro r hr
    simp only [List.mem_map] at hr
    obtain ⟨⟨a, c⟩, hac, rfl⟩ := hr
    exact (resolveLevel_ok a c (h a (List.of_mem_zip hac).1)).2
  · simp [List.length_zip, hlen]

/-- non-vacuity (test): levels 124 / 125 with EN / L are raised to 126, the maximum -/
example : resolveLevels [EN, L, R, ON] [124, 125, 125, 0] = ([126, 126, 125, 0], none) := by decide

/-! ## StageX: the Model's machine is the UAX #9 machine

`absStatus : Status → Spec.Entry` maps neutral ↦ (none,false), rtl ↦ (some R,false),
ltr ↦ (some L,false), isolate ↦ (none,true) and keeps the level
(`UBidi/Lemmas/C11Sim.lean`). -/

/-- Simulation of one character.  From related states `exChar` and `Spec.xStep` (X2–X8) go
    to related states.  For a character that X9 keeps they report the same level and the
    same type.  For a character that X9 removes the Model's class is BN; its level is the
    Spec's, except on a *valid* embedding initiator (RLE/LRE/RLO/LRO pushed with
    `oi = 0 ∧ oe = 0`), where the Model stores the level it has just pushed while the Spec
    reports the level before the push (irrelevant: X9 removes the character). -/
theorem C11_sim_step {pl : Nat} {stack : List Status} {oi oe vi : Nat}
    (h : ExInv pl stack oi oe vi) (oc : BidiClass) :
    let r := exChar pl stack oi oe vi oc
    let s : Spec.XState := ⟨stack.map absStatus, oi, oe, vi⟩
    let (s', l, ty) := Spec.xStep pl s oc
    s' = ⟨r.stack.map absStatus, r.oi, r.oe, r.vi⟩ ∧
    (Spec.isRemoved oc = false → (l = r.level ∧ ty = r.pc)) ∧
    (Spec.isRemoved oc = true → r.pc = .BN ∧
      (l = r.level ∨
       (isEmb oc = true ∧ oi = 0 ∧ oe = 0 ∧ stack.head?.map (·.level) = some l ∧
        r.stack = ⟨r.level, pushStatus oc⟩ :: stack))) := by
  obtain ⟨last, rest, rfl⟩ := h.cons
  have := sim_cons h oc
  simp only [absState] at this
  simpa using this

/-- the simulation over a whole class sequence: the levels and types `Spec.xRun` reports
    agree with the Model's at every position X9 keeps -/
theorem C11_sim_run {pl : Nat} : ∀ (w : List BidiClass) {stack : List Status} {oi oe vi : Nat},
    ExInv pl stack oi oe vi →
    ∀ (k : Nat) (hk : k < w.length), Spec.isRemoved w[k] = false →
      let s := runState pl (stack, oi, oe, vi) (w.take k)
      let r := exChar pl s.1 s.2.1 s.2.2.1 s.2.2.2 w[k]
      (Spec.xRun pl ⟨stack.map absStatus, oi, oe, vi⟩ w)[k]? = some (r.level, r.pc)
  | [], _, _, _, _, _, _, hk, _ => by simp at hk
  | c :: w, stack, oi, oe, vi, h, k, hk, hrem => by
    obtain ⟨last, rest, rfl⟩ := h.cons
    have hs := sim_cons h c
    have hi := (inv_step_cons h c).1
    cases k with
    | zero =>
      simp only [List.getElem_cons_zero] at hrem
      have := hs.2.1 hrem
      simp only [absState] at this
      simp [Spec.xRun, runState, ← this.1, ← this.2]
    | succ k =>
      simp only [List.getElem_cons_succ] at hrem
      have ih := C11_sim_run w hi k (by simpa using hk) hrem
      have h1 := hs.1
      simp only [absState] at h1
      simp only [Spec.xRun, List.getElem?_cons_succ, h1, List.take_succ_cons, runState_cons,
        List.getElem_cons_succ]
      exact ih

/-- test: on a sample with overrides, isolates, an unmatched PDI and PDF, the Spec's X1–X8 and
    the Model's machine report the same level and type at every position X9 keeps -/
example :
    let w := [RLO, L, LRI, EN, LRE, AL, PDI, PDF, PDI, ON, RLE, FSI, LRO, R, PDF, PDF, WS]
    ∀ k : Fin 17, Spec.isRemoved (w.getD k ON) = false →
      let s := runState 1 ([⟨1, .neutral⟩], 0, 0, 0) (w.take k)
      let r := exChar 1 s.1 s.2.1 s.2.2.1 s.2.2.2 (w.getD k ON)
      (Spec.explicit 1 w)[k.val]? = some (r.level, r.pc) := by decide +kernel

/-! ## Balance and overflow -/

/-- balance: a properly nested block leaves the explicit machine state exactly where it
    was, from ANY reachable state (overflow included): processing resumes correctly after
    the matching terminators -/
theorem C11_balance {pl : Nat} {stack : List Status} {oi oe vi : Nat}
    (h : ExInv pl stack oi oe vi) (w : List BidiClass) (hw : Balanced w) :
    runState pl (stack, oi, oe, vi) w = (stack, oi, oe, vi) :=
  balance_aux hw _ h

/-- the same, for a machine state given as a whole -/
theorem C11_balance_state {pl : Nat} (s : MState) (h : MInv pl s) (w : List BidiClass) (hw : Balanced w) :
    runState pl s w = s :=
  balance_aux hw s h

/-- an initiator met in overflow (an overflow count is non-zero, or the next level would
    exceed 125) changes nothing but a counter: stack, valid isolate count unchanged, the
    character gets the current level, an isolate initiator increments the overflow isolate
    count, an embedding initiator increments the overflow embedding count iff the overflow
    isolate count is zero (X2–X5c) -/
theorem C11_overflow_ignored {pl : Nat} {stack : List Status} {oi oe vi : Nat}
    (h : ExInv pl stack oi oe vi) (oc : BidiClass)
    (hoc : isEmb oc = true ∨ oc.isIsolateInitiator = true)
    (hov : 0 < oi ∨ 0 < oe ∨ ∀ top ∈ stack.head?, 125 < specNext oc top.level) :
    let r := exChar pl stack oi oe vi oc
    r.stack = stack ∧ r.vi = vi ∧ r.err = none ∧ stack.head?.map (·.level) = some r.level ∧
    (oc.isIsolateInitiator = true → r.oi = oi + 1 ∧ r.oe = oe) ∧
    (isEmb oc = true → r.oi = oi ∧ r.oe = if oi = 0 then oe + 1 else oe) := by
  obtain ⟨last, rest, rfl⟩ := h.cons
  have hov' : nextLevel oc last.level = none ∨ oi ≠ 0 ∨ oe ≠ 0 := by
    rcases hov with h1 | h1 | h1
    · exact Or.inr (Or.inl (by omega))
    · exact Or.inr (Or.inr (by omega))
    · exact Or.inl (nextLevel_none_iff.2 (h1 last (by simp)))
  have hne : ∀ c, isEmb c = true → c.isIsolateInitiator = true → False := by
    intro c; cases c <;> simp [isEmb, isIsolateInitiator]
  rcases hoc with hc | hc
  · intro r
    have hr : r = _ := exChar_emb_overflow hc hov'
    rw [hr]
    exact ⟨rfl, rfl, rfl, rfl, fun hi => (hne oc hc hi).elim, fun _ => ⟨rfl, rfl⟩⟩
  · intro r
    have hr : r = _ := exChar_iso_overflow hc hov'
    rw [hr]
    exact ⟨rfl, rfl, rfl, rfl, fun _ => ⟨rfl, rfl⟩, fun he => (hne oc he hc).elim⟩

/-- non-vacuity: a reachable-shaped state at level 124 where LRE would need level 126: the
    hypotheses of `C11_overflow_ignored` hold with both overflow counts still zero -/
example : ExInv 1 [⟨124, .isolate⟩, ⟨1, .neutral⟩] 0 0 1 ∧ (isEmb LRE = true ∨ LRE.isIsolateInitiator = true) ∧
    (0 < 0 ∨ 0 < 0 ∨ ∀ top ∈ ([⟨124, .isolate⟩, ⟨1, .neutral⟩] : List Status).head?, 125 < specNext LRE top.level) :=
  ⟨by decide, Or.inl rfl, Or.inr (Or.inr (by simp [specNext, isRtlInitiator, Spec.leastEvenAbove]))⟩

/-- conversely, outside overflow an initiator whose level fits is pushed, with exactly the
    level X2–X5 prescribe (least greater odd / even level) -/
theorem C11_valid_pushed {pl : Nat} {last : Status} {rest : List Status} {vi : Nat}
    (oc : BidiClass) (hoc : isEmb oc = true ∨ oc.isIsolateInitiator = true)
    (hfit : specNext oc last.level ≤ 125) :
    let r := exChar pl (last :: rest) 0 0 vi oc
    r.stack = ⟨specNext oc last.level, pushStatus oc⟩ :: last :: rest ∧ r.oi = 0 ∧ r.oe = 0 ∧
    r.vi = (if oc.isIsolateInitiator then vi + 1 else vi) ∧ r.err = none := by
  have hnl : nextLevel oc last.level = some (specNext oc last.level) := nextLevel_some_iff.2 ⟨hfit, rfl⟩
  rcases hoc with hc | hc
  · have : oc.isIsolateInitiator = false := by cases oc <;> simp [isEmb] at hc <;> rfl
    intro r
    have hr : r = _ := exChar_emb_push hc hnl
    rw [hr, this]
    exact ⟨rfl, rfl, rfl, rfl, rfl⟩
  · have hp : pushStatus oc = .isolate := by cases oc <;> simp [isIsolateInitiator] at hc <;> rfl
    intro r
    have hr : r = _ := exChar_iso_push hc hnl
    rw [hr, hc, hp]
    exact ⟨rfl, rfl, rfl, rfl, rfl⟩

/-! ## Non-vacuity and tests at the depth limit -/

/-- the initial machine state of a left-to-right paragraph -/
def init0 : MState := ([⟨0, .neutral⟩], 0, 0, 0)

/-- test: 63 nested RLE from paragraph level 0 reach level 125 (1, 3, …, 125) with no overflow … -/
example : (runState 0 init0 (List.replicate 63 RLE)).1.head? = some ⟨125, .neutral⟩ ∧
    (runState 0 init0 (List.replicate 63 RLE)).2 = (0, 0, 0) := by decide +kernel
/-- … and the 64th is ignored: the stack is unchanged and the overflow embedding count becomes 1 -/
example : stepState 0 (runState 0 init0 (List.replicate 63 RLE)) RLE =
    ((runState 0 init0 (List.replicate 63 RLE)).1, 0, 1, 0) := by decide +kernel

/-- alternating RLE, LRE, RLE, … (each raises the level by exactly one) -/
def alternating : Nat → List BidiClass
  | 0 => []
  | n + 1 => alternating n ++ [if n % 2 == 0 then RLE else LRE]

/-- test: 125 alternating initiators give a stack of 126 entries with top level 125; the
    126th initiator, whichever it is, overflows; 200 deep: 75 in overflow -/
example : (runState 0 init0 (alternating 125)).1.length = 126 ∧
    (runState 0 init0 (alternating 125)).1.head? = some ⟨125, .neutral⟩ ∧
    (runState 0 init0 (alternating 125)).2 = (0, 0, 0) ∧
    runState 0 init0 (alternating 126) = ((runState 0 init0 (alternating 125)).1, 0, 1, 0) ∧
    runState 0 init0 (alternating 200) = ((runState 0 init0 (alternating 125)).1, 0, 75, 0) := by
  decide +kernel

/-- test: 62 nested LRI + RLI reach the limit, the next isolate initiator only counts
    (`oi = 1`), and after its PDI the valid ones are closed one by one -/
example : runState 0 init0 (List.replicate 62 LRI ++ [RLI, RLI]) =
      ((runState 0 init0 (List.replicate 62 LRI ++ [RLI])).1, 1, 0, 63) ∧
    runState 0 init0 (List.replicate 62 LRI ++ [RLI, RLI, PDI]) =
      runState 0 init0 (List.replicate 62 LRI ++ [RLI]) ∧
    runState 0 init0 (List.replicate 62 LRI ++ [RLI, RLI] ++ List.replicate 64 PDI) = init0 := by
  decide +kernel

/-- a balanced block with every kind of initiator -/
theorem sample_balanced : Balanced [RLI, LRE, L, PDF, LRO, FSI, EN, PDI, PDF, PDI, WS] := by
  have h1 : Balanced [LRE, L, PDF] := Balanced.emb LRE rfl (Balanced.plain L rfl)
  have h2 : Balanced [FSI, EN, PDI] := Balanced.iso FSI rfl (Balanced.plain EN rfl)
  have h3 : Balanced [LRO, FSI, EN, PDI, PDF] := Balanced.emb LRO rfl h2
  have h4 : Balanced [RLI, LRE, L, PDF, LRO, FSI, EN, PDI, PDF, PDI] :=
    Balanced.iso RLI rfl (Balanced.append h1 h3)
  exact Balanced.append h4 (Balanced.plain WS rfl)

/-- the state after 125 alternating initiators and one overflowing LRO: level 125, `oe = 1` -/
def overflowState : MState := runState 0 init0 (alternating 125 ++ [LRO])

/-- non-vacuity of `C11_balance`: `overflowState` satisfies the invariant (by the step theorem,
    not by evaluation), it is an overflow state (test, by evaluation), and `sample_balanced`
    — whose initiators all overflow here — leaves it unchanged -/
example : MInv 0 overflowState ∧ overflowState.2 = (0, 1, 0) ∧
    runState 0 overflowState [RLI, LRE, L, PDF, LRO, FSI, EN, PDI, PDF, PDI, WS] = overflowState :=
  have hi : MInv 0 overflowState := runState_inv _ (C11_inv_init 0 (by decide))
  ⟨hi, by decide +kernel, C11_balance_state _ hi _ sample_balanced⟩

/-- test: from the state after 123 alternating initiators (level 123) the block's RLI is valid
    (level 125), its contents overflow, and the state still comes back — here by evaluation -/
example : let s := runState 0 init0 (alternating 123)
    (stepState 0 s RLI).1.head? = some ⟨125, .isolate⟩ ∧
    runState 0 s [RLI, LRE, L, PDF] = ((stepState 0 s RLI).1, 0, 0, 1) ∧
    runState 0 s [RLI, LRE, L, PDF, LRO, FSI, EN, PDI, PDF, PDI, WS] = s := by decide +kernel

end UBidi.Props.C11
