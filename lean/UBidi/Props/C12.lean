/- C12 — results depend only on the supplied data source; see DESIGN.md §5 -/
import UBidi.Model.Reorder
import UBidi.Spec.UAX9
import UBidi.Spec.Reorder
import UBidi.Lemmas.C12
namespace UBidi.Props.C12
open UBidi UBidi.Lemmas.C12

/-- the analysis consults the data source only through the class and bracket values of the characters of the
    text: two sources that agree there give the same `BidiInfo`, `ParagraphBidiInfo`, base direction and
    `InitialInfo` (all fields, including the panic field).  In particular nothing global (the built-in
    tables) is consulted when a source is supplied. -/
theorem C12_depends_only_on_ds (ds ds' : DataSource) (t : Text) (d : Option Nat)
    (h : ∀ s ∈ t.segs, ds.cls s.cp = ds'.cls s.cp ∧ ds.brk s.cp = ds'.brk s.cp) :
    bidiInfo ds t d = bidiInfo ds' t d ∧ paragraphBidiInfo ds t d = paragraphBidiInfo ds' t d ∧
    (∀ full, baseDirection ds t full = baseDirection ds' t full) ∧ (∀ split, computeInitialInfo ds t d split = computeInitialInfo ds' t d split) := by
  have hc : ∀ s ∈ t.segs, ds.cls s.cp = ds'.cls s.cp := fun s hs => (h s hs).1
  have hb : ∀ s ∈ t.segs, ds.brk s.cp = ds'.brk s.cp := fun s hs => (h s hs).2
  have hsub : ∀ a b, ∀ s ∈ (t.subrange a b).segs, ds.brk s.cp = ds'.brk s.cp := by
    intro a b s hs
    obtain ⟨s', hs', e⟩ := subrange_mem t a b s hs
    rw [← e]; exact hb s' hs'
  have hii := fun split => cii_congr ds ds' t d split hc
  refine ⟨?_, ?_, fun full => baseDirection_congr ds ds' t full hc, hii⟩
  · unfold bidiInfo
    simp only [hii true, fun pl p i a b ocs => paraLevels_congr ds ds' pl p i (t.subrange a b) ocs (hsub a b)]
  · unfold paragraphBidiInfo
    simp only [hii false, paraLevels_congr ds ds' _ _ _ t _ hb]

/- non-vacuity: the built-in source and a source that calls every supplementary-plane character R and knows no
   bracket above U+00FF are different sources, and agree on the characters of "aא(1)" -/
example :
    let ds' : DataSource := { cls := fun c => if c < 0x10000 then bidiClass c else .R,
                              brk := fun c => if c < 0x100 then bracket c else none }
    let t := Text.ofScalars [0x61, 0x5D0, 0x28, 0x31, 0x29]
    (∀ s ∈ t.segs, hardcoded.cls s.cp = ds'.cls s.cp ∧ hardcoded.brk s.cp = ds'.brk s.cp) ∧
    hardcoded.cls 0x10000 ≠ ds'.cls 0x10000 ∧ hardcoded.brk 0x2329 ≠ ds'.brk 0x2329 := by
  decide +kernel

/-- the built-in source passed explicitly is the convenience constructor (definitional in the Model:
    `BidiInfo::new` is `new_with_data_source(&HardcodedBidiData, …)`; the harness compares the two Rust entry points) -/
theorem C12_builtin_explicit (t d) : bidiInfo hardcoded t d = bidiInfo { cls := bidiClass, brk := bracket } t d := rfl

end UBidi.Props.C12
