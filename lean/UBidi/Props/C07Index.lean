/-
  C07 (index safety) — the per-paragraph resolver never indexes or slices out of range.

  THE GAP THIS CLOSES.  `C07_para` / `C07_analysis` (Props/C07.lean) prove `err = none` for the panic
  sites the Model records in its sticky `err` field (`unwrap`, `expect`, `assert!`, …).  Ordinary
  indexing `a[i]`, `&a[x..y]` of the crate is transcribed in the Model by TOTALISED operations
  (`List.getD`, `cget`, `List.set`, `setRange`, `setAll`, `setWhileBN`, `setWhileNsmOrBN`, `take`,
  `drop`, `xs[i]?`): an index out of range — a panic in Rust — silently reads a default or writes
  nothing, and `err = none` says nothing about it.

  THE CONSTRUCTION.  `UBidi/Lemmas/CheckedDefs.lean` defines, in one marked section, checked primitives
  that carry an out-of-bounds flag,
      `Chk α = { val : α, oob : Bool }`,  `rd xs i d`, `wr xs i v`, `rdOpt`, `slc len x y`, `sliceC`,
      `takeC`, `dropC`, `idxC`, `lastC`, `dec1` (the `usize` subtraction `i - 1` used as an index), `oobFail`,
  and for every stage function `f` of `compute_bidi_info_for_para` a CHECKED COPY `fC`: the same
  algorithm statement for statement, in which every array read, write and slice goes through these
  primitives and the flags are ORed (`Chk` is a writer monad).  Below the primitives section the file
  mentions none of the totalised operations and none of the unchecked stage functions (audit by grep,
  see the header of that file).  For every stage two facts are proved:

    (val)  `(fC args).val = f args`       — the copy computes exactly the Model function, so it did not
                                            drift (Lemmas/CheckedVal.lean; no hypotheses, except where the
                                            copy is the crate's index loop and the Model zips:
                                            `resolveLevelsC`, equal when the crate's `assert_eq!` passes);
    (oob)  `(fC args).oob = false`        — under the invariants that hold where the pipeline calls the
                                            stage, stated as explicit hypotheses
                                            (Lemmas/CheckedOob.lean, CheckedOobNeutral.lean, CheckedOobPipeline.lean).

  Together: running the Model function IS running the checked copy, and the checked copy never leaves
  the arrays.  `C07_index_para` composes the stages for one paragraph (`compute_bidi_info_for_para`),
  discharging every stage hypothesis from what the preceding stages produce; `C07_index_safe` is the
  statement for `BidiInfo::new` / `ParagraphBidiInfo::new` on every well-formed text, every data source and
  every base-direction argument.

  Stage theorems (each: val ∧ oob):
    `C07_index_explicit`        explicit::compute              (t.WF, one class per unit)
    `C07_index_sequences`       prepare::isolating_run_sequences (runs tile [0,n), arrays of length n)
    `C07_index_resolveWeak`     implicit::resolve_weak         (runs inside [0,n], array of length n, unit 0 starts a char)
    `C07_index_bracketPairs`    implicit::identify_bracket_pairs
    `C07_index_n0Pair`          N0 for one pair                (pair inside the sequence: `PairIn`)
    `C07_index_pairs_in`        … which every pair found by BD16 is
    `C07_index_resolveNeutral`  implicit::resolve_neutral      (t.WF, `SeqOK t.len seq`, arrays of length t.len)
    `C07_index_resolveLevels`   implicit::resolve_levels       (equal lengths)
    `C07_index_fillRemoved`     assign_levels_to_removed_chars (equal lengths)

  NOT covered: `compute_initial_info` (first pass, Model/Initial.lean) and the line queries
  (Model/Reorder.lean) — they keep their totalised accesses.  In `explicit::compute` the Model builds the
  two arrays by appending, so there the crate's writes `levels[i + j]`, `processing_classes[i + j]`
  (`j < len`) are represented by the bounds check of the range `i .. i + len` rather than by `wr`.
-/
import UBidi.Lemmas.CheckedOobPipeline
import UBidi.Lemmas.C10Slice
import UBidi.Lemmas.C10LinesParas
import UBidi.Props.C02
import UBidi.Props.C07
namespace UBidi.Props.C07Index
open UBidi UBidi.BidiClass UBidi.Checked UBidi.Expand

/-! ### the stages -/

/-- `explicit::compute` -/
theorem C07_index_explicit (t : Text) (hwf : t.WF) (pl : Nat) (ocs : List BidiClass) (hlen : ocs.length = t.len) :
    (explicitComputeC t pl ocs).val = explicitCompute t pl ocs ∧ (explicitComputeC t pl ocs).oob = false :=
  ⟨explicitComputeC_val t pl ocs, explicitComputeC_oob t hwf pl ocs hlen⟩

/-- what the explicit stage hands on: the level runs are non-empty, consecutive and tile the text, and
    both arrays have one entry per code unit -/
theorem C07_index_explicit_out (t : Text) (hwf : t.WF) (pl : Nat) (ocs : List BidiClass) :
    RunsTile 0 (explicitCompute t pl ocs).runs t.len ∧
    (explicitCompute t pl ocs).levels.length = t.len ∧ (explicitCompute t pl ocs).pcs.length = t.len :=
  ⟨explicit_runs_tile t hwf pl ocs, Props.C11.C11_explicit_length t hwf pl ocs⟩

/-- `prepare::isolating_run_sequences` (both paths) -/
theorem C07_index_sequences (pl : Nat) (ocs : List BidiClass) (levels : List Nat) (runs : List (Nat × Nat))
    (hasIso : Bool) (n : Nat) (ht : RunsTile 0 runs n) (ho : ocs.length = n) (hl : levels.length = n) :
    (isolatingRunSequencesC pl ocs levels runs hasIso).val = isolatingRunSequences pl ocs levels runs hasIso ∧
    (isolatingRunSequencesC pl ocs levels runs hasIso).oob = false :=
  ⟨isolatingRunSequencesC_val pl ocs levels runs hasIso,
   isolatingRunSequencesC_oob pl ocs levels runs hasIso n ht ho hl⟩

/-- `implicit::resolve_weak`: the array has `n` entries, every run of the sequence lies in `[0, n]`, and a
    unit that `char_at` does not report as a character start is not unit 0 (`processing_classes[i - 1]`) -/
theorem C07_index_resolveWeak (charLenAt : Nat → Option Nat) (seq : IRSeq) (pcs : Classes) (n : Nat)
    (hs : ∀ r ∈ seq.runs, r.1 ≤ n ∧ r.2 ≤ n) (hl : pcs.length = n)
    (hf : ∀ i, i < n → charLenAt i = none → 0 < i) :
    (resolveWeakC charLenAt seq pcs).val = resolveWeak charLenAt seq pcs ∧
    (resolveWeakC charLenAt seq pcs).oob = false :=
  ⟨resolveWeakC_val charLenAt seq pcs, resolveWeakC_oob charLenAt seq pcs n hs hl hf⟩

/-- `implicit::identify_bracket_pairs` -/
theorem C07_index_bracketPairs (ds : DataSource) (t : Text) (seq : IRSeq) (ocs pcs : Classes)
    (hs : ∀ r ∈ seq.runs, r.1 ≤ r.2 ∧ r.2 ≤ t.len) (ho : ocs.length = t.len) (hp : pcs.length = t.len) :
    (identifyBracketPairsC ds t seq ocs pcs).val = identifyBracketPairs ds t seq ocs pcs ∧
    (identifyBracketPairsC ds t seq ocs pcs).oob = false :=
  ⟨identifyBracketPairsC_val ds t seq ocs pcs, identifyBracketPairsC_oob ds t seq ocs pcs hs ho hp⟩

/-- the bracket pairs come from the sequence's own positions: opener before closer, both inside the text,
    both run numbers are run numbers of the sequence -/
theorem C07_index_pairs_in (ds : DataSource) (t : Text) (hwf : t.WF) (seq : IRSeq) (hs : SeqOK t.len seq)
    (ocs pcs : Classes) : ∀ p ∈ identifyBracketPairs ds t seq ocs pcs,
      p.start < p.stop ∧ p.stop < t.len ∧ p.startRun < seq.runs.length ∧ p.endRun < seq.runs.length :=
  fun p hp => let h := pairs_in ds t hwf seq hs ocs pcs p hp; ⟨h.lt, h.stop, h.sr, h.er⟩

/-- N0 for one bracket pair -/
theorem C07_index_n0Pair (t : Text) (hwf : t.WF) (seq : IRSeq) (e : BidiClass) (ocs : Classes)
    (st : Classes × Option Panic) (pair : BracketPair) (hs : ∀ r ∈ seq.runs, r.1 ≤ t.len ∧ r.2 ≤ t.len)
    (ho : ocs.length = t.len) (hl : st.1.length = t.len)
    (hp : pair.start < pair.stop ∧ pair.stop < t.len ∧ pair.startRun < seq.runs.length ∧
      pair.endRun < seq.runs.length) :
    (n0PairC t seq e ocs st pair).val = n0Pair t seq e ocs st pair ∧ (n0PairC t seq e ocs st pair).oob = false :=
  ⟨n0PairC_val t seq e ocs st pair,
   n0PairC_oob t hwf seq e ocs st pair hs ho hl ⟨hp.1, hp.2.1, hp.2.2.1, hp.2.2.2⟩⟩

/-- `implicit::resolve_neutral` (`levels[sequence.runs[0].start]`, BD16, N0, N1/N2) -/
theorem C07_index_resolveNeutral (ds : DataSource) (t : Text) (hwf : t.WF) (seq : IRSeq) (levels : List Nat)
    (ocs pcs : Classes) (hs : SeqOK t.len seq) (hne : seq.runs ≠ []) (hlv : levels.length = t.len)
    (ho : ocs.length = t.len) (hp : pcs.length = t.len) :
    (resolveNeutralC ds t seq levels ocs pcs).val = resolveNeutral ds t seq levels ocs pcs ∧
    (resolveNeutralC ds t seq levels ocs pcs).oob = false :=
  ⟨resolveNeutralC_val ds t seq levels ocs pcs, resolveNeutralC_oob ds t hwf seq levels ocs pcs hs hne hlv ho hp⟩

/-- `implicit::resolve_levels` -/
theorem C07_index_resolveLevels (pcs : Classes) (levels : List Nat) (h : pcs.length = levels.length) :
    (resolveLevelsC pcs levels).val = resolveLevels pcs levels ∧ (resolveLevelsC pcs levels).oob = false :=
  ⟨resolveLevelsC_val pcs levels h, resolveLevelsC_oob pcs levels h⟩

/-- `assign_levels_to_removed_chars` -/
theorem C07_index_fillRemoved (pl : Nat) (ocs : List BidiClass) (levels : List Nat)
    (h : ocs.length = levels.length) :
    (assignLevelsToRemovedCharsC pl ocs levels).val = assignLevelsToRemovedChars pl ocs levels ∧
    (assignLevelsToRemovedCharsC pl ocs levels).oob = false :=
  ⟨assignLevelsToRemovedCharsC_val pl ocs levels, assignLevelsToRemovedCharsC_oob pl ocs levels h⟩

/-! ### one paragraph -/

/-- **`compute_bidi_info_for_para` with checked stages**: on a well-formed paragraph text with one class
    per code unit, for every data source, paragraph level and flag values, the checked pipeline computes the
    Model's `paraLevels` and raises no out-of-bounds flag -/
theorem C07_index_para (ds : DataSource) (pl : Nat) (pure hasIso : Bool) (t : Text) (hwf : t.WF)
    (ocs : List BidiClass) (hlen : ocs.length = t.len) :
    (paraLevelsC ds pl pure hasIso t ocs).val = paraLevels ds pl pure hasIso t ocs ∧
    (paraLevelsC ds pl pure hasIso t ocs).oob = false :=
  ⟨paraLevelsC_val ds pl pure hasIso t hwf ocs, paraLevelsC_oob ds pl pure hasIso t hwf ocs hlen⟩

/-! ### the two analysis types -/

/-- every paragraph that `compute_initial_info` reports for a well-formed text: its range lies in the text,
    its own text is well formed, and its slice of the classes has one entry per code unit -/
theorem para_facts (ds : DataSource) (t : Text) (hwf : t.WF) (d : Option Nat) (p : ParaInfo) (f : Flags)
    (hpf : (p, f) ∈ (computeInitialInfo ds t d true).paras.zip (computeInitialInfo ds t d true).flags) :
    p.start ≤ p.stop ∧ p.stop ≤ t.len ∧ (t.subrange p.start p.stop).WF ∧
    (slice (computeInitialInfo ds t d true).classes p.start p.stop).length = (t.subrange p.start p.stop).len := by
  obtain ⟨hgood, _⟩ := Lemmas.C10.paras_good ds t hwf d
  obtain ⟨hw, _, hcls, _⟩ := Lemmas.C10.parasFrom_zip_mem hgood p f hpf
  obtain ⟨hpart, _⟩ := Props.C02.C02_partition ds t d hwf
  obtain ⟨_, h2, h3⟩ := Lemmas.C10Lines.parasFrom_bounds hpart p (List.of_mem_zip hpf).1
  refine ⟨Nat.le_of_lt h2, h3, hw, ?_⟩
  rw [← hcls]
  exact Props.C02.C02_classes_length ds _ d hw false

/-- **C07, index safety.**  For every data source, every well-formed text and every base-direction
    argument: `BidiInfo::new_with_data_source` and `ParagraphBidiInfo::new_with_data_source`, run with the
    checked stages of `compute_bidi_info_for_para` on every paragraph (and the checked paragraph-range
    slices), compute exactly the Model's `bidiInfo` / `paragraphBidiInfo` and raise no out-of-bounds flag. -/
theorem C07_index_safe (ds : DataSource) (t : Text) (hwf : t.WF) (d : Option Nat) :
    ((bidiInfoC ds t d).val = bidiInfo ds t d ∧ (bidiInfoC ds t d).oob = false) ∧
    ((paragraphBidiInfoC ds t d).val = paragraphBidiInfo ds t d ∧ (paragraphBidiInfoC ds t d).oob = false) := by
  have hcl := Props.C02.C02_classes_length ds t d hwf true
  refine ⟨⟨?_, ?_⟩, ⟨?_, ?_⟩⟩
  · unfold bidiInfoC bidiInfo
    simp only [val_bind, val_pure]
    rw [foldlC_val_mem _ (fun (acc : List Nat × Option Panic) (pf : ParaInfo × Flags) =>
        let p := pf.1
        let (lv, e) := paraLevels ds p.level pf.2.pureLtr pf.2.hasIso (t.subrange p.start p.stop)
                         (slice (computeInitialInfo ds t d true).classes p.start p.stop)
        (acc.1 ++ lv, orErr acc.2 e))]
    intro acc pf hpf
    obtain ⟨_, _, hw, _⟩ := para_facts ds t hwf d pf.1 pf.2 hpf
    simp only [val_bind, val_pure, sliceC_val, paraLevelsC_val ds _ _ _ _ hw]
  · unfold bidiInfoC
    simp only [oob_bind, oob_pure, Bool.or_false]
    refine (foldlC_oob _ (fun _ => True) _ _ trivial ?_).1
    intro acc _ pf hpf
    obtain ⟨h1, h2, hw, hlen⟩ := para_facts ds t hwf d pf.1 pf.2 hpf
    refine ⟨?_, trivial⟩
    simp only [oob_bind, oob_pure, sliceC_val, slc_oob h1 h2, sliceC_oob h1 (by rw [hcl]; exact h2),
      paraLevelsC_oob ds _ _ _ _ hw _ hlen, Bool.or_self]
  · unfold paragraphBidiInfoC paragraphBidiInfo
    simp only [val_bind, val_pure, paraLevelsC_val ds _ _ _ t hwf]
  · unfold paragraphBidiInfoC
    simp only [oob_bind, oob_pure, Bool.or_false]
    exact paraLevelsC_oob ds _ _ _ t hwf _ (Props.C02.C02_classes_length ds t d hwf false)

/-! ### non-vacuity -/

/-- the hypotheses of `C07_index_para` are met by `C07.exPara` ("a RLE ( א LRI b PDI ) PDF" as a `&str`:
    an embedding, an isolate, a bracket pair across two level runs) -/
example : C07.exPara.WF ∧ C07.exParaCls.length = C07.exPara.len :=
  ⟨C01.Base.ofScalars_WF _, by decide⟩
/-- test: the checked pipeline on that paragraph, evaluated: no flag, the Model's levels -/
example : (paraLevelsC hardcoded 0 false true C07.exPara C07.exParaCls).oob = false ∧
    (paraLevelsC hardcoded 0 false true C07.exPara C07.exParaCls).val =
      ([0, 0, 0, 0, 1, 1, 1, 1, 1, 1, 2, 1, 1, 1, 1, 1, 1, 1], none) := by decide +kernel

/-! The flag is NOT vacuous: outside the invariants the checked stages DO raise it (while their value is
    still the Model's, which silently reads defaults and drops writes there). -/

/-- test: `resolve_weak` on an array that is too short for the run `0..3` -/
example : (resolveWeakC (fun _ => some 1) { runs := [(0, 3)], sos := L, eos := L } [L, EN]).oob = true ∧
    resolveWeak (fun _ => some 1) { runs := [(0, 3)], sos := L, eos := L } [L, EN] = [L, L] := by
  decide +kernel
/-- test: the same array with the run `0..2` that fits: no flag -/
example : (resolveWeakC (fun _ => some 1) { runs := [(0, 2)], sos := L, eos := L } [L, EN]).oob = false := by
  decide +kernel
/-- test: `processing_classes[i - 1]` at `i = 0` (a separator at unit 0 that `char_at` does not report
    as a character start — impossible in a well-formed text) -/
example : (resolveWeakC (fun _ => none) { runs := [(0, 2)], sos := L, eos := L } [CS, L]).oob = true := by
  decide +kernel
/-- test: N1/N2 with a run reaching beyond the array -/
example : (n12C { runs := [(0, 5)], sos := L, eos := L } L [ON, ON, ON]).oob = true := by decide +kernel
/-- test: `resolve_neutral` with a `levels` array that does not reach the first run -/
example : (resolveNeutralC hardcoded (Text.ofScalars [0x61, 0x62, 0x63, 0x64]) { runs := [(2, 4)], sos := L, eos := L }
    [0, 0] [L, L, L, L] [L, L, L, L]).oob = true := by decide +kernel
/-- test: N0 for a "pair" whose closer precedes its opener (`text.subrange(start..end)` with `start > end`) -/
example : (n0PairC (Text.ofScalars [0x28, 0x61, 0x29]) { runs := [(0, 3)], sos := L, eos := L } L [ON, L, ON]
    ([ON, L, ON], none) { start := 2, stop := 0, startRun := 0, endRun := 0 }).oob = true := by decide +kernel
/-- test: a bracket pair labelled with a run number the sequence does not have (`self.runs[level_run_index..]`) -/
example : (n0PairC (Text.ofScalars [0x28, 0x61, 0x29]) { runs := [(0, 3)], sos := L, eos := L } L [ON, L, ON]
    ([ON, L, ON], none) { start := 0, stop := 2, startRun := 1, endRun := 1 }).oob = true := by decide +kernel
/-- test: `resolve_levels` with fewer classes than levels -/
example : (resolveLevelsC [L, R] [0, 0, 0]).oob = true := by decide +kernel
/-- test: `isolating_run_sequences` (fast path) with a level run that ends beyond the arrays -/
example : (isolatingRunSequencesC 0 [L, L] [0, 0] [(0, 3)] false).oob = true := by decide +kernel
/-- test: the whole paragraph pipeline with classes for the first ten code units only -/
example : (paraLevelsC hardcoded 0 false true C07.exPara (C07.exParaCls.take 10)).oob = true := by
  decide +kernel
/-- test: `ParagraphBidiInfo::new` / `BidiInfo::new` with checked stages on `C02.exText`, evaluated -/
example : (bidiInfoC hardcoded C02.exText none).oob = false ∧
    (paragraphBidiInfoC hardcoded C02.exText none).oob = false := by decide +kernel

end UBidi.Props.C07Index
