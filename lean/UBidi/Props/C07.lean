/-
  C07 — Analysis and reordering never panic on any text.

  In the Model every panic site of the crate (`unwrap` / `expect` / `assert!` / slice and index
  errors) is a sticky `err : Option Panic` field, so "returns normally" is `err = none`.

  * `C07_para`        — `compute_bidi_info_for_para` on a well-formed paragraph text, any data source;
  * `C07_analysis`    — `BidiInfo::new` / `ParagraphBidiInfo::new`, any data source (no FSI-width proviso
    is needed any more, since the repair of finding D10);
  * `C07_analysis_str`, `C07_analysis_u16` — the built-in tables, every `&str`, every `&[u16]`;
  * `C07_line_levels` (and `C07_line_levels_any`, without well-formedness or uniformity),
    `C07_visual_runs`, `C07_reorder_visual`, `C07_line_runs`, `C07_reorder_line`,
    `C07_reorder_line_not_utf8` — the line queries one by one;
  * `C07_total_u16` — analysis and every line query, built-in data, every `&[u16]`: complete;
  * `C07_total_partial`, `C07_total_single_partial`, `C07_total_str_partial` — the same for any data
    source / `&str`; `reorder_line` on a `str` needs the stored levels to be uniform within characters
    (`UniformOn`, property C08), taken as a hypothesis — see the note before `C07_total_partial`.

  The direction queries (`paraDirection`, `baseDirection`, `BidiInfo.hasRtl`, `ParagraphBidiInfo.hasRtl`,
  `levelAt`) are total functions of the Model without an `err` component: the crate code they
  transcribe contains no panic site, so there is nothing to state for them.

  Helper lemmas: `UBidi/Lemmas/C07Runs.lean` (level runs are non-empty, BD13 asserts),
  `UBidi/Lemmas/C07Neutral.lean` (bracket pairs sit at character starts, N0 `unwrap`s),
  `UBidi/Lemmas/C07Line.lean` (L1 assert, run boundaries are character boundaries),
  `UBidi/Lemmas/C07Levels.lean` (stored levels ≤ 126, one per code unit).
-/
import UBidi.Model.Reorder
import UBidi.Spec.UAX9
import UBidi.Spec.Reorder
import UBidi.Lemmas.C07Runs
import UBidi.Lemmas.C07Neutral
import UBidi.Lemmas.C07Line
import UBidi.Lemmas.C07Levels
import UBidi.Lemmas.C01Base
import UBidi.Lemmas.C10Slice
import UBidi.Lemmas.C17
import UBidi.Props.C02
import UBidi.Props.C03
import UBidi.Props.C04
import UBidi.Props.C05
import UBidi.Props.C11
import UBidi.Props.C14
import UBidi.Props.C18
namespace UBidi.Props.C07
open UBidi UBidi.BidiClass UBidi.Lemmas.C07

/-! ### one paragraph -/

/-- the analysis of one paragraph cannot panic: none of
    `stack.last().unwrap()`, `assert_eq!(text.len(), original_classes.len())` (explicit.rs),
    the three asserts of `isolating_run_sequences` (prepare.rs), `level_runs[0]` and the two
    `chars().next().unwrap()` of N0, `raise(..).expect` and the `assert_eq!` of `resolve_levels`
    (implicit.rs) is reachable -/
theorem C07_para (ds : DataSource) (pl : Nat) (hpl : pl ≤ 1) (pure hasIso : Bool) (t : Text)
    (hwf : t.WF) (ocs : List BidiClass) (hlen : ocs.length = t.len) :
    (paraLevels ds pl pure hasIso t ocs).2 = none := by
  unfold paraLevels
  split
  · rfl
  · have hex := C11.C11_explicit_no_panic t hwf pl hpl ocs hlen
    have hruns := explicit_runs_nonempty t hwf pl ocs
    obtain ⟨hirs, hseqs⟩ := isolatingRunSequences_ok pl ocs (explicitCompute t pl ocs).levels
      (explicitCompute t pl ocs).runs hasIso hruns
    have hrs := resolveSequences_err ds t (explicitCompute t pl ocs).levels ocs
      (isolatingRunSequences pl ocs (explicitCompute t pl ocs).levels (explicitCompute t pl ocs).runs hasIso).1
      (explicitCompute t pl ocs).pcs hseqs
    have hl125 : ∀ l ∈ (explicitCompute t pl ocs).levels, l ≤ 125 :=
      fun l hl => (C11.C11_explicit_le_125 t pl hpl ocs l hl).2
    obtain ⟨hL, hP⟩ := C11.C11_explicit_length t hwf pl ocs
    have hrl := (C11.C11_resolved_le_126
      (resolveSequences ds t (explicitCompute t pl ocs).levels ocs
        (isolatingRunSequences pl ocs (explicitCompute t pl ocs).levels (explicitCompute t pl ocs).runs hasIso).1
        (explicitCompute t pl ocs).pcs).1
      (explicitCompute t pl ocs).levels hl125
      (by rw [C01.Base.resolveSequences_length, hP, hL])).2.1
    simp only [hex, hirs, hrs, hrl]
    rfl

/-- non-vacuity (test on a literal): "a RLE ( א LRI b PDI ) PDF" as a `&str` with its classes —
    well formed, an explicit embedding, an isolate, and a bracket pair that opens in the first and
    closes in the second level run of an isolating run sequence -/
def exPara : Text := Text.ofScalars [0x61, 0x202B, 0x28, 0x5D0, 0x2066, 0x62, 0x2069, 0x29, 0x202C]
def exParaCls : List BidiClass :=
  [L, RLE, RLE, RLE, ON, R, R, LRI, LRI, LRI, L, PDI, PDI, PDI, ON, PDF, PDF, PDF]

example : (0 : Nat) ≤ 1 ∧ exPara.WF ∧ exParaCls.length = exPara.len :=
  ⟨by decide, C01.Base.ofScalars_WF _, by decide⟩
/-- test: the levels of that paragraph (the general path is taken: not pure LTR, has isolates) -/
example : paraLevels hardcoded 0 false true exPara exParaCls =
    ([0, 0, 0, 0, 1, 1, 1, 1, 1, 1, 2, 1, 1, 1, 1, 1, 1, 1], none) := by decide +kernel
/-- test: its sequences and the one bracket pair -/
example :
    let ex := explicitCompute exPara 0 exParaCls
    let seqs := (isolatingRunSequences 0 exParaCls ex.levels ex.runs true).1
    seqs.map (·.runs) = [[(0, 4)], [(10, 11)], [(4, 10), (11, 18)]] ∧
    seqs.map (fun s => identifyBracketPairs hardcoded exPara s exParaCls ex.pcs) =
      [[], [], [{ start := 4, stop := 14, startRun := 0, endRun := 1 }]] := by decide +kernel

/-! ### the two analysis types -/

/-- the levels that `compute_initial_info` stores for the paragraphs are 0 or 1 when the requested
    base direction is auto, LTR or RTL -/
theorem para_level_le_one (ds : DataSource) (t : Text) (hwf : t.WF) (d : Option Nat)
    (hd : d = none ∨ d = some 0 ∨ d = some 1) :
    ∀ p ∈ (computeInitialInfo ds t d true).paras, p.level ≤ 1 := by
  intro p hp
  obtain ⟨f, _, hg, _⟩ := Lemmas.C10.parasFrom_mem (Lemmas.C10.paras_good ds t hwf d).1 p hp
  obtain ⟨_, _, _, hlv, _⟩ := hg
  rw [← hlv]
  rcases Lemmas.C17.lastLevel_le_one ds (t.subrange p.start p.stop) d hd false with h | h <;> omega

/-- constructing either analysis type cannot panic, for every data source (whatever characters it
    gives class FSI to: no width proviso since the repair of finding D10), every well-formed text
    and each of the three base-direction choices -/
theorem C07_analysis (ds : DataSource) (t : Text) (hwf : t.WF) (d : Option Nat)
    (hd : d = none ∨ d = some 0 ∨ d = some 1) :
    (bidiInfo ds t d).err = none ∧ (paragraphBidiInfo ds t d).err = none := by
  constructor
  · obtain ⟨hgood, _⟩ := Lemmas.C10.paras_good ds t hwf d
    rw [Lemmas.C10.bidiInfo_eq]
    simp only
    obtain ⟨_, _, l3, _⟩ := Lemmas.C10.levels_fold ds t d _ _ t.len _ _ 0 hgood
      ([], (computeInitialInfo ds t d true).err) rfl
    apply l3 (C02.C02_no_panic ds t d hwf true)
    intro p f hpf
    obtain ⟨hw, _, hcls, hlv, _⟩ := Lemmas.C10.parasFrom_zip_mem hgood p f hpf
    apply C07_para ds p.level ?_ _ _ _ hw
    · rw [← hcls]; exact C02.C02_classes_length ds _ d hw false
    · exact para_level_le_one ds t hwf d hd p (List.of_mem_zip hpf).1
  · simp only [paragraphBidiInfo]
    rw [C02.C02_no_panic ds t d hwf false]
    rw [C07_para ds _ ?_ _ _ t hwf _ (C02.C02_classes_length ds t d hwf false)]
    · rfl
    · rcases Lemmas.C17.lastLevel_le_one ds t d hd false with h | h <;> omega

/-- non-vacuity: `C02.exText` ("FSI א PDI ⏎ a FSI RLI b PDI ב", two paragraphs, the second with an
    unclosed isolate) with the built-in data meets the hypotheses of `C07_analysis` -/
example : (bidiInfo hardcoded C02.exText none).err = none ∧ (paragraphBidiInfo hardcoded C02.exText none).err = none :=
  C07_analysis hardcoded C02.exText C02.exText_wf none (Or.inl rfl)
/-- test: and the analysis is not trivial there -/
example : (bidiInfo hardcoded C02.exText none).levels =
    [0, 0, 0, 1, 1, 0, 0, 0, 0, 0, 0, 0, 0, 1, 1, 1, 4, 1, 1, 1, 1, 1] := by decide +kernel

/-! ### the built-in tables -/

/-- with the built-in data, for every `&str` (given by its scalar values) -/
theorem C07_analysis_str (cs : List Nat) (d : Option Nat) (hd : d = none ∨ d = some 0 ∨ d = some 1) :
    (bidiInfo hardcoded (Text.ofScalars cs) d).err = none ∧
    (paragraphBidiInfo hardcoded (Text.ofScalars cs) d).err = none :=
  C07_analysis hardcoded _ (C01.Base.ofScalars_WF cs) d hd

/-- with the built-in data, for every `&[u16]` (lone surrogates included) -/
theorem C07_analysis_u16 (u : List Nat) (h16 : ∀ x ∈ u, x < 65536) (d : Option Nat)
    (hd : d = none ∨ d = some 0 ∨ d = some 1) :
    (bidiInfo hardcoded (Utf16.toText u) d).err = none ∧
    (paragraphBidiInfo hardcoded (Utf16.toText u) d).err = none :=
  C07_analysis hardcoded _ (C18.C18_wf u h16) d hd

/-! ### the line queries, one by one -/

/-- `reordered_levels(line)` and `reordered_levels_per_char(line)`: a line on character boundaries of a
    well-formed text whose stored levels are uniform within characters (`C03_line`, restated) -/
theorem C07_line_levels (t : Text) (hwf : t.WF) (classes : List BidiClass) (levels : List Nat) (pl a b : Nat)
    (hab : a < b) (ha : t.isBoundary a = true) (hbb : t.isBoundary b = true)
    (hc : classes.length = t.len) (hl : levels.length = t.len) (hul : C03.UniformOn t levels) :
    (reorderedLevels t classes levels pl a b).2 = none ∧
    (reorderedLevelsPerChar t classes levels pl a b).2 = none :=
  ⟨(C03.C03_line t hwf classes levels pl a b (by omega) ha hbb hc hl hul).1,
   (C03.C03_line t hwf classes levels pl a b (by omega) ha hbb hc hl hul).1⟩

/-- the same from less: the `assert_eq!(reset_to, None)` of `reorder_levels` is unreachable for every
    input, so only the range checks and (for `str`) the slicing on character boundaries matter -/
theorem C07_line_levels_any (t : Text) (classes : List BidiClass) (levels : List Nat) (pl a b : Nat)
    (hab : a ≤ b) (hbl : b ≤ levels.length) (hbc : b ≤ classes.length)
    (hbd : t.enc = .utf8 → t.isBoundary a = true ∧ t.isBoundary b = true) :
    (reorderedLevels t classes levels pl a b).2 = none ∧
    (reorderedLevelsPerChar t classes levels pl a b).2 = none :=
  ⟨reorderedLevels_err t classes levels pl a b hab hbl hbc hbd,
   reorderedLevels_err t classes levels pl a b hab hbl hbc hbd⟩

/-- `visual_runs_for_line` / `deprecated::visual_runs` (`C05_no_panic`, restated) -/
theorem C07_visual_runs (lv : List Nat) (a b : Nat) (hab : a < b) (hb : b ≤ lv.length)
    (h126 : ∀ l ∈ lv, l ≤ 126) : (visualRunsForLine lv a b).2 = none :=
  C05.C05_no_panic lv a b hab hb h126

/-- `reorder_visual` on any slice of valid levels (`C04_no_panic`, restated) -/
theorem C07_reorder_visual (lv : List Nat) (h126 : ∀ l ∈ lv, l ≤ 126) : (reorderVisual lv).2 = none :=
  C04.C04_no_panic lv h126

/-- `visual_runs(para, line)`: the runs of the line levels -/
theorem C07_line_runs (t : Text) (classes : List BidiClass) (levels : List Nat) (pl a b : Nat)
    (hab : a < b) (hbl : b ≤ levels.length) (h126 : ∀ l ∈ levels, l ≤ 126) (hpl : pl ≤ 126) :
    (visualRunsForLine (reorderedLevels t classes levels pl a b).1 a b).2 = none :=
  C05.C05_no_panic _ a b hab (by rw [(C03.C03_outside t classes levels pl a b).1]; exact hbl)
    (reorderedLevels_le t classes levels pl a b 126 hpl h126)

/-- `reorder_line(line)` on a non-empty line on character boundaries, stored levels ≤ 126 and uniform
    within characters: the level runs of the line then start and end on character boundaries, so the
    `str` slices `&text[run]` exist -/
theorem C07_reorder_line (t : Text) (hwf : t.WF) (classes : List BidiClass) (levels : List Nat)
    (pl a b : Nat) (hab : a < b) (ha : t.isBoundary a = true) (hbb : t.isBoundary b = true)
    (hc : classes.length = t.len) (hl : levels.length = t.len) (hul : C03.UniformOn t levels)
    (h126 : ∀ l ∈ levels, l ≤ 126) (hpl : pl ≤ 126) :
    (reorderLine t classes levels pl a b).2 = none :=
  reorderLine_ok t hwf classes levels pl a b hab ha hbb hc hl hul h126 hpl

/-- `reorder_line(line)` for `[u16]`: no slicing as `str`, hence no boundary or uniformity hypothesis -/
theorem C07_reorder_line_not_utf8 (t : Text) (classes : List BidiClass) (levels : List Nat) (pl a b : Nat)
    (henc : t.enc ≠ .utf8) (hab : a < b) (hbl : b ≤ levels.length) (hbc : b ≤ classes.length)
    (h126 : ∀ l ∈ levels, l ≤ 126) (hpl : pl ≤ 126) :
    (reorderLine t classes levels pl a b).2 = none :=
  reorderLine_ok_not_utf8 t classes levels pl a b henc hab hbl hbc h126 hpl

/-- non-vacuity of `C07_reorder_line` / `C07_line_levels`: the line `[4, 10)` of `C03.exText`
    (space, U+10000, TAB — multi-unit characters, odd and even levels) meets the hypotheses -/
example : (reorderLine C03.exText C03.exCls C03.exLv 1 4 10).2 = none :=
  C07_reorder_line C03.exText C03.exText_wf C03.exCls C03.exLv 1 4 10 (by decide) (by decide) (by decide)
    rfl rfl C03.exLv_uniform (by decide) (by decide)
/-- test: the hypothesis on the boundaries cannot be dropped for a `str` — a line that ends inside
    U+10000 panics (`byte index is not a char boundary`) -/
example : (reorderLine C03.exText C03.exCls C03.exLv 1 4 7).2 = some .sliceBoundary := by decide
/-- test: neither can uniformity — levels that change inside the two-unit character "é" make
    `reorder_line` cut it in two -/
example : (reorderLine (Text.ofScalars [0xE9, 0x5D0]) [L, L, R, R] [0, 1, 1, 1] 0 0 4).2 = some .sliceBoundary := by
  decide

/-! ### everything together -/

/-- every line query on the line `[a, b)` of an analysis `(classes, levels, paraLevel)` returns normally:
    `reordered_levels`, `reordered_levels_per_char`, `visual_runs`, `reorder_visual` on the line's levels,
    `reorder_line` -/
def LineQueriesOK (t : Text) (classes : List BidiClass) (levels : List Nat) (pl a b : Nat) : Prop :=
  (reorderedLevels t classes levels pl a b).2 = none ∧
  (reorderedLevelsPerChar t classes levels pl a b).2 = none ∧
  (visualRunsForLine (reorderedLevels t classes levels pl a b).1 a b).2 = none ∧
  (reorderVisual (slice (reorderedLevels t classes levels pl a b).1 a b)).2 = none ∧
  (reorderLine t classes levels pl a b).2 = none

/-- the line queries on stored classes and levels with one entry per code unit, levels ≤ 126: every
    non-empty line inside the text, on character boundaries if the text is a `str`; uniformity of the
    levels within characters is needed for a `str` only -/
theorem lineQueries_ok (t : Text) (hwf : t.WF) (classes : List BidiClass) (levels : List Nat) (pl : Nat)
    (hc : classes.length = t.len) (hl : levels.length = t.len) (h126 : ∀ l ∈ levels, l ≤ 126) (hpl : pl ≤ 126)
    (hu : t.enc = .utf8 → C03.UniformOn t levels)
    (a b : Nat) (hab : a < b) (hb : b ≤ t.len)
    (hbd : t.enc = .utf8 → t.isBoundary a = true ∧ t.isBoundary b = true) :
    LineQueriesOK t classes levels pl a b := by
  have h1 := C07_line_levels_any t classes levels pl a b (by omega) (by omega) (by omega) hbd
  refine ⟨h1.1, h1.2, C07_line_runs t classes levels pl a b hab (by omega) h126 hpl, ?_, ?_⟩
  · apply C07_reorder_visual
    intro l hl'
    exact reorderedLevels_le t classes levels pl a b 126 hpl h126 l
      (List.mem_of_mem_drop (List.mem_of_mem_take hl'))
  · by_cases henc : t.enc = .utf8
    · exact C07_reorder_line t hwf classes levels pl a b hab (hbd henc).1 (hbd henc).2 hc hl (hu henc) h126 hpl
    · exact C07_reorder_line_not_utf8 t classes levels pl a b henc hab (by omega) (by omega) h126 hpl

/-- what `BidiInfo::new` stores: one class and one level per code unit, valid levels, paragraph levels 0 / 1 -/
theorem bidiInfo_stored (ds : DataSource) (t : Text) (hwf : t.WF) (d : Option Nat)
    (hd : d = none ∨ d = some 0 ∨ d = some 1) :
    (bidiInfo ds t d).classes.length = t.len ∧ (bidiInfo ds t d).levels.length = t.len ∧
    (∀ l ∈ (bidiInfo ds t d).levels, l ≤ 126) ∧ ∀ p ∈ (bidiInfo ds t d).paras, p.level ≤ 1 := by
  have hlv := para_level_le_one ds t hwf d hd
  obtain ⟨hgood, _⟩ := Lemmas.C10.paras_good ds t hwf d
  have := bidi_fold_levels ds t d _ _ t.len _ _ 0 hgood hlv ([], (computeInitialInfo ds t d true).err) rfl
    (by simp)
  rw [Lemmas.C10.bidiInfo_eq]
  exact ⟨C02.C02_classes_length ds t d hwf true, this.1, this.2, hlv⟩

/-- what `ParagraphBidiInfo::new` stores -/
theorem paragraphBidiInfo_stored (ds : DataSource) (t : Text) (hwf : t.WF) (d : Option Nat)
    (hd : d = none ∨ d = some 0 ∨ d = some 1) :
    (paragraphBidiInfo ds t d).classes.length = t.len ∧ (paragraphBidiInfo ds t d).levels.length = t.len ∧
    (∀ l ∈ (paragraphBidiInfo ds t d).levels, l ≤ 126) ∧ (paragraphBidiInfo ds t d).paraLevel ≤ 1 := by
  have hp : (computeInitialInfo ds t d false).lastLevel ≤ 1 := by
    rcases Lemmas.C17.lastLevel_le_one ds t d hd false with h | h <;> omega
  exact ⟨C02.C02_classes_length ds t d hwf false, C01.Base.paraLevels_length ds _ _ _ t hwf _,
    paraLevels_le_126 ds _ hp _ _ t hwf _, hp⟩

/- NOTE on the `_partial` theorems below.  Full statement wanted: the same without the hypothesis
   `t.enc = .utf8 → UniformOn t (…).levels`.  Missing: that the levels stored by the analysis are uniform
   within every character (property C08).  `Props/C08.lean` proves it for the explicit, I1/I2 and fill
   stages (`C08_uniform_levels_partial`); what is open there is that `resolveWeak` / `resolveNeutral`
   keep the processing classes uniform within characters.  Everything else in the property — the
   construction, `reordered_levels`, `reordered_levels_per_char`, `visual_runs`, `reorder_visual` for a
   `str`, and all of it for `[u16]` — does not need it and is proved outright. -/

/-- `BidiInfo`: construction and every query on every non-empty line (inside the text; on character
    boundaries for a `str`) of every paragraph return normally -/
theorem C07_total_partial (ds : DataSource) (t : Text) (hwf : t.WF) (d : Option Nat)
    (hd : d = none ∨ d = some 0 ∨ d = some 1)
    (hu : t.enc = .utf8 → C03.UniformOn t (bidiInfo ds t d).levels) :
    (bidiInfo ds t d).err = none ∧
    ∀ p ∈ (bidiInfo ds t d).paras, ∀ a b, a < b → b ≤ t.len →
      (t.enc = .utf8 → t.isBoundary a = true ∧ t.isBoundary b = true) →
      LineQueriesOK t (bidiInfo ds t d).classes (bidiInfo ds t d).levels p.level a b := by
  obtain ⟨h1, h2, h3, h4⟩ := bidiInfo_stored ds t hwf d hd
  refine ⟨(C07_analysis ds t hwf d hd).1, ?_⟩
  intro p hp a b hab hb hbd
  exact lineQueries_ok t hwf _ _ p.level h1 h2 h3 (by have := h4 p hp; omega) hu a b hab hb hbd

/-- `ParagraphBidiInfo`: construction and every query on every non-empty line return normally -/
theorem C07_total_single_partial (ds : DataSource) (t : Text) (hwf : t.WF)
    (d : Option Nat) (hd : d = none ∨ d = some 0 ∨ d = some 1)
    (hu : t.enc = .utf8 → C03.UniformOn t (paragraphBidiInfo ds t d).levels) :
    (paragraphBidiInfo ds t d).err = none ∧
    ∀ a b, a < b → b ≤ t.len → (t.enc = .utf8 → t.isBoundary a = true ∧ t.isBoundary b = true) →
      LineQueriesOK t (paragraphBidiInfo ds t d).classes (paragraphBidiInfo ds t d).levels
        (paragraphBidiInfo ds t d).paraLevel a b := by
  obtain ⟨h1, h2, h3, h4⟩ := paragraphBidiInfo_stored ds t hwf d hd
  refine ⟨(C07_analysis ds t hwf d hd).2, ?_⟩
  intro a b hab hb hbd
  exact lineQueries_ok t hwf _ _ _ h1 h2 h3 (by omega) hu a b hab hb hbd

/-- **every `&[u16]`, built-in data — complete**: for every sequence of 16-bit code units (lone
    surrogates included), each base-direction choice, both analysis types: the construction returns
    normally, and so does every query on every non-empty line `a < b ≤ len` (for `BidiInfo`: with any
    of its paragraphs) -/
theorem C07_total_u16 (u : List Nat) (h16 : ∀ x ∈ u, x < 65536) (d : Option Nat)
    (hd : d = none ∨ d = some 0 ∨ d = some 1) :
    let t := Utf16.toText u
    ((bidiInfo hardcoded t d).err = none ∧
      ∀ p ∈ (bidiInfo hardcoded t d).paras, ∀ a b, a < b → b ≤ u.length →
        LineQueriesOK t (bidiInfo hardcoded t d).classes (bidiInfo hardcoded t d).levels p.level a b) ∧
    ((paragraphBidiInfo hardcoded t d).err = none ∧
      ∀ a b, a < b → b ≤ u.length →
        LineQueriesOK t (paragraphBidiInfo hardcoded t d).classes (paragraphBidiInfo hardcoded t d).levels
          (paragraphBidiInfo hardcoded t d).paraLevel a b) := by
  intro t
  have hwf : t.WF := C18.C18_wf u h16
  have henc : t.enc = .utf8 → False := fun h => by cases h
  obtain ⟨m1, m2⟩ := C07_total_partial hardcoded t hwf d hd (fun h => (henc h).elim)
  obtain ⟨s1, s2⟩ := C07_total_single_partial hardcoded t hwf d hd
    (fun h => (henc h).elim)
  exact ⟨⟨m1, fun p hp a b hab hb => m2 p hp a b hab hb (fun h => (henc h).elim)⟩,
    ⟨s1, fun a b hab hb => s2 a b hab hb (fun h => (henc h).elim)⟩⟩

/-- every `&str`, built-in data; see the NOTE above for the hypothesis `hu` -/
theorem C07_total_str_partial (cs : List Nat) (d : Option Nat) (hd : d = none ∨ d = some 0 ∨ d = some 1)
    (hu : C03.UniformOn (Text.ofScalars cs) (bidiInfo hardcoded (Text.ofScalars cs) d).levels) :
    let t := Text.ofScalars cs
    (bidiInfo hardcoded t d).err = none ∧
    ∀ p ∈ (bidiInfo hardcoded t d).paras, ∀ a b, a < b → t.isBoundary a = true → t.isBoundary b = true →
      LineQueriesOK t (bidiInfo hardcoded t d).classes (bidiInfo hardcoded t d).levels p.level a b := by
  intro t
  have hwf : t.WF := C01.Base.ofScalars_WF cs
  obtain ⟨m1, m2⟩ := C07_total_partial hardcoded t hwf d hd (fun _ => hu)
  refine ⟨m1, fun p hp a b hab ha hbb => m2 p hp a b hab ?_ (fun _ => ⟨ha, hbb⟩)⟩
  rcases (Lemmas.C03.isBoundary_iff t b).1 hbb with h | ⟨s, hs, h⟩
  · omega
  · have := (Lemmas.C03.SegsFrom_bounds hwf.tiles).2 s hs; omega

/-! ### non-vacuity of the combined theorems -/

/-- "A", a surrogate pair, א, a lone high surrogate, "(1)", LF, a lone low surrogate, ב -/
def exU16 : List Nat := [0x41, 0xD801, 0xDC01, 0x5D0, 0xD800, 0x28, 0x31, 0x29, 0x0A, 0xDC00, 0x5D1]

/-- non-vacuity of `C07_total_u16`: `exU16` consists of 16-bit units; its first paragraph is `[0, 9)` at
    level 0 (test), so the theorem applies to the line `[3, 8)` of that paragraph -/
example : LineQueriesOK (Utf16.toText exU16) (bidiInfo hardcoded (Utf16.toText exU16) none).classes
    (bidiInfo hardcoded (Utf16.toText exU16) none).levels 0 3 8 :=
  (C07_total_u16 exU16 (by decide) none (Or.inl rfl)).1.2 { start := 0, stop := 9, level := 0 }
    (by decide +kernel) 3 8 (by decide) (by decide)
/-- test: the levels of `exU16` (two paragraphs, the second one right-to-left) -/
example : (bidiInfo hardcoded (Utf16.toText exU16) none).levels = [0, 0, 0, 1, 1, 1, 2, 1, 0, 1, 1] ∧
    (bidiInfo hardcoded (Utf16.toText exU16) none).paras =
      [{ start := 0, stop := 9, level := 0 }, { start := 9, stop := 11, level := 1 }] := by decide +kernel

/-- non-vacuity of `C07_total_str_partial` (hence of `C07_total_partial`): the hypothesis `hu` holds for
    `C02.exText` (test, by evaluation), `[9, 22)` is its second paragraph, and the line `[10, 20)`
    (FSI RLI b PDI) is on character boundaries -/
example : LineQueriesOK C02.exText (bidiInfo hardcoded C02.exText none).classes
    (bidiInfo hardcoded C02.exText none).levels 0 10 20 :=
  (C07_total_str_partial [0x2068, 0x5D0, 0x2069, 0x0A, 0x61, 0x2068, 0x2067, 0x62, 0x2069, 0x5D1] none (Or.inl rfl)
    (by unfold C03.UniformOn; decide +kernel)).2 { start := 9, stop := 22, level := 0 }
    (by decide +kernel) 10 20 (by decide) (by decide +kernel) (by decide +kernel)

end UBidi.Props.C07
