/-
  C06, end to end — "`reorder_line` returns the line's characters in visual order", for the vectors the
  analysis itself stores, and against UAX #9.

  `Props/C06.lean` is RELATIVE: stated for arbitrary `classes` / `levels` / `pl` under the hypotheses
  "one class and one level per code unit, levels uniform within characters and ≤ 126, `pl ≤ 126`".  Here the
  theorems are instantiated with the vectors of `bidiInfo ds t d` (`BidiInfo::new`, with the level of any
  of its paragraphs) and of `paragraphBidiInfo ds t d` (`ParagraphBidiInfo::new`); the hypotheses are
  discharged by `Lemmas.LinePipeline.hyp_multi` / `hyp_single` (`C07.bidiInfo_stored`,
  `C07.paragraphBidiInfo_stored`, `C08Uniform.C08_uniform_levels_multi` / `_single`).  What remains:

      any data source `ds`, a well-formed text `t` (every `&str`, every `&[u16]`), a base direction `d`
      (auto / LTR / RTL), a paragraph `p` of the analysis, a non-empty line `[a, b)` whose ends are
      character boundaries of `t`

  (the line need not lie inside `p` for `C06_pipeline`; see the note in Props/C03Pipeline.lean).

  * `C06_pipeline`        — `BidiInfo::reorder_line(para, line)`: no panic (`C06_no_panic`); the characters of
                            the result are the line's characters in the order `Spec.l2` of the per-character
                            levels after `Spec.lineLevels` (`C06_chars`); a permutation of the line's
                            characters (`C06_perm`); the line itself when no level is odd after L1 (`C06_noop`);
                            runs on character boundaries (`C06_run_boundaries`); pieces are whole characters
                            (`C06_whole_chars`).
  * `C06_pipeline_single` — the same for `ParagraphBidiInfo::reorder_line(line)`.
  * `C06_pipeline_uax9`   — THE HEADLINE, combining with C01 (`C01Levels.C01_bidiInfo`) and C02: for a line
                            `[a, b)` INSIDE the paragraph `p` (`p.start ≤ a`, `b ≤ p.stop`) — any such line,
                            not only the whole paragraph — `reorder_line` does not panic and the characters
                            of its result are

                                Spec.l2 (Spec.lineLevels pl (levels UAX #9 assigns to the characters of the line))

                            applied to the line's characters, where `pl = Spec.paraLevel` (P2/P3) of the
                            paragraph and the levels are `Spec.paragraphLevels pl` (X1–X10, W1–W7, N0–N2, I1–I2)
                            of ALL the paragraph's characters with their classes after X5c
                            (`Spec.resolveFSI`), then restricted to the characters that start in `[a, b)`
                            (`C03Pipeline.uax9Para` / `uax9Line` / `uax9ParaLevel`: definitions in which nothing
                            computed by the Model occurs).  The stored `classes` / `levels` do not occur in the
                            right-hand side; the analysis enters only through the extent `[p.start, p.stop)`
                            of the paragraph, which `C02.C02_partition` characterises (the text cut after
                            every class-B character).
  * `C06_pipeline_uax9_str` — the headline for every `&str` (given by its scalar values) and the built-in
                            Unicode tables: no hypothesis on the text is left.
  * `C06_pipeline_single_uax9` — the headline for `ParagraphBidiInfo` on a one-paragraph text.
-/
import UBidi.Props.C03Pipeline
namespace UBidi.Props.C06Pipeline
open UBidi UBidi.BidiClass UBidi.Lemmas.LinePipeline
open UBidi.Props.C02 (segsIn raw)
open UBidi.Props.C03Pipeline (uax9Para uax9Line uax9ParaLevel wholePara)

section multi
variable (ds : DataSource) (t : Text) (hwf : t.WF) (d : Option Nat) (hd : d = none ∨ d = some 0 ∨ d = some 1)
  (p : ParaInfo) (hp : p ∈ (bidiInfo ds t d).paras)
  (a b : Nat) (hab : a < b) (ha : t.isBoundary a = true) (hbb : t.isBoundary b = true)
include hwf hd hp hab ha hbb

/-- **C06 end to end, `BidiInfo::reorder_line(para, line)`.** -/
theorem C06_pipeline :
    let B := bidiInfo ds t d
    let res := reorderLine t B.classes B.levels p.level a b
    let l1 := C06.lineL1 t B.classes B.levels p.level a b
    -- `C06_no_panic`
    res.2 = none ∧
    -- `C06_chars`
    C06.resultChars t a b res.1 = (Spec.l2 l1).map (fun k => ((C06.lineSegs t a b).getD k default).cp) ∧
    -- `C06_perm`
    (C06.resultChars t a b res.1).Perm ((C06.lineSegs t a b).map (·.cp)) ∧
    -- `C06_noop`
    ((∀ l ∈ l1, l % 2 = 0) → C06.resultChars t a b res.1 = (C06.lineSegs t a b).map (·.cp)) ∧
    -- `C06_run_boundaries`
    (∀ r ∈ (visualRunsForLine (reorderedLevels t B.classes B.levels p.level a b).1 a b).1,
      a ≤ r.1 ∧ r.1 < r.2 ∧ r.2 ≤ b ∧ t.isBoundary r.1 = true ∧ t.isBoundary r.2 = true) ∧
    -- `C06_whole_chars`
    (∀ ps, res.1 = some ps →
      (ps.flatMap (·.segs)).Perm (C06.lineSegs t a b) ∧
      ∀ q ∈ ps, ∃ x y, a ≤ x ∧ x < y ∧ y ≤ b ∧ t.isBoundary x = true ∧ t.isBoundary y = true ∧
        (if q.verbatim then q.segs else q.segs.reverse) = t.segs.filter (fun s => x ≤ s.start && s.start < y) ∧
        SegsFrom x (t.segs.filter (fun s => x ≤ s.start && s.start < y)) y ∧
        t.segs.filter (fun s => x ≤ s.start && s.start < y) <:+: C06.lineSegs t a b) := by
  intro B res l1
  have h := hyp_multi ds t hwf d hd p hp a b hab ha hbb
  exact ⟨C06.C06_no_panic t hwf _ _ _ a b hab h.hb ha hbb h.hc h.hl h.hul h.h126 h.hpl,
    C06.C06_chars t hwf _ _ _ a b hab h.hb ha hbb h.hc h.hl h.hul h.h126 h.hpl,
    C06.C06_perm t hwf _ _ _ a b hab h.hb ha hbb h.hc h.hl h.hul h.h126 h.hpl,
    C06.C06_noop t hwf _ _ _ a b hab h.hb ha hbb h.hc h.hl h.hul h.h126 h.hpl,
    C06.C06_run_boundaries t hwf _ _ _ a b hab h.hb ha hbb h.hc h.hl h.hul h.h126 h.hpl,
    C06.C06_whole_chars t hwf _ _ _ a b hab h.hb ha hbb h.hc h.hl h.hul h.h126 h.hpl⟩

/-- **C06 end to end against UAX #9 (headline).**  For a line inside the paragraph: `reorder_line` returns
    normally and the characters of its result are rule L2 of rule L1 of the levels UAX #9 assigns to the
    paragraph's characters, restricted to the line, applied to the line's characters.  `line` lists the
    characters of the line as `(character, class after X5c, UAX #9 level)`. -/
theorem C06_pipeline_uax9 (hpa : p.start ≤ a) (hpb : b ≤ p.stop) :
    let B := bidiInfo ds t d
    let res := reorderLine t B.classes B.levels p.level a b
    let line := uax9Line ds t d p a b
    let l1 := Spec.lineLevels (uax9ParaLevel ds t d p) (line.map (·.2))
    res.2 = none ∧
    C06.resultChars t a b res.1 = (Spec.l2 l1).map (fun k => ((line.map Prod.fst).getD k default).cp) ∧
    (C06.resultChars t a b res.1).Perm (line.map (·.1.cp)) ∧
    ((∀ l ∈ l1, l % 2 = 0) → C06.resultChars t a b res.1 = line.map (·.1.cp)) := by
  intro B res line l1
  obtain ⟨h1, h2, h3, h4, _⟩ := C06_pipeline ds t hwf d hd p hp a b hab ha hbb
  obtain ⟨_, u2, _, _, u5⟩ := C03Pipeline.C03_pipeline_uax9 ds t hwf d hd p hp a b hab ha hbb hpa hpb
  obtain ⟨_, _, c3, _⟩ := C03Pipeline.C03_pipeline ds t hwf d hd p hp a b hab ha hbb
  have e : C06.lineL1 t B.classes B.levels p.level a b = l1 := c3.symm.trans u5
  have hcp : line.map (·.1.cp) = (C06.lineSegs t a b).map (·.cp) := by
    rw [← u2, List.map_map]; rfl
  refine ⟨h1, ?_, ?_, ?_⟩
  · rw [h2, e, u2]
  · rw [hcp]; exact h3
  · intro hev
    rw [hcp]
    exact h4 (by rw [e]; exact hev)

end multi

/-- **the headline for every `&str` and the crate's built-in tables**: `cs` the scalar values of the string,
    `d` auto / LTR / RTL, `p` a paragraph of `BidiInfo::new`, `[a, b)` a non-empty line inside `p` on character
    boundaries -/
theorem C06_pipeline_uax9_str (cs : List Nat) (d : Option Nat) (hd : d = none ∨ d = some 0 ∨ d = some 1)
    (p : ParaInfo) (hp : p ∈ (bidiInfo hardcoded (Text.ofScalars cs) d).paras) (a b : Nat)
    (hpa : p.start ≤ a) (hab : a < b) (hpb : b ≤ p.stop)
    (ha : (Text.ofScalars cs).isBoundary a = true) (hbb : (Text.ofScalars cs).isBoundary b = true) :
    let t := Text.ofScalars cs
    let B := bidiInfo hardcoded t d
    let res := reorderLine t B.classes B.levels p.level a b
    let line := uax9Line hardcoded t d p a b
    let l1 := Spec.lineLevels (uax9ParaLevel hardcoded t d p) (line.map (·.2))
    res.2 = none ∧
    C06.resultChars t a b res.1 = (Spec.l2 l1).map (fun k => ((line.map Prod.fst).getD k default).cp) :=
  have h := C06_pipeline_uax9 hardcoded (Text.ofScalars cs) (C01.Base.ofScalars_WF cs) d hd p hp a b hab ha hbb
    hpa hpb
  ⟨h.1, h.2.1⟩

section single
variable (ds : DataSource) (t : Text) (hwf : t.WF) (d : Option Nat) (hd : d = none ∨ d = some 0 ∨ d = some 1)
  (a b : Nat) (hab : a < b) (ha : t.isBoundary a = true) (hbb : t.isBoundary b = true)
include hwf hd hab ha hbb

/-- **C06 end to end, `ParagraphBidiInfo::reorder_line(line)`**: the line anywhere in the text -/
theorem C06_pipeline_single :
    let Q := paragraphBidiInfo ds t d
    let res := reorderLine t Q.classes Q.levels Q.paraLevel a b
    let l1 := C06.lineL1 t Q.classes Q.levels Q.paraLevel a b
    res.2 = none ∧
    C06.resultChars t a b res.1 = (Spec.l2 l1).map (fun k => ((C06.lineSegs t a b).getD k default).cp) ∧
    (C06.resultChars t a b res.1).Perm ((C06.lineSegs t a b).map (·.cp)) ∧
    ((∀ l ∈ l1, l % 2 = 0) → C06.resultChars t a b res.1 = (C06.lineSegs t a b).map (·.cp)) ∧
    (∀ r ∈ (visualRunsForLine (reorderedLevels t Q.classes Q.levels Q.paraLevel a b).1 a b).1,
      a ≤ r.1 ∧ r.1 < r.2 ∧ r.2 ≤ b ∧ t.isBoundary r.1 = true ∧ t.isBoundary r.2 = true) ∧
    (∀ ps, res.1 = some ps →
      (ps.flatMap (·.segs)).Perm (C06.lineSegs t a b) ∧
      ∀ q ∈ ps, ∃ x y, a ≤ x ∧ x < y ∧ y ≤ b ∧ t.isBoundary x = true ∧ t.isBoundary y = true ∧
        (if q.verbatim then q.segs else q.segs.reverse) = t.segs.filter (fun s => x ≤ s.start && s.start < y) ∧
        SegsFrom x (t.segs.filter (fun s => x ≤ s.start && s.start < y)) y ∧
        t.segs.filter (fun s => x ≤ s.start && s.start < y) <:+: C06.lineSegs t a b) := by
  intro Q res l1
  have h := hyp_single ds t hwf d hd a b hab ha hbb
  exact ⟨C06.C06_no_panic t hwf _ _ _ a b hab h.hb ha hbb h.hc h.hl h.hul h.h126 h.hpl,
    C06.C06_chars t hwf _ _ _ a b hab h.hb ha hbb h.hc h.hl h.hul h.h126 h.hpl,
    C06.C06_perm t hwf _ _ _ a b hab h.hb ha hbb h.hc h.hl h.hul h.h126 h.hpl,
    C06.C06_noop t hwf _ _ _ a b hab h.hb ha hbb h.hc h.hl h.hul h.h126 h.hpl,
    C06.C06_run_boundaries t hwf _ _ _ a b hab h.hb ha hbb h.hc h.hl h.hul h.h126 h.hpl,
    C06.C06_whole_chars t hwf _ _ _ a b hab h.hb ha hbb h.hc h.hl h.hul h.h126 h.hpl⟩

/-- **against UAX #9**, for a text that is one paragraph (no class-B character except possibly the last) -/
theorem C06_pipeline_single_uax9 (hB : ∀ c ∈ (raw ds t).dropLast, c ≠ B) :
    let Q := paragraphBidiInfo ds t d
    let res := reorderLine t Q.classes Q.levels Q.paraLevel a b
    let line := uax9Line ds t d (wholePara t) a b
    let l1 := Spec.lineLevels (uax9ParaLevel ds t d (wholePara t)) (line.map (·.2))
    res.2 = none ∧
    C06.resultChars t a b res.1 = (Spec.l2 l1).map (fun k => ((line.map Prod.fst).getD k default).cp) := by
  intro Q res line l1
  obtain ⟨h1, h2, _⟩ := C06_pipeline_single ds t hwf d hd a b hab ha hbb
  obtain ⟨_, u2, _, _, u5⟩ := C03Pipeline.C03_pipeline_single_uax9 ds t hwf d hd a b hab ha hbb hB
  obtain ⟨_, _, c3, _⟩ := C03Pipeline.C03_pipeline_single ds t hwf d hd a b hab ha hbb
  have e : C06.lineL1 t Q.classes Q.levels Q.paraLevel a b = l1 := c3.symm.trans u5
  exact ⟨h1, by rw [h2, e, u2]⟩

end single

/-! ## Non-vacuity and tests (`decide +kernel` on the literals below are tests, not proofs of the property) -/

open UBidi.Props.C03Pipeline (exText exText_wf exPara exPara_mem exSingle)

/-- non-vacuity of `C06_pipeline`: `a א ␠ ב 😀 b ⏎ ג` (`C03Pipeline.exText`), built-in data, auto direction,
    the line `[0, 11)` = `a א ␠ ב 😀 b` of the first paragraph -/
example :
    let B := bidiInfo hardcoded exText none
    (reorderLine exText B.classes B.levels 0 0 11).2 = none ∧
    (C06.resultChars exText 0 11 (reorderLine exText B.classes B.levels 0 0 11).1).Perm
      ((C06.lineSegs exText 0 11).map (·.cp)) :=
  have h := C06_pipeline hardcoded exText exText_wf none (Or.inl rfl) exPara exPara_mem 0 11
    (by decide) (by decide +kernel) (by decide +kernel)
  ⟨h.1, h.2.2.1⟩

/-- non-vacuity of the headline `C06_pipeline_uax9` (through its `&str` form): the same line, which lies inside
    the paragraph `[0, 12)` -/
example :
    let B := bidiInfo hardcoded exText none
    let line := uax9Line hardcoded exText none exPara 0 11
    C06.resultChars exText 0 11 (reorderLine exText B.classes B.levels 0 0 11).1
      = (Spec.l2 (Spec.lineLevels (uax9ParaLevel hardcoded exText none exPara) (line.map (·.2)))).map
          (fun k => ((line.map Prod.fst).getD k default).cp) :=
  (C06_pipeline_uax9_str [0x61, 0x5D0, 0x20, 0x5D1, 0x1F600, 0x62, 0x0A, 0x5D2] none (Or.inl rfl) exPara
    exPara_mem 0 11 (by decide) (by decide) (by decide) (by decide +kernel) (by decide +kernel)).2

/-- test: both sides of the headline there.  Model: the pieces (`a` verbatim, `ב ␠ א` re-encoded in reverse,
    `😀 b` verbatim) and their characters; UAX #9 side, computed without the Model: the levels of the
    paragraph's characters, rule L1 on the line, rule L2 -/
example :
    let B := bidiInfo hardcoded exText none
    (reorderLine exText B.classes B.levels 0 0 11).1.map (fun ps => ps.map (fun q => (q.verbatim, q.segs.map (·.cp))))
      = some [(true, [0x61]), (false, [0x5D1, 0x20, 0x5D0]), (true, [0x1F600, 0x62])] ∧
    C06.resultChars exText 0 11 (reorderLine exText B.classes B.levels 0 0 11).1
      = [0x61, 0x5D1, 0x20, 0x5D0, 0x1F600, 0x62] ∧
    (uax9Para hardcoded exText none exPara).map (·.2.2) = [0, 1, 1, 1, 0, 0, 0] ∧
    Spec.lineLevels (uax9ParaLevel hardcoded exText none exPara)
      ((uax9Line hardcoded exText none exPara 0 11).map (·.2)) = [0, 1, 1, 1, 0, 0] ∧
    Spec.l2 [0, 1, 1, 1, 0, 0] = [0, 3, 2, 1, 4, 5] := by
  decide +kernel

/-- test: a line that ends inside the right-to-left run, `[0, 4)` = `a א ␠`: rule L1 resets the space, so it
    stays after `א` (with the paragraph's levels alone it would come before it) -/
example :
    let B := bidiInfo hardcoded exText none
    C06.resultChars exText 0 4 (reorderLine exText B.classes B.levels 0 0 4).1 = [0x61, 0x5D0, 0x20] ∧
    Spec.lineLevels (uax9ParaLevel hardcoded exText none exPara)
      ((uax9Line hardcoded exText none exPara 0 4).map (·.2)) = [0, 1, 0] := by
  decide +kernel

/-- non-vacuity of `C06_pipeline_single`: the whole of `exText` as a `ParagraphBidiInfo`, line `[1, 12)` -/
example :
    let Q := paragraphBidiInfo hardcoded exText none
    (reorderLine exText Q.classes Q.levels Q.paraLevel 1 12).2 = none :=
  (C06_pipeline_single hardcoded exText exText_wf none (Or.inl rfl) 1 12
    (by decide) (by decide +kernel) (by decide +kernel)).1

/-- non-vacuity of `C06_pipeline_single_uax9`: `a ␠ א ␠ TAB b` (`C03Pipeline.exSingle`, no paragraph separator),
    forced right-to-left, the line `[1, 6)` -/
example :
    let Q := paragraphBidiInfo hardcoded exSingle (some 1)
    let line := uax9Line hardcoded exSingle (some 1) (wholePara exSingle) 1 6
    C06.resultChars exSingle 1 6 (reorderLine exSingle Q.classes Q.levels Q.paraLevel 1 6).1
      = (Spec.l2 (Spec.lineLevels (uax9ParaLevel hardcoded exSingle (some 1) (wholePara exSingle))
          (line.map (·.2)))).map (fun k => ((line.map Prod.fst).getD k default).cp) :=
  (C06_pipeline_single_uax9 hardcoded exSingle (C01.Base.ofScalars_WF _) (some 1) (Or.inr (Or.inr rfl)) 1 6
    (by decide) (by decide +kernel) (by decide +kernel) (by decide +kernel)).2

/-- test: what it is (`TAB ␠ א ␠`) -/
example :
    let Q := paragraphBidiInfo hardcoded exSingle (some 1)
    C06.resultChars exSingle 1 6 (reorderLine exSingle Q.classes Q.levels Q.paraLevel 1 6).1
      = [0x9, 0x20, 0x5D0, 0x20] := by
  decide +kernel

end UBidi.Props.C06Pipeline
