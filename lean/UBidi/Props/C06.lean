/-
  C06 — "`reorder_line` returns the line's characters in visual order".

  Model: `reorderLine` (UBidi/Model/Reorder.lean; `BidiInfo::reorder_line` /
  `ParagraphBidiInfo::reorder_line`, which call `reordered_levels`, `visual_runs_for_line` and the
  free function `reorder_line`), result `Option (List Piece) × Option Panic`, `none` = the line is
  returned as it is.
  Spec : `Spec.lineLevels` (rule L1, per character) and `Spec.l2` (rule L2) of UBidi/Spec/Reorder.lean.

  For a well-formed text, a non-empty line `[a, b)` on character boundaries, resolved levels that are
  constant on every character (what property C08 provides) and at most 126:
    * `C06_no_panic`       — no panic site is reached;
    * `C06_chars`          — the scalar values of the result are those of the line's characters, read
                             in the order `Spec.l2` of the per-character levels after `Spec.lineLevels`;
    * `C06_perm`           — so every character of the line occurs exactly once;
    * `C06_noop`           — with no odd level after L1 the result is the line;
    * `C06_run_boundaries` — the runs the pieces are cut at start and end at character boundaries;
    * `C06_whole_chars`    — the pieces' characters are a permutation of the line's characters
                             (as `Seg`s: position, scalar value and length unchanged), and each piece is
                             a block of consecutive characters of the line that tiles a unit range
                             between two character boundaries — in order for a verbatim piece, reversed
                             otherwise.

  Proof: `C03_line` gives the line levels as the expansion of the per-character L1 levels;
  `C05_partition` gives single-level maximal runs, hence run ends on character boundaries;
  `C05_order` gives the unit order `Spec.l2` of the unit levels, which `Lemmas.C06.l2_expand`
  relates to `Spec.l2` of the per-character levels; reading both sides through "the character that
  starts at this unit" gives the characters (UBidi/Lemmas/C06L2.lean, C06Segs.lean, C06Line.lean).
-/
import UBidi.Model.Reorder
import UBidi.Spec.Reorder
import UBidi.Lemmas.C06Line
namespace UBidi.Props.C06
open UBidi BidiClass

/-! ## Definitions used in the statements -/

/-- the characters of the line `[a, b)` -/
def lineSegs (t : Text) (a b : Nat) : List Seg :=
  t.segs.filter (fun s => a ≤ s.start && s.start < b)

/-- the per-character levels of the line after rule L1: the Spec's `lineLevels` applied to the
    `(original class, resolved level)` of the line's characters, read at their first code unit -/
def lineL1 (t : Text) (classes : List BidiClass) (levels : List Nat) (pl a b : Nat) : List Nat :=
  Spec.lineLevels pl ((lineSegs t a b).map (fun s => (classes.getD s.start .ON, levels.getD s.start 0)))

/-- the scalar values of the result, `none` meaning the line itself -/
def resultChars (t : Text) (a b : Nat) (r : Option (List Piece)) : List Nat :=
  match r with
  | none => (t.segs.filter (fun s => a ≤ s.start && s.start < b)).map (·.cp)
  | some ps => piecesChars ps

theorem lineSegs_eq (t : Text) (a b : Nat) : lineSegs t a b = Lemmas.C06.lineSegs t a b := rfl

theorem lineL1_eq (t : Text) (classes : List BidiClass) (levels : List Nat) (pl a b : Nat) :
    lineL1 t classes levels pl a b = Lemmas.C06.lineL1 t classes levels pl a b := rfl

theorem resultChars_eq (t : Text) (a b : Nat) (r : Option (List Piece)) :
    resultChars t a b r = (Lemmas.C06.resultSegs t a b r).map (·.cp) := by
  cases r with
  | none => rfl
  | some ps => simp [resultChars, Lemmas.C06.resultSegs, piecesChars, List.map_flatMap]

/-! ## The theorems -/

section
variable (t : Text) (hwf : t.WF) (classes : List BidiClass) (levels : List Nat) (pl a b : Nat)
  (hab : a < b) (hb : b ≤ t.len) (ha : t.isBoundary a = true) (hbb : t.isBoundary b = true)
  (hc : classes.length = t.len) (hl : levels.length = t.len) (hul : C03.UniformOn t levels)
  (h126 : ∀ l ∈ levels, l ≤ 126) (hpl : pl ≤ 126)
include hwf hab hb ha hbb hc hl hul h126 hpl

/-- no panic site is reached (`levels[..]` / `classes[..]` bounds, the `assert_eq!` of
    `reorder_levels`, `new_lowest_ge_rtl().expect`, `lower(1).expect`, `str` slicing off a
    character boundary) -/
theorem C06_no_panic : (reorderLine t classes levels pl a b).2 = none :=
  (Lemmas.C06.Hyp.result ⟨hwf, hab, hb, ha, hbb, hc, hl, hul, h126, hpl⟩).1

/-- the result consists of the characters of the line in the visual order: position `v` of the
    result holds the character number `(Spec.l2 l1)[v]` of the line, `l1` the line's per-character
    levels after rule L1 -/
theorem C06_chars :
    resultChars t a b (reorderLine t classes levels pl a b).1
      = (Spec.l2 (lineL1 t classes levels pl a b)).map (fun k => ((lineSegs t a b).getD k default).cp) := by
  rw [resultChars_eq, (Lemmas.C06.Hyp.result ⟨hwf, hab, hb, ha, hbb, hc, hl, hul, h126, hpl⟩).2,
    List.map_map]
  rfl

/-- every character of the line occurs exactly once in the result -/
theorem C06_perm :
    (resultChars t a b (reorderLine t classes levels pl a b).1).Perm ((lineSegs t a b).map (·.cp)) := by
  rw [resultChars_eq]
  exact (Lemmas.C06.Hyp.result_perm ⟨hwf, hab, hb, ha, hbb, hc, hl, hul, h126, hpl⟩).map _

/-- if no character of the line has an odd level after rule L1, the result is the line -/
theorem C06_noop (h : ∀ l ∈ lineL1 t classes levels pl a b, l % 2 = 0) :
    resultChars t a b (reorderLine t classes levels pl a b).1 = (lineSegs t a b).map (·.cp) := by
  rw [C06_chars t hwf classes levels pl a b hab hb ha hbb hc hl hul h126 hpl,
    Lemmas.C06.spec_l2_even _ h, lineL1_eq, Lemmas.C06.lineL1_length, ← lineSegs_eq]
  have := Lemmas.C06.map_getD_range (lineSegs t a b) default
  rw [show (fun k => ((lineSegs t a b).getD k default).cp)
      = (fun s : Seg => s.cp) ∘ (fun k => (lineSegs t a b).getD k default) from rfl,
    ← List.map_map, this]

/-- the runs at which the line is cut (`visual_runs_for_line` on the line levels) lie in the line
    and start and end at character boundaries: no character is split -/
theorem C06_run_boundaries :
    ∀ r ∈ (visualRunsForLine (reorderedLevels t classes levels pl a b).1 a b).1,
      a ≤ r.1 ∧ r.1 < r.2 ∧ r.2 ≤ b ∧ t.isBoundary r.1 = true ∧ t.isBoundary r.2 = true :=
  Lemmas.C06.Hyp.run_boundaries ⟨hwf, hab, hb, ha, hbb, hc, hl, hul, h126, hpl⟩

/-- pieces are whole characters: the pieces' characters are, up to order, exactly the characters of
    the line (same position, scalar value and length), and each piece is a block of consecutive
    characters of the line that tiles a range `[x, y)` between two character boundaries, listed in
    order by a verbatim piece and in reverse order by the other pieces -/
theorem C06_whole_chars : ∀ ps, (reorderLine t classes levels pl a b).1 = some ps →
    (ps.flatMap (·.segs)).Perm (lineSegs t a b) ∧
    ∀ p ∈ ps, ∃ x y, a ≤ x ∧ x < y ∧ y ≤ b ∧ t.isBoundary x = true ∧ t.isBoundary y = true ∧
      (if p.verbatim then p.segs else p.segs.reverse) = t.segs.filter (fun s => x ≤ s.start && s.start < y) ∧
      SegsFrom x (t.segs.filter (fun s => x ≤ s.start && s.start < y)) y ∧
      t.segs.filter (fun s => x ≤ s.start && s.start < y) <:+: lineSegs t a b := by
  intro ps hps
  have hh : Lemmas.C06.Hyp t classes levels pl a b := ⟨hwf, hab, hb, ha, hbb, hc, hl, hul, h126, hpl⟩
  refine ⟨?_, hh.pieces_whole ps hps⟩
  have := hh.result_perm
  rw [hps] at this
  exact this

end

/-! ## Non-vacuity and tests (the `decide`s below are tests on literals, not proofs of the property) -/

/-- `a`, ALEF (2 UTF-8 units), U+1F600 (4 units), BET (2 units), space, `1`, TAB, `b` -/
def exText : Text := Text.ofScalars [0x61, 0x5D0, 0x1F600, 0x5D1, 0x20, 0x31, 0x9, 0x62]
/-- classes and levels of `exText` as `bidiInfo hardcoded exText (some 1)` computes them -/
def exCls : List BidiClass := [L, R, R, ON, ON, ON, ON, R, R, WS, EN, S, L]
def exLv : List Nat := [2, 1, 1, 1, 1, 1, 1, 1, 1, 1, 2, 1, 2]

theorem exText_wf : exText.WF :=
  ⟨by simp [exText, Text.ofScalars, Text.layout, Text.totalLen, Enc.charLen, utf8Len, SegsFrom],
   by decide⟩

theorem exLv_uniform : C03.UniformOn exText exLv := by unfold C03.UniformOn; decide

/-- non-vacuity: the hypotheses hold for the whole text as one line and for the line `[1, 12)`,
    both with multi-unit characters inside a right-to-left run -/
example : resultChars exText 0 13 (reorderLine exText exCls exLv 1 0 13).1
    = (Spec.l2 (lineL1 exText exCls exLv 1 0 13)).map (fun k => ((lineSegs exText 0 13).getD k default).cp) :=
  C06_chars exText exText_wf exCls exLv 1 0 13 (by decide) (by decide) (by decide) (by decide) rfl rfl
    exLv_uniform (by decide) (by decide)

example : (reorderLine exText exCls exLv 1 1 12).2 = none :=
  C06_no_panic exText exText_wf exCls exLv 1 1 12 (by decide) (by decide) (by decide) (by decide) rfl rfl
    exLv_uniform (by decide) (by decide)

/-- non-vacuity of `C06_whole_chars` / `C06_perm`: the line `[1, 12)` does produce pieces -/
example : (reorderLine exText exCls exLv 1 1 12).1.isSome = true ∧
    (resultChars exText 1 12 (reorderLine exText exCls exLv 1 1 12).1).Perm ((lineSegs exText 1 12).map (·.cp)) :=
  ⟨by decide, C06_perm exText exText_wf exCls exLv 1 1 12 (by decide) (by decide) (by decide) (by decide)
    rfl rfl exLv_uniform (by decide) (by decide)⟩

/-- test: both sides of `C06_chars` on the example (`b TAB 1 space BET U+1F600 ALEF a`) -/
example : resultChars exText 0 13 (reorderLine exText exCls exLv 1 0 13).1
      = [0x62, 0x9, 0x31, 0x20, 0x5D1, 0x1F600, 0x5D0, 0x61] ∧
    lineL1 exText exCls exLv 1 0 13 = [2, 1, 1, 1, 1, 2, 1, 2] ∧
    Spec.l2 (lineL1 exText exCls exLv 1 0 13) = [7, 6, 5, 4, 3, 2, 1, 0] := by decide

/-- test: the pieces for the line `[1, 12)`: TAB (reset to the paragraph level by L1), the digit
    verbatim, the right-to-left run reversed character by character -/
example : (reorderLine exText exCls exLv 1 1 12).1.map (fun ps => ps.map (fun p => (p.verbatim, p.segs)))
    = some [(false, [⟨11, 0x9, 1⟩]), (true, [⟨10, 0x31, 1⟩]),
            (false, [⟨9, 0x20, 1⟩, ⟨7, 0x5D1, 2⟩, ⟨3, 0x1F600, 4⟩, ⟨1, 0x5D0, 2⟩])] := by decide

/-- non-vacuity of `C06_noop`, not through the early exit: stored levels all even, paragraph level 1,
    no separator or trailing whitespace on the line, so no odd level after L1 -/
example : (∀ l ∈ lineL1 (Text.ofScalars [0x61, 0x62]) [L, L] [2, 2] 1 0 2, l % 2 = 0) ∧
    (reorderLine (Text.ofScalars [0x61, 0x62]) [L, L] [2, 2] 1 0 2).1.isNone = true ∧
    (reorderLine (Text.ofScalars [0x61, 0x62]) [L, L] [2, 2] 1 0 2).2 = none := by decide

/-- test: the early exit must look at the paragraph level (defect D6 of the crate: `a TAB b` with a
    right-to-left paragraph level has the TAB at level 1 after L1) -/
example : resultChars (Text.ofScalars [0x61, 0x9, 0x62]) 0 3
      (reorderLine (Text.ofScalars [0x61, 0x9, 0x62]) [L, S, L] [2, 2, 2] 1 0 3).1 = [0x62, 0x9, 0x61] := by
  decide

/-- the uniformity hypothesis cannot be dropped: with levels that change inside a character a run
    boundary falls inside the character and the UTF-8 slicing panics -/
example : (reorderLine (Text.ofScalars [0x5D0, 0x61]) [R, R, L] [1, 2, 2] 0 0 3).2 = some .sliceBoundary := by
  decide

end UBidi.Props.C06
