/-
  C09, the line queries — "… the same LINE LEVELS, RUNS and REORDERED LINE as the UTF-8 analysis of the same
  text in which each unpaired surrogate is read as U+FFFD.  For well-formed UTF-16 the reordered line is exactly
  the UTF-16 encoding of the UTF-8 result."

  Setting (Props/C09.lean): `u : List Nat` a sequence of 16-bit code units (`h16 : ∀ x ∈ u, x < 65536`),
  `t16 u` the `&[u16]` text, `t8 u` the `&str` of its lossy decoding; any data source `ds`, base direction
  `d` (auto / LTR / RTL).  Props/C09.lean and Props/C09Levels.lean show that the two analyses agree character
  for character on classes, paragraphs and levels.  Here, for the line queries of `BidiInfo`:

      paragraphs `p16 ∈ (bidiInfo ds (t16 u) d).paras`, `p8 ∈ (bidiInfo ds (t8 u) d).paras` that are the same
      range of characters (`charIndexOf` of their ends agree; by `C09.C09_paragraphs` every paragraph has such a
      partner), and lines `[a16, b16)` of `t16 u`, `[a8, b8)` of `t8 u`, non-empty, on character boundaries,
      that consist of the same characters (`charIndexOf` of their ends agree)

  * `C09_reorder_line`  — both `reorder_line` calls return normally and return the same sequence of characters
                          (`C06.resultChars`: scalar values, an unpaired surrogate being U+FFFD);
  * `C09_line_levels`   — both `reordered_levels` calls return normally and give every character of the line the
                          same level;
  * `C09_runs`          — both `visual_runs` calls return normally and return the same runs, in the same order,
                          as ranges of character indices; `C09_runs_chars`: the characters listed run by run
                          (a right-to-left run backwards) are the same sequence;
  * `C09_reorder_line_uax9` — for lines inside the paragraphs: both results are rule L2 of rule L1 of the UAX #9
                          levels of the paragraph's characters (`C06Pipeline.C06_pipeline_uax9`), and the UAX #9
                          data `(scalar value, class after X5c, level)` of the two lines coincide;
  * `C09_reorder_line_wellformed` — if no character of the UTF-16 line is an unpaired surrogate, the code units
                          of the UTF-16 result (`resultUnits16`: the line itself when it is returned unchanged,
                          otherwise left-to-right pieces copied, right-to-left pieces re-encoded — the Model's
                          `piecesUnits16`) are the UTF-16 encoding (`encode16`) of the characters of the UTF-8
                          result;
  * `…_single`          — the same for `ParagraphBidiInfo` (one paragraph level for the text; no hypothesis
                          on paragraph separators).

  NOTE on hypotheses.  As in Props/C03Pipeline.lean, the lines need NOT lie inside the paragraphs for
  `C09_reorder_line`, `C09_line_levels`, `C09_runs`, `C09_reorder_line_wellformed`: the crate does not check
  it, and the two analyses agree on every character of the text.  The paragraphs enter only through their
  level, and "same paragraph ⇒ same level" (`C09_para_level`) is part of the result.  `a8 < b8` is not a
  hypothesis either: it follows (`C09_line_nonempty`).  Only `C09_reorder_line_uax9` asks for
  `p.start ≤ a`, `b ≤ p.stop`.

  Method: Props/C06.lean, C03Pipeline.lean, C05.lean describe the three results of either call by the
  per-character data of the line (scalar values, stored classes and levels read at the first unit of each
  character, paragraph level); in a well-formed text the characters that start in `[a, b)` are the characters
  number `charIndexOf t a`, …, `charIndexOf t b - 1` (`lineSegs_slice`), so per-character agreement on the text
  (`C09_same_chars`, `C09_classes`, `C09_levels`) restricts to the lines (`line_data_congr`).  For the runs,
  `visual_runs_for_line` on the expansion of a per-character level vector returns the runs of that vector with
  character indices replaced by offsets (`visualRuns_expand`).  Lemmas: UBidi/Lemmas/C09Lines.lean.
-/
import UBidi.Lemmas.C09Lines
namespace UBidi.Props.C09Lines
open UBidi UBidi.BidiClass UBidi.Props.C09
open UBidi.Props.C03Pipeline (uax9Line uax9ParaLevel)

/-! ## the notions used in the statements, by their equations -/

/-- the code units of the UTF-16 result: the line itself when `reorder_line` returns it unchanged (`none`),
    otherwise the pieces, left-to-right ones copied from `u`, right-to-left ones re-encoded -/
theorem resultUnits16_def (u : List Nat) (a b : Nat) (r : Option (List Piece)) :
    resultUnits16 u a b r = match r with
      | none => slice u a b
      | some ps => piecesUnits16 u ps := rfl

/-- what a run contributes to the reordered line: its characters, backwards when its level is odd -/
theorem runSegs_def (t : Text) (lv : List Nat) (r : Nat × Nat) :
    Lemmas.C06.runSegs t lv r =
      if Level.isRtl (lv.getD r.1 0) then (C06.lineSegs t r.1 r.2).reverse else C06.lineSegs t r.1 r.2 := rfl

/-! ## generalities on the two lines -/

/-- lines of the two texts that consist of the same characters are both non-empty -/
theorem C09_line_nonempty (u : List Nat) (h16 : ∀ x ∈ u, x < 65536) (a16 b16 a8 b8 : Nat) (hab : a16 < b16)
    (ha16 : (t16 u).isBoundary a16 = true) (hb16 : (t16 u).isBoundary b16 = true)
    (hia : charIndexOf (t16 u) a16 = charIndexOf (t8 u) a8) (hib : charIndexOf (t16 u) b16 = charIndexOf (t8 u) b8) :
    a8 < b8 :=
  line_lt_of_charIndex (t16_WF u h16) ha16 hb16 hab hia hib

/-- the same paragraph (as a range of characters) has the same level in both analyses -/
theorem C09_para_level (ds : DataSource) (u : List Nat) (h16 : ∀ x ∈ u, x < 65536) (d : Option Nat)
    (hd : d = none ∨ d = some 0 ∨ d = some 1) (p16 p8 : ParaInfo)
    (hp16 : p16 ∈ (bidiInfo ds (t16 u) d).paras) (hp8 : p8 ∈ (bidiInfo ds (t8 u) d).paras)
    (hps : charIndexOf (t16 u) p16.start = charIndexOf (t8 u) p8.start)
    (hpe : charIndexOf (t16 u) p16.stop = charIndexOf (t8 u) p8.stop) : p16.level = p8.level :=
  para_level_congr ds (t16_WF u h16) (t8_WF u) d hd (C09_same_chars u).1 p16 p8 hp16 hp8 hps hpe

/-! ## `BidiInfo` -/

section multi
variable (ds : DataSource) (u : List Nat) (h16 : ∀ x ∈ u, x < 65536) (d : Option Nat)
  (hd : d = none ∨ d = some 0 ∨ d = some 1)
  (p16 p8 : ParaInfo) (hp16 : p16 ∈ (bidiInfo ds (t16 u) d).paras) (hp8 : p8 ∈ (bidiInfo ds (t8 u) d).paras)
  (hps : charIndexOf (t16 u) p16.start = charIndexOf (t8 u) p8.start)
  (hpe : charIndexOf (t16 u) p16.stop = charIndexOf (t8 u) p8.stop)
  (a16 b16 a8 b8 : Nat) (hab : a16 < b16)
  (ha16 : (t16 u).isBoundary a16 = true) (hb16 : (t16 u).isBoundary b16 = true)
  (ha8 : (t8 u).isBoundary a8 = true) (hb8 : (t8 u).isBoundary b8 = true)
  (hia : charIndexOf (t16 u) a16 = charIndexOf (t8 u) a8) (hib : charIndexOf (t16 u) b16 = charIndexOf (t8 u) b8)
include h16 hd hp16 hp8 hps hpe hab ha16 hb16 ha8 hb8 hia hib

/-- the stored vectors of both analyses meet the hypotheses of C03 / C05 / C06 on the two lines, with the one
    paragraph level -/
theorem multi_hyp :
    Lemmas.C06.Hyp (t16 u) (bidiInfo ds (t16 u) d).classes (bidiInfo ds (t16 u) d).levels p16.level a16 b16 ∧
    Lemmas.C06.Hyp (t8 u) (bidiInfo ds (t8 u) d).classes (bidiInfo ds (t8 u) d).levels p16.level a8 b8 := by
  have hab8 := C09_line_nonempty u h16 a16 b16 a8 b8 hab ha16 hb16 hia hib
  refine ⟨Lemmas.LinePipeline.hyp_multi ds _ (t16_WF u h16) d hd p16 hp16 a16 b16 hab ha16 hb16, ?_⟩
  rw [C09_para_level ds u h16 d hd p16 p8 hp16 hp8 hps hpe]
  exact Lemmas.LinePipeline.hyp_multi ds _ (t8_WF u) d hd p8 hp8 a8 b8 hab8 ha8 hb8

/-- **C09, `BidiInfo::reorder_line`**: both calls return normally, and the reordered lines are the same
    sequence of characters -/
theorem C09_reorder_line :
    let B16 := bidiInfo ds (t16 u) d
    let B8 := bidiInfo ds (t8 u) d
    let res16 := reorderLine (t16 u) B16.classes B16.levels p16.level a16 b16
    let res8 := reorderLine (t8 u) B8.classes B8.levels p8.level a8 b8
    res16.2 = none ∧ res8.2 = none ∧
    C06.resultChars (t16 u) a16 b16 res16.1 = C06.resultChars (t8 u) a8 b8 res8.1 := by
  intro B16 B8 res16 res8
  have hl := C09_para_level ds u h16 d hd p16 p8 hp16 hp8 hps hpe
  obtain ⟨k16, k8⟩ := multi_hyp ds u h16 d hd p16 p8 hp16 hp8 hps hpe a16 b16 a8 b8 hab ha16 hb16 ha8 hb8 hia hib
  have key := (reorder_congr k16 k8 (C09_same_chars u).1 (C09_classes ds u h16 d)
    (C09Levels.C09_levels ds u h16 d).1 hia hib).1
  have n16 := (Lemmas.C06.Hyp.result k16).1
  have n8 := (Lemmas.C06.Hyp.result k8).1
  simp only [res16, res8, ← hl]
  exact ⟨n16, n8, key⟩

/-- **C09, `BidiInfo::reordered_levels`**: both calls return normally, and every character of the line gets
    the same line level (read at its first code unit; `C03Pipeline.C03_pipeline` / `C08Uniform`: all its units
    carry it) -/
theorem C09_line_levels :
    let B16 := bidiInfo ds (t16 u) d
    let B8 := bidiInfo ds (t8 u) d
    let r16 := reorderedLevels (t16 u) B16.classes B16.levels p16.level a16 b16
    let r8 := reorderedLevels (t8 u) B8.classes B8.levels p8.level a8 b8
    r16.2 = none ∧ r8.2 = none ∧
    (C06.lineSegs (t16 u) a16 b16).map (fun s => r16.1.getD s.start 0)
      = (C06.lineSegs (t8 u) a8 b8).map (fun s => r8.1.getD s.start 0) := by
  intro B16 B8 r16 r8
  have hl := C09_para_level ds u h16 d hd p16 p8 hp16 hp8 hps hpe
  obtain ⟨k16, k8⟩ := multi_hyp ds u h16 d hd p16 p8 hp16 hp8 hps hpe a16 b16 a8 b8 hab ha16 hb16 ha8 hb8 hia hib
  have key := (reorder_congr k16 k8 (C09_same_chars u).1 (C09_classes ds u h16 d)
    (C09Levels.C09_levels ds u h16 d).1 hia hib).2.1
  have n16 := k16.lv_eq.1
  have n8 := k8.lv_eq.1
  simp only [r16, r8, ← hl]
  exact ⟨n16, n8, key⟩

/-- **C09, `BidiInfo::visual_runs`**: both calls return normally, and return the same runs in the same order,
    as ranges of character indices (every run starts and ends on a character boundary:
    `C05Pipeline.C05_pipeline`) -/
theorem C09_runs :
    let B16 := bidiInfo ds (t16 u) d
    let B8 := bidiInfo ds (t8 u) d
    let runs16 := visualRunsForLine (reorderedLevels (t16 u) B16.classes B16.levels p16.level a16 b16).1 a16 b16
    let runs8 := visualRunsForLine (reorderedLevels (t8 u) B8.classes B8.levels p8.level a8 b8).1 a8 b8
    runs16.2 = none ∧ runs8.2 = none ∧
    runs16.1.map (fun r => (charIndexOf (t16 u) r.1, charIndexOf (t16 u) r.2))
      = runs8.1.map (fun r => (charIndexOf (t8 u) r.1, charIndexOf (t8 u) r.2)) := by
  intro B16 B8 runs16 runs8
  have hl := C09_para_level ds u h16 d hd p16 p8 hp16 hp8 hps hpe
  obtain ⟨k16, k8⟩ := multi_hyp ds u h16 d hd p16 p8 hp16 hp8 hps hpe a16 b16 a8 b8 hab ha16 hb16 ha8 hb8 hia hib
  have key := runs_congr k16 k8 (C09_same_chars u).1 (C09_classes ds u h16 d)
    (C09Levels.C09_levels ds u h16 d).1 hia hib
  have n16 := (Lemmas.LinePipeline.Hyp.runs k16).1
  have n8 := (Lemmas.LinePipeline.Hyp.runs k8).1
  simp only [runs16, runs8, ← hl]
  exact ⟨n16, n8, key⟩

/-- … and the characters listed run by run in the returned order, the characters of a right-to-left run
    backwards, are the same sequence -/
theorem C09_runs_chars :
    let B16 := bidiInfo ds (t16 u) d
    let B8 := bidiInfo ds (t8 u) d
    let lv16 := (reorderedLevels (t16 u) B16.classes B16.levels p16.level a16 b16).1
    let lv8 := (reorderedLevels (t8 u) B8.classes B8.levels p8.level a8 b8).1
    ((visualRunsForLine lv16 a16 b16).1.flatMap (Lemmas.C06.runSegs (t16 u) lv16)).map (·.cp)
      = ((visualRunsForLine lv8 a8 b8).1.flatMap (Lemmas.C06.runSegs (t8 u) lv8)).map (·.cp) := by
  intro B16 B8 lv16 lv8
  have hl := C09_para_level ds u h16 d hd p16 p8 hp16 hp8 hps hpe
  obtain ⟨k16, k8⟩ := multi_hyp ds u h16 d hd p16 p8 hp16 hp8 hps hpe a16 b16 a8 b8 hab ha16 hb16 ha8 hb8 hia hib
  have key := (reorder_congr k16 k8 (C09_same_chars u).1 (C09_classes ds u h16 d)
    (C09Levels.C09_levels ds u h16 d).1 hia hib).2.2
  simp only [lv16, lv8, ← hl]
  exact key

/-- **C09, well-formed UTF-16**: if no character of the UTF-16 line is an unpaired surrogate (every one-unit
    character of the line is a non-surrogate unit), the code units `reorder_line` returns for the `&[u16]` are
    the UTF-16 encoding of the characters it returns for the `&str` -/
theorem C09_reorder_line_wellformed
    (hns : ∀ s ∈ C06.lineSegs (t16 u) a16 b16, s.len = 1 → Utf16.isSurrogate (u.getD s.start 0) = false) :
    let B16 := bidiInfo ds (t16 u) d
    let B8 := bidiInfo ds (t8 u) d
    let res16 := reorderLine (t16 u) B16.classes B16.levels p16.level a16 b16
    let res8 := reorderLine (t8 u) B8.classes B8.levels p8.level a8 b8
    resultUnits16 u a16 b16 res16.1 = (C06.resultChars (t8 u) a8 b8 res8.1).flatMap encode16 := by
  intro B16 B8 res16 res8
  obtain ⟨k16, _⟩ := multi_hyp ds u h16 d hd p16 p8 hp16 hp8 hps hpe a16 b16 a8 b8 hab ha16 hb16 ha8 hb8 hia hib
  have h1 := (C09_reorder_line ds u h16 d hd p16 p8 hp16 hp8 hps hpe a16 b16 a8 b8 hab ha16 hb16 ha8 hb8 hia hib).2.2
  rw [← h1]
  exact result_units16 u h16 k16 hns

/-- **C09 against UAX #9**, for lines inside the paragraphs: both reordered lines are rule L2 of rule L1 of the
    levels UAX #9 assigns to the paragraph's characters, restricted to the line, applied to the line's
    characters — written with the `&str` only; and the UAX #9 data of the two lines (scalar value, class after
    X5c, level of `Spec.paragraphLevels`) and the paragraph levels of P2/P3 coincide -/
theorem C09_reorder_line_uax9 (hpa16 : p16.start ≤ a16) (hpb16 : b16 ≤ p16.stop)
    (hpa8 : p8.start ≤ a8) (hpb8 : b8 ≤ p8.stop) :
    let B16 := bidiInfo ds (t16 u) d
    let B8 := bidiInfo ds (t8 u) d
    let res16 := reorderLine (t16 u) B16.classes B16.levels p16.level a16 b16
    let res8 := reorderLine (t8 u) B8.classes B8.levels p8.level a8 b8
    let line8 := uax9Line ds (t8 u) d p8 a8 b8
    let l1 := Spec.lineLevels (uax9ParaLevel ds (t8 u) d p8) (line8.map (·.2))
    C06.resultChars (t16 u) a16 b16 res16.1 = (Spec.l2 l1).map (fun k => ((line8.map Prod.fst).getD k default).cp) ∧
    C06.resultChars (t8 u) a8 b8 res8.1 = (Spec.l2 l1).map (fun k => ((line8.map Prod.fst).getD k default).cp) ∧
    (uax9Line ds (t16 u) d p16 a16 b16).map (fun x => (x.1.cp, x.2)) = line8.map (fun x => (x.1.cp, x.2)) ∧
    uax9ParaLevel ds (t16 u) d p16 = uax9ParaLevel ds (t8 u) d p8 := by
  intro B16 B8 res16 res8 line8 l1
  have hab8 := C09_line_nonempty u h16 a16 b16 a8 b8 hab ha16 hb16 hia hib
  have w16 := t16_WF u h16
  have w8 := t8_WF u
  have h1 := (C09_reorder_line ds u h16 d hd p16 p8 hp16 hp8 hps hpe a16 b16 a8 b8 hab ha16 hb16 ha8 hb8 hia hib).2.2
  have h8 := (C06Pipeline.C06_pipeline_uax9 ds (t8 u) w8 d hd p8 hp8 a8 b8 hab8 ha8 hb8 hpa8 hpb8).2.1
  have l16 := (C03Pipeline.C03_pipeline_uax9 ds (t16 u) w16 d hd p16 hp16 a16 b16 hab ha16 hb16 hpa16 hpb16).1
  have l8 := (C03Pipeline.C03_pipeline_uax9 ds (t8 u) w8 d hd p8 hp8 a8 b8 hab8 ha8 hb8 hpa8 hpb8).1
  refine ⟨h1.trans h8, h8, ?_, ?_⟩
  · have e16 : uax9Line ds (t16 u) d p16 a16 b16 = (C06.lineSegs (t16 u) a16 b16).map
        (fun s => (s, B16.classes.getD s.start ON, B16.levels.getD s.start 0)) :=
      Lemmas.LinePipeline.line_uax9 ds (t16 u) w16 d hd p16 hp16 a16 b16 hpa16 hpb16
    have e8 : line8 = (C06.lineSegs (t8 u) a8 b8).map
        (fun s => (s, B8.classes.getD s.start ON, B8.levels.getD s.start 0)) :=
      Lemmas.LinePipeline.line_uax9 ds (t8 u) w8 d hd p8 hp8 a8 b8 hpa8 hpb8
    rw [e16, e8, List.map_map, List.map_map]
    exact line_map_congr w16 w8 _ _
      (map_triple_congr _ _ _ _ _ _ _ _ (C09_same_chars u).1 (C09_classes ds u h16 d)
        (C09Levels.C09_levels ds u h16 d).1) a16 b16 a8 b8 (Nat.le_of_lt hab) (Nat.le_of_lt hab8) hia hib
  · rw [← l16, ← l8]
    exact C09_para_level ds u h16 d hd p16 p8 hp16 hp8 hps hpe

end multi

/-! ## `ParagraphBidiInfo` (the single-paragraph API): no paragraphs, the line anywhere in the text -/

section single
variable (ds : DataSource) (u : List Nat) (h16 : ∀ x ∈ u, x < 65536) (d : Option Nat)
  (hd : d = none ∨ d = some 0 ∨ d = some 1)
  (a16 b16 a8 b8 : Nat) (hab : a16 < b16)
  (ha16 : (t16 u).isBoundary a16 = true) (hb16 : (t16 u).isBoundary b16 = true)
  (ha8 : (t8 u).isBoundary a8 = true) (hb8 : (t8 u).isBoundary b8 = true)
  (hia : charIndexOf (t16 u) a16 = charIndexOf (t8 u) a8) (hib : charIndexOf (t16 u) b16 = charIndexOf (t8 u) b8)
include h16 hd hab ha16 hb16 ha8 hb8 hia hib

theorem single_hyp :
    let Q16 := paragraphBidiInfo ds (t16 u) d
    let Q8 := paragraphBidiInfo ds (t8 u) d
    Lemmas.C06.Hyp (t16 u) Q16.classes Q16.levels Q16.paraLevel a16 b16 ∧
    Lemmas.C06.Hyp (t8 u) Q8.classes Q8.levels Q16.paraLevel a8 b8 := by
  intro Q16 Q8
  have hab8 := C09_line_nonempty u h16 a16 b16 a8 b8 hab ha16 hb16 hia hib
  refine ⟨Lemmas.LinePipeline.hyp_single ds _ (t16_WF u h16) d hd a16 b16 hab ha16 hb16, ?_⟩
  rw [show Q16.paraLevel = Q8.paraLevel from (C09_single_paragraph_api ds u h16 d).1]
  exact Lemmas.LinePipeline.hyp_single ds _ (t8_WF u) d hd a8 b8 hab8 ha8 hb8

/-- **C09, `ParagraphBidiInfo`: `reorder_line`, `reordered_levels`, `visual_runs`.** -/
theorem C09_lines_single :
    let Q16 := paragraphBidiInfo ds (t16 u) d
    let Q8 := paragraphBidiInfo ds (t8 u) d
    let res16 := reorderLine (t16 u) Q16.classes Q16.levels Q16.paraLevel a16 b16
    let res8 := reorderLine (t8 u) Q8.classes Q8.levels Q8.paraLevel a8 b8
    let r16 := reorderedLevels (t16 u) Q16.classes Q16.levels Q16.paraLevel a16 b16
    let r8 := reorderedLevels (t8 u) Q8.classes Q8.levels Q8.paraLevel a8 b8
    let runs16 := visualRunsForLine r16.1 a16 b16
    let runs8 := visualRunsForLine r8.1 a8 b8
    -- `reorder_line`
    (res16.2 = none ∧ res8.2 = none ∧
      C06.resultChars (t16 u) a16 b16 res16.1 = C06.resultChars (t8 u) a8 b8 res8.1) ∧
    -- `reordered_levels`
    (r16.2 = none ∧ r8.2 = none ∧
      (C06.lineSegs (t16 u) a16 b16).map (fun s => r16.1.getD s.start 0)
        = (C06.lineSegs (t8 u) a8 b8).map (fun s => r8.1.getD s.start 0)) ∧
    -- `visual_runs`
    (runs16.2 = none ∧ runs8.2 = none ∧
      runs16.1.map (fun r => (charIndexOf (t16 u) r.1, charIndexOf (t16 u) r.2))
        = runs8.1.map (fun r => (charIndexOf (t8 u) r.1, charIndexOf (t8 u) r.2))) := by
  intro Q16 Q8 res16 res8 r16 r8 runs16 runs8
  have hl : Q16.paraLevel = Q8.paraLevel := (C09_single_paragraph_api ds u h16 d).1
  obtain ⟨k16, k8⟩ := single_hyp ds u h16 d hd a16 b16 a8 b8 hab ha16 hb16 ha8 hb8 hia hib
  have hcl := (C09_single_paragraph_api ds u h16 d).2.2.2
  have hlv := (C09Levels.C09_levels ds u h16 d).2
  obtain ⟨e1, e2, _⟩ := reorder_congr k16 k8 (C09_same_chars u).1 hcl hlv hia hib
  have e3 := runs_congr k16 k8 (C09_same_chars u).1 hcl hlv hia hib
  simp only [res16, res8, r16, r8, runs16, runs8, ← hl]
  exact ⟨⟨(Lemmas.C06.Hyp.result k16).1, (Lemmas.C06.Hyp.result k8).1, e1⟩,
    ⟨k16.lv_eq.1, k8.lv_eq.1, e2⟩,
    ⟨(Lemmas.LinePipeline.Hyp.runs k16).1, (Lemmas.LinePipeline.Hyp.runs k8).1, e3⟩⟩

/-- **C09, `ParagraphBidiInfo::reorder_line`, well-formed UTF-16** -/
theorem C09_reorder_line_wellformed_single
    (hns : ∀ s ∈ C06.lineSegs (t16 u) a16 b16, s.len = 1 → Utf16.isSurrogate (u.getD s.start 0) = false) :
    let Q16 := paragraphBidiInfo ds (t16 u) d
    let Q8 := paragraphBidiInfo ds (t8 u) d
    let res16 := reorderLine (t16 u) Q16.classes Q16.levels Q16.paraLevel a16 b16
    let res8 := reorderLine (t8 u) Q8.classes Q8.levels Q8.paraLevel a8 b8
    resultUnits16 u a16 b16 res16.1 = (C06.resultChars (t8 u) a8 b8 res8.1).flatMap encode16 := by
  intro Q16 Q8 res16 res8
  obtain ⟨k16, _⟩ := single_hyp ds u h16 d hd a16 b16 a8 b8 hab ha16 hb16 ha8 hb8 hia hib
  have h1 := (C09_lines_single ds u h16 d hd a16 b16 a8 b8 hab ha16 hb16 ha8 hb8 hia hib).1.2.2
  rw [← h1]
  exact result_units16 u h16 k16 hns

end single

/-- a `&[u16]` without unpaired surrogates (every one-unit character is a non-surrogate unit) meets the
    hypothesis of `C09_reorder_line_wellformed` on every line -/
theorem wellformed_lines (u : List Nat)
    (hwf : ∀ s ∈ (t16 u).segs, s.len = 1 → Utf16.isSurrogate (u.getD s.start 0) = false) (a b : Nat) :
    ∀ s ∈ C06.lineSegs (t16 u) a b, s.len = 1 → Utf16.isSurrogate (u.getD s.start 0) = false :=
  fun s hs => hwf s (Lemmas.C06.mem_lineSegs hs).1

/-! ## Non-vacuity and tests (`decide +kernel` on the literals below are tests, not proofs of the property) -/

/-- `A`, U+10800 (a surrogate pair; class R), `א`, space, a lone high surrogate, `ב`, LF, `ג` -/
def exU : List Nat := [0x41, 0xD802, 0xDC00, 0x5D0, 0x20, 0xD800, 0x5D1, 0x0A, 0x5D2]

theorem exU_16 : ∀ x ∈ exU, x < 65536 := by decide

/-- test: 9 units against 16, the 8 characters start at different offsets; the lone surrogate is U+FFFD -/
example : (t16 exU).len = 9 ∧ (t8 exU).len = 16 ∧
    (t16 exU).segs.map (·.start) = [0, 1, 3, 4, 5, 6, 7, 8] ∧
    (t8 exU).segs.map (·.start) = [0, 1, 5, 7, 8, 11, 13, 14] ∧
    (t8 exU).segs.map (·.cp) = [0x41, 0x10800, 0x5D0, 0x20, 0xFFFD, 0x5D1, 0x0A, 0x5D2] := by
  decide +kernel

/-- its first paragraph in the `&[u16]` (units `[0, 8)`) and in the `&str` (bytes `[0, 14)`): characters 0 … 6 -/
def exP16 : ParaInfo := { start := 0, stop := 8, level := 0 }
def exP8 : ParaInfo := { start := 0, stop := 14, level := 0 }

theorem exP16_mem : exP16 ∈ (bidiInfo hardcoded (t16 exU) none).paras := by decide +kernel
theorem exP8_mem : exP8 ∈ (bidiInfo hardcoded (t8 exU) none).paras := by decide +kernel

/-- the hypotheses on the paragraphs -/
theorem exP_same : charIndexOf (t16 exU) exP16.start = charIndexOf (t8 exU) exP8.start ∧
    charIndexOf (t16 exU) exP16.stop = charIndexOf (t8 exU) exP8.stop := by
  decide +kernel

/-- the hypotheses on the line `A 𐠀 א ␠ <lone> ב` (characters 0 … 5): units `[0, 7)`, bytes `[0, 13)` -/
theorem exLine : (t16 exU).isBoundary 0 = true ∧ (t16 exU).isBoundary 7 = true ∧
    (t8 exU).isBoundary 0 = true ∧ (t8 exU).isBoundary 13 = true ∧
    charIndexOf (t16 exU) 0 = charIndexOf (t8 exU) 0 ∧ charIndexOf (t16 exU) 7 = charIndexOf (t8 exU) 13 := by
  decide +kernel

/-- … and on the line `A 𐠀 א ␠` (characters 0 … 3), which has no unpaired surrogate: units `[0, 5)`, bytes `[0, 8)` -/
theorem exLineW : (t16 exU).isBoundary 0 = true ∧ (t16 exU).isBoundary 5 = true ∧
    (t8 exU).isBoundary 0 = true ∧ (t8 exU).isBoundary 8 = true ∧
    charIndexOf (t16 exU) 0 = charIndexOf (t8 exU) 0 ∧ charIndexOf (t16 exU) 5 = charIndexOf (t8 exU) 8 ∧
    ∀ s ∈ C06.lineSegs (t16 exU) 0 5, s.len = 1 → Utf16.isSurrogate (exU.getD s.start 0) = false := by
  decide +kernel

/-- non-vacuity of `C09_reorder_line`, `C09_line_levels`, `C09_runs`: built-in tables, auto direction, the line
    with the surrogate pair, the unpaired surrogate and right-to-left text -/
example :
    let B16 := bidiInfo hardcoded (t16 exU) none
    let B8 := bidiInfo hardcoded (t8 exU) none
    C06.resultChars (t16 exU) 0 7 (reorderLine (t16 exU) B16.classes B16.levels 0 0 7).1
      = C06.resultChars (t8 exU) 0 13 (reorderLine (t8 exU) B8.classes B8.levels 0 0 13).1 ∧
    (C06.lineSegs (t16 exU) 0 7).map (fun s => (reorderedLevels (t16 exU) B16.classes B16.levels 0 0 7).1.getD s.start 0)
      = (C06.lineSegs (t8 exU) 0 13).map (fun s => (reorderedLevels (t8 exU) B8.classes B8.levels 0 0 13).1.getD s.start 0) ∧
    (visualRunsForLine (reorderedLevels (t16 exU) B16.classes B16.levels 0 0 7).1 0 7).1.map
        (fun r => (charIndexOf (t16 exU) r.1, charIndexOf (t16 exU) r.2))
      = (visualRunsForLine (reorderedLevels (t8 exU) B8.classes B8.levels 0 0 13).1 0 13).1.map
        (fun r => (charIndexOf (t8 exU) r.1, charIndexOf (t8 exU) r.2)) :=
  ⟨(C09_reorder_line hardcoded exU exU_16 none (Or.inl rfl) exP16 exP8 exP16_mem exP8_mem exP_same.1 exP_same.2
      0 7 0 13 (by decide) exLine.1 exLine.2.1 exLine.2.2.1 exLine.2.2.2.1 exLine.2.2.2.2.1 exLine.2.2.2.2.2).2.2,
   (C09_line_levels hardcoded exU exU_16 none (Or.inl rfl) exP16 exP8 exP16_mem exP8_mem exP_same.1 exP_same.2
      0 7 0 13 (by decide) exLine.1 exLine.2.1 exLine.2.2.1 exLine.2.2.2.1 exLine.2.2.2.2.1 exLine.2.2.2.2.2).2.2,
   (C09_runs hardcoded exU exU_16 none (Or.inl rfl) exP16 exP8 exP16_mem exP8_mem exP_same.1 exP_same.2
      0 7 0 13 (by decide) exLine.1 exLine.2.1 exLine.2.2.1 exLine.2.2.2.1 exLine.2.2.2.2.1 exLine.2.2.2.2.2).2.2⟩

/-- test: what both sides are there.  The reordered line is `A ב <U+FFFD> ␠ א 𐠀` — not the line
    `A 𐠀 א ␠ <U+FFFD> ב`; the pieces of the two results hold the same characters at different offsets with
    different lengths; the line levels per character; the runs `[0,1) [1,7)` / `[0,1) [1,13)` are the character
    ranges `[0,1) [1,6)` -/
example :
    let B16 := bidiInfo hardcoded (t16 exU) none
    let B8 := bidiInfo hardcoded (t8 exU) none
    C06.resultChars (t16 exU) 0 7 (reorderLine (t16 exU) B16.classes B16.levels 0 0 7).1
      = [0x41, 0x5D1, 0xFFFD, 0x20, 0x5D0, 0x10800] ∧
    (C06.lineSegs (t16 exU) 0 7).map (·.cp) = [0x41, 0x10800, 0x5D0, 0x20, 0xFFFD, 0x5D1] ∧
    (reorderLine (t16 exU) B16.classes B16.levels 0 0 7).1.map (·.map (fun q => (q.verbatim, q.segs.map (fun s => (s.start, s.len)))))
      = some [(true, [(0, 1)]), (false, [(6, 1), (5, 1), (4, 1), (3, 1), (1, 2)])] ∧
    (reorderLine (t8 exU) B8.classes B8.levels 0 0 13).1.map (·.map (fun q => (q.verbatim, q.segs.map (fun s => (s.start, s.len)))))
      = some [(true, [(0, 1)]), (false, [(11, 2), (8, 3), (7, 1), (5, 2), (1, 4)])] ∧
    (C06.lineSegs (t16 exU) 0 7).map (fun s => (reorderedLevels (t16 exU) B16.classes B16.levels 0 0 7).1.getD s.start 0)
      = [0, 1, 1, 1, 1, 1] ∧
    visualRunsForLine (reorderedLevels (t16 exU) B16.classes B16.levels 0 0 7).1 0 7 = ([(0, 1), (1, 7)], none) ∧
    visualRunsForLine (reorderedLevels (t8 exU) B8.classes B8.levels 0 0 13).1 0 13 = ([(0, 1), (1, 13)], none) ∧
    [(0, 1), (1, 7)].map (fun r => (charIndexOf (t16 exU) r.1, charIndexOf (t16 exU) r.2)) = [(0, 1), (1, 6)] := by
  decide +kernel

/-- non-vacuity of `C09_reorder_line_wellformed` (and of `C09_reorder_line_uax9`: the line lies inside the
    paragraph): the line `A 𐠀 א ␠` -/
example :
    let B16 := bidiInfo hardcoded (t16 exU) none
    let B8 := bidiInfo hardcoded (t8 exU) none
    resultUnits16 exU 0 5 (reorderLine (t16 exU) B16.classes B16.levels 0 0 5).1
      = (C06.resultChars (t8 exU) 0 8 (reorderLine (t8 exU) B8.classes B8.levels 0 0 8).1).flatMap encode16 ∧
    C06.resultChars (t16 exU) 0 5 (reorderLine (t16 exU) B16.classes B16.levels 0 0 5).1
      = (Spec.l2 (Spec.lineLevels (uax9ParaLevel hardcoded (t8 exU) none exP8)
            ((uax9Line hardcoded (t8 exU) none exP8 0 8).map (·.2)))).map
          (fun k => (((uax9Line hardcoded (t8 exU) none exP8 0 8).map Prod.fst).getD k default).cp) :=
  ⟨C09_reorder_line_wellformed hardcoded exU exU_16 none (Or.inl rfl) exP16 exP8 exP16_mem exP8_mem exP_same.1
      exP_same.2 0 5 0 8 (by decide) exLineW.1 exLineW.2.1 exLineW.2.2.1 exLineW.2.2.2.1 exLineW.2.2.2.2.1
      exLineW.2.2.2.2.2.1 exLineW.2.2.2.2.2.2,
   (C09_reorder_line_uax9 hardcoded exU exU_16 none (Or.inl rfl) exP16 exP8 exP16_mem exP8_mem exP_same.1
      exP_same.2 0 5 0 8 (by decide) exLineW.1 exLineW.2.1 exLineW.2.2.1 exLineW.2.2.2.1 exLineW.2.2.2.2.1
      exLineW.2.2.2.2.2.1 (by decide) (by decide) (by decide) (by decide)).1⟩

/-- test: what it is — `A א 𐠀 ␠` (rule L1 puts the trailing space back to the paragraph level), the pair
    re-encoded; not the units of the line -/
example :
    let B16 := bidiInfo hardcoded (t16 exU) none
    resultUnits16 exU 0 5 (reorderLine (t16 exU) B16.classes B16.levels 0 0 5).1 = [0x41, 0x5D0, 0xD802, 0xDC00, 0x20] ∧
    slice exU 0 5 = [0x41, 0xD802, 0xDC00, 0x5D0, 0x20] ∧
    [0x41, 0x5D0, 0x10800, 0x20].flatMap encode16 = [0x41, 0x5D0, 0xD802, 0xDC00, 0x20] := by
  decide +kernel

/-- test: the hypothesis of `C09_reorder_line_wellformed` cannot be dropped.  In `A <lone> ␠ א ב` the unpaired
    surrogate lies in a left-to-right piece, which is copied: the UTF-16 result keeps the unit `0xD800`, whereas
    the encoding of the UTF-8 result has `0xFFFD` there.  (In a right-to-left piece it is re-encoded as `0xFFFD`:
    the full line of `exU` above.) -/
example :
    let w : List Nat := [0x41, 0xD800, 0x20, 0x5D0, 0x5D1]
    let B16 := bidiInfo hardcoded (t16 w) none
    let B8 := bidiInfo hardcoded (t8 w) none
    resultUnits16 w 0 5 (reorderLine (t16 w) B16.classes B16.levels 0 0 5).1 = [0x41, 0xD800, 0x20, 0x5D1, 0x5D0] ∧
    (C06.resultChars (t8 w) 0 9 (reorderLine (t8 w) B8.classes B8.levels 0 0 9).1).flatMap encode16
      = [0x41, 0xFFFD, 0x20, 0x5D1, 0x5D0] := by
  decide +kernel

/-- non-vacuity of `C09_lines_single`: `exU` as a `ParagraphBidiInfo` (the LF inside the text), the line
    `𐠀 א ␠ <lone> ב LF ג` = units `[1, 9)`, bytes `[1, 16)` -/
example :
    let Q16 := paragraphBidiInfo hardcoded (t16 exU) none
    let Q8 := paragraphBidiInfo hardcoded (t8 exU) none
    C06.resultChars (t16 exU) 1 9 (reorderLine (t16 exU) Q16.classes Q16.levels Q16.paraLevel 1 9).1
      = C06.resultChars (t8 exU) 1 16 (reorderLine (t8 exU) Q8.classes Q8.levels Q8.paraLevel 1 16).1 :=
  (C09_lines_single hardcoded exU exU_16 none (Or.inl rfl) 1 9 1 16 (by decide) (by decide +kernel)
    (by decide +kernel) (by decide +kernel) (by decide +kernel) (by decide +kernel) (by decide +kernel)).1.2.2

/-- test: what it is -/
example :
    let Q16 := paragraphBidiInfo hardcoded (t16 exU) none
    C06.resultChars (t16 exU) 1 9 (reorderLine (t16 exU) Q16.classes Q16.levels Q16.paraLevel 1 9).1
      = [0x5D1, 0xFFFD, 0x20, 0x5D0, 0x10800, 0x0A, 0x5D2] := by
  decide +kernel

end UBidi.Props.C09Lines
