/-
  C04 — `reorder_visual` is the L2 permutation for every level sequence.

  Model: `reorderVisual` (UBidi/Model/Reorder.lean), the fuel-based transcription of
  `reorder_visual` / `next_range` of lib.rs.  Spec: `Spec.l2` (UBidi/Spec/Reorder.lean).

  Proof outline (helper lemmas in UBidi/Lemmas/C04Runs, C04Pass, C04Loop):
  * one `rvPass` for level `k` reverses every maximal chunk of POSITIONS with level ≥ k
    (`rvPass_eq`, `passOn`);
  * invariant `Inv k`: the levels read through the current order and capped at `k` are the
    original levels capped at `k`; under it the positional pass is the Spec's pass over the
    runs of the current order (`passOn_eq_specPass`), and every pass keeps it;
  * hence the outer loop is the Spec's fold over `downFrom max (min | 1)` (`rvLoop_eq`);
  * the Model's extra passes below the lowest odd level that occurs come in pairs
    (even `k+1`, odd `k` not occurring) that cancel (`fold_cancel`).

  `C04_length`, `C04_perm`, `C04_identity` need no hypothesis on the levels (when
  `Level::new_lowest_ge_rtl` fails the Model returns the identity order together with the
  panic marker); `C04_no_panic` and `C04_eq_spec` need the `Level` range `≤ 126`
  (`reorderVisual [201, 203] = ([0, 1], some lowestGeRtl)` whereas `Spec.l2 [201, 203] = [1, 0]`).
-/
import UBidi.Model.Reorder
import UBidi.Spec.Reorder
import UBidi.Props.C19
import UBidi.Lemmas.C04Runs
import UBidi.Lemmas.C04Pass
import UBidi.Lemmas.C04Loop
namespace UBidi.Props.C04
open UBidi UBidi.Lemmas.C04

theorem empty : reorderVisual [] = ([], none) ∧ Spec.l2 [] = [] := by constructor <;> rfl

/-! ### the shape of `reorderVisual` on a non-empty list -/

/-- minimum / maximum as `reorder_visual` computes them -/
local notation "minOf" l0:max tl:max => List.foldl min l0 (l0 :: tl)
local notation "maxOf" l0:max tl:max => List.foldl max l0 (l0 :: tl)

theorem minOf_le (l0 : Nat) (tl : List Nat) : ∀ l ∈ l0 :: tl, minOf l0 tl ≤ l := by
  intro l hl
  have := foldl_min_le tl (min l0 l0)
  simp only [List.foldl_cons]
  simp only [List.mem_cons] at hl
  rcases hl with rfl | hl
  · have := this.1; omega
  · exact this.2 l hl

theorem minOf_mem (l0 : Nat) (tl : List Nat) : minOf l0 tl ∈ l0 :: tl := by
  simp only [List.foldl_cons, Nat.min_self, List.mem_cons]
  exact foldl_min_mem tl l0

theorem le_maxOf (l0 : Nat) (tl : List Nat) : ∀ l ∈ l0 :: tl, l ≤ maxOf l0 tl := by
  intro l hl
  have := le_foldl_max tl (max l0 l0)
  simp only [List.foldl_cons]
  simp only [List.mem_cons] at hl
  rcases hl with rfl | hl
  · have := this.1; omega
  · exact this.2 l hl

theorem maxOf_mem (l0 : Nat) (tl : List Nat) : maxOf l0 tl ∈ l0 :: tl := by
  simp only [List.foldl_cons, Nat.max_self, List.mem_cons]
  exact foldl_max_mem tl l0

theorem minOf_le_maxOf (l0 : Nat) (tl : List Nat) : minOf l0 tl ≤ maxOf l0 tl :=
  le_maxOf l0 tl _ (minOf_mem l0 tl)

/-- the Spec's maximum (`foldl max 0`) is the Model's maximum -/
theorem specMax_eq (l0 : Nat) (tl : List Nat) : (l0 :: tl).foldl max 0 = maxOf l0 tl := by
  apply Nat.le_antisymm
  · rcases foldl_max_mem (l0 :: tl) 0 with h | h
    · rw [h]; exact Nat.zero_le _
    · exact le_maxOf l0 tl _ h
  · exact (le_foldl_max (l0 :: tl) 0).2 _ (maxOf_mem l0 tl)

/-- the loop of `reorder_visual`, when it is entered with the lower bound `minOdd ≥ 1`, is the
    fold of the Spec's passes over `max, max-1, …, minOdd` -/
theorem loop_eq (levels : List Nat) (minOdd maxL : Nat) (h1 : 1 ≤ minOdd) :
    rvLoop levels minOdd (maxL + 1) maxL (List.range levels.length) =
      ((Spec.downFrom maxL minOdd).foldl (fun order m => specPass levels m order)
        (List.range levels.length), none) :=
  rvLoop_eq levels minOdd h1 (maxL + 1) maxL _ (by simp) (Inv_range levels maxL) (by omega)

/-! ### C04: no panic, length, permutation -/

theorem C04_no_panic (lv : List Nat) (h : ∀ l ∈ lv, l ≤ 126) : (reorderVisual lv).2 = none := by
  cases lv with
  | nil => rfl
  | cons l0 tl =>
    unfold reorderVisual
    simp only
    split
    · rfl
    · rename_i hif
      have hmin : minOf l0 tl ≤ 126 := h _ (minOf_mem l0 tl)
      have hmax : maxOf l0 tl ≤ 126 := h _ (maxOf_mem l0 tl)
      have hmm := minOf_le_maxOf l0 tl
      split
      · rename_i hnone
        exfalso
        have h126 := (UBidi.Props.C19.newLowestGeRtl_fails_iff _ hmin).mp hnone
        apply hif
        have e : maxOf l0 tl = 126 := by omega
        rw [h126, e]; decide
      · rename_i minOdd hsome
        have hs := UBidi.Props.C19.newLowestGeRtl_some _ _ hsome
        rw [loop_eq (l0 :: tl) minOdd _ (by omega)]

theorem C04_perm (lv : List Nat) : List.Perm (reorderVisual lv).1 (List.range lv.length) := by
  cases lv with
  | nil => exact List.Perm.refl _
  | cons l0 tl =>
    unfold reorderVisual
    simp only
    split
    · exact List.Perm.refl _
    · split
      · exact List.Perm.refl _
      · exact rvLoop_perm _ _ _ _ _

theorem C04_length (lv : List Nat) : (reorderVisual lv).1.length = lv.length := by
  rw [(C04_perm lv).length_eq, List.length_range]

/-! ### C04: identity on all-even levels, and equality with the Spec -/

theorem C04_identity (lv : List Nat) (h : ∀ l ∈ lv, l % 2 = 0) :
    (reorderVisual lv).1 = List.range lv.length := by
  cases lv with
  | nil => rfl
  | cons l0 tl =>
    unfold reorderVisual
    simp only
    split
    · rfl
    · split
      · rfl
      · rename_i minOdd hsome
        have hs := UBidi.Props.C19.newLowestGeRtl_some _ _ hsome
        rw [loop_eq (l0 :: tl) minOdd _ (by omega)]
        simp only
        have hmin : minOf l0 tl % 2 = 0 := h _ (minOf_mem l0 tl)
        have hmax : maxOf l0 tl % 2 = 0 := h _ (maxOf_mem l0 tl)
        have hmm := minOf_le_maxOf l0 tl
        have hle := hs.2.2.2 (minOf l0 tl + 1) (by omega) (by omega)
        have hodd : minOdd = minOf l0 tl + 1 := by
          have := hs.1; have := hs.2.1
          omega
        refine fold_cancel (l0 :: tl) minOdd hs.1 ((maxOf l0 tl - minOf l0 tl) / 2) _ ?_ ?_ _
        · omega
        · intro l hl hl'
          have := h l hl; omega

theorem C04_eq_spec (lv : List Nat) (h : ∀ l ∈ lv, l ≤ 126) : (reorderVisual lv).1 = Spec.l2 lv := by
  cases lv with
  | nil => rfl
  | cons l0 tl =>
    cases hodds : (l0 :: tl).filter (· % 2 == 1) with
    | nil =>
      -- no odd level: the Spec is the identity, and so is the Model
      have heven : ∀ l ∈ l0 :: tl, l % 2 = 0 := by
        intro l hl
        have : l ∉ (l0 :: tl).filter (· % 2 == 1) := by rw [hodds]; simp
        simp only [List.mem_filter, hl, true_and, beq_iff_eq] at this
        omega
      rw [C04_identity _ heven]
      simp only [Spec.l2, hodds]
    | cons o os =>
      have hmem : ∀ x, x ∈ o :: os ↔ (x ∈ l0 :: tl ∧ x % 2 = 1) := by
        intro x; rw [← hodds]; simp [List.mem_filter]
      -- the lowest odd level that occurs
      have hlo_mem : os.foldl min o ∈ o :: os := by
        rcases foldl_min_mem os o with e | e
        · rw [e]; simp
        · exact List.mem_cons_of_mem _ e
      have hlo_le : ∀ l ∈ l0 :: tl, l % 2 = 1 → os.foldl min o ≤ l := by
        intro l hl hl'
        have : l ∈ o :: os := (hmem l).mpr ⟨hl, hl'⟩
        simp only [List.mem_cons] at this
        rcases this with rfl | this
        · exact (foldl_min_le os l).1
        · exact (foldl_min_le os o).2 l this
      -- the Spec side
      have hspec : Spec.l2 (l0 :: tl) =
          (Spec.downFrom (maxOf l0 tl) (os.foldl min o)).foldl
            (fun order m => specPass (l0 :: tl) m order) (List.range (l0 :: tl).length) := by
        simp only [Spec.l2, hodds]
        rw [specMax_eq]
      rw [hspec]
      generalize os.foldl min o = lo at hlo_mem hlo_le ⊢
      have hlo := (hmem lo).mp hlo_mem
      have hlo126 : lo ≤ 126 := h lo hlo.1
      have hminlo : minOf l0 tl ≤ lo := minOf_le l0 tl lo hlo.1
      have hlomax : lo ≤ maxOf l0 tl := le_maxOf l0 tl lo hlo.1
      obtain ⟨hor1, hor2, hor3⟩ := UBidi.Props.C19.orOne_spec (minOf l0 tl)
      have hlo2 := hlo.2
      have horlo : Level.orOne (minOf l0 tl) ≤ lo := hor3 lo hminlo hlo.2
      have hnew : Level.newLowestGeRtl (minOf l0 tl) = some (Level.orOne (minOf l0 tl)) := by
        unfold Level.newLowestGeRtl
        rw [UBidi.Props.C19.new_spec, if_pos (by omega)]
      -- the Model side
      unfold reorderVisual
      simp only
      split
      · rename_i hif
        exfalso
        simp only [Bool.and_eq_true, beq_iff_eq] at hif
        have e1 : minOf l0 tl = lo := by
          have := hif.1; omega
        have := hif.2
        rw [e1] at this
        have hl := hlo.2
        simp only [Level.isLtr, beq_iff_eq] at this
        omega
      · rw [hnew]
        simp only
        rw [loop_eq (l0 :: tl) _ _ (by omega)]
        simp only
        rw [downFrom_append (maxOf l0 tl + 1 - lo) (maxOf l0 tl) lo (Level.orOne (minOf l0 tl))
              (by omega) horlo (by omega)]
        rw [List.foldl_append]
        exact fold_cancel (l0 :: tl) _ hor1 ((lo - Level.orOne (minOf l0 tl)) / 2) (lo - 1)
          (by omega)
          (fun l hl hl' => by have := hlo_le l hl hl'; omega) _

/-! ### non-vacuity and tests (concrete level vectors; `decide` on literals = test) -/

/-- test: the hypothesis of `C04_no_panic` / `C04_eq_spec` is met by a real mixed line -/
example : ∀ l ∈ [0, 0, 1, 1, 2, 2, 1, 0], l ≤ 126 := by decide

/-- test: the hypothesis of `C04_identity` is met by a non-constant all-even line (four passes cancel) -/
example : ∀ l ∈ [2, 2, 4, 0, 6], l % 2 = 0 := by decide

/-- test: Model and Spec on a line with levels 0,1,2 -/
example : reorderVisual [0, 0, 1, 1, 2, 2, 1, 0] = ([0, 1, 6, 4, 5, 3, 2, 7], none) ∧
    Spec.l2 [0, 0, 1, 1, 2, 2, 1, 0] = [0, 1, 6, 4, 5, 3, 2, 7] := by decide

/-- test: a line whose minimum is even and below the lowest odd level (extra Model passes) -/
example : reorderVisual [2, 5, 4, 3, 0] = (Spec.l2 [2, 5, 4, 3, 0], none) ∧
    Spec.l2 [2, 5, 4, 3, 0] = [0, 3, 1, 2, 4] := by decide

/-- test: all even, not constant: identity -/
example : reorderVisual [2, 2, 4, 0, 6] = ([0, 1, 2, 3, 4], none) := by decide

/-- test: the range hypothesis is needed for `C04_no_panic` and `C04_eq_spec` -/
example : (reorderVisual [201, 203]).2 = some .lowestGeRtl ∧ (reorderVisual [201, 203]).1 = [0, 1] ∧
    Spec.l2 [201, 203] = [1, 0] := by decide

end UBidi.Props.C04
