/- C04 — reorder_visual is the L2 permutation.  (first layer) -/
import UBidi.Model.Reorder
import UBidi.Spec.Reorder
namespace UBidi.Props.C04
open UBidi

theorem empty : reorderVisual [] = ([], none) ∧ Spec.l2 [] = [] := by constructor <;> rfl

end UBidi.Props.C04
