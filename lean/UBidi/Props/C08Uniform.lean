/-
  C08 (the clause that was missing in Props/C08.lean): the levels stored by `ParagraphBidiInfo::new` and by
  `BidiInfo::new` are the same at all code units of a character — for every well-formed text and every
  data source (no FSI-width proviso is needed any more, since the repair of finding D10).

  * `C08_uniform_levels_para`   — one paragraph (`compute_bidi_info_for_para`), no hypothesis on the W/N stages
                                   (compare `C08.C08_uniform_levels_partial`, which took it as `hseq`)
  * `C08_uniform_levels_single` — `ParagraphBidiInfo`
  * `C08_uniform_levels_multi`  — `BidiInfo` (per paragraph, glued with the partition of the text)

  Proof: the pipeline-level Expand theorem `Expand.paraLevels_expand` (UBidi/Lemmas/ExpandPipeline.lean):
  the levels of a paragraph are the expansion of a per-character vector.
-/
import UBidi.Lemmas.ExpandPipeline
import UBidi.Lemmas.C10Slice
import UBidi.Props.C02
import UBidi.Props.C08
namespace UBidi.Props.C08Uniform
open UBidi UBidi.BidiClass

/-- the three copies of `UniformOn` (C08, Expand; C03 has a third) have the same body -/
theorem uniformOn_iff {α} (t : Text) (xs : List α) : C08.UniformOn t xs ↔ Expand.UniformOn t xs := Iff.rfl

/-- the original classes are uniform within characters (`C02_classes_uniform`, in the `[i]?` form) -/
theorem classes_uniform (ds : DataSource) (t : Text) (hwf : t.WF) (d : Option Nat)
    (split : Bool) : Expand.UniformOn t (computeInitialInfo ds t d split).classes := by
  intro s hs j hj
  have hb := C08.Base.segsFrom_bounds t.segs 0 t.len hwf.tiles s hs
  have hl := C02.C02_classes_length ds t d hwf split
  have h := C02.C02_classes_uniform ds t d hwf split s hs j hj
  have h1 : s.start + j < (computeInitialInfo ds t d split).classes.length := by omega
  have h2 : s.start < (computeInitialInfo ds t d split).classes.length := by omega
  simp only [List.getD_eq_getElem?_getD, List.getElem?_eq_getElem h1, List.getElem?_eq_getElem h2,
    Option.getD_some] at h
  rw [List.getElem?_eq_getElem h1, List.getElem?_eq_getElem h2, h]

/-- one paragraph: the stored levels are uniform within every character (C08's
    `C08_uniform_levels_partial` without its hypothesis `hseq` on the W/N stages; `hlen` — one original
    class per code unit — is what `compute_initial_info` provides, `C02_classes_length`) -/
theorem C08_uniform_levels_para (ds : DataSource) (pl : Nat) (pure hasIso : Bool) (t : Text) (hwf : t.WF)
    (ocs : List BidiClass) (hlen : ocs.length = t.len) (ho : C08.UniformOn t ocs) :
    C08.UniformOn t (paraLevels ds pl pure hasIso t ocs).1 :=
  Expand.paraLevels_uniform ds pl pure hasIso t hwf ocs hlen ho

/-- `ParagraphBidiInfo`: all code units of a character carry the same level -/
theorem C08_uniform_levels_single (ds : DataSource) (t : Text) (hwf : t.WF)
    (d : Option Nat) : C08.UniformOn t (paragraphBidiInfo ds t d).levels :=
  Expand.paraLevels_uniform ds _ _ _ t hwf _ (C02.C02_classes_length ds t d hwf false)
    (classes_uniform ds t hwf d false)

/-- every position of `[pos, e)` lies in one of the paragraphs that tile it -/
theorem parasFrom_cover {G : ParaInfo → Flags → Prop} : ∀ (P : List ParaInfo) (F : List Flags) (pos e : Nat),
    Lemmas.C10.ParasFrom G pos P F e → ∀ x, pos ≤ x → x < e →
      ∃ p f, (p, f) ∈ P.zip F ∧ p.start ≤ x ∧ x < p.stop
  | [], [], pos, e, h, x, h1, h2 => by
    simp only [Lemmas.C10.ParasFrom] at h
    omega
  | [], _ :: _, _, _, h, _, _, _ => by simp [Lemmas.C10.ParasFrom] at h
  | _ :: _, [], _, _, h, _, _, _ => by simp [Lemmas.C10.ParasFrom] at h
  | q :: qs, g :: gs, pos, e, h, x, h1, h2 => by
    obtain ⟨a1, a2, _, a4⟩ := h
    by_cases hx : x < q.stop
    · exact ⟨q, g, by simp, by omega, hx⟩
    · obtain ⟨p, f, hpf, hp⟩ := parasFrom_cover qs gs q.stop e a4 x (by omega) h2
      exact ⟨p, f, by simp [hpf], hp⟩

theorem slice_getElem? {α} (xs : List α) (a b i : Nat) (h1 : a ≤ i) (h2 : i < b) :
    (slice xs a b)[i - a]? = xs[i]? := by
  simp only [slice, List.getElem?_take, List.getElem?_drop]
  rw [if_pos (by omega), show a + (i - a) = i by omega]

/-- `BidiInfo`: all code units of a character carry the same level -/
theorem C08_uniform_levels_multi (ds : DataSource) (t : Text) (hwf : t.WF)
    (d : Option Nat) : C08.UniformOn t (bidiInfo ds t d).levels := by
  intro s hs j hj
  obtain ⟨hgood, _⟩ := Lemmas.C10.paras_good ds t hwf d
  have hb := C08.Base.segsFrom_bounds t.segs 0 t.len hwf.tiles s hs
  obtain ⟨p, f, hpf, hp1, hp2⟩ := parasFrom_cover _ _ 0 t.len hgood s.start (Nat.zero_le _) (by omega)
  obtain ⟨hw, _, hcls, _, _, _, _⟩ := Lemmas.C10.parasFrom_zip_mem hgood p f hpf
  rw [Lemmas.C10.bidiInfo_eq]
  simp only []
  obtain ⟨_, _, _, l3⟩ := Lemmas.C10.levels_fold ds t d _ _ t.len _ _ 0 hgood
    ([], (computeInitialInfo ds t d true).err) rfl
  obtain ⟨l4, _⟩ := l3 p f hpf
  have hsubcls : Expand.UniformOn (t.subrange p.start p.stop)
      (slice (computeInitialInfo ds t d true).classes p.start p.stop) := by
    rw [← hcls]
    exact classes_uniform ds _ hw d false
  have hsublen : (slice (computeInitialInfo ds t d true).classes p.start p.stop).length
      = (t.subrange p.start p.stop).len := by
    rw [← hcls]
    exact C02.C02_classes_length ds _ d hw false
  have hu := Expand.paraLevels_uniform ds p.level f.pureLtr f.hasIso _ hw _ hsublen hsubcls
  rw [← l4] at hu
  have hmem : ({ s with start := s.start - p.start } : Seg) ∈ (t.subrange p.start p.stop).segs := by
    simp only [Text.subrange, List.mem_map, List.mem_filter, Bool.and_eq_true, decide_eq_true_eq]
    exact ⟨s, ⟨hs, hp1, hp2⟩, rfl⟩
  have hb' := C08.Base.segsFrom_bounds _ 0 _ hw.tiles _ hmem
  have hsl : (t.subrange p.start p.stop).len = p.stop - p.start := rfl
  simp only [hsl] at hb'
  have := hu _ hmem j hj
  simp only [] at this
  rw [show s.start - p.start + j = (s.start + j) - p.start by omega,
    slice_getElem? _ _ _ _ (by omega) (by omega), slice_getElem? _ _ _ _ hp1 hp2] at this
  exact this

/-- C08's uniformity clause in one statement: classes and levels of both analysis types -/
theorem C08_uniform (ds : DataSource) (t : Text) (hwf : t.WF) (d : Option Nat) :
    C08.UniformOn t (paragraphBidiInfo ds t d).classes ∧ C08.UniformOn t (paragraphBidiInfo ds t d).levels ∧
    C08.UniformOn t (bidiInfo ds t d).classes ∧ C08.UniformOn t (bidiInfo ds t d).levels :=
  ⟨classes_uniform ds t hwf d false, C08_uniform_levels_single ds t hwf d,
   classes_uniform ds t hwf d true, C08_uniform_levels_multi ds t hwf d⟩

/-! ### non-vacuity -/

/-- `C02.exText` ("FSI א PDI ⏎ a FSI RLI b PDI ב" as a `&str`: two paragraphs, multi-unit characters) meets
    the hypothesis -/
example : C08.UniformOn C02.exText (bidiInfo hardcoded C02.exText none).levels ∧
    C08.UniformOn C02.exText (paragraphBidiInfo hardcoded C02.exText none).levels :=
  ⟨C08_uniform_levels_multi hardcoded C02.exText C02.exText_wf none,
   C08_uniform_levels_single hardcoded C02.exText C02.exText_wf none⟩

/-- test (evaluation on that literal): the levels are not constant, and the text has characters of 1, 2
    and 3 code units -/
example : (bidiInfo hardcoded C02.exText none).levels =
      [0, 0, 0, 1, 1, 0, 0, 0, 0, 0, 0, 0, 0, 1, 1, 1, 4, 1, 1, 1, 1, 1] ∧
    C02.exText.segs.map (·.len) = [3, 2, 3, 1, 1, 3, 3, 1, 3, 2] := by decide +kernel

end UBidi.Props.C08Uniform
