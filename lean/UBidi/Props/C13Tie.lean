/-
  C13 (and C11) — tie by TRANSLATION: every `matches!(<class>, A | B | …)` test inside `isolating_run_sequences`
  (prepare.rs: "does this level run end with an isolate initiator", twice) and inside `explicit::compute`
  (`is_isolate`) is re-read from the source on every check run by tools/gen_code.py; each of them is the Model's
  `isIsolateInitiator` (BD8/BD9: LRI, RLI and FSI — an FSI that X5c could not resolve is still an initiator).
-/
import UBidi.Gen.Code
import UBidi.Model.Basic
namespace UBidi.Props.C13Tie
open UBidi UBidi.BidiClass

theorem tie_irs_initiator_tests (c : BidiClass) :
    ∀ s ∈ Gen.Code.matches_isolating_run_sequences, s.contains c = c.isIsolateInitiator := by
  cases c <;> decide

theorem tie_explicit_initiator_tests (c : BidiClass) :
    ∀ s ∈ Gen.Code.matches_explicit_compute, s.contains c = c.isIsolateInitiator := by
  cases c <;> decide

/-- the tests exist (the statements above are not about an empty list) -/
theorem tie_tests_exist :
    0 < Gen.Code.matches_isolating_run_sequences.length ∧ 0 < Gen.Code.matches_explicit_compute.length := by decide

end UBidi.Props.C13Tie
