/-
  C03, end to end — "line levels apply rule L1 exactly, and only inside the line", for the vectors the
  analysis itself stores.

  `Props/C03.lean` is RELATIVE: it is stated for arbitrary `classes` / `levels` under hypotheses (one entry
  per code unit, levels uniform within characters).  Here the relative theorems are instantiated with the
  vectors of `bidiInfo ds t d` (`BidiInfo::new`) and `paragraphBidiInfo ds t d` (`ParagraphBidiInfo::new`);
  the hypotheses about the vectors are discharged by `C07.bidiInfo_stored` / `paragraphBidiInfo_stored`
  (lengths, levels ≤ 126, paragraph level ≤ 1) and `C08Uniform.C08_uniform_levels_multi` / `_single`
  (uniformity) — see `Lemmas.LinePipeline.hyp_multi` / `hyp_single`.  What remains:

      any data source `ds`, a well-formed text `t` (every `&str`, every `&[u16]`), a base direction `d`
      (auto / LTR / RTL), a paragraph `p` of the analysis, and a non-empty line `[a, b)` whose ends are
      character boundaries of `t`.

  * `C03_pipeline`        — `BidiInfo::reordered_levels(para, line)`: no panic; the result is the stored
                            levels with the units of the line replaced by (the expansion of) the Spec's rule
                            L1 on the line's characters (`C03_line`); read at the first unit of each
                            character of the line it is `Spec.lineLevels`; length kept and nothing outside
                            the line changes (`C03_outside`); `reordered_levels_per_char` does not panic
                            either and is the per-unit result read at the character starts (`C03_per_char`).
  * `C03_pipeline_single` — the same for `ParagraphBidiInfo` (its one paragraph level; the line anywhere
                            in the text).
  * `C03_pipeline_uax9`   — combined with C01 (`C01Levels.C01_bidiInfo`) and C02: for a line INSIDE the
                            paragraph (`p.start ≤ a`, `b ≤ p.stop`) the line levels are rule L1 applied to the
                            levels UAX #9 itself assigns: `Spec.paragraphLevels` (X1–I2) of the paragraph's
                            characters with the classes after X5c (`Spec.resolveFSI`), at the paragraph level
                            of P2/P3 (`Spec.paraLevel`), restricted to the characters of the line.  The right-hand
                            side mentions the analysis only through the extent `[p.start, p.stop)` of the
                            paragraph (which `C02_partition` characterises: the text cut after every class-B
                            character).
  * `C03_pipeline_single_uax9` — the same for `ParagraphBidiInfo` on a one-paragraph text.

  NOTE on hypotheses.  `C03_pipeline` (and `C05_pipeline`, `C06_pipeline`) do NOT need the line to lie inside the
  paragraph `p` — only `p ∈ paras` (for the paragraph level), `a < b` and the two boundary facts (`b ≤ t.len`
  follows from `t.isBoundary b`).  They therefore also cover a caller that passes a line outside the
  paragraph (the crate does not check it).  `p.start ≤ a` and `b ≤ p.stop` are hypotheses of the `_uax9`
  theorems only, where they are needed.
-/
import UBidi.Lemmas.LinePipeline
namespace UBidi.Props.C03Pipeline
open UBidi UBidi.BidiClass UBidi.Lemmas.LinePipeline
open UBidi.Props.C02 (segsIn raw)

/-! ## UAX #9 on the characters of a paragraph / of a line (used in the `_uax9` statements) -/

/-- P2/P3: the level of the paragraph `[p.start, p.stop)` of `t`, from the data source's classes of its
    characters (`d` = forced level, `none` = auto) -/
def uax9ParaLevel (ds : DataSource) (t : Text) (d : Option Nat) (p : ParaInfo) : Nat :=
  Spec.paraLevel d ((segsIn t p).map (fun s => ds.cls s.cp))

/-- the characters of the paragraph `[p.start, p.stop)` of `t`, each with its class after X5c
    (`Spec.resolveFSI` of the data source's classes) and the level UAX #9 assigns to it
    (`Spec.paragraphLevels`: X1–X10, W1–W7, N0–N2, I1–I2 and the level carried by removed characters).
    Nothing computed by the Model occurs in this definition. -/
def uax9Para (ds : DataSource) (t : Text) (d : Option Nat) (p : ParaInfo) : List (Seg × BidiClass × Nat) :=
  let rcls := (segsIn t p).map (fun s => ds.cls s.cp)
  let cls := Spec.resolveFSI rcls
  let chars := List.zipWith (fun c s => ({ cls := c, brk := ds.brk s.cp } : Spec.Ch)) cls (segsIn t p)
  (segsIn t p).zip (cls.zip (Spec.paragraphLevels (Spec.paraLevel d rcls) chars))

/-- … restricted to the characters that start in the line `[a, b)` -/
def uax9Line (ds : DataSource) (t : Text) (d : Option Nat) (p : ParaInfo) (a b : Nat) :
    List (Seg × BidiClass × Nat) :=
  (uax9Para ds t d p).filter (fun x => a ≤ x.1.start && x.1.start < b)

/-- the whole text as one paragraph (what `ParagraphBidiInfo` analyses) -/
def wholePara (t : Text) : ParaInfo := { start := 0, stop := t.len, level := 0 }

/-! ## `BidiInfo` -/

section multi
variable (ds : DataSource) (t : Text) (hwf : t.WF) (d : Option Nat) (hd : d = none ∨ d = some 0 ∨ d = some 1)
  (p : ParaInfo) (hp : p ∈ (bidiInfo ds t d).paras)
  (a b : Nat) (hab : a < b) (ha : t.isBoundary a = true) (hbb : t.isBoundary b = true)
include hwf hd hp hab ha hbb

/-- **C03 end to end, `BidiInfo::reordered_levels(para, line)` / `reordered_levels_per_char`.** -/
theorem C03_pipeline :
    let B := bidiInfo ds t d
    let r := reorderedLevels t B.classes B.levels p.level a b
    -- no panic
    r.2 = none ∧
    -- rule L1 of the Spec on the characters of the line, per code unit (`C03_line`) …
    r.1 = B.levels.take a ++ C03.expand (t.subrange a b) (Spec.lineLevels p.level
            (C03.perChar (t.subrange a b) (slice B.classes a b) (slice B.levels a b))) ++ B.levels.drop b ∧
    -- … and per character of the line
    (C06.lineSegs t a b).map (fun s => r.1.getD s.start 0) = C06.lineL1 t B.classes B.levels p.level a b ∧
    -- only inside the line (`C03_outside`)
    r.1.length = t.len ∧ (∀ i, i < a ∨ b ≤ i → r.1[i]? = B.levels[i]?) ∧
    -- the per-character variant (`C03_per_char`)
    (reorderedLevelsPerChar t B.classes B.levels p.level a b).2 = none ∧
    (reorderedLevelsPerChar t B.classes B.levels p.level a b).1 = t.segs.map (fun s => r.1.getD s.start 0) := by
  intro B r
  have h := hyp_multi ds t hwf d hd p hp a b hab ha hbb
  obtain ⟨l1, l2⟩ := C03.C03_line t hwf B.classes B.levels p.level a b (Nat.le_of_lt hab) ha hbb h.hc h.hl h.hul
  obtain ⟨o1, o2⟩ := C03.C03_outside t B.classes B.levels p.level a b
  obtain ⟨c1, c2⟩ := C03.C03_per_char t B.classes B.levels p.level a b
  exact ⟨l1, l2, Hyp.sampled h, o1.trans h.hl, o2, c2.trans l1, c1⟩

/-- **C03 end to end against UAX #9**: for a line inside the paragraph, the line levels are rule L1 (at the
    paragraph level of P2/P3) of the levels `Spec.paragraphLevels` assigns to the paragraph's characters,
    restricted to the characters of the line -/
theorem C03_pipeline_uax9 (hpa : p.start ≤ a) (hpb : b ≤ p.stop) :
    let B := bidiInfo ds t d
    let r := reorderedLevels t B.classes B.levels p.level a b
    let line := uax9Line ds t d p a b
    p.level = uax9ParaLevel ds t d p ∧
    line.map (·.1) = C06.lineSegs t a b ∧
    r.2 = none ∧
    r.1 = B.levels.take a ++ C03.expand (t.subrange a b)
            (Spec.lineLevels (uax9ParaLevel ds t d p) (line.map (·.2))) ++ B.levels.drop b ∧
    (C06.lineSegs t a b).map (fun s => r.1.getD s.start 0)
      = Spec.lineLevels (uax9ParaLevel ds t d p) (line.map (·.2)) := by
  intro B r line
  obtain ⟨l1, l2, l3, _⟩ := C03_pipeline ds t hwf d hd p hp a b hab ha hbb
  have hlv := (para_uax9 ds t hwf d hd p hp).1
  have hline : line = (C06.lineSegs t a b).map (fun s => (s, B.classes.getD s.start ON, B.levels.getD s.start 0)) :=
    line_uax9 ds t hwf d hd p hp a b hpa hpb
  have h2 : line.map (·.2) = Lemmas.C06.lineCls t B.classes B.levels a b := by
    rw [hline, List.map_map]; rfl
  refine ⟨hlv, ?_, l1, ?_, ?_⟩
  · rw [hline, List.map_map]; exact List.map_id _
  · rw [l2, Lemmas.C06.perChar_sub, h2]
    show _ = _ ++ C03.expand _ (Spec.lineLevels (Spec.paraLevel d _) _) ++ _
    rw [← hlv]
  · rw [l3, h2]
    show Spec.lineLevels p.level _ = Spec.lineLevels (Spec.paraLevel d _) _
    rw [← hlv]
    rfl

end multi

/-! ## `ParagraphBidiInfo` -/

section single
variable (ds : DataSource) (t : Text) (hwf : t.WF) (d : Option Nat) (hd : d = none ∨ d = some 0 ∨ d = some 1)
  (a b : Nat) (hab : a < b) (ha : t.isBoundary a = true) (hbb : t.isBoundary b = true)
include hwf hd hab ha hbb

/-- **C03 end to end, `ParagraphBidiInfo::reordered_levels(line)` / `reordered_levels_per_char`**: the line
    anywhere in the text -/
theorem C03_pipeline_single :
    let Q := paragraphBidiInfo ds t d
    let r := reorderedLevels t Q.classes Q.levels Q.paraLevel a b
    r.2 = none ∧
    r.1 = Q.levels.take a ++ C03.expand (t.subrange a b) (Spec.lineLevels Q.paraLevel
            (C03.perChar (t.subrange a b) (slice Q.classes a b) (slice Q.levels a b))) ++ Q.levels.drop b ∧
    (C06.lineSegs t a b).map (fun s => r.1.getD s.start 0) = C06.lineL1 t Q.classes Q.levels Q.paraLevel a b ∧
    r.1.length = t.len ∧ (∀ i, i < a ∨ b ≤ i → r.1[i]? = Q.levels[i]?) ∧
    (reorderedLevelsPerChar t Q.classes Q.levels Q.paraLevel a b).2 = none ∧
    (reorderedLevelsPerChar t Q.classes Q.levels Q.paraLevel a b).1 = t.segs.map (fun s => r.1.getD s.start 0) := by
  intro Q r
  have h := hyp_single ds t hwf d hd a b hab ha hbb
  obtain ⟨l1, l2⟩ := C03.C03_line t hwf Q.classes Q.levels Q.paraLevel a b (Nat.le_of_lt hab) ha hbb h.hc h.hl h.hul
  obtain ⟨o1, o2⟩ := C03.C03_outside t Q.classes Q.levels Q.paraLevel a b
  obtain ⟨c1, c2⟩ := C03.C03_per_char t Q.classes Q.levels Q.paraLevel a b
  exact ⟨l1, l2, Hyp.sampled h, o1.trans h.hl, o2, c2.trans l1, c1⟩

/-- against UAX #9, for a text that is one paragraph (no class-B character except possibly the last one) -/
theorem C03_pipeline_single_uax9 (hB : ∀ c ∈ (raw ds t).dropLast, c ≠ B) :
    let Q := paragraphBidiInfo ds t d
    let r := reorderedLevels t Q.classes Q.levels Q.paraLevel a b
    let line := uax9Line ds t d (wholePara t) a b
    Q.paraLevel = uax9ParaLevel ds t d (wholePara t) ∧
    line.map (·.1) = C06.lineSegs t a b ∧
    r.2 = none ∧
    r.1 = Q.levels.take a ++ C03.expand (t.subrange a b)
            (Spec.lineLevels (uax9ParaLevel ds t d (wholePara t)) (line.map (·.2))) ++ Q.levels.drop b ∧
    (C06.lineSegs t a b).map (fun s => r.1.getD s.start 0)
      = Spec.lineLevels (uax9ParaLevel ds t d (wholePara t)) (line.map (·.2)) := by
  intro Q r line
  obtain ⟨l1, l2, l3, _⟩ := C03_pipeline_single ds t hwf d hd a b hab ha hbb
  have hw := whole_segsIn t hwf
  have hline : line = (C06.lineSegs t a b).map (fun s => (s, Q.classes.getD s.start ON, Q.levels.getD s.start 0)) :=
    single_line_uax9 ds t hwf d hd hB a b
  have hlv : Q.paraLevel = uax9ParaLevel ds t d (wholePara t) := by
    rw [(single_uax9 ds t hwf d hd hB).1]
    show _ = Spec.paraLevel d ((segsIn t _).map _)
    rw [show segsIn t (wholePara t) = t.segs from hw]
    rfl
  have h2 : line.map (·.2) = Lemmas.C06.lineCls t Q.classes Q.levels a b := by
    rw [hline, List.map_map]; rfl
  refine ⟨hlv, ?_, l1, ?_, ?_⟩
  · rw [hline, List.map_map]; exact List.map_id _
  · rw [l2, Lemmas.C06.perChar_sub, h2, ← hlv]
  · rw [l3, h2, ← hlv]; rfl

end single

/-! ## Non-vacuity and tests (`decide +kernel` on the literals below are tests, not proofs of the property) -/

/-- `a א ␠ ב 😀 b ⏎ ג` as a `&str`: 14 bytes, characters of 1, 2 and 4 bytes, two paragraphs
    (`[0, 12)` left-to-right, `[12, 14)` right-to-left) -/
def exText : Text := Text.ofScalars [0x61, 0x5D0, 0x20, 0x5D1, 0x1F600, 0x62, 0x0A, 0x5D2]

theorem exText_wf : exText.WF := C01.Base.ofScalars_WF _

/-- its first paragraph -/
def exPara : ParaInfo := { start := 0, stop := 12, level := 0 }

theorem exPara_mem : exPara ∈ (bidiInfo hardcoded exText none).paras := by decide +kernel

/-- non-vacuity of `C03_pipeline`: built-in data, auto direction, the line `[1, 4)` = `א ␠` of the first
    paragraph (the hypotheses are the membership above and three facts by evaluation) -/
example :
    let B := bidiInfo hardcoded exText none
    (reorderedLevels exText B.classes B.levels 0 1 4).2 = none ∧
    (C06.lineSegs exText 1 4).map (fun s => (reorderedLevels exText B.classes B.levels 0 1 4).1.getD s.start 0)
      = C06.lineL1 exText B.classes B.levels 0 1 4 :=
  have h := C03_pipeline hardcoded exText exText_wf none (Or.inl rfl) exPara exPara_mem 1 4
    (by decide) (by decide +kernel) (by decide +kernel)
  ⟨h.1, h.2.2.1⟩

/-- non-vacuity of `C03_pipeline_uax9`: the line is inside the paragraph -/
example :
    let B := bidiInfo hardcoded exText none
    (C06.lineSegs exText 1 4).map (fun s => (reorderedLevels exText B.classes B.levels 0 1 4).1.getD s.start 0)
      = Spec.lineLevels (uax9ParaLevel hardcoded exText none exPara)
          ((uax9Line hardcoded exText none exPara 1 4).map (·.2)) :=
  (C03_pipeline_uax9 hardcoded exText exText_wf none (Or.inl rfl) exPara exPara_mem 1 4
    (by decide) (by decide +kernel) (by decide +kernel) (by decide) (by decide)).2.2.2.2

/-- test: the stored levels, and the line levels of `[1, 4)`: the space after `א` has level 1 in the
    paragraph and is reset to the paragraph level by L1 because the line ends after it; nothing else
    changes -/
example :
    let B := bidiInfo hardcoded exText none
    B.levels = [0, 1, 1, 1, 1, 1, 0, 0, 0, 0, 0, 0, 1, 1] ∧
    (reorderedLevels exText B.classes B.levels 0 1 4).1 = [0, 1, 1, 0, 1, 1, 0, 0, 0, 0, 0, 0, 1, 1] ∧
    (reorderedLevelsPerChar exText B.classes B.levels 0 1 4).1 = [0, 1, 0, 1, 0, 0, 0, 1] := by
  decide +kernel

/-- test: the UAX #9 side, computed without the Model: the paragraph level, the paragraph's characters
    `(class after X5c, level)`, the part on the line, and rule L1 on it -/
example :
    uax9ParaLevel hardcoded exText none exPara = 0 ∧
    (uax9Para hardcoded exText none exPara).map (·.2)
      = [(L, 0), (R, 1), (WS, 1), (R, 1), (ON, 0), (L, 0), (B, 0)] ∧
    (uax9Line hardcoded exText none exPara 1 4).map (·.2) = [(R, 1), (WS, 1)] ∧
    Spec.lineLevels 0 ((uax9Line hardcoded exText none exPara 1 4).map (·.2)) = [1, 0] := by
  decide +kernel

/-- non-vacuity of `C03_pipeline_single`: the whole of `exText` as one `ParagraphBidiInfo`, the line
    `[4, 12)` = `ב 😀 b ⏎` -/
example :
    let Q := paragraphBidiInfo hardcoded exText none
    (reorderedLevels exText Q.classes Q.levels Q.paraLevel 4 12).2 = none :=
  (C03_pipeline_single hardcoded exText exText_wf none (Or.inl rfl) 4 12
    (by decide) (by decide +kernel) (by decide +kernel)).1

/-- `a ␠ א ␠ TAB b` as a `&str`: one paragraph -/
def exSingle : Text := Text.ofScalars [0x61, 0x20, 0x5D0, 0x20, 0x9, 0x62]

/-- non-vacuity of `C03_pipeline_single_uax9`: `exSingle` has no paragraph separator; the line `[1, 6)` -/
example :
    let Q := paragraphBidiInfo hardcoded exSingle (some 1)
    (C06.lineSegs exSingle 1 6).map
        (fun s => (reorderedLevels exSingle Q.classes Q.levels Q.paraLevel 1 6).1.getD s.start 0)
      = Spec.lineLevels (uax9ParaLevel hardcoded exSingle (some 1) (wholePara exSingle))
          ((uax9Line hardcoded exSingle (some 1) (wholePara exSingle) 1 6).map (·.2)) :=
  (C03_pipeline_single_uax9 hardcoded exSingle (C01.Base.ofScalars_WF _) (some 1) (Or.inr (Or.inr rfl)) 1 6
    (by decide) (by decide +kernel) (by decide +kernel) (by decide +kernel)).2.2.2.2

/-- test: what both sides are there (forced right-to-left; the space before the TAB and the TAB are reset) -/
example :
    let Q := paragraphBidiInfo hardcoded exSingle (some 1)
    Q.levels = [2, 1, 1, 1, 1, 1, 2] ∧
    Spec.lineLevels (uax9ParaLevel hardcoded exSingle (some 1) (wholePara exSingle))
      ((uax9Line hardcoded exSingle (some 1) (wholePara exSingle) 1 6).map (·.2)) = [1, 1, 1, 1] := by
  decide +kernel

end UBidi.Props.C03Pipeline
