/-
  C01 — the decision tables of the rules, tied to the source by TRANSLATION (second translator, tools/gen_code.py).

  Four `match` statements of implicit.rs are pure tables from classes to a class or to an amount; the translator
  re-reads them, arm by arm and with their results, on every check run (`Gen.Code.i12_amount`, `n12_class`,
  `w46_class`, `w1_class`; Lean's `match` tries the arms in order exactly as Rust's does).  The theorems here state that
  the Model's transcription of `resolve_levels` (I1/I2), `resolve_neutral` (N1/N2) and of one iteration of
  `resolve_weak` (W1, W4, W6 for separators) is the same function when the source's own tables are put in the
  place of the Model's: a change of one entry of one of these tables in the source breaks a theorem here, whether or
  not a generated text happens to reach that entry.
-/
import UBidi.Gen.Code
import UBidi.Model.Implicit
namespace UBidi.Props.C01TieRules
open UBidi UBidi.BidiClass

/-- N1/N2: the Model's table is the source's, for all 23 × 23 × 23 arguments -/
theorem tie_n12_class (prev next e : BidiClass) : Gen.Code.n12_class prev next e = n12Class prev next e := by
  cases prev <;> cases next <;> rfl

/-- I1/I2: one unit of the Model's `resolve_levels`, written with the source's table -/
def resolveLevelG (lvl : Nat) (c : BidiClass) : Nat × Option Panic :=
  let amount := Gen.Code.i12_amount (Level.isRtl lvl) c
  if amount == 0 then (lvl, none)
  else match Level.raise lvl amount with
    | some l => (l, none)
    | none => (lvl, some .raiseOverflow)

theorem tie_i12 (lvl : Nat) (c : BidiClass) : resolveLevel lvl c = resolveLevelG lvl c := by
  unfold resolveLevel resolveLevelG
  cases h : Level.isRtl lvl <;> cases c <;> rfl

/-- hence the whole of `resolve_levels` -/
theorem tie_resolveLevels (pcs : Classes) (levels : List Nat) :
    resolveLevels pcs levels =
      (let rs := (levels.zip pcs).map (fun (l, c) => resolveLevelG l c)
       (rs.map (·.1), rs.foldl (fun e r => orErr e r.2)
                        (if pcs.length = levels.length then none else some .lenMismatch))) := by
  have : (fun (x : Nat × BidiClass) => resolveLevel x.1 x.2) = (fun x => resolveLevelG x.1 x.2) := by
    funext x; exact tie_i12 x.1 x.2
  unfold resolveLevels
  simp only [this]

/-- W1 and W4/W6: the source's tables are the Model's -/
theorem tie_w1_class (prev : BidiClass) :
    Gen.Code.w1_class prev = (match prev with | RLI | LRI | FSI | PDI => ON | p => p) := by
  cases prev <;> rfl

theorem tie_w46_class (prev c next : BidiClass) :
    Gen.Code.w46_class prev c next =
      (match prev, c, next with
       | EN, ES, EN => EN
       | EN, CS, EN => EN
       | AN, CS, AN => AN
       | _, _, _ => ON) := by
  cases prev <;> cases c <;> cases next <;> rfl

/-- one iteration of `resolve_weak`: the text of `weakStep` (Model/Implicit.lean) with `Gen.Code.w1_class` and
    `Gen.Code.w46_class` in the place of the two inline tables -/
def weakStepG (charLenAt : Nat → Option Nat) (seq : IRSeq) (st : WState) (ri : Nat × Nat) : WState :=
  let runIdx := ri.1
  let i := ri.2
  if cget st.pcs i == BN then { st with bnRun := st.bnRun ++ [i] }
  else
    let c0 := cget st.pcs i
    let c1 := if c0 == NSM then Gen.Code.w1_class st.prevW1 else c0
    let w2class := c1
    let prevW1 := c1
    let c2 := match c1 with
      | EN => if st.lastStrongIsAL then AN else EN
      | AL => R
      | c => c
    let lastAL := match w2class with
      | L | R => false
      | AL => true
      | _ => st.lastStrongIsAL
    let classBeforeW456 := c2
    let pcs := st.pcs.set i c2
    let (pcs, etRun) :=
      match c2 with
      | EN => (setAll pcs st.etRun EN, [])
      | ES | CS =>
        (match charLenAt i with
         | some charLen =>
           let nextClass0 :=
             ((seq.iterForwardsFrom (i + charLen) runIdx).map (cget pcs)).find? notRemoved |>.getD seq.eos
           let nextClass := if nextClass0 == EN && lastAL then AN else nextClass0
           let c3 := Gen.Code.w46_class st.prevW4 c2 nextClass
           let pcs := pcs.set i c3
           if c3 == ON then
             let pcs := setWhileBN pcs (seq.iterBackwardsFrom i runIdx) ON
             let pcs := setWhileBN pcs (seq.iterForwardsFrom (i + charLen) runIdx) ON
             (pcs, st.etRun)
           else (pcs, st.etRun)
         | none => (pcs.set i (cget pcs (i - 1)), st.etRun))
      | ET =>
        (match st.prevW5 with
         | EN => (pcs.set i EN, st.etRun)
         | _ => (pcs, st.etRun ++ st.bnRun ++ [i]))
      | _ => (pcs, st.etRun)
    let prevW5 := cget pcs i
    let (pcs, etRun) := if prevW5 != ET then (setAll pcs etRun ON, []) else (pcs, etRun)
    { pcs := pcs, prevW4 := classBeforeW456, prevW5 := prevW5, prevW1 := prevW1,
      lastStrongIsAL := lastAL, etRun := etRun, bnRun := [] }

theorem tie_weakStep (charLenAt : Nat → Option Nat) (seq : IRSeq) (st : WState) (ri : Nat × Nat) :
    weakStep charLenAt seq st ri = weakStepG charLenAt seq st ri := by
  unfold weakStep weakStepG
  simp only [tie_w1_class, tie_w46_class]
  rfl

/-- hence the whole loop of `resolve_weak` (W1–W6; the W7 pass has no table) -/
theorem tie_resolveWeak (charLenAt : Nat → Option Nat) (seq : IRSeq) (pcs : Classes) :
    resolveWeak charLenAt seq pcs =
      (let st0 : WState := { pcs := pcs, prevW4 := seq.sos, prevW5 := seq.sos, prevW1 := seq.sos }
       let st := seq.indexed.foldl (weakStepG charLenAt seq) st0
       let pcs := setAll st.pcs st.etRun ON
       (seq.indices.foldl w7Step (pcs, seq.sos == L)).1) := by
  have : weakStep charLenAt seq = weakStepG charLenAt seq := by
    funext st ri; exact tie_weakStep charLenAt seq st ri
  unfold resolveWeak
  simp only [this]

/-! ### the tables are not trivial (tests of single entries) -/
example : Gen.Code.i12_amount false EN = 2 ∧ Gen.Code.i12_amount true EN = 1 ∧ Gen.Code.i12_amount true R = 0 := by decide
example : Gen.Code.n12_class AN EN L = R ∧ Gen.Code.n12_class L R L = L ∧ Gen.Code.n12_class L R R = R := by decide
example : Gen.Code.w46_class EN CS EN = EN ∧ Gen.Code.w46_class AN ES AN = ON ∧ Gen.Code.w1_class PDI = ON ∧ Gen.Code.w1_class AL = AL := by decide

end UBidi.Props.C01TieRules
