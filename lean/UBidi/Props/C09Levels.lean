/-
  C09, levels — the hypotheses of `Props/C09.lean`'s level theorems discharged by the Expand pipeline
  theorem (`Lemmas/ExpandPipeline*.lean`): the UTF-16 analysis and the UTF-8 analysis of the lossy
  decoding assign the same level to every character, for both analysis types.
-/
import UBidi.Lemmas.ExpandPipelineC09
namespace UBidi.Props.C09Levels
open UBidi UBidi.Props.C09

theorem C09_levels (ds : DataSource) (u : List Nat) (h16 : ∀ x ∈ u, x < 65536) (d : Option Nat) :
    (t16 u).segs.map (fun s => (bidiInfo ds (t16 u) d).levels.getD s.start 0)
      = (t8 u).segs.map (fun s => (bidiInfo ds (t8 u) d).levels.getD s.start 0) ∧
    (t16 u).segs.map (fun s => (paragraphBidiInfo ds (t16 u) d).levels.getD s.start 0)
      = (t8 u).segs.map (fun s => (paragraphBidiInfo ds (t8 u) d).levels.getD s.start 0) :=
  UBidi.Expand.PipelineC09.C09_levels ds u h16 d

theorem C09_levels_hardcoded (u : List Nat) (h16 : ∀ x ∈ u, x < 65536) (d : Option Nat) :
    (t16 u).segs.map (fun s => (bidiInfo hardcoded (t16 u) d).levels.getD s.start 0)
      = (t8 u).segs.map (fun s => (bidiInfo hardcoded (t8 u) d).levels.getD s.start 0) ∧
    (t16 u).segs.map (fun s => (paragraphBidiInfo hardcoded (t16 u) d).levels.getD s.start 0)
      = (t8 u).segs.map (fun s => (paragraphBidiInfo hardcoded (t8 u) d).levels.getD s.start 0) :=
  UBidi.Expand.PipelineC09.C09_levels_hardcoded u h16 d

/-- and all units of a character carry that level, so agreement at the first unit is agreement everywhere -/
theorem C09_levels_uniform (ds : DataSource) (t : Text) (d : Option Nat) (hwf : t.WF) :
    Expand.UniformOn t (bidiInfo ds t d).levels ∧ Expand.UniformOn t (paragraphBidiInfo ds t d).levels :=
  UBidi.Expand.PipelineC09.C09_levels_uniform ds t d hwf

end UBidi.Props.C09Levels
