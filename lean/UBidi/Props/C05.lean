/-
  C05 — `visual_runs` partitions the line into level runs in L2 visual order.

  `visualRunsForLine levels a b` (Model/Reorder.lean) transcribes `visual_runs_for_line`
  (lib.rs) AND `deprecated::visual_runs` (deprecated.rs): the two Rust copies are the same
  algorithm and are modelled by this ONE function, so "the deprecated free function returns the
  same runs" holds by construction in the Model (the harness compares the outputs of the two Rust
  functions with the Model's output separately); it is not a Lean theorem.

  For every line `[a, b)` of a level vector `lv` (`a < b ≤ lv.length`, all levels ≤ 126):
    * `C05_no_panic`  — no panic site is reached;
    * `C05_partition` — the returned runs are non-empty and are a permutation of the logical level
                        runs; the logical level runs tile `[a, b)` (consecutive, non-empty,
                        disjoint, covering), each has one level, and each is maximal;
    * `C05_order`     — listing the runs in the returned order and reversing the code units of
                        each odd-level run gives exactly rule L2's order (`Spec.l2`) of the line.
-/
import UBidi.Model.Reorder
import UBidi.Spec.Reorder
import UBidi.Lemmas.C05Spec
namespace UBidi.Props.C05
open UBidi UBidi.Lemmas.C05

/-! ## Definitions used in the statements -/

/-- visual order of code units described by runs: odd-level runs reversed -/
def runsOrder (lv : List Nat) (runs : List (Nat × Nat)) : List Nat :=
  runs.flatMap (fun r => let idx := List.range' r.1 (r.2 - r.1); if (lv.getD r.1 0) % 2 == 1 then idx.reverse else idx)

/-- the level runs of the line `[a, b)` in logical order (the first loop of `visual_runs_for_line`) -/
def logicalRuns (lv : List Nat) (a b : Nat) : List (Nat × Nat) :=
  findRuns a (lv.getD a 0) (a + 1) b (slice lv (a + 1) b)

/-- `runs` are consecutive non-empty half-open intervals that start at `s` and end at `e`
    (hence pairwise disjoint, sorted, and covering exactly `[s, e)`) -/
def tiles : Nat → List (Nat × Nat) → Nat → Prop
  | s, [], e => s = e
  | s, r :: rs, e => r.1 = s ∧ r.1 < r.2 ∧ tiles r.2 rs e

/-- every code unit of the run has the level of the run's first unit -/
def oneLevel (lv : List Nat) (r : Nat × Nat) : Prop :=
  ∀ i, r.1 ≤ i → i < r.2 → lv[i]? = lv[r.1]?

/-- the run cannot be extended inside the line `[a, b)`: the unit before it (if it is in the line)
    and the unit after it (if it is in the line) have a different level -/
def maximalIn (lv : List Nat) (a b : Nat) (r : Nat × Nat) : Prop :=
  (a < r.1 → lv[r.1 - 1]? ≠ lv[r.1]?) ∧ (r.2 < b → lv[r.2]? ≠ lv[r.1]?)

/-! ## Run detection -/

theorem tiles_bounds : ∀ (R : List (Nat × Nat)) (s e : Nat), tiles s R e →
    s ≤ e ∧ ∀ r ∈ R, s ≤ r.1 ∧ r.1 < r.2 ∧ r.2 ≤ e := by
  intro R
  induction R with
  | nil => intro s e h; simp only [tiles] at h; simp [h]
  | cons r rs ih =>
    intro s e h
    simp only [tiles] at h
    obtain ⟨h1, h2, h3⟩ := h
    have := ih r.2 e h3
    refine ⟨by omega, ?_⟩
    intro x hx
    rcases List.mem_cons.1 hx with rfl | hx
    · omega
    · have := this.2 x hx; omega

theorem tiles_units : ∀ (R : List (Nat × Nat)) (s e : Nat), tiles s R e →
    R.flatMap units = List.range' s (e - s) := by
  intro R
  induction R with
  | nil => intro s e h; simp only [tiles] at h; simp [h]
  | cons r rs ih =>
    intro s e h
    have hb := (tiles_bounds _ _ _ h).2 r (by simp)
    simp only [tiles] at h
    obtain ⟨h1, h2, h3⟩ := h
    rw [List.flatMap_cons, ih r.2 e h3, units, h1]
    have e1 : r.2 = s + (r.2 - s) := by omega
    have e2 : e - s = (r.2 - s) + (e - r.2) := by omega
    rw [e2]
    conv => lhs; rhs; rw [e1]
    have e3 : e - (s + (r.2 - s)) = e - r.2 := by omega
    rw [e3]
    exact List.range'_append_1

/-- what `findRuns` returns when the units `[start, i)` seen so far all have level `rl` -/
theorem findRuns_spec (lv : List Nat) (stop : Nat) :
    ∀ (ls : List Nat) (start rl i : Nat), start < i → i + ls.length = stop →
    (∀ k, k < ls.length → lv[i + k]? = ls[k]?) →
    (∀ j, start ≤ j → j < i → lv[j]? = some rl) →
    tiles start (findRuns start rl i stop ls) stop ∧
    (∀ r ∈ findRuns start rl i stop ls, oneLevel lv r) ∧
    (∀ r ∈ findRuns start rl i stop ls,
      (r.1 ≠ start → lv[r.1 - 1]? ≠ lv[r.1]?) ∧ (r.2 ≠ stop → lv[r.2]? ≠ lv[r.1]?)) := by
  intro ls
  induction ls with
  | nil =>
    intro start rl i hsi hstop _ hconst
    simp only [List.length_nil, Nat.add_zero] at hstop
    subst hstop
    simp only [findRuns, tiles, List.mem_singleton, forall_eq, true_and, ne_eq, not_true_eq_false,
      false_implies, and_self, and_true]
    refine ⟨hsi, ?_⟩
    intro j h1 h2
    rw [hconst j h1 h2, hconst start (Nat.le_refl _) hsi]
  | cons l ls ih =>
    intro start rl i hsi hstop hls hconst
    have hli : lv[i]? = some l := by simpa using hls 0 (by simp)
    have hls' : ∀ k, k < ls.length → lv[i + 1 + k]? = ls[k]? := by
      intro k hk
      have := hls (k + 1) (by simp; omega)
      simpa [Nat.add_assoc, Nat.add_comm 1 k] using this
    have hstop' : i + 1 + ls.length = stop := by simp at hstop; omega
    unfold findRuns
    by_cases hne : l = rl
    · subst hne
      simp only [bne_self_eq_false, Bool.false_eq_true, if_false]
      exact ih start l (i + 1) (by omega) hstop' hls' (by
        intro j h1 h2
        by_cases hj : j < i
        · exact hconst j h1 hj
        · have : j = i := by omega
          rw [this, hli])
    · have hb : (l != rl) = true := by simpa using hne
      simp only [hb, if_true]
      obtain ⟨t1, t2, t3⟩ := ih i l (i + 1) (by omega) hstop' hls' (by
        intro j h1 h2
        have : j = i := by omega
        rw [this, hli])
      have hstart : lv[start]? = some rl := hconst start (Nat.le_refl _) hsi
      refine ⟨?_, ?_, ?_⟩
      · simp only [tiles]; exact ⟨trivial, hsi, t1⟩
      · intro r hr
        rcases List.mem_cons.1 hr with rfl | hr
        · intro j h1 h2
          rw [hconst j h1 h2, hstart]
        · exact t2 r hr
      · intro r hr
        rcases List.mem_cons.1 hr with rfl | hr
        · refine ⟨fun h => absurd rfl h, fun _ => ?_⟩
          simp only [hli, hstart]
          intro h; exact hne (Option.some.inj h)
        · refine ⟨fun _ => ?_, (t3 r hr).2⟩
          by_cases hri : r.1 = i
          · rw [hri, hli, hconst (i - 1) (by omega) (by omega)]
            intro h; exact hne (Option.some.inj h).symm
          · exact (t3 r hr).1 hri

theorem slice_length (lv : List Nat) (a b : Nat) (hb : b ≤ lv.length) :
    (slice lv a b).length = b - a := by
  simp [slice]; omega

theorem slice_getElem? (lv : List Nat) (a b k : Nat) (hk : k < b - a) :
    (slice lv a b)[k]? = lv[a + k]? := by
  simp [slice, hk]

/-- the logical runs tile the line, are single-level and maximal -/
theorem logicalRuns_spec (lv : List Nat) (a b : Nat) (hab : a < b) (hb : b ≤ lv.length) :
    tiles a (logicalRuns lv a b) b ∧ (∀ r ∈ logicalRuns lv a b, oneLevel lv r) ∧
    (∀ r ∈ logicalRuns lv a b, maximalIn lv a b r) := by
  have hlen := slice_length lv (a + 1) b hb
  obtain ⟨t1, t2, t3⟩ := findRuns_spec lv b (slice lv (a + 1) b) a (lv.getD a 0) (a + 1) (by omega)
    (by rw [hlen]; omega)
    (by intro k hk; rw [hlen] at hk; rw [slice_getElem? lv (a + 1) b k hk])
    (by
      intro j h1 h2
      have : j = a := by omega
      subst this
      have : j < lv.length := by omega
      simp [List.getD_eq_getElem?_getD, this])
  refine ⟨t1, t2, ?_⟩
  intro r hr
  have hbd := (tiles_bounds _ _ _ t1).2 r hr
  exact ⟨fun h => (t3 r hr).1 (by omega), fun h => (t3 r hr).2 (by omega)⟩

/-! ## The loop: permutation, no panic -/

theorem passes_perm (lev : Nat × Nat → Nat) (hi : Nat) (R0 : List (Nat × Nat)) (n : Nat) :
    ((List.range n).foldl (fun R d => passR lev (hi - d) R) R0).Perm R0 := by
  induction n with
  | zero => exact List.Perm.refl _
  | succ n ih =>
    simp only [List.range_succ, List.foldl_append, List.foldl_cons, List.foldl_nil]
    have := revG_perm (fun r => decide (lev r ≥ hi - n)) []
      ((List.range n).foldl (fun R d => passR lev (hi - d) R) R0)
    simp only [List.nil_append] at this
    exact this.trans ih

/-- `visualRunsForLine` in closed form: the passes for the levels `hi, hi-1, …, m` applied to the
    logical runs, where `hi` is the highest level of the line and `m` is odd, `1 ≤ m ≤ hi + 1`,
    and no odd level of the line is below `m` -/
theorem visualRuns_closed (lv : List Nat) (a b : Nat) (hab : a < b) (hb : b ≤ lv.length)
    (h126 : ∀ l ∈ lv, l ≤ 126) :
    ∃ m, m % 2 = 1 ∧ m ≤ (slice lv a b).foldl max 0 + 1 ∧
      (∀ l ∈ slice lv a b, l % 2 = 1 → m ≤ l) ∧
      visualRunsForLine lv a b =
        ((List.range ((slice lv a b).foldl max 0 + 1 - m)).foldl
          (fun R d => passR (fun r => lv.getD r.1 0) ((slice lv a b).foldl max 0 - d) R)
          (logicalRuns lv a b), none) := by
  have ha : a < lv.length := by omega
  have hl0 : lv[a]? = some lv[a] := by simp [ha]
  have hgetD : lv.getD a 0 = lv[a] := by simp [List.getD_eq_getElem?_getD, ha]
  have hmemL : lv[a] ∈ slice lv a b := by
    have := slice_getElem? lv a b 0 (by omega)
    simp only [Nat.add_zero, hl0] at this
    exact List.mem_of_getElem? this
  have hsub : ∀ l ∈ slice lv a b, l ∈ lv := by
    intro l hl
    unfold slice at hl
    exact List.mem_of_mem_drop (List.mem_of_mem_take hl)
  have hmax : (slice lv a b).foldl max lv[a] = (slice lv a b).foldl max 0 :=
    foldl_max_start _ _ hmemL
  have hmin1 := foldl_min_le (slice lv a b) lv[a]
  have hmin2 := foldl_min_mem (slice lv a b) lv[a]
  have hminL : (slice lv a b).foldl min lv[a] ∈ slice lv a b := by
    rcases List.mem_cons.1 hmin2 with h | h
    · rw [h]; exact hmemL
    · exact h
  have hmaxge := (foldl_max_ge (slice lv a b) 0).2
  unfold visualRunsForLine
  simp only [hl0]
  rw [hmax]
  generalize hmn : (slice lv a b).foldl min lv[a] = mn at hmin1 hminL
  generalize hhi : (slice lv a b).foldl max 0 = hi at hmaxge
  have hmn126 : mn ≤ 126 := h126 mn (hsub mn hminL)
  have hhi126 : hi ≤ 126 := by
    have := foldl_max_mem (slice lv a b) 0
    rw [hhi] at this
    rcases List.mem_cons.1 this with h | h
    · omega
    · exact h126 hi (hsub hi h)
  cases hnl : Level.newLowestGeRtl mn with
  | none =>
    have hmn' : mn = 126 := (UBidi.Props.C19.newLowestGeRtl_fails_iff mn hmn126).1 hnl
    have hall : ∀ l ∈ slice lv a b, l = 126 := by
      intro l hl
      have := hmin1.2 l hl
      have := h126 l (hsub l hl)
      omega
    have hhi' : hi = 126 := by
      have := hmaxge mn hminL; omega
    refine ⟨127, by omega, by omega, ?_, ?_⟩
    · intro l hl h1; have := hall l hl; omega
    · have : hi + 1 - 127 = 0 := by omega
      simp only [this, List.range_zero, List.foldl_nil, logicalRuns, hgetD]
  | some m =>
    obtain ⟨m1, m2, m3, m4⟩ := UBidi.Props.C19.newLowestGeRtl_some mn m hnl
    have hmle : m ≤ hi + 1 := by
      have h1 := hmaxge mn hminL
      by_cases hp : mn % 2 = 1
      · have := m4 mn (Nat.le_refl _) hp; omega
      · have := m4 (mn + 1) (by omega) (by omega); omega
    refine ⟨m, m1, hmle, ?_, ?_⟩
    · intro l hl h1
      exact m4 l (hmin1.2 l hl) h1
    · simp only []
      rw [l2RunsLoop_eq lv m (by omega) (hi + 1) hi rfl]
      simp only [logicalRuns, hgetD]

/-- at the end of the loop (level `m`, odd, no odd level below it) a run has been flipped an odd
    number of times exactly when its level is odd -/
theorem flag_parity (m l : Nat) (hm : m % 2 = 1) (hodd : l % 2 = 1 → m ≤ l) :
    decide (m ≤ l ∧ (l - m) % 2 = 0) = (l % 2 == 1) := by
  by_cases hp : l % 2 = 1
  · have := hodd hp
    have h2 : (l - m) % 2 = 0 := by omega
    simp [hp, this, h2]
  · have : ¬ (m ≤ l ∧ (l - m) % 2 = 0) := by omega
    simp [hp, this]

/-! ## The three theorems -/

theorem C05_no_panic (lv : List Nat) (a b : Nat) (hab : a < b) (hb : b ≤ lv.length)
    (h126 : ∀ l ∈ lv, l ≤ 126) : (visualRunsForLine lv a b).2 = none := by
  obtain ⟨m, _, _, _, h⟩ := visualRuns_closed lv a b hab hb h126
  rw [h]

/-- The returned runs are non-empty and are, up to order, exactly the logical level runs; and the
    logical level runs tile `[a, b)`, are single-level, and are maximal.  (Together: the returned
    runs are non-empty, pairwise disjoint, cover the line exactly, are each of one level and
    maximal.) -/
theorem C05_partition (lv : List Nat) (a b : Nat) (hab : a < b) (hb : b ≤ lv.length)
    (h126 : ∀ l ∈ lv, l ≤ 126) :
    let runs := (visualRunsForLine lv a b).1
    let lr := logicalRuns lv a b
    (∀ r ∈ runs, r.1 < r.2) ∧ runs.Perm lr ∧
    tiles a lr b ∧ (∀ r ∈ lr, oneLevel lv r) ∧ (∀ r ∈ lr, maximalIn lv a b r) := by
  intro runs lr
  obtain ⟨m, _, _, _, h⟩ := visualRuns_closed lv a b hab hb h126
  obtain ⟨t1, t2, t3⟩ := logicalRuns_spec lv a b hab hb
  have hperm : runs.Perm lr := by
    show (visualRunsForLine lv a b).1.Perm _
    rw [h]
    exact passes_perm _ _ _ _
  refine ⟨?_, hperm, t1, t2, t3⟩
  intro r hr
  exact ((tiles_bounds _ _ _ t1).2 r (hperm.subset hr)).2.1

/-- consequence of `C05_partition` in elementary terms: every code unit of the line lies in
    exactly one returned run (as a position of the list of runs) -/
theorem C05_cover (lv : List Nat) (a b : Nat) (hab : a < b) (hb : b ≤ lv.length)
    (h126 : ∀ l ∈ lv, l ≤ 126) :
    ((visualRunsForLine lv a b).1.flatMap units).Perm (List.range' a (b - a)) := by
  obtain ⟨_, hperm, t1, _, _⟩ := C05_partition lv a b hab hb h126
  rw [← tiles_units _ _ _ t1]
  exact List.Perm.flatMap_right _ hperm

/-- L2: the order described by the runs is the Spec's L2 order of the line's levels -/
theorem C05_order (lv : List Nat) (a b : Nat) (hab : a < b) (hb : b ≤ lv.length)
    (h126 : ∀ l ∈ lv, l ≤ 126) :
    runsOrder lv (visualRunsForLine lv a b).1 = (Spec.l2 (slice lv a b)).map (· + a) := by
  obtain ⟨m, hm1, hm2, hm3, h⟩ := visualRuns_closed lv a b hab hb h126
  obtain ⟨t1, t2, _⟩ := logicalRuns_spec lv a b hab hb
  have hbd := (tiles_bounds _ _ _ t1).2
  rw [h]
  generalize hL : slice lv a b = L at *
  generalize hhi : L.foldl max 0 = hi at *
  have hLlen : L.length = b - a := by rw [← hL]; exact slice_length lv a b hb
  -- level of a unit of the line
  have hunit : ∀ u, a ≤ u → u < b → unitLevel L a u = lv.getD u 0 := by
    intro u h1 h2
    have := slice_getElem? lv a b (u - a) (by omega)
    rw [hL] at this
    have e : a + (u - a) = u := by omega
    simp only [unitLevel, List.getD_eq_getElem?_getD, this, e]
  have hlevmem : ∀ r ∈ logicalRuns lv a b, lv.getD r.1 0 ∈ L := by
    intro r hr
    have hb' := hbd r hr
    have := slice_getElem? lv a b (r.1 - a) (by omega)
    rw [hL] at this
    have e : a + (r.1 - a) = r.1 := by omega
    have hlt : r.1 < lv.length := by omega
    rw [e] at this
    simp only [List.getD_eq_getElem?_getD, hlt, List.getElem?_eq_getElem, Option.getD_some] at this ⊢
    exact List.mem_of_getElem? this
  have hmaxge : ∀ l ∈ L, l ≤ hi := by
    have := (foldl_max_ge L 0).2
    rw [hhi] at this; exact this
  have hinv := foldInv (unitLevel L a) (fun r => lv.getD r.1 0) hi (logicalRuns lv a b)
    (fun r hr => by
      have := hbd r hr
      simp [units]; omega)
    (fun r hr u hu => by
      have hb' := hbd r hr
      simp only [units, List.mem_range'_1] at hu
      rw [hunit u (by omega) (by omega)]
      have := t2 r hr u (by omega) (by omega)
      simp only [List.getD_eq_getElem?_getD, this])
    (fun r hr => hmaxge _ (hlevmem r hr))
    (hi + 1 - m) (by omega)
  obtain ⟨hperm, heq⟩ := hinv
  have hspec := spec_l2_shift L a m hm1 (by rw [hhi]; exact hm2) hm3
  rw [hhi, hLlen, ← tiles_units _ _ _ t1, heq] at hspec
  rw [hspec]
  have hk : hi + 1 - (hi + 1 - m) = m := by omega
  rw [hk]
  unfold runsOrder
  apply flatMap_congr'
  intro r hr
  have hr' := hperm.subset hr
  have hmem := hlevmem r hr'
  have hodd := hm3 _ hmem
  have hfl : flag (fun r => lv.getD r.1 0) m r = (lv.getD r.1 0 % 2 == 1) := by
    unfold flag; exact flag_parity m _ hm1 hodd
  unfold render
  rw [hfl]
  rfl

/-! ## Non-vacuity and tests (the `decide`s below are tests on literals, not proofs of the property) -/

/-- non-vacuity: a mixed line inside a longer level vector meets the hypotheses -/
example : (2 < 10) ∧ (10 ≤ [0, 0, 0, 0, 1, 1, 2, 2, 1, 0, 0].length) ∧
    (∀ l ∈ [0, 0, 0, 0, 1, 1, 2, 2, 1, 0, 0], l ≤ 126) := by decide

/-- test: the runs and the order for that line -/
example : visualRunsForLine [0, 0, 0, 0, 1, 1, 2, 2, 1, 0, 0] 2 10
      = ([(2, 4), (8, 9), (6, 8), (4, 6), (9, 10)], none) ∧
    logicalRuns [0, 0, 0, 0, 1, 1, 2, 2, 1, 0, 0] 2 10 = [(2, 4), (4, 6), (6, 8), (8, 9), (9, 10)] ∧
    runsOrder [0, 0, 0, 0, 1, 1, 2, 2, 1, 0, 0] [(2, 4), (8, 9), (6, 8), (4, 6), (9, 10)]
      = [2, 3, 8, 6, 7, 5, 4, 9] ∧
    (Spec.l2 [0, 0, 1, 1, 2, 2, 1, 0]).map (· + 2) = [2, 3, 8, 6, 7, 5, 4, 9] := by decide

/-- test: lowest level even and the lowest odd level at or above it absent (the extra passes cancel),
    and the all-126 line (the `None` branch of `new_lowest_ge_rtl`) -/
example : visualRunsForLine [4, 5, 2] 0 3 = ([(0, 1), (1, 2), (2, 3)], none) ∧
    visualRunsForLine [2, 4, 4, 6, 2] 0 5 = ([(0, 1), (1, 3), (3, 4), (4, 5)], none) ∧
    visualRunsForLine [126, 126] 0 2 = ([(0, 2)], none) := by decide

/-- the predicates of `C05_partition` are not trivially true: they reject a wrong run list -/
example : ¬ tiles 0 [(0, 2), (3, 4)] 4 ∧ ¬ oneLevel [0, 1] (0, 2) ∧ ¬ maximalIn [1, 1] 0 2 (0, 1) := by
  refine ⟨by simp [tiles], ?_, ?_⟩
  · intro h; have := h 1 (by decide) (by decide); simp at this
  · intro h; exact h.2 (by decide) (by decide)

end UBidi.Props.C05
