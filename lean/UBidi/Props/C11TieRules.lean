/-
  C11 — the two tables of explicit::compute (X1–X8), tied to the source by TRANSLATION (tools/gen_code.py).

  The translator re-reads `enum OverrideStatus`, the status an initiator pushes (`status: match original_classes[i]`)
  and what the status on top of the stack does to a character's class (the three identical `match last.status`
  statements), with their results.  The theorems: these are the Model's tables, and the Model's per-character machine
  `exChar` is the same function when the source's tables are put in the place of its own.
-/
import UBidi.Gen.Code
import UBidi.Model.Explicit
namespace UBidi.Props.C11TieRules
open UBidi UBidi.BidiClass

/-- the Model's status type and the source's enum, variant by variant -/
def toGen : OStatus → Gen.Code.OverrideStatus
  | .neutral => .Neutral | .rtl => .RTL | .ltr => .LTR | .isolate => .Isolate
def ofGen : Gen.Code.OverrideStatus → OStatus
  | .Neutral => .neutral | .RTL => .rtl | .LTR => .ltr | .Isolate => .isolate
theorem ofGen_toGen (s : OStatus) : ofGen (toGen s) = s := by cases s <;> rfl
theorem toGen_ofGen (s : Gen.Code.OverrideStatus) : toGen (ofGen s) = s := by cases s <;> rfl

/-- what a status does to a class: the source's table is `applyOverride` -/
theorem tie_apply_override (st : OStatus) (c : BidiClass) :
    Gen.Code.apply_override (toGen st) c = applyOverride st c := by cases st <;> rfl

/-- the status pushed for an initiator: the source's table is the Model's inline one -/
theorem tie_override_status (oc : BidiClass) :
    ofGen (Gen.Code.override_status oc) =
      (match oc with
       | RLO => OStatus.rtl | LRO => OStatus.ltr | RLI | LRI | FSI => OStatus.isolate | _ => OStatus.neutral) := by
  cases oc <;> rfl

/-- the text of `exChar` (Model/Explicit.lean) with the source's two tables in the place of the Model's -/
def exCharG (paraLevel : Nat) (stack : List Status) (oi oe vi : Nat) (oc : BidiClass) : ExCharOut :=
  match stack with
  | [] =>
    { stack := stack, oi := oi, oe := oe, vi := vi, level := paraLevel, pc := oc,
      err := some .explicitStackEmpty }
  | last :: _ =>
    match oc with
    | RLE | LRE | RLO | LRO | RLI | LRI | FSI =>
      let isIso := oc.isIsolateInitiator
      let pc0 := if isIso then Gen.Code.apply_override (toGen last.status) oc else oc
      let newLevel := if oc.isRtlInitiator then Level.newExplicitNextRtl last.level
                      else Level.newExplicitNextLtr last.level
      match newLevel with
      | some nl =>
        if oi == 0 && oe == 0 then
          let st : OStatus := ofGen (Gen.Code.override_status oc)
          { stack := { level := nl, status := st } :: stack, oi := oi, oe := oe,
            vi := if isIso then vi + 1 else vi,
            level := if isIso then last.level else nl,
            pc := if isIso then pc0 else BN, err := none }
        else if isIso then
          { stack := stack, oi := oi + 1, oe := oe, vi := vi, level := last.level, pc := pc0, err := none }
        else
          { stack := stack, oi := oi, oe := if oi == 0 then oe + 1 else oe, vi := vi,
            level := last.level, pc := BN, err := none }
      | none =>
        if isIso then
          { stack := stack, oi := oi + 1, oe := oe, vi := vi, level := last.level, pc := pc0, err := none }
        else
          { stack := stack, oi := oi, oe := if oi == 0 then oe + 1 else oe, vi := vi,
            level := last.level, pc := BN, err := none }
    | PDI =>
      let (stack', oi', oe', vi') :=
        if oi > 0 then (stack, oi - 1, oe, vi)
        else if vi > 0 then (popThroughIsolate stack, oi, 0, vi - 1)
        else (stack, oi, oe, vi)
      match stack' with
      | [] => { stack := stack', oi := oi', oe := oe', vi := vi', level := paraLevel, pc := oc,
                err := some .explicitStackEmpty }
      | last' :: _ =>
        { stack := stack', oi := oi', oe := oe', vi := vi', level := last'.level,
          pc := Gen.Code.apply_override (toGen last'.status) PDI, err := none }
    | PDF =>
      let (stack', oe') :=
        if oi > 0 then (stack, oe)
        else if oe > 0 then (stack, oe - 1)
        else if last.status != .isolate && stack.length ≥ 2 then (stack.tail, oe)
        else (stack, oe)
      match stack' with
      | [] => { stack := stack', oi := oi, oe := oe', vi := vi, level := paraLevel, pc := BN,
                err := some .explicitStackEmpty }
      | last' :: _ =>
        { stack := stack', oi := oi, oe := oe', vi := vi, level := last'.level, pc := BN, err := none }
    | B => { stack := stack, oi := oi, oe := oe, vi := vi, level := paraLevel, pc := B, err := none }
    | c =>
      { stack := stack, oi := oi, oe := oe, vi := vi, level := last.level,
        pc := if c != BN then Gen.Code.apply_override (toGen last.status) c else c, err := none }

theorem tie_exChar (paraLevel : Nat) (stack : List Status) (oi oe vi : Nat) (oc : BidiClass) :
    exChar paraLevel stack oi oe vi oc = exCharG paraLevel stack oi oe vi oc := by
  unfold exChar exCharG
  simp only [tie_apply_override, tie_override_status]
  rfl

/-! ### the tables are not trivial (tests of single entries) -/
example : Gen.Code.override_status RLO = .RTL ∧ Gen.Code.override_status FSI = .Isolate ∧ Gen.Code.override_status RLE = .Neutral := by decide
example : Gen.Code.apply_override .RTL ON = R ∧ Gen.Code.apply_override .LTR AL = L ∧ Gen.Code.apply_override .Isolate ON = ON := by decide

end UBidi.Props.C11TieRules
