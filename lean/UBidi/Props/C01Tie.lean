/-
  C01 (and C02, C03, C11, C16) — class predicates and `match`-arm class sets, tied to the source by TRANSLATION.

  `tools/gen_code.py` re-reads on every check run: `is_NI` (implicit.rs), `removed_by_x9` (prepare.rs), `is_rtl`
  on classes (char_data/mod.rs), and the class patterns, arm by arm, of the `match` statements that drive
  `explicit::compute` (X1–X8), `compute_initial_info` (P2/P3, X5c, flags), `reorder_levels` (L1) and
  `get_base_direction_impl`.  The theorems state that they are the predicates of the Model, respectively that every
  `match` partitions the classes into arms exactly as the Model's transcription does: two classes are handled by the
  same arm of the source iff the Model handles them in the same case (`armOf` = index of the first arm whose pattern
  lists the class, the catch-all arm otherwise).  The statement is insensitive to the order of the arms and of the
  alternatives inside a pattern, so a harmless re-ordering of the source does not break it.
  A change of one of these class sets in the source breaks a theorem here.
-/
import UBidi.Gen.Code
import UBidi.Model.Basic
namespace UBidi.Props.C01Tie
open UBidi UBidi.BidiClass

theorem tie_is_NI (c : BidiClass) : Gen.Code.is_NI c = c.isNI := by cases c <;> rfl
theorem tie_removed_by_x9 (c : BidiClass) : Gen.Code.removed_by_x9 c = c.removedByX9 := by cases c <;> rfl
theorem tie_class_is_rtl (c : BidiClass) : Gen.Code.class_is_rtl c = c.isRtlInitiator := by cases c <;> rfl

/-- index of the first arm that lists `c`; an arm `[]` is the catch-all -/
def armOf (arms : List (List BidiClass)) (c : BidiClass) : Nat :=
  (arms.findIdx (fun a => a.isEmpty || a.contains c))

/-- `explicit::compute`: initiators / PDI / PDF / B / everything else (explicit.rs, `match original_classes[i]`;
    the Model's `explicitStep` has exactly these five cases) -/
def explicitArm : BidiClass → Nat
  | RLE | LRE | RLO | LRO | RLI | LRI | FSI => 0
  | PDI => 1
  | PDF => 2
  | B => 3
  | _ => 4

theorem tie_explicit_arms (c d : BidiClass) : (armOf Gen.Code.arms_explicit_compute c = armOf Gen.Code.arms_explicit_compute d) ↔ (explicitArm c = explicitArm d) := by
  cases c <;> cases d <;> decide

/-- `compute_initial_info`: B / strong / other non-pure-LTR markers / isolate initiators / PDI / rest
    (the cases of the Model's `iiStep`) -/
def initialArm : BidiClass → Nat
  | B => 0
  | L | R | AL => 1
  | AN | LRE | RLE | LRO | RLO => 2
  | RLI | LRI | FSI => 3
  | PDI => 4
  | _ => 5

theorem tie_initial_arms (c d : BidiClass) : (armOf Gen.Code.arms_compute_initial_info c = armOf Gen.Code.arms_compute_initial_info d) ↔ (initialArm c = initialArm d) := by
  cases c <;> cases d <;> decide

/-- `reorder_levels` (L1): separators / white space and isolate controls / X9-removed / rest
    (the cases of the Model's `reorderLevels` step) -/
def l1Arm : BidiClass → Nat
  | B | S => 0
  | WS | FSI | LRI | RLI | PDI => 1
  | RLE | LRE | RLO | LRO | PDF | BN => 2
  | _ => 3

theorem tie_l1_arms (c d : BidiClass) : (armOf Gen.Code.arms_reorder_levels c = armOf Gen.Code.arms_reorder_levels d) ↔ (l1Arm c = l1Arm d) := by
  cases c <;> cases d <;> decide

/-- the X9-removed arm of L1 is `removed_by_x9` -/
theorem tie_l1_removed (c : BidiClass) : (l1Arm c == 2) = c.removedByX9 := by cases c <;> rfl

/-- `get_base_direction_impl`: initiators / PDI / L / R,AL / B (two guarded arms) / rest (the Model's `baseDirLoop`) -/
def baseDirArm : BidiClass → Nat
  | LRI | RLI | FSI => 0
  | PDI => 1
  | L => 2
  | R | AL => 3
  | B => 4
  | _ => 6

theorem tie_basedir_arms (c d : BidiClass) : (armOf Gen.Code.arms_get_base_direction_impl c = armOf Gen.Code.arms_get_base_direction_impl d) ↔ (baseDirArm c = baseDirArm d) := by
  cases c <;> cases d <;> decide

/-- the isolate-initiator set is the same in all three scanners -/
theorem tie_isolate_initiators (c : BidiClass) :
    (initialArm c == 3) = c.isIsolateInitiator ∧ (baseDirArm c == 0) = c.isIsolateInitiator := by
  cases c <;> exact ⟨rfl, rfl⟩

end UBidi.Props.C01Tie
