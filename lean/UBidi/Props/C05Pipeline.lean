/-
  C05, end to end — "`visual_runs` partitions the line into level runs in L2 visual order", for the line
  levels the analysis itself produces.

  `Props/C05.lean` is RELATIVE: stated for an arbitrary level vector `lv` with `a < b ≤ lv.length` and all
  levels ≤ 126.  `BidiInfo::visual_runs(para, line)` calls `visual_runs_for_line` on
  `reordered_levels(para, line)`; here `lv` is that vector, for `bidiInfo ds t d` (`BidiInfo::new`) and for
  `paragraphBidiInfo ds t d` (`ParagraphBidiInfo::new`).  The hypotheses on `lv` follow from
  `Lemmas.LinePipeline.hyp_multi` / `hyp_single` (stored vectors: lengths, ≤ 126, uniform within characters —
  C07 / C08) and property C03 (length and bound of the line levels).  What remains: any data source, a
  well-formed text, a base direction (auto / LTR / RTL), a paragraph `p` of the analysis and a non-empty line
  `[a, b)` on character boundaries (it need not lie inside `p`, see the note in Props/C03Pipeline.lean).

  * `C05_pipeline` — for `lv := reordered_levels(para, line)` and `runs := visual_runs(para, line)`:
      - no panic (`C05_no_panic`);
      - `C05_partition`: the runs are non-empty and are, up to order, the logical level runs, which tile
        `[a, b)`, are single-level and maximal; so every returned run is single-level and maximal
        (this is the "levels" clause of the property: C05 has no separate `C05_levels` theorem — it is the
        `oneLevel` / `maximalIn` part of `C05_partition`);
      - `C05_cover`: every code unit of the line lies in exactly one run;
      - `C05_order`: runs in the returned order, odd-level runs reversed = rule L2 (`Spec.l2`) on the units'
        levels;
      - and what the relative theorem could not say: those unit levels are the expansion of the Spec's
        rule L1 on the CHARACTERS of the line, and every run starts and ends on a character boundary.
  * `C05_pipeline_single` — the same for `ParagraphBidiInfo`.
  * `C05_pipeline_uax9`   — for a line inside the paragraph: the unit order is `Spec.l2` of the expansion of
    `Spec.lineLevels` of the UAX #9 levels (`Spec.paragraphLevels`) of the line's characters.

  The deprecated free function `deprecated::visual_runs(line, levels)` is the same algorithm and is modelled by
  the same `visualRunsForLine` (see the header of Props/C05.lean), so every statement here is also the
  statement for the deprecated variant called on these line levels; there is no separate theorem to
  instantiate.
-/
import UBidi.Props.C03Pipeline
namespace UBidi.Props.C05Pipeline
open UBidi UBidi.BidiClass UBidi.Lemmas.LinePipeline
open UBidi.Props.C03Pipeline (uax9Line uax9ParaLevel)

section multi
variable (ds : DataSource) (t : Text) (hwf : t.WF) (d : Option Nat) (hd : d = none ∨ d = some 0 ∨ d = some 1)
  (p : ParaInfo) (hp : p ∈ (bidiInfo ds t d).paras)
  (a b : Nat) (hab : a < b) (ha : t.isBoundary a = true) (hbb : t.isBoundary b = true)
include hwf hd hp hab ha hbb

/-- **C05 end to end, `BidiInfo::visual_runs(para, line)`.** -/
theorem C05_pipeline :
    let B := bidiInfo ds t d
    let lv := (reorderedLevels t B.classes B.levels p.level a b).1
    let runs := (visualRunsForLine lv a b).1
    let lr := C05.logicalRuns lv a b
    -- no panic
    (visualRunsForLine lv a b).2 = none ∧
    -- `C05_partition`
    (∀ r ∈ runs, r.1 < r.2) ∧ runs.Perm lr ∧
    C05.tiles a lr b ∧ (∀ r ∈ lr, C05.oneLevel lv r) ∧ (∀ r ∈ lr, C05.maximalIn lv a b r) ∧
    -- hence, for the returned runs
    (∀ r ∈ runs, C05.oneLevel lv r ∧ C05.maximalIn lv a b r) ∧
    -- `C05_cover`
    (runs.flatMap Lemmas.C05.units).Perm (List.range' a (b - a)) ∧
    -- `C05_order`
    C05.runsOrder lv runs = (Spec.l2 (slice lv a b)).map (· + a) ∧
    -- the levels of the line's units are rule L1 on the line's characters, one copy per code unit
    slice lv a b = C03.expand (t.subrange a b) (C06.lineL1 t B.classes B.levels p.level a b) ∧
    -- no run splits a character
    (∀ r ∈ runs, a ≤ r.1 ∧ r.1 < r.2 ∧ r.2 ≤ b ∧ t.isBoundary r.1 = true ∧ t.isBoundary r.2 = true) :=
  Hyp.runs (hyp_multi ds t hwf d hd p hp a b hab ha hbb)

/-- **against UAX #9**, for a line inside the paragraph: the visual order of the line's code units is rule L2
    on (the expansion of) rule L1 on the levels UAX #9 assigns to the characters of the line -/
theorem C05_pipeline_uax9 (hpa : p.start ≤ a) (hpb : b ≤ p.stop) :
    let B := bidiInfo ds t d
    let lv := (reorderedLevels t B.classes B.levels p.level a b).1
    let l1 := Spec.lineLevels (uax9ParaLevel ds t d p) ((uax9Line ds t d p a b).map (·.2))
    (visualRunsForLine lv a b).2 = none ∧
    slice lv a b = C03.expand (t.subrange a b) l1 ∧
    C05.runsOrder lv (visualRunsForLine lv a b).1
      = (Spec.l2 (C03.expand (t.subrange a b) l1)).map (· + a) := by
  intro B lv l1
  obtain ⟨h1, _, _, _, _, _, _, _, h9, h10, _⟩ := C05_pipeline ds t hwf d hd p hp a b hab ha hbb
  obtain ⟨_, _, _, _, u5⟩ := C03Pipeline.C03_pipeline_uax9 ds t hwf d hd p hp a b hab ha hbb hpa hpb
  obtain ⟨_, _, c3, _⟩ := C03Pipeline.C03_pipeline ds t hwf d hd p hp a b hab ha hbb
  have e : C06.lineL1 t B.classes B.levels p.level a b = l1 := c3.symm.trans u5
  have hs : slice lv a b = C03.expand (t.subrange a b) l1 := by rw [← e]; exact h10
  exact ⟨h1, hs, by rw [← hs]; exact h9⟩

end multi

section single
variable (ds : DataSource) (t : Text) (hwf : t.WF) (d : Option Nat) (hd : d = none ∨ d = some 0 ∨ d = some 1)
  (a b : Nat) (hab : a < b) (ha : t.isBoundary a = true) (hbb : t.isBoundary b = true)
include hwf hd hab ha hbb

/-- **C05 end to end, `ParagraphBidiInfo::visual_runs(line)`.** -/
theorem C05_pipeline_single :
    let Q := paragraphBidiInfo ds t d
    let lv := (reorderedLevels t Q.classes Q.levels Q.paraLevel a b).1
    let runs := (visualRunsForLine lv a b).1
    let lr := C05.logicalRuns lv a b
    (visualRunsForLine lv a b).2 = none ∧
    (∀ r ∈ runs, r.1 < r.2) ∧ runs.Perm lr ∧
    C05.tiles a lr b ∧ (∀ r ∈ lr, C05.oneLevel lv r) ∧ (∀ r ∈ lr, C05.maximalIn lv a b r) ∧
    (∀ r ∈ runs, C05.oneLevel lv r ∧ C05.maximalIn lv a b r) ∧
    (runs.flatMap Lemmas.C05.units).Perm (List.range' a (b - a)) ∧
    C05.runsOrder lv runs = (Spec.l2 (slice lv a b)).map (· + a) ∧
    slice lv a b = C03.expand (t.subrange a b) (C06.lineL1 t Q.classes Q.levels Q.paraLevel a b) ∧
    (∀ r ∈ runs, a ≤ r.1 ∧ r.1 < r.2 ∧ r.2 ≤ b ∧ t.isBoundary r.1 = true ∧ t.isBoundary r.2 = true) :=
  Hyp.runs (hyp_single ds t hwf d hd a b hab ha hbb)

end single

/-! ## Non-vacuity and tests (`decide +kernel` on the literals below are tests, not proofs of the property) -/

open UBidi.Props.C03Pipeline (exText exText_wf exPara exPara_mem)

/-- non-vacuity of `C05_pipeline`: `a א ␠ ב 😀 b ⏎ ג` (`C03Pipeline.exText`), built-in data, auto direction,
    the line `[0, 11)` = `a א ␠ ב 😀 b` of the first paragraph -/
example :
    let B := bidiInfo hardcoded exText none
    let lv := (reorderedLevels exText B.classes B.levels 0 0 11).1
    (visualRunsForLine lv 0 11).2 = none ∧
    C05.runsOrder lv (visualRunsForLine lv 0 11).1 = (Spec.l2 (slice lv 0 11)).map (· + 0) :=
  have h := C05_pipeline hardcoded exText exText_wf none (Or.inl rfl) exPara exPara_mem 0 11
    (by decide) (by decide +kernel) (by decide +kernel)
  ⟨h.1, h.2.2.2.2.2.2.2.2.1⟩

/-- non-vacuity of `C05_pipeline_uax9` on the same line -/
example :
    let B := bidiInfo hardcoded exText none
    let lv := (reorderedLevels exText B.classes B.levels 0 0 11).1
    let l1 := Spec.lineLevels (uax9ParaLevel hardcoded exText none exPara)
      ((uax9Line hardcoded exText none exPara 0 11).map (·.2))
    C05.runsOrder lv (visualRunsForLine lv 0 11).1
      = (Spec.l2 (C03.expand (exText.subrange 0 11) l1)).map (· + 0) :=
  (C05_pipeline_uax9 hardcoded exText exText_wf none (Or.inl rfl) exPara exPara_mem 0 11
    (by decide) (by decide +kernel) (by decide +kernel) (by decide) (by decide)).2.2

/-- test: the runs of that line (`a`, then the right-to-left run `א ␠ ב` of 5 bytes, then `😀 b`), the unit
    order they describe, and the UAX #9 side computed without the Model -/
example :
    let B := bidiInfo hardcoded exText none
    let lv := (reorderedLevels exText B.classes B.levels 0 0 11).1
    visualRunsForLine lv 0 11 = ([(0, 1), (1, 6), (6, 11)], none) ∧
    C05.runsOrder lv [(0, 1), (1, 6), (6, 11)] = [0, 5, 4, 3, 2, 1, 6, 7, 8, 9, 10] ∧
    Spec.lineLevels (uax9ParaLevel hardcoded exText none exPara)
      ((uax9Line hardcoded exText none exPara 0 11).map (·.2)) = [0, 1, 1, 1, 0, 0] ∧
    C03.expand (exText.subrange 0 11) [0, 1, 1, 1, 0, 0] = [0, 1, 1, 1, 1, 1, 0, 0, 0, 0, 0] := by
  decide +kernel

/-- non-vacuity of `C05_pipeline_single`: the whole of `exText` as a `ParagraphBidiInfo`, line `[1, 12)` -/
example :
    let Q := paragraphBidiInfo hardcoded exText none
    (visualRunsForLine (reorderedLevels exText Q.classes Q.levels Q.paraLevel 1 12).1 1 12).2 = none :=
  (C05_pipeline_single hardcoded exText exText_wf none (Or.inl rfl) 1 12
    (by decide) (by decide +kernel) (by decide +kernel)).1

end UBidi.Props.C05Pipeline
