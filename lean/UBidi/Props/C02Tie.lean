/-
  C02 — tie by TRANSLATION (see Props/C01Tie.lean): the class patterns of the `match` arms of compute_initial_info (P2/P3, X5c, paragraph flags), re-read from the
  source on every check run by tools/gen_code.py, put every class in the arm the Model's transcription puts it in.
-/
import UBidi.Props.C01Tie
namespace UBidi.Props.C02Tie
open UBidi

theorem C02_tie_initial_arms (c d : BidiClass) :
    (C01Tie.armOf Gen.Code.arms_compute_initial_info c = C01Tie.armOf Gen.Code.arms_compute_initial_info d) ↔ (C01Tie.initialArm c = C01Tie.initialArm d) := C01Tie.tie_initial_arms c d

end UBidi.Props.C02Tie
