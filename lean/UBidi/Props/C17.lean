/- C17 — summary queries are consistent with the levels; see DESIGN.md §5 -/
import UBidi.Model.Reorder
import UBidi.Spec.UAX9
import UBidi.Spec.Reorder
import UBidi.Lemmas.C17
namespace UBidi.Props.C17
open UBidi UBidi.Lemmas.C17

/-- `para_direction`: Ltr exactly when all levels are even (and there is one), Rtl exactly when all are odd
    — the empty slice gives Rtl, as the code does —, Mixed otherwise -/
theorem C17_direction (ls : List Nat) :
    (paraDirection ls = .ltr ↔ ls ≠ [] ∧ ∀ l ∈ ls, l % 2 = 0) ∧ (paraDirection ls = .rtl ↔ ∀ l ∈ ls, l % 2 = 1) ∧
    (paraDirection ls = .mixed ↔ (∃ l ∈ ls, l % 2 = 0) ∧ (∃ l ∈ ls, l % 2 = 1)) := by
  have := dirLoop_spec false false ls (by simp)
  simp only [paraDirection]
  grind

/- tests (literals): the three outcomes and the empty slice -/
example : paraDirection [0, 2, 0] = .ltr ∧ paraDirection [1, 3] = .rtl ∧ paraDirection [0, 1, 2] = .mixed ∧
    paraDirection [] = .rtl := by decide

/-- `Paragraph::level_at(pos)` reads the level vector at the paragraph-relative position -/
theorem C17_level_at (levels : List Nat) (p : ParaInfo) (pos : Nat) : levelAt levels p pos = levels[p.start + pos]? := rfl

/-- `BidiInfo::has_rtl` is true exactly when some level is odd -/
theorem C17_has_rtl_multi (b : BidiInfo) : b.hasRtl = true ↔ ∃ l ∈ b.levels, l % 2 = 1 := by
  simp [BidiInfo.hasRtl, Level.hasRtl, Level.isRtl]

/-- the single-paragraph type: `has_rtl() == false` makes skipping the reordering safe: every level is 0 and
    `reorder_line` returns every line unchanged (`.1 = none` means "borrowed", i.e. returned as is).
    `hd`: the default level is auto, LTR or RTL (what `Level::ltr()` / `Level::rtl()` / `None` give). -/
theorem C17_has_rtl_single (ds : DataSource) (t : Text) (d : Option Nat) (hd : d = none ∨ d = some 0 ∨ d = some 1)
    (h : (paragraphBidiInfo ds t d).hasRtl = false) :
    (∀ l ∈ (paragraphBidiInfo ds t d).levels, l = 0) ∧
    (∀ a b, (reorderLine t (paragraphBidiInfo ds t d).classes (paragraphBidiInfo ds t d).levels (paragraphBidiInfo ds t d).paraLevel a b).1 = none) := by
  have h01 := lastLevel_le_one ds t d hd false
  simp only [ParagraphBidiInfo.hasRtl, paragraphBidiInfo, Bool.or_eq_false_iff, Bool.not_eq_false'] at h
  obtain ⟨hp, hr⟩ := h
  have h0 : (computeInitialInfo ds t d false).lastLevel = 0 := by
    rcases h01 with h0 | h1
    · exact h0
    · rw [h1] at hr; simp [Level.isRtl] at hr
  have hlv : (paragraphBidiInfo ds t d).levels = List.replicate t.len 0 := by
    simp [paragraphBidiInfo, paraLevels, h0, hp]
  have hpl : (paragraphBidiInfo ds t d).paraLevel = 0 := by
    simp [paragraphBidiInfo, h0]
  rw [hlv, hpl]
  refine ⟨fun l hl => (List.mem_replicate.mp hl).2, fun a b => ?_⟩
  unfold reorderLine
  split
  · rfl
  · rw [hasRtl_slice_replicate]; simp [Level.isLtr]

/- non-vacuity: "a(b) " with the built-in tables and an auto level satisfies the hypotheses;
   "aא" does not (has_rtl is true there, and its levels are [0,1,1]) -/
example : (paragraphBidiInfo hardcoded (Text.ofScalars [0x61, 0x28, 0x62, 0x29, 0x20]) none).hasRtl = false := by
  decide +kernel
example : (paragraphBidiInfo hardcoded (Text.ofScalars [0x61, 0x5D0]) none).hasRtl = true := by decide +kernel

end UBidi.Props.C17
