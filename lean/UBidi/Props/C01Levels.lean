/-
  C01 (in full) — resolved levels follow UAX #9.

  The levels the Model of the crate computes (`paraLevels` = `compute_bidi_info_for_para`, and through
  it `BidiInfo::new` / `ParagraphBidiInfo::new`) are the levels UAX #9 — the Spec
  `Spec.paragraphLevels`: X1–X8, X9, X10, W1–W7, N0–N2, I1–I2, and the level carried by the characters
  X9 removes — assigns to the characters of each paragraph, and no step panics.

  * `C01_unit`              — a paragraph of single-unit characters, all branches, crate's flags
  * `C01_chars`             — any well-formed text (characters of several code units): the per-unit
                              levels are the expansion of the Spec's per-character levels
  * `C01_paragraphBidiInfo` — `ParagraphBidiInfo::new` on a one-paragraph text
  * `C01_bidiInfo`          — `BidiInfo::new`: every paragraph
  * `C01_hardcoded_str`, `C01_hardcoded_utf16`, `C01_hardcoded_str_single`, `C01_hardcoded_utf16_single`
                            — built-in Unicode data, `&str` and `&[u16]` texts
  Each comes in two forms: `…_of_weakInv` with the hypothesis `WeakInv ds` ("the weak stage's output
  meets the hypotheses of the neutral stage's lemma") explicit, and the unconditional form, where
  `WeakInv ds` is supplied by `C01_weakInv` (`Lemmas/C01WeakInv*`).

  Hypotheses: the text is well formed (`Text.WF`: every `&str`, every `&[u16]`); a forced paragraph level
  is 0 or 1.  Nothing is asked of the width of FSI-class characters any more (the former hypothesis
  `FSIWidth`, "a character of class FSI is as wide as U+2068", is gone since the repair of finding D10: X5c
  rewrites the code units of the character that sits at the FSI's position).  Nothing is asked of the
  data source's bracket characters any more either: the former hypothesis `BracketClassesOK` ("no bracket
  character has class NSM, ES, CS or ET"; every real bracket has class ON: `hardcoded_bracketClassesOK`)
  was needed only while the crate's N0 sweep over the units following a changed bracket tested the current
  type of a unit (`== BN`) and wrote removed units — for a data source violating it the crate and UAX #9
  then really differed (the former counterexamples, now agreeing, are in `Lemmas/C01NeutralBN` and
  `Lemmas/C01WeakInv`).  With the sweep looking at original classes only, the theorems hold for every
  data source.
  Proof: `Lemmas/C01Compose*.lean`.
-/
import UBidi.Lemmas.C01Compose
import UBidi.Props.C10
import UBidi.Props.C15
import UBidi.Props.C18
namespace UBidi.Props.C01Levels
open UBidi UBidi.BidiClass UBidi.Expand UBidi.Lemmas.C01Compose
open UBidi.Lemmas.C01Seq (UnitText NoInnerB unitText unitText_unit)
open UBidi.Lemmas.C01Pure (pureClass)
open UBidi.Props.C02 (raw segsIn)

/-! ### the data source -/

theorem bracketIn_isSome : ∀ (tb : List (Nat × Nat × Option Nat)) (c : Nat), (bracketIn tb c).isSome = true →
    ∃ p ∈ tb, p.1 = c ∨ p.2.1 = c
  | [], _, h => by simp [bracketIn] at h
  | (o, cl, norm) :: rest, c, h => by
    by_cases hc : o = c ∨ cl = c
    · exact ⟨(o, cl, norm), by simp, hc⟩
    · simp only [bracketIn, if_neg hc] at h
      obtain ⟨p, hp, hpc⟩ := bracketIn_isSome rest c h
      exact ⟨p, by simp [hp], hpc⟩

/-- every bracket character of the built-in data has class ON -/
theorem hardcoded_brackets_ON (c : Nat) (h : (hardcoded.brk c).isSome = true) : hardcoded.cls c = ON := by
  obtain ⟨p, hp, hpc⟩ := bracketIn_isSome Gen.pairsTable c h
  obtain ⟨h1, h2⟩ := C15.C15_all_ON p hp
  simp only [hardcoded]
  rcases hpc with rfl | rfl
  · exact h1
  · exact h2

theorem hardcoded_bracketClassesOK : BracketClassesOK hardcoded := by
  intro c h
  rw [hardcoded_brackets_ON c h]
  exact ⟨by decide, by decide, by decide, by decide⟩

theorem hardcoded_bracketsNotNSM : BracketsNotNSM hardcoded := hardcoded_bracketClassesOK.notNSM

/-- the residual hypothesis of the composition holds for every data source -/
theorem C01_weakInv (ds : DataSource) : WeakInv ds := weakInv ds

/-! ### layers 1–3: one paragraph, given its level, flags and classes -/

/-- **C01, single-unit paragraph.**  `t` a well-formed text of `n` one-unit characters, `chars` its
    characters as the Spec sees them (class after X5c; bracket property of the data source; a
    paragraph separator only at the end), paragraph level
    `pl ≤ 1`, and the flags of `compute_initial_info`: `has_isolate_controls` = "some class is an
    isolate initiator", `is_pure_ltr` set only if every class is one of those that leave it set. -/
theorem C01_unit_of_weakInv (ds : DataSource) (hweak : WeakInv ds) (t : Text) (n : Nat) (hu : UnitText t n)
    (pl : Nat) (hpl : pl ≤ 1) (chars : List Spec.Ch) (hlen : chars.length = n)
    (hB : NoInnerB (chars.map (·.cls)))
    (hbrk : chars.map (·.brk) = t.segs.map (fun s => ds.brk s.cp))
    (pure : Bool) (hpure : pure = true → ∀ ch ∈ chars, pureClass ch.cls = true) :
    paraLevels ds pl pure ((chars.map (·.cls)).any isIsolateInitiator) t (chars.map (·.cls)) =
      (Spec.paragraphLevels pl chars, none) :=
  paraLevels_unit_flags hweak ⟨hu, hpl, hlen, hB, hbrk⟩ pure hpure

theorem C01_unit (ds : DataSource) (t : Text) (n : Nat) (hu : UnitText t n)
    (pl : Nat) (hpl : pl ≤ 1) (chars : List Spec.Ch) (hlen : chars.length = n)
    (hB : NoInnerB (chars.map (·.cls)))
    (hbrk : chars.map (·.brk) = t.segs.map (fun s => ds.brk s.cp))
    (pure : Bool) (hpure : pure = true → ∀ ch ∈ chars, pureClass ch.cls = true) :
    paraLevels ds pl pure ((chars.map (·.cls)).any isIsolateInitiator) t (chars.map (·.cls)) =
      (Spec.paragraphLevels pl chars, none) :=
  C01_unit_of_weakInv ds (weakInv ds) t n hu pl hpl chars hlen hB hbrk pure hpure

/-- the general branch alone, with `has_isolate_controls = true` whether or not there is an initiator -/
theorem C01_unit_general_of_weakInv (ds : DataSource) (hweak : WeakInv ds) (t : Text) (n : Nat)
    (hu : UnitText t n) (pl : Nat) (hpl : pl ≤ 1) (chars : List Spec.Ch) (hlen : chars.length = n)
    (hB : NoInnerB (chars.map (·.cls)))
    (hbrk : chars.map (·.brk) = t.segs.map (fun s => ds.brk s.cp)) :
    paraLevels ds pl false true t (chars.map (·.cls)) = (Spec.paragraphLevels pl chars, none) :=
  paraLevels_unit_true hweak ⟨hu, hpl, hlen, hB, hbrk⟩ false (by simp)

/-- **C01, any well-formed text** (layer 3): `ocs` the paragraph's per-unit classes, uniform within
    characters; `charsOf ds t ocs` the characters (class at the first unit, bracket property).  The
    per-unit levels are the expansion of the Spec's per-character levels; read at the character
    starts they are the Spec's levels. -/
theorem C01_chars_of_weakInv (ds : DataSource) (hweak : WeakInv ds) (t : Text) (hwf : t.WF) (pl : Nat)
    (hpl : pl ≤ 1) (ocs : Classes) (hlen : ocs.length = t.len) (hu : UniformOn t ocs)
    (hB : NoInnerB (contract t ocs ON))
    (pure : Bool) (hpure : pure = true → ∀ x ∈ contract t ocs ON, pureClass x = true) :
    paraLevels ds pl pure ((contract t ocs ON).any isIsolateInitiator) t ocs =
      (expand t (Spec.paragraphLevels pl (charsOf ds t ocs)), none) ∧
    contract t (paraLevels ds pl pure ((contract t ocs ON).any isIsolateInitiator) t ocs).1 0 =
      Spec.paragraphLevels pl (charsOf ds t ocs) :=
  ⟨paraLevels_chars hweak t hwf pl hpl ocs hlen hu hB pure hpure,
   paraLevels_chars_contract hweak t hwf pl hpl ocs hlen hu hB pure hpure⟩

theorem C01_chars (ds : DataSource) (t : Text) (hwf : t.WF) (pl : Nat)
    (hpl : pl ≤ 1) (ocs : Classes) (hlen : ocs.length = t.len) (hu : UniformOn t ocs)
    (hB : NoInnerB (contract t ocs ON))
    (pure : Bool) (hpure : pure = true → ∀ x ∈ contract t ocs ON, pureClass x = true) :
    paraLevels ds pl pure ((contract t ocs ON).any isIsolateInitiator) t ocs =
      (expand t (Spec.paragraphLevels pl (charsOf ds t ocs)), none) ∧
    contract t (paraLevels ds pl pure ((contract t ocs ON).any isIsolateInitiator) t ocs).1 0 =
      Spec.paragraphLevels pl (charsOf ds t ocs) :=
  C01_chars_of_weakInv ds (weakInv ds) t hwf pl hpl ocs hlen hu hB pure hpure

/-! ### layer 4: `ParagraphBidiInfo::new` -/

/-- **C01 for `ParagraphBidiInfo::new`.**  `t` well formed, one paragraph (no class-B character except
    possibly the last).  No panic; the levels are the expansion of — and, read at the character starts,
    equal to — the Spec's levels of the characters with their reported classes, which are X5c of the
    raw classes, at the paragraph level of P2/P3. -/
theorem C01_paragraphBidiInfo_of_weakInv (ds : DataSource) (hweak : WeakInv ds)
    (t : Text) (hwf : t.WF) (d : Option Nat) (hd : ∀ l, d = some l → l ≤ 1)
    (hB : ∀ c ∈ (raw ds t).dropLast, c ≠ B) :
    let q := paragraphBidiInfo ds t d
    q.err = none ∧
    q.levels = expand t (Spec.paragraphLevels q.paraLevel (charsOf ds t q.classes)) ∧
    contract t q.levels 0 = Spec.paragraphLevels q.paraLevel (charsOf ds t q.classes) ∧
    (charsOf ds t q.classes).map (·.cls) = Spec.resolveFSI (raw ds t) ∧
    q.paraLevel = Spec.paraLevel d (raw ds t) := by
  obtain ⟨h1, h2, h3, h4⟩ := single_para_levels ds hweak t hwf d hd hB
  have herr := C02.C02_no_panic ds t d hwf false
  simp only [paragraphBidiInfo, h1, herr]
  exact ⟨rfl, trivial, contract_expand t hwf _ 0 h2, h3, h4⟩

theorem C01_paragraphBidiInfo (ds : DataSource)
    (t : Text) (hwf : t.WF) (d : Option Nat) (hd : ∀ l, d = some l → l ≤ 1)
    (hB : ∀ c ∈ (raw ds t).dropLast, c ≠ B) :
    let q := paragraphBidiInfo ds t d
    q.err = none ∧
    q.levels = expand t (Spec.paragraphLevels q.paraLevel (charsOf ds t q.classes)) ∧
    contract t q.levels 0 = Spec.paragraphLevels q.paraLevel (charsOf ds t q.classes) ∧
    (charsOf ds t q.classes).map (·.cls) = Spec.resolveFSI (raw ds t) ∧
    q.paraLevel = Spec.paraLevel d (raw ds t) :=
  C01_paragraphBidiInfo_of_weakInv ds (weakInv ds) t hwf d hd hB

/-! ### layer 4: `BidiInfo::new` -/

theorem slice_getD {α} (xs : List α) (a b i : Nat) (d : α) (h1 : a ≤ i) (h2 : i < b) :
    (slice xs a b).getD (i - a) d = xs.getD i d := by
  unfold slice
  rw [List.getD_eq_getElem?_getD, List.getD_eq_getElem?_getD, List.getElem?_take_of_lt (by omega),
    List.getElem?_drop, show a + (i - a) = i by omega]

/-- reading per-unit data of a paragraph through the paragraph's own text -/
theorem subrange_read {α β} (t : Text) (a b : Nat) (xs : List α) (d : α) (f : α → Nat → β) :
    (t.subrange a b).segs.map (fun s => f ((slice xs a b).getD s.start d) s.cp) =
      (t.segs.filter (fun s => a ≤ s.start && s.start < b)).map (fun s => f (xs.getD s.start d) s.cp) := by
  simp only [Text.subrange, List.map_map]
  apply List.map_congr_left
  intro s hs
  simp only [List.mem_filter, Bool.and_eq_true, decide_eq_true_eq] at hs
  simp only [Function.comp]
  rw [slice_getD xs a b s.start d hs.2.1 hs.2.2]

/-- the characters of paragraph `p` as the Spec sees them: reported class, bracket property -/
def paraChars (ds : DataSource) (t : Text) (classes : Classes) (p : ParaInfo) : List Spec.Ch :=
  (segsIn t p).map (fun s => { cls := classes.getD s.start ON, brk := ds.brk s.cp })

/-- **C01 for `BidiInfo::new`.**  For a well-formed text: no panic, and for every reported paragraph `p`
    the levels at the starts of `p`'s characters are the Spec's levels, at `p.level`, of `p`'s
    characters with their reported classes; the per-unit levels of `p` are their expansion; the reported
    classes are X5c of the raw classes and `p.level` is P2/P3's level of them (C02). -/
theorem C01_bidiInfo_of_weakInv (ds : DataSource) (hweak : WeakInv ds)
    (t : Text) (hwf : t.WF) (d : Option Nat) (hd : ∀ l, d = some l → l ≤ 1) :
    let b := bidiInfo ds t d
    b.err = none ∧
    ∀ p ∈ b.paras,
      (segsIn t p).map (fun s => b.levels.getD s.start 0) =
        Spec.paragraphLevels p.level (paraChars ds t b.classes p) ∧
      slice b.levels p.start p.stop =
        expand (t.subrange p.start p.stop) (Spec.paragraphLevels p.level (paraChars ds t b.classes p)) ∧
      (paraChars ds t b.classes p).map (·.cls) =
        Spec.resolveFSI ((segsIn t p).map (fun s => ds.cls s.cp)) ∧
      p.level = Spec.paraLevel d ((segsIn t p).map (fun s => ds.cls s.cp)) := by
  intro b
  have hgood := (Lemmas.C10.paras_good ds t hwf d).1
  have key : ∀ p ∈ b.paras,
      (paragraphBidiInfo ds (t.subrange p.start p.stop) d).err = none ∧
      ((segsIn t p).map (fun s => b.levels.getD s.start 0) =
        Spec.paragraphLevels p.level (paraChars ds t b.classes p) ∧
      slice b.levels p.start p.stop =
        expand (t.subrange p.start p.stop) (Spec.paragraphLevels p.level (paraChars ds t b.classes p)) ∧
      (paraChars ds t b.classes p).map (·.cls) =
        Spec.resolveFSI ((segsIn t p).map (fun s => ds.cls s.cp)) ∧
      p.level = Spec.paraLevel d ((segsIn t p).map (fun s => ds.cls s.cp))) := by
    intro p hp
    have hp' : p ∈ (computeInitialInfo ds t d true).paras := hp
    obtain ⟨f, _, ⟨hw, g0, _⟩, _⟩ := Lemmas.C10.parasFrom_mem hgood p hp'
    obtain ⟨c1, c2, c3, _⟩ := C10.C10_slice ds t hwf d p hp
    have hraw : raw ds (t.subrange p.start p.stop) = (segsIn t p).map (fun s => ds.cls s.cp) := by
      simp only [raw, segsIn, Text.subrange, List.map_map]
      rfl
    have hB : ∀ c ∈ (raw ds (t.subrange p.start p.stop)).dropLast, c ≠ B := by
      intro c hc
      simp only [raw, ← List.map_dropLast, List.mem_map] at hc
      obtain ⟨s, hs, rfl⟩ := hc
      exact g0 s hs
    obtain ⟨e1, e2, e3, e4, e5⟩ := C01_paragraphBidiInfo_of_weakInv ds hweak (t.subrange p.start p.stop) hw
      d hd hB
    have hchars : charsOf ds (t.subrange p.start p.stop) (slice (bidiInfo ds t d).classes p.start p.stop) =
        paraChars ds t (bidiInfo ds t d).classes p :=
      subrange_read t p.start p.stop (bidiInfo ds t d).classes ON
        (fun c cp => ({ cls := c, brk := ds.brk cp } : Spec.Ch))
    have hlev : contract (t.subrange p.start p.stop) (slice (bidiInfo ds t d).levels p.start p.stop) 0 =
        (segsIn t p).map (fun s => (bidiInfo ds t d).levels.getD s.start 0) :=
      subrange_read t p.start p.stop (bidiInfo ds t d).levels 0 (fun l _ => l)
    rw [c1, c2, c3, hchars] at e2 e3
    rw [c1, hchars, hraw] at e4
    rw [c3, hraw] at e5
    rw [hlev] at e3
    exact ⟨e1, e3, e2, e4, e5⟩
  exact ⟨(C10.C10_slice_err ds t hwf d).2 (fun p hp => (key p hp).1), fun p hp => (key p hp).2⟩

theorem C01_bidiInfo (ds : DataSource)
    (t : Text) (hwf : t.WF) (d : Option Nat) (hd : ∀ l, d = some l → l ≤ 1) :
    let b := bidiInfo ds t d
    b.err = none ∧
    ∀ p ∈ b.paras,
      (segsIn t p).map (fun s => b.levels.getD s.start 0) =
        Spec.paragraphLevels p.level (paraChars ds t b.classes p) ∧
      slice b.levels p.start p.stop =
        expand (t.subrange p.start p.stop) (Spec.paragraphLevels p.level (paraChars ds t b.classes p)) ∧
      (paraChars ds t b.classes p).map (·.cls) =
        Spec.resolveFSI ((segsIn t p).map (fun s => ds.cls s.cp)) ∧
      p.level = Spec.paraLevel d ((segsIn t p).map (fun s => ds.cls s.cp)) :=
  C01_bidiInfo_of_weakInv ds (weakInv ds) t hwf d hd

/-! ### the built-in Unicode data, `&str` and `&[u16]` -/

/-- C01 for the crate's default data on a `&str` (given by its scalar values) -/
theorem C01_hardcoded_str (cs : List Nat) (d : Option Nat) (hd : ∀ l, d = some l → l ≤ 1) :
    let t := Text.ofScalars cs
    let b := bidiInfo hardcoded t d
    b.err = none ∧
    ∀ p ∈ b.paras,
      (segsIn t p).map (fun s => b.levels.getD s.start 0) =
        Spec.paragraphLevels p.level (paraChars hardcoded t b.classes p) ∧
      slice b.levels p.start p.stop =
        expand (t.subrange p.start p.stop) (Spec.paragraphLevels p.level (paraChars hardcoded t b.classes p)) ∧
      (paraChars hardcoded t b.classes p).map (·.cls) =
        Spec.resolveFSI ((segsIn t p).map (fun s => hardcoded.cls s.cp)) ∧
      p.level = Spec.paraLevel d ((segsIn t p).map (fun s => hardcoded.cls s.cp)) :=
  C01_bidiInfo hardcoded _ (C01.Base.ofScalars_WF cs) d hd

/-- C01 for the crate's default data on a `&[u16]` (any code units, lossy decoding as in the crate) -/
theorem C01_hardcoded_utf16 (u : List Nat) (h16 : ∀ x ∈ u, x < 65536) (d : Option Nat)
    (hd : ∀ l, d = some l → l ≤ 1) :
    let t := Utf16.toText u
    let b := bidiInfo hardcoded t d
    b.err = none ∧
    ∀ p ∈ b.paras,
      (segsIn t p).map (fun s => b.levels.getD s.start 0) =
        Spec.paragraphLevels p.level (paraChars hardcoded t b.classes p) ∧
      slice b.levels p.start p.stop =
        expand (t.subrange p.start p.stop) (Spec.paragraphLevels p.level (paraChars hardcoded t b.classes p)) ∧
      (paraChars hardcoded t b.classes p).map (·.cls) =
        Spec.resolveFSI ((segsIn t p).map (fun s => hardcoded.cls s.cp)) ∧
      p.level = Spec.paraLevel d ((segsIn t p).map (fun s => hardcoded.cls s.cp)) :=
  C01_bidiInfo hardcoded _ (C18.C18_wf u h16) d hd

/-- `ParagraphBidiInfo::new` with the default data on a one-paragraph `&str` -/
theorem C01_hardcoded_str_single (cs : List Nat) (d : Option Nat) (hd : ∀ l, d = some l → l ≤ 1)
    (hB : ∀ c ∈ (raw hardcoded (Text.ofScalars cs)).dropLast, c ≠ B) :
    let t := Text.ofScalars cs
    let q := paragraphBidiInfo hardcoded t d
    q.err = none ∧
    q.levels = expand t (Spec.paragraphLevels q.paraLevel (charsOf hardcoded t q.classes)) ∧
    contract t q.levels 0 = Spec.paragraphLevels q.paraLevel (charsOf hardcoded t q.classes) ∧
    (charsOf hardcoded t q.classes).map (·.cls) = Spec.resolveFSI (raw hardcoded t) ∧
    q.paraLevel = Spec.paraLevel d (raw hardcoded t) :=
  C01_paragraphBidiInfo hardcoded _ (C01.Base.ofScalars_WF cs) d hd hB

/-- `ParagraphBidiInfo::new` with the default data on a one-paragraph `&[u16]` -/
theorem C01_hardcoded_utf16_single (u : List Nat) (h16 : ∀ x ∈ u, x < 65536) (d : Option Nat)
    (hd : ∀ l, d = some l → l ≤ 1)
    (hB : ∀ c ∈ (raw hardcoded (Utf16.toText u)).dropLast, c ≠ B) :
    let t := Utf16.toText u
    let q := paragraphBidiInfo hardcoded t d
    q.err = none ∧
    q.levels = expand t (Spec.paragraphLevels q.paraLevel (charsOf hardcoded t q.classes)) ∧
    contract t q.levels 0 = Spec.paragraphLevels q.paraLevel (charsOf hardcoded t q.classes) ∧
    (charsOf hardcoded t q.classes).map (·.cls) = Spec.resolveFSI (raw hardcoded t) ∧
    q.paraLevel = Spec.paraLevel d (raw hardcoded t) :=
  C01_paragraphBidiInfo hardcoded _ (C18.C18_wf u h16) d hd hB

/-! ### non-vacuity and tests

`decide` / `decide +kernel` on the literals below are *tests* (evaluation of both sides), not proofs;
the theorems above are what holds for all inputs. -/

/-- the D1 witness `a ב LRI a PDI ( ב )` -/
def d1 : List Nat := [0x61, 0x5D1, 0x2066, 0x61, 0x2069, 0x28, 0x5D1, 0x29]

/-- its characters as the Spec sees them (built-in data) -/
def d1Chars : List Spec.Ch := d1.map (fun c => { cls := hardcoded.cls c, brk := hardcoded.brk c })

/-- non-vacuity of `C01_unit`: the hypotheses hold for the D1 witness, one unit per character
    (general branch: `pure = false`; the paragraph has an isolate initiator, a bracket pair and an RTL letter) -/
example : UnitText (unitize (Text.ofScalars d1)) 8 ∧ (0 : Nat) ≤ 1 ∧ d1Chars.length = 8 ∧
    NoInnerB (d1Chars.map (·.cls)) ∧
    d1Chars.map (·.brk) = (unitize (Text.ofScalars d1)).segs.map (fun s => hardcoded.brk s.cp) ∧
    (false = true → ∀ ch ∈ d1Chars, pureClass ch.cls = true) :=
  ⟨Lemmas.C01Seq.unitText_unitize _, by decide, by decide, by unfold NoInnerB; decide +kernel,
    by decide +kernel, by intro h; cases h⟩

/-- the instance of `C01_unit` for the D1 witness, forced LTR -/
example : paraLevels hardcoded 0 false ((d1Chars.map (·.cls)).any isIsolateInitiator)
      (unitize (Text.ofScalars d1)) (d1Chars.map (·.cls)) = (Spec.paragraphLevels 0 d1Chars, none) :=
  C01_unit hardcoded _ 8 (Lemmas.C01Seq.unitText_unitize _) 0 (by decide) d1Chars (by decide)
    (by unfold NoInnerB; decide +kernel) (by decide +kernel) false
    (by intro h; cases h)

/-- test: what both sides are there — the levels UAX #9 assigns to the D1 witness (the crate before the
    fix of D1 gave `0 1 0 2 0 0 1 0`) -/
example : Spec.paragraphLevels 0 d1Chars = [0, 1, 1, 2, 1, 1, 1, 1] := by decide +kernel

/-- non-vacuity of `C01_bidiInfo` / `C01_hardcoded_str`: every hypothesis holds for every `&str` and the
    built-in data; a forced level 0 (or 1, or none) meets `hd` -/
example (cs : List Nat) : (Text.ofScalars cs).WF ∧
    (∀ l, some 0 = some l → l ≤ 1) ∧ (∀ l, some 1 = some l → l ≤ 1) ∧
    (∀ l, (none : Option Nat) = some l → l ≤ 1) :=
  ⟨C01.Base.ofScalars_WF cs,
    by intro l h; cases h; omega, by intro l h; cases h; omega, by intro l h; cases h⟩

/-- test: the D1 witness as a `&str` (14 bytes), forced LTR, through `BidiInfo::new` -/
example : (bidiInfo hardcoded (Text.ofScalars d1) (some 0)).levels = [0, 1, 1, 1, 1, 1, 2, 1, 1, 1, 1, 1, 1, 1] ∧
    (bidiInfo hardcoded (Text.ofScalars d1) (some 0)).paras = [{ start := 0, stop := 14, level := 0 }] := by
  decide +kernel

/-- `א 〈 a ◌̀ 〉 SHY RLE 😀 1 , 2 PDF RLI é ( PDI ⏎ b FSI א`: brackets of three bytes, a BN (soft hyphen), an NSM
    after a bracket, an embedding, an isolate with an unmatched bracket, a four-byte character, two paragraphs,
    an FSI that X5c resolves to RLI -/
def ex2 : List Nat :=
  [0x5D0, 0x3008, 0x61, 0x300, 0x3009, 0xAD, 0x202B, 0x1F600, 0x31, 0x2C, 0x32, 0x202C, 0x2067, 0xE9, 0x28,
   0x2069, 0x0A, 0x62, 0x2068, 0x5D0]

/-- test: what `C01_hardcoded_str` says about `ex2` (auto direction): two paragraphs, the per-unit levels, and
    the Spec's per-character levels of each paragraph -/
example :
    (bidiInfo hardcoded (Text.ofScalars ex2) none).paras =
      [{ start := 0, stop := 36, level := 1 }, { start := 36, stop := 42, level := 0 }] ∧
    (bidiInfo hardcoded (Text.ofScalars ex2) none).levels =
      [1, 1, 1, 1, 1, 2, 2, 2, 1, 1, 1, 1, 1, 1, 1, 1, 3, 3, 3, 3, 4, 4, 4, 4, 4, 4, 1, 1, 1, 4, 4, 3, 1, 1, 1, 1,
       0, 0, 0, 0, 1, 1] ∧
    (bidiInfo hardcoded (Text.ofScalars ex2) none).paras.map (fun p => Spec.paragraphLevels p.level
      (paraChars hardcoded (Text.ofScalars ex2) (bidiInfo hardcoded (Text.ofScalars ex2) none).classes p)) =
      [[1, 1, 2, 2, 1, 1, 1, 3, 4, 4, 4, 4, 1, 4, 3, 1, 1], [0, 0, 1]] := by
  decide +kernel

/-- non-vacuity of `C01_hardcoded_utf16`: code units below 65536, here with a surrogate pair -/
example : ∀ x ∈ [0x5D0, 0x3008, 0x61, 0x300, 0x3009, 0xAD, 0x202B, 0xD83D, 0xDE00, 0x31, 0x2C, 0x32, 0x202C,
    0x2067, 0xE9, 0x28, 0x2069], x < 65536 := by decide

/-- test: the same characters as a `&[u16]`: the surrogate pair carries its level twice -/
example : (bidiInfo hardcoded (Utf16.toText [0x5D0, 0x3008, 0x61, 0x300, 0x3009, 0xAD, 0x202B, 0xD83D, 0xDE00,
      0x31, 0x2C, 0x32, 0x202C, 0x2067, 0xE9, 0x28, 0x2069]) none).levels =
    [1, 1, 2, 2, 1, 1, 1, 3, 3, 4, 4, 4, 4, 1, 4, 3, 1] := by decide +kernel

/-- non-vacuity of `C01_chars`: the 32-unit text of `Lemmas/ExpandPipeline` (characters of 1–4 units, multi-unit
    brackets, an embedding, an isolate) with its per-unit classes, paragraph level 1 -/
example : Pipeline.exText.WF ∧ (1 : Nat) ≤ 1 ∧
    (expand Pipeline.exText Pipeline.exCls).length = Pipeline.exText.len ∧
    UniformOn Pipeline.exText (expand Pipeline.exText Pipeline.exCls) ∧
    NoInnerB (contract Pipeline.exText (expand Pipeline.exText Pipeline.exCls) ON) :=
  have h := expand_uniform Pipeline.exText Pipeline.exText_wf Pipeline.exCls (by decide)
  ⟨Pipeline.exText_wf, by decide, h.2, h.1,
    by rw [contract_expand Pipeline.exText Pipeline.exText_wf _ ON (by decide)]; unfold NoInnerB; decide⟩

/-- non-vacuity of `C01_paragraphBidiInfo` / `C01_hardcoded_str_single`: the first paragraph of `ex2` alone
    (ends with its separator) has no inner separator -/
example : ∀ c ∈ (raw hardcoded (Text.ofScalars (ex2.take 17))).dropLast, c ≠ B := by decide +kernel

end UBidi.Props.C01Levels
