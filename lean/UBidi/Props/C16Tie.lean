/-
  C16 — tie by TRANSLATION (see Props/C01Tie.lean): the class patterns of the `match` arms of get_base_direction_impl, re-read from the
  source on every check run by tools/gen_code.py, put every class in the arm the Model's transcription puts it in.
-/
import UBidi.Props.C01Tie
namespace UBidi.Props.C16Tie
open UBidi

theorem C16_tie_basedir_arms (c d : BidiClass) :
    (C01Tie.armOf Gen.Code.arms_get_base_direction_impl c = C01Tie.armOf Gen.Code.arms_get_base_direction_impl d) ↔ (C01Tie.baseDirArm c = C01Tie.baseDirArm d) := C01Tie.tie_basedir_arms c d

end UBidi.Props.C16Tie
