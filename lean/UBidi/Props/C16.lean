/-
  C16 — `get_base_direction` / `get_base_direction_full` implement rules P2/P3.

  Specification-level helpers (defined in `UBidi/Lemmas/C16Defs.lean`, shown here by their equations
  `rawClasses_def`, `paragraphsOf_nil/_B/_other`, `p2Dir_def`):

  * `rawClasses ds t`   — the bidi class of every character of the text;
  * `paragraphsOf cs`   — rule P1 on classes: split after every B (each paragraph keeps its B, no empty
                          paragraph, `flatten` gives the input back); it is `Spec.splitParagraphs` seen on
                          classes (`paragraphsOf_is_P1`);
  * `p2Dir p`           — rule P2 as a `Direction`: `Spec.firstStrong` (first L/R/AL, skipping from an
                          isolate initiator to its matching PDI by `Spec.matchingPDI`, or to the end of the
                          paragraph) — `.ltr` for L, `.rtl` for R/AL, `.mixed` when there is none.

  Main theorems: `C16_first`, `C16_full` (the two queries are P2 on the first paragraph, resp. on the
  first paragraph that has an answer), `C16_levels` (the paragraph levels auto-detected by
  `compute_initial_info` are `Spec.paraLevel none` of the paragraphs), `C16_agree_first`,
  `C16_agree_full` (agreement of the queries with the analysis).
-/
import UBidi.Lemmas.C16Initial
import UBidi.Lemmas.C16Paras
namespace UBidi.Props.C16
open UBidi BidiClass

/-! ### the specification helpers -/

theorem rawClasses_def (ds : DataSource) (t : Text) :
    rawClasses ds t = t.segs.map (fun s => ds.cls s.cp) := rfl

theorem paragraphsOf_nil : paragraphsOf [] = [] := rfl

theorem paragraphsOf_B (cs : List BidiClass) : paragraphsOf (B :: cs) = [B] :: paragraphsOf cs :=
  paragraphsOf_cons_B cs

theorem paragraphsOf_other (c : BidiClass) (hc : c ≠ B) (cs : List BidiClass) :
    paragraphsOf (c :: cs) =
      (match paragraphsOf cs with
       | [] => [[c]]
       | p :: ps => (c :: p) :: ps) := by
  cases he : paragraphsOf cs with
  | nil => exact paragraphsOf_cons_ne_nil hc he
  | cons p ps => exact paragraphsOf_cons_ne_cons hc he

theorem p2Dir_def (cs : List BidiClass) :
    p2Dir cs = (match Spec.firstStrong (cs.length + 1) cs with
                | some .L => .ltr
                | some _ => .rtl
                | none => .mixed) := rfl

/-- `paragraphsOf` is the Spec's rule P1 (`Spec.splitParagraphs`) seen on classes -/
theorem paragraphsOf_is_P1 (cs : List Spec.Ch) :
    paragraphsOf (cs.map (·.cls)) = (Spec.splitParagraphs cs).map (·.map (·.cls)) :=
  (splitParagraphs_classes cs).symm

/-- the paragraphs are a partition of the text into non-empty pieces, and a B can only be the last
    character of a paragraph -/
theorem paragraphsOf_shape (cs : List BidiClass) :
    (paragraphsOf cs).flatten = cs ∧
    (∀ p ∈ paragraphsOf cs, p ≠ []) ∧
    (∀ p ∈ paragraphsOf cs, ∀ i, p[i]? = some B → i + 1 = p.length) := by
  refine ⟨paragraphsOf_flatten cs, paragraphsOf_ne_nil cs, ?_⟩
  intro p hp
  have h := paragraphsOf_onlyFinalB cs p hp
  clear hp
  induction p with
  | nil => simp
  | cons c p ih =>
    intro i hi
    cases i with
    | zero =>
      simp at hi
      simp [h.1 hi]
    | succ i =>
      simp at hi
      have := ih h.2 i hi
      simp [this]

/-- the fuel given to `Spec.firstStrong` in `p2Dir` (and in `Spec.paraLevel`) is enough: more fuel
    changes nothing -/
theorem p2Dir_fuel (cs : List BidiClass) (fuel : Nat) (h : cs.length < fuel) :
    Spec.firstStrong fuel cs = Spec.firstStrong (cs.length + 1) cs :=
  firstStrong_fuel fuel (cs.length + 1) cs h (by omega)

/-! ### the counter of `get_base_direction_impl` against BD9 -/

/-- Core: right after an isolate initiator (counter `d + 1`) whose matching PDI (BD9,
    `Spec.matchingPDI`) is `k` characters further, the scan reports nothing inside and continues after
    the PDI with counter `d`; both variants. -/
theorem C16_counter_matched (ds : DataSource) (full : Bool) (d k : Nat) (cps : List Nat)
    (h : Spec.matchingPDI (cps.map ds.cls) 0 0 = some k) :
    baseDirLoop ds full (d + 1) cps = baseDirLoop ds full d (cps.drop (k + 1)) := by
  rw [baseDirLoop_eq, baseDirLoop_eq, List.map_drop]
  exact dirLoop_skip_some full _ 0 d k h

/-- Core: … and when the initiator has no matching PDI the non-full scan reports nothing
    (up to the end of the paragraph, where it stops). -/
theorem C16_counter_unmatched (ds : DataSource) (d : Nat) (cps : List Nat)
    (h : Spec.matchingPDI (cps.map ds.cls) 0 0 = none) :
    baseDirLoop ds false (d + 1) cps = .mixed := by
  rw [baseDirLoop_eq]
  exact dirLoop_skip_none _ 0 d h

/-! ### main theorems -/

/-- `get_base_direction`: P2 on the first paragraph, `Mixed` when it has no strong character outside
    isolates (or when the text is empty). -/
theorem C16_first (ds : DataSource) (t : Text) :
    baseDirection ds t false = ((paragraphsOf (rawClasses ds t)).head?.map p2Dir).getD .mixed := by
  rw [baseDirection_eq, dirLoop_false_head]
  cases he : paragraphsOf (rawClasses ds t) with
  | nil => rfl
  | cons p ps =>
    have hp : OnlyFinalB p := paragraphsOf_onlyFinalB (rawClasses ds t) p (by simp [he])
    simp [p2Dir_eq_dirLoop p hp]

/-- `get_base_direction_full`: P2 on the first paragraph for which P2 finds a character; `Mixed`
    when there is no such paragraph. -/
theorem C16_full (ds : DataSource) (t : Text) :
    baseDirection ds t true =
      (((paragraphsOf (rawClasses ds t)).map p2Dir).find? (· != .mixed)).getD .mixed := by
  rw [baseDirection_eq, dirLoop_true_find, parasDirs_zero]
  congr 2
  apply List.map_congr_left
  intro p hp
  exact (p2Dir_eq_dirLoop p (paragraphsOf_onlyFinalB _ p hp)).symm

/-- The analysis (`compute_initial_info` with automatic level, splitting paragraphs) gives every
    paragraph the level of rules P2/P3. -/
theorem C16_levels (ds : DataSource) (t : Text) (hwf : t.WF) :
    (computeInitialInfo ds t none true).paras.map (·.level) =
      (paragraphsOf (rawClasses ds t)).map (Spec.paraLevel none) :=
  initial_levels ds t hwf

/-- the number of paragraphs of the analysis is the number of P1 paragraphs -/
theorem C16_para_count (ds : DataSource) (t : Text) (hwf : t.WF) :
    (computeInitialInfo ds t none true).paras.length = (paragraphsOf (rawClasses ds t)).length := by
  have := congrArg List.length (C16_levels ds t hwf)
  simpa using this

/-- Agreement of `get_base_direction` with the analysis: an `Ltr` / `Rtl` answer is the direction of
    the auto-detected level of the first paragraph.  (`t.WF` is needed: see `agree_first_needs_WF`.) -/
theorem C16_agree_first (ds : DataSource) (t : Text) (hwf : t.WF) :
    (baseDirection ds t false = .ltr →
      ((computeInitialInfo ds t none true).paras.head?.map (·.level)) = some 0) ∧
    (baseDirection ds t false = .rtl →
      ((computeInitialInfo ds t none true).paras.head?.map (·.level)) = some 1) := by
  rw [← List.head?_map, C16_levels ds t hwf, C16_first]
  cases paragraphsOf (rawClasses ds t) with
  | nil => simp
  | cons p ps =>
    rcases p2Dir_cases p with ⟨h1, h2⟩ | ⟨h1, h2⟩ | ⟨h1, h2⟩ <;> simp [h1, h2]

/-- Agreement of `get_base_direction_full` with the analysis: if paragraph `k` is the first one for
    which P2 finds a character (the paragraph the query answers for, `C16_full`), the analysis gives
    paragraph `k` the level of the answer. -/
theorem C16_agree_full (ds : DataSource) (t : Text) (hwf : t.WF) :
    ∀ k, ((paragraphsOf (rawClasses ds t)).map p2Dir).findIdx? (· != .mixed) = some k →
      (baseDirection ds t true = .ltr ∨ baseDirection ds t true = .rtl) ∧
      ((computeInitialInfo ds t none true).paras[k]?.map (·.level)) =
        some (if baseDirection ds t true = .rtl then 1 else 0) := by
  intro k hk
  obtain ⟨a, h1, h2, h3⟩ := findIdx_some_find _ _ k hk
  rw [← List.getElem?_map, C16_levels ds t hwf, C16_full, h3]
  simp only [List.getElem?_map] at h1 ⊢
  cases hp : (paragraphsOf (rawClasses ds t))[k]? with
  | none => simp [hp] at h1
  | some p =>
    simp only [hp, Option.map_some, Option.some.injEq] at h1
    subst h1
    rcases p2Dir_cases p with ⟨e1, e2⟩ | ⟨e1, e2⟩ | ⟨e1, e2⟩ <;> simp [e1, e2] at h2 ⊢

/-- … and when no paragraph has an answer the query says `Mixed` and the analysis gives every
    paragraph level 0 (P3). -/
theorem C16_agree_full_none (ds : DataSource) (t : Text) (hwf : t.WF)
    (h : ((paragraphsOf (rawClasses ds t)).map p2Dir).findIdx? (· != .mixed) = none) :
    baseDirection ds t true = .mixed ∧
    ∀ pi ∈ (computeInitialInfo ds t none true).paras, pi.level = 0 := by
  rw [List.findIdx?_eq_none_iff] at h
  have hall : ∀ p ∈ paragraphsOf (rawClasses ds t), p2Dir p = .mixed := by
    intro p hp
    have := h (p2Dir p) (List.mem_map_of_mem hp)
    simpa using this
  constructor
  · rw [C16_full, List.find?_eq_none.2 (by simpa using h)]
    rfl
  · intro pi hpi
    have hm : pi.level ∈ (computeInitialInfo ds t none true).paras.map (·.level) :=
      List.mem_map_of_mem hpi
    rw [C16_levels ds t hwf, List.mem_map] at hm
    obtain ⟨p, hp, he⟩ := hm
    rcases p2Dir_cases p with ⟨e1, e2⟩ | ⟨e1, e2⟩ | ⟨e1, e2⟩
    · simp [hall p hp] at e1
    · simp [hall p hp] at e1
    · omega


/-! ### non-vacuity and tests -/

/-- "1 ¶ RLI א PDI ␠ a ¶ ב" as a `&str` (hardcoded classes: EN B RLI R PDI WS L B R): three
    paragraphs; the first has no strong character, the second has its R inside an isolate and then an L,
    the third is R. -/
def exText : Text := Text.ofScalars [0x31, 0x2029, 0x2067, 0x5D0, 0x2069, 0x20, 0x61, 0x2029, 0x5D1]

/-- the hypothesis `t.WF` of the agreement theorems holds for this text (as for every `&str`) -/
theorem exText_WF : exText.WF := by
  constructor
  · simp [exText, Text.ofScalars, Text.layout, SegsFrom, Text.totalLen, Enc.charLen, utf8Len]
  · decide

/-- test (evaluation on a literal): the classes and the paragraphs of the example -/
example : paragraphsOf (rawClasses hardcoded exText) = [[EN, B], [RLI, R, PDI, WS, L, B], [R]] := by
  decide +kernel

/-- test: `get_base_direction` says Mixed (first paragraph), `get_base_direction_full` says Ltr -/
example : baseDirection hardcoded exText false = .mixed ∧ baseDirection hardcoded exText true = .ltr := by
  decide +kernel

/-- non-vacuity of `C16_agree_full`: the hypothesis holds with `k = 1` for the example, and the
    conclusion is about a real paragraph -/
example : ((paragraphsOf (rawClasses hardcoded exText)).map p2Dir).findIdx? (· != .mixed) = some 1 ∧
    (computeInitialInfo hardcoded exText none true).paras =
      [⟨0, 4, 0⟩, ⟨4, 17, 0⟩, ⟨17, 19, 1⟩] := by
  decide +kernel

/-- non-vacuity of `C16_agree_first`: a text whose answer is Rtl ("RLI a PDI א"), and one whose answer
    is Ltr -/
example : baseDirection hardcoded (Text.ofScalars [0x2067, 0x61, 0x2069, 0x5D0]) false = .rtl ∧
    baseDirection hardcoded (Text.ofScalars [0x2067, 0x5D0, 0x2069, 0x61]) false = .ltr := by
  decide +kernel

/-- `t.WF` cannot be dropped from `C16_agree_first`: for a "text" whose declared length is 0 although
    it has a character, `compute_initial_info` reports no paragraph at all while the query says Ltr.
    (No `&str` / `&[u16]` is like this.) -/
theorem agree_first_needs_WF :
    ∃ (ds : DataSource) (t : Text), baseDirection ds t false = .ltr ∧
      (computeInitialInfo ds t none true).paras = [] :=
  ⟨{ cls := fun _ => .L, brk := fun _ => none },
   { enc := .utf8, len := 0, segs := [{ start := 0, cp := 0x61, len := 1 }] }, by decide⟩

/-- tests of `p2Dir` / `paragraphsOf` on small class lists (evaluation on literals) -/
example : p2Dir [LRI, R, PDI, L] = .ltr ∧ p2Dir [PDI, R] = .rtl ∧ p2Dir [FSI, LRI, PDI, R] = .mixed ∧
    p2Dir [LRI, LRI, PDI, R, PDI, AL, B] = .rtl ∧ p2Dir [ON, B] = .mixed ∧
    paragraphsOf [LRI, R, B, L] = [[LRI, R, B], [L]] ∧ paragraphsOf [B, B, R, B] = [[B], [B], [R, B]] := by
  decide

end UBidi.Props.C16
