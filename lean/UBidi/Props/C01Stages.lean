/-
  C01 — the stage theorems.  Each stage of the resolver is proved equal to the corresponding rules of
  UAX #9 in `UBidi/Lemmas/`; this file makes them part of C01's audited obligations (the check runs
  `#print axioms` on every name listed after `AUDIT:` below) and records what each one says.

  StageX    (explicit.rs  = X1–X8)       Props.C11.C11_sim_step / C11_sim_run; Lemmas.C01Seq.explicit_unit
  StageSeq  (prepare.rs   = BD13, X10)   Lemmas.C01Seq.stageSeq, stageSeq_fast, fast_eq_general
  StageW    (resolve_weak = W1∘…∘W7)     Lemmas.C01Weak.stageW_simple, stageW_bn, stageW_runs, resolveWeak_scatter
  StageN    (resolve_neutral = BD16, N0–N2)
                                          Lemmas.C01Neutral.stageN12_seq, stageN12_chars, stageBD16_seq, bd16_limit,
                                          bd16_stack_le, stageN_runs, stageN_bn, stageN_bn_brkAt
  StageI / StageFill                      Props.C01.C01_stageI, C01_fill_spec, C01_removed_carry
  pure-LTR shortcut                       Lemmas.C01Pure.pure_ltr_levels
  Expand (unit-length independence)       Expand.explicit_expand, prepare_expand, weak_expand, neutral_expand,
                                          resolveLevels_expand, fill_expand, paraLevels_expand
-/
import UBidi.Lemmas.C01Pure
import UBidi.Lemmas.C01WeakAll
import UBidi.Lemmas.C01Neutral
import UBidi.Lemmas.C01NeutralBN
import UBidi.Lemmas.C01Seq
import UBidi.Lemmas.ExpandPipeline

-- AUDIT: UBidi.Lemmas.C01Pure.pure_ltr_levels
-- AUDIT: UBidi.Lemmas.C01Seq.explicit_unit
-- AUDIT: UBidi.Lemmas.C01Seq.stageSeq
-- AUDIT: UBidi.Lemmas.C01Seq.stageSeq_general
-- AUDIT: UBidi.Lemmas.C01Seq.stageSeq_fast
-- AUDIT: UBidi.Lemmas.C01Seq.fast_eq_general
-- AUDIT: UBidi.Lemmas.C01Weak.stageW_simple
-- AUDIT: UBidi.Lemmas.C01Weak.stageW_bn
-- AUDIT: UBidi.Lemmas.C01Weak.stageW_runs
-- AUDIT: UBidi.Lemmas.C01Weak.resolveWeak_scatter
-- AUDIT: UBidi.Lemmas.C01Neutral.stageN12_seq
-- AUDIT: UBidi.Lemmas.C01Neutral.stageN12_chars
-- AUDIT: UBidi.Lemmas.C01Neutral.stageBD16_seq
-- AUDIT: UBidi.Lemmas.C01Neutral.bd16_limit
-- AUDIT: UBidi.Lemmas.C01Neutral.bd16_stack_le
-- AUDIT: UBidi.Lemmas.C01Neutral.stageN_runs
-- AUDIT: UBidi.Lemmas.C01Neutral.stageN_bn
-- AUDIT: UBidi.Lemmas.C01Neutral.stageN_bn_brkAt
-- AUDIT: UBidi.Expand.explicit_expand
-- AUDIT: UBidi.Expand.prepare_expand
-- AUDIT: UBidi.Expand.weak_expand
-- AUDIT: UBidi.Expand.neutral_expand
-- AUDIT: UBidi.Expand.resolveLevels_expand
-- AUDIT: UBidi.Expand.fill_expand
-- AUDIT: UBidi.Expand.paraLevels_expand
