/- C15 — paired-bracket data complete and consistent: the 128 code points of the crate's pairs
   table are distinct, so the first-match scan is an any-match lookup; the lookup equals the frozen
   Unicode 16.0 BidiBrackets reference on every code point; both members of a pair share a key,
   distinct pairs have distinct keys except the canonically equivalent U+2329/U+232A ~ U+3008/U+3009;
   every bracket has Bidi_Class ON. -/
import UBidi.Model.CharData
import UBidi.Ref.Ucd16
import UBidi.Lemmas.C15
import UBidi.Props.C14
namespace UBidi.Props.C15
open UBidi

theorem count : Gen.pairsTable.length = 64 ∧ Ref.brackets16.length = 128 := by decide +kernel

/-- the 128 code points of the pairs table are pairwise distinct (proof over the whole table) -/
theorem C15_distinct : (Gen.pairsTable.flatMap (fun p => [p.1, p.2.1])).Nodup := by decide +kernel

/-- first-match = any-match: general lemma for a table with distinct code points -/
theorem C15_scan (t : List (Nat × Nat × Option Nat)) (h : (t.flatMap (fun p => [p.1, p.2.1])).Nodup)
    (p : Nat × Nat × Option Nat) (hp : p ∈ t) :
    bracketIn t p.1 = some { opening := p.2.2.getD p.1, isOpen := true } ∧
    bracketIn t p.2.1 = some { opening := p.2.2.getD p.1, isOpen := false } :=
  Lemmas.C15.bracketIn_scan t h p hp

/-- non-vacuity (test on literals): the crate's table meets the hypothesis; a row from its middle -/
example : bracket 0x2329 = some { opening := 0x3008, isOpen := true } ∧
    bracket 0x232A = some { opening := 0x3008, isOpen := false } :=
  C15_scan Gen.pairsTable C15_distinct (0x2329, 0x232A, some 0x3008) (by decide +kernel)

theorem C15_none (t : List (Nat × Nat × Option Nat)) (c : Nat) (h : ∀ p ∈ t, p.1 ≠ c ∧ p.2.1 ≠ c) :
    bracketIn t c = none :=
  Lemmas.C15.bracketIn_none t c h

/-- non-vacuity (test on literals) -/
example : bracketIn [(0x28, 0x29, none), (0x5B, 0x5D, none)] 0x41 = none :=
  C15_none _ 0x41 (by decide)

/-- Bool checker: on every reference entry `b`, the crate's lookup of `b`'s code point returns
    exactly `b`'s data, and the reference's own first-match lookup of that code point returns `b`
    (the reference has no duplicate code point). -/
def refCoveredB (ref : List (Nat × Bool × Nat)) : Bool :=
  ref.all (fun b =>
    decide (bracket b.1 = some { opening := b.2.2, isOpen := b.2.1 }) &&
    decide (ref.find? (fun x => x.1 == b.1) = some b))

/-- Bool checker: every code point of the crate's pairs table occurs in the reference. -/
def crateCoveredB (ref : List (Nat × Bool × Nat)) : Bool :=
  Gen.pairsTable.all (fun p => ref.any (fun b => b.1 == p.1) && ref.any (fun b => b.1 == p.2.1))

theorem C15_refCovered : refCoveredB Ref.brackets16 = true := by decide +kernel
theorem C15_crateCovered : crateCoveredB Ref.brackets16 = true := by decide +kernel

theorem bracket_of_ref (b : Nat × Bool × Nat) (hb : b ∈ Ref.brackets16) :
    bracket b.1 = some { opening := b.2.2, isOpen := b.2.1 } ∧
    Ref.brackets16.find? (fun x => x.1 == b.1) = some b := by
  have h := C15_refCovered
  simp only [refCoveredB, List.all_eq_true, Bool.and_eq_true, decide_eq_true_eq] at h
  exact h b hb

/-- equality with the frozen reference for EVERY code point (some on the 128, none elsewhere) -/
theorem C15_ref (c : Nat) :
    bracket c = ((Ref.brackets16.find? (fun b => b.1 == c)).map
      (fun b => { opening := b.2.2, isOpen := b.2.1 })) := by
  by_cases hc : ∃ b ∈ Ref.brackets16, b.1 = c
  · obtain ⟨b, hb, rfl⟩ := hc
    obtain ⟨h1, h2⟩ := bracket_of_ref b hb
    rw [h1, h2, Option.map_some]
  · have hnone : Ref.brackets16.find? (fun b => b.1 == c) = none := by
      rw [List.find?_eq_none]
      intro x hx hxc
      exact hc ⟨x, hx, by simpa using hxc⟩
    rw [hnone, Option.map_none]
    apply C15_none
    intro p hp
    have h := C15_crateCovered
    simp only [crateCoveredB, List.all_eq_true, Bool.and_eq_true, List.any_eq_true, beq_iff_eq] at h
    obtain ⟨⟨b1, hb1, e1⟩, ⟨b2, hb2, e2⟩⟩ := h p hp
    exact ⟨fun e => hc ⟨b1, hb1, e1.trans e⟩, fun e => hc ⟨b2, hb2, e2.trans e⟩⟩

/-- both members of a pair share a key; different pairs have different keys, except
    canonically equivalent pairs (which share the reference pair id) -/
theorem C15_keys : ∀ b1 ∈ Ref.brackets16, ∀ b2 ∈ Ref.brackets16,
    ((bracket b1.1).map (·.opening) = (bracket b2.1).map (·.opening)) ↔ b1.2.2 = b2.2.2 := by
  intro b1 hb1 b2 hb2
  rw [(bracket_of_ref b1 hb1).1, (bracket_of_ref b2 hb2).1]
  simp only [Option.map_some, Option.some.injEq]

theorem C15_canonical : (bracket 0x2329).map (·.opening) = (bracket 0x3008).map (·.opening) ∧
    (bracket 0x232A).map (·.opening) = (bracket 0x3009).map (·.opening) := by decide +kernel

/-- Bool checker: one pass over the (sorted) class table finds every bracket code point inside a
    row of class ON. -/
def allONB : Bool :=
  Lemmas.C14.classesB Gen.classTable Gen.classTable
    (Gen.pairsTable.flatMap (fun p => [(p.1, BidiClass.ON), (p.2.1, BidiClass.ON)]))

theorem C15_allONB : allONB = true := by decide +kernel

/-- every bracket character has Bidi_Class ON in the built-in class table -/
theorem C15_all_ON : ∀ p ∈ Gen.pairsTable, bidiClass p.1 = .ON ∧ bidiClass p.2.1 = .ON := by
  intro p hp
  have h := Lemmas.C14.classesB_sound Gen.classTable
    (Lemmas.C14.sorted_of_sortedB _ C14.C14_sorted) _ _ (fun _ hx => hx) C15_allONB
  rw [C14.C14_bidiClass_eq_lookup, C14.C14_bidiClass_eq_lookup]
  exact ⟨h (p.1, .ON) (List.mem_flatMap.2 ⟨p, hp, by simp⟩),
    h (p.2.1, .ON) (List.mem_flatMap.2 ⟨p, hp, by simp⟩)⟩

end UBidi.Props.C15
