/- C15 — bracket data.  (first layer) -/
import UBidi.Model.CharData
import UBidi.Ref.Ucd16
namespace UBidi.Props.C15
open UBidi

theorem count : Gen.pairsTable.length = 64 ∧ Ref.brackets16.length = 128 := by decide +kernel

end UBidi.Props.C15
