/- C20 — cargo features do not change results.  The Model has no notion of
   container or feature; the Lean part is the newtype-u8 round trip. -/
import UBidi.Model.Level
namespace UBidi.Props.C20
open UBidi

/-- `Level` serialises as its `u8` number; reading a valid number back is the identity -/
theorem serde_roundtrip (l : Nat) (h : l ≤ 126) : Level.new l = some l := by
  unfold Level.new; have : Level.maxImplicit = 126 := by decide
  simp [this, h]

end UBidi.Props.C20
