/- C20 — cargo features do not change results.  The Model has no notion of
   container or feature; the Lean part is the newtype-u8 round trip. -/
import UBidi.Model.Level
namespace UBidi.Props.C20
open UBidi

/-- `Level` serialises as its `u8` number; reading a valid number back is the identity -/
theorem serde_roundtrip (l : Nat) (h : l ≤ 126) : Level.new l = some l := by
  unfold Level.new; have : Level.maxImplicit = 126 := by decide
  simp [this, h]

/-- ... and reading any other number fails: deserialisation is `Level::new` on the number read (repaired form,
    finding D11 — the derived implementation accepted every `u8`), so no format can produce a `Level` above 126 -/
theorem serde_rejects (n : Nat) (h : 126 < n) : Level.new n = none := by
  unfold Level.new; have : Level.maxImplicit = 126 := by decide
  simp [this]; omega

end UBidi.Props.C20
