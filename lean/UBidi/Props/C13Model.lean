/-
  C13 on the Model of the crate — isolates isolate.

  "If a paragraph contains an LRI or RLI with a matching PDI at a nesting depth below the limit, then
  replacing the text between them by any other text that contains no paragraph separator and whose own
  isolate controls are balanced leaves the paragraph level and the resolved level of every character
  outside the pair (including the initiator and the PDI) unchanged."

  `Props/C13.lean` proves this on the Spec (UAX #9, `C13_isolation_raw`); `Props/C01Levels.lean` proves that
  the Model of the crate computes the Spec's levels (`C01_paragraphBidiInfo`, `C01_bidiInfo`).  Here the
  two are combined: the property holds for what the crate computes,

  * `C13_model_single` — `ParagraphBidiInfo::new` on a one-paragraph text,
  * `C13_model_multi`  — `BidiInfo::new` on a text of several paragraphs, the pair inside one of them,

  for EVERY data source `ds`, every encoding `enc` (`utf8`: a `&str`, `textOf .utf8 cs = Text.ofScalars cs`;
  `utf16`; `utf32`), forced or automatic paragraph direction, per character and per code unit.

  The texts are given by their scalar values: `textOf enc cs` lays them out in the encoding (well formed:
  `textOf_WF`).  Hypotheses, all on the classes the data source gives the scalar values:
  `hi`, `hp` the initiator is an LRI or RLI, the closing character a PDI; `h1`, `h2` both contents are
  `IsoBalanced` (isolate controls balanced, no class B); `hpre`, `hsuf` the text is one paragraph (no class B
  in `pre`, none in `suf` except possibly its last character); `hvalid` "at a nesting depth below the
  limit": after X1–X8 over the X5c-resolved prefix both overflow counts are 0 and the level the initiator
  pushes is at most 125 — the hypothesis of `C13_isolation_raw`, written on the classes.  It cannot be
  dropped (test at the end: after 70 RLE the crate, as UAX #9, gives the PDI and the text after it levels
  that depend on the content).

  Proof: `C01_paragraphBidiInfo` turns the per-character levels of both texts into
  `Spec.paragraphLevels (Spec.paraLevel d raw) (charsOf …)`; `charsOf_eq_applyX5c` (the bridge, in
  `Lemmas/C13Model.lean`) identifies `charsOf` with `applyX5c` of the characters `⟨ds.cls c, ds.brk c⟩`;
  `C13_isolation_raw` finishes.  The per-unit levels are the expansion of the per-character ones
  (`expandCs`).  For `BidiInfo::new`, `bidiInfo_para` (cutting a text into paragraphs is unique, `chunk_mem`,
  and `C10_slice`) reduces the paragraph to `ParagraphBidiInfo::new` on it alone.
-/
import UBidi.Lemmas.C13Model
namespace UBidi.Props.C13Model
open UBidi UBidi.Spec UBidi.BidiClass UBidi.Expand UBidi.Lemmas.C01Compose
open UBidi.Props.C02 (raw)
open UBidi.Props.C13 (applyX5c IsoBalanced xFinal)

/-- **C13 for `ParagraphBidiInfo::new`.**  `t1 = pre i c1 p suf`, `t2 = pre i c2 p suf` in encoding `enc`.
    Neither analysis panics; same paragraph level; the per-character levels (`contract t q.levels 0`: the
    level at the first code unit of every character) agree on `pre` and the initiator
    (`take (pre.length + 1)`) and from the PDI on (`drop` of the respective position of the PDI); the same per
    code unit: the levels of the units of `pre ++ [i]` and of the units from the PDI on agree. -/
theorem C13_model_single (ds : DataSource) (enc : Enc) (d : Option Nat) (hd : ∀ l, d = some l → l ≤ 1)
    (pre c1 c2 suf : List Nat) (i p : Nat)
    (hi : ds.cls i = LRI ∨ ds.cls i = RLI) (hp : ds.cls p = PDI)
    (h1 : IsoBalanced (c1.map ds.cls)) (h2 : IsoBalanced (c2.map ds.cls))
    (hpre : ∀ x ∈ pre, ds.cls x ≠ B) (hsuf : ∀ x ∈ suf.dropLast, ds.cls x ≠ B)
    (hvalid :
      let k1 := (pre ++ i :: c1 ++ p :: suf).map ds.cls
      let pl := Spec.paraLevel d k1
      let s := xFinal pl { stack := [{ level := pl, override := none, isolate := false }] }
        ((Spec.resolveFSI k1).take pre.length)
      s.overflowIsolate = 0 ∧ s.overflowEmbedding = 0 ∧
        (if ds.cls i == .RLI then Spec.leastOddAbove (Spec.topLevel pl s)
         else Spec.leastEvenAbove (Spec.topLevel pl s)) ≤ Spec.maxDepth) :
    let t1 := textOf enc (pre ++ i :: c1 ++ p :: suf)
    let t2 := textOf enc (pre ++ i :: c2 ++ p :: suf)
    let q1 := paragraphBidiInfo ds t1 d
    let q2 := paragraphBidiInfo ds t2 d
    q1.err = none ∧ q2.err = none ∧ q1.paraLevel = q2.paraLevel ∧
    (contract t1 q1.levels 0).take (pre.length + 1) = (contract t2 q2.levels 0).take (pre.length + 1) ∧
    (contract t1 q1.levels 0).drop (pre.length + 1 + c1.length) =
      (contract t2 q2.levels 0).drop (pre.length + 1 + c2.length) ∧
    q1.levels.take (Text.totalLen enc (pre ++ [i])) = q2.levels.take (Text.totalLen enc (pre ++ [i])) ∧
    q1.levels.drop (Text.totalLen enc (pre ++ i :: c1)) = q2.levels.drop (Text.totalLen enc (pre ++ i :: c2)) := by
  intro t1 t2 q1 q2
  have hB1 : ∀ k ∈ (raw ds t1).dropLast, k ≠ B := by
    rw [raw_textOf]; exact one_para ds pre c1 suf i p hi hp h1 hpre hsuf
  have hB2 : ∀ k ∈ (raw ds t2).dropLast, k ≠ B := by
    rw [raw_textOf]; exact one_para ds pre c2 suf i p hi hp h2 hpre hsuf
  obtain ⟨a1, a2, a3, a4, a5⟩ := C01Levels.C01_paragraphBidiInfo ds t1 (textOf_WF enc _) d hd hB1
  obtain ⟨b1, b2, b3, b4, b5⟩ := C01Levels.C01_paragraphBidiInfo ds t2 (textOf_WF enc _) d hd hB2
  have x1 := charsOf_textOf ds enc _ _ a4
  have x2 := charsOf_textOf ds enc _ _ b4
  have key := C13.C13_isolation_raw d (pre.map (chOf ds)) (suf.map (chOf ds)) (c1.map (chOf ds))
    (c2.map (chOf ds)) (chOf ds i) (chOf ds p) hi hp (by rw [map_chOf_cls]; exact h1)
    (by rw [map_chOf_cls]; exact h2)
    (by
      have e : (pre.map (chOf ds) ++ chOf ds i :: c1.map (chOf ds) ++ chOf ds p :: suf.map (chOf ds)) =
          (pre ++ i :: c1 ++ p :: suf).map (chOf ds) := by simp
      simp only [e, map_chOf_cls, List.length_map]
      exact hvalid)
  have e1 : (pre.map (chOf ds) ++ chOf ds i :: c1.map (chOf ds) ++ chOf ds p :: suf.map (chOf ds)) =
      (pre ++ i :: c1 ++ p :: suf).map (chOf ds) := by simp
  have e2 : (pre.map (chOf ds) ++ chOf ds i :: c2.map (chOf ds) ++ chOf ds p :: suf.map (chOf ds)) =
      (pre ++ i :: c2 ++ p :: suf).map (chOf ds) := by simp
  simp only [e1, e2, map_chOf_cls, List.length_map] at key
  obtain ⟨k1, k2, k3⟩ := key
  rw [raw_textOf] at a5 b5
  have hpl : q1.paraLevel = q2.paraLevel := by rw [a5, b5]; exact k1
  -- per character
  have hc1 : contract t1 q1.levels 0 =
      paragraphLevels (paraLevel d ((pre ++ i :: c1 ++ p :: suf).map ds.cls))
        (applyX5c ((pre ++ i :: c1 ++ p :: suf).map (chOf ds))) := by rw [a3, x1, a5]
  have hc2 : contract t2 q2.levels 0 =
      paragraphLevels (paraLevel d ((pre ++ i :: c2 ++ p :: suf).map ds.cls))
        (applyX5c ((pre ++ i :: c2 ++ p :: suf).map (chOf ds))) := by rw [b3, x2, b5]
  have htake : (contract t1 q1.levels 0).take (pre.length + 1) = (contract t2 q2.levels 0).take (pre.length + 1) := by
    rw [hc1, hc2]; exact k2
  have hdrop : (contract t1 q1.levels 0).drop (pre.length + 1 + c1.length) =
      (contract t2 q2.levels 0).drop (pre.length + 1 + c2.length) := by
    rw [hc1, hc2]; exact k3
  refine ⟨a1, b1, hpl, htake, hdrop, ?_, ?_⟩
  · -- per unit, before the content
    have l1 : (contract t1 q1.levels 0).length = (pre ++ i :: c1 ++ p :: suf).length := by
      simp only [contract, List.length_map]; exact textOf_segs_length enc _
    have l2 : (contract t2 q2.levels 0).length = (pre ++ i :: c2 ++ p :: suf).length := by
      simp only [contract, List.length_map]; exact textOf_segs_length enc _
    rw [a2, b2, ← a3, ← b3, expand_textOf, expand_textOf]
    have s1 : pre ++ i :: c1 ++ p :: suf = (pre ++ [i]) ++ (c1 ++ p :: suf) := by simp
    have s2 : pre ++ i :: c2 ++ p :: suf = (pre ++ [i]) ++ (c2 ++ p :: suf) := by simp
    rw [s1, s2, expandCs_take, expandCs_take]
    · simp only [List.length_append, List.length_cons, List.length_nil]
      rw [htake]
    · rw [l2]; simp
    · rw [l1]; simp
  · have l1 : (contract t1 q1.levels 0).length = (pre ++ i :: c1 ++ p :: suf).length := by
      simp only [contract, List.length_map]; exact textOf_segs_length enc _
    have l2 : (contract t2 q2.levels 0).length = (pre ++ i :: c2 ++ p :: suf).length := by
      simp only [contract, List.length_map]; exact textOf_segs_length enc _
    rw [a2, b2, ← a3, ← b3, expand_textOf, expand_textOf]
    have s1 : pre ++ i :: c1 ++ p :: suf = (pre ++ i :: c1) ++ (p :: suf) := by simp
    have s2 : pre ++ i :: c2 ++ p :: suf = (pre ++ i :: c2) ++ (p :: suf) := by simp
    rw [s1, s2, expandCs_drop, expandCs_drop]
    · have n1 : (pre ++ i :: c1).length = pre.length + 1 + c1.length := by simp; omega
      have n2 : (pre ++ i :: c2).length = pre.length + 1 + c2.length := by simp; omega
      rw [n1, n2, hdrop]
    · rw [l2]; simp
    · rw [l1]; simp

/-- **C13 for `BidiInfo::new`.**  The whole text is `before ++ para ++ after` where `para = pre i c p suf` is a
    paragraph of it: `before` is empty or ends with a class-B character (`hbefore`), `para` has no class B
    except possibly as the last character of `suf` (`hpre`, `hsuf`, the contents by `IsoBalanced`), and `after`
    is empty or `suf` ends with a class-B character (`hafter`).  `hvalid` speaks of the paragraph alone.
    Neither analysis panics; both report the paragraph, from unit `o` (the length of `before`) on, with the
    same level; the per-character levels of the whole text (`contract t b.levels 0`), on the characters of
    `pre`, the initiator (`slice … n (n + (pre.length + 1))`, `n` the number of characters of `before`) and
    from the PDI to the end of the paragraph, agree; the same per code unit.  (The levels of `before` and
    `after` are outside the scope of C13: they are other paragraphs — `C10_slice`.) -/
theorem C13_model_multi (ds : DataSource) (enc : Enc) (d : Option Nat) (hd : ∀ l, d = some l → l ≤ 1)
    (before after pre c1 c2 suf : List Nat) (i p : Nat)
    (hi : ds.cls i = LRI ∨ ds.cls i = RLI) (hp : ds.cls p = PDI)
    (h1 : IsoBalanced (c1.map ds.cls)) (h2 : IsoBalanced (c2.map ds.cls))
    (hbefore : ∀ x, before.getLast? = some x → ds.cls x = B)
    (hpre : ∀ x ∈ pre, ds.cls x ≠ B) (hsuf : ∀ x ∈ suf.dropLast, ds.cls x ≠ B)
    (hafter : after = [] ∨ ∃ x, suf.getLast? = some x ∧ ds.cls x = B)
    (hvalid :
      let k1 := (pre ++ i :: c1 ++ p :: suf).map ds.cls
      let pl := Spec.paraLevel d k1
      let s := xFinal pl { stack := [{ level := pl, override := none, isolate := false }] }
        ((Spec.resolveFSI k1).take pre.length)
      s.overflowIsolate = 0 ∧ s.overflowEmbedding = 0 ∧
        (if ds.cls i == .RLI then Spec.leastOddAbove (Spec.topLevel pl s)
         else Spec.leastEvenAbove (Spec.topLevel pl s)) ≤ Spec.maxDepth) :
    let para1 := pre ++ i :: c1 ++ p :: suf
    let para2 := pre ++ i :: c2 ++ p :: suf
    let t1 := textOf enc (before ++ para1 ++ after)
    let t2 := textOf enc (before ++ para2 ++ after)
    let b1 := bidiInfo ds t1 d
    let b2 := bidiInfo ds t2 d
    let o := Text.totalLen enc before
    let e1 := o + Text.totalLen enc para1
    let e2 := o + Text.totalLen enc para2
    let n := before.length
    b1.err = none ∧ b2.err = none ∧
    (∃ l, { start := o, stop := e1, level := l } ∈ b1.paras ∧ { start := o, stop := e2, level := l } ∈ b2.paras) ∧
    slice (contract t1 b1.levels 0) n (n + (pre.length + 1)) =
      slice (contract t2 b2.levels 0) n (n + (pre.length + 1)) ∧
    slice (contract t1 b1.levels 0) (n + (pre.length + 1 + c1.length)) (n + para1.length) =
      slice (contract t2 b2.levels 0) (n + (pre.length + 1 + c2.length)) (n + para2.length) ∧
    slice b1.levels o (o + Text.totalLen enc (pre ++ [i])) = slice b2.levels o (o + Text.totalLen enc (pre ++ [i])) ∧
    slice b1.levels (o + Text.totalLen enc (pre ++ i :: c1)) e1 =
      slice b2.levels (o + Text.totalLen enc (pre ++ i :: c2)) e2 := by
  intro para1 para2 t1 t2 b1 b2 o e1 e2 n
  obtain ⟨_, _, hpl, k1, k2, u1, u2⟩ := C13_model_single ds enc d hd pre c1 c2 suf i p hi hp h1 h2 hpre hsuf hvalid
  have para_hyps : ∀ c : List Nat, IsoBalanced (c.map ds.cls) →
      (pre ++ i :: c ++ p :: suf) ≠ [] ∧ (∀ x ∈ (pre ++ i :: c ++ p :: suf).dropLast, ds.cls x ≠ B) ∧
      (after = [] ∨ ∃ x, (pre ++ i :: c ++ p :: suf).getLast? = some x ∧ ds.cls x = B) := by
    intro c hc
    refine ⟨by simp, ?_, ?_⟩
    · intro x hx
      apply one_para ds pre c suf i p hi hp hc hpre hsuf
      rw [← List.map_dropLast]
      exact List.mem_map_of_mem hx
    · rcases hafter with h | ⟨x, hx, hB⟩
      · exact Or.inl h
      · refine Or.inr ⟨x, ?_, hB⟩
        rw [List.getLast?_append, List.getLast?_cons, hx]
        rfl
  obtain ⟨n1, n2, n3⟩ := para_hyps c1 h1
  obtain ⟨m1, m2, m3⟩ := para_hyps c2 h2
  obtain ⟨r1, r2, r3, _, r5⟩ := bidiInfo_para ds enc d hd before para1 after n1 hbefore n2 n3
  obtain ⟨s1, s2, s3, _, s5⟩ := bidiInfo_para ds enc d hd before para2 after m1 hbefore m2 m3
  have lp1 : pre.length + 1 ≤ para1.length := by
    simp only [para1, List.length_append, List.length_cons]; omega
  have lp2 : pre.length + 1 ≤ para2.length := by
    simp only [para2, List.length_append, List.length_cons]; omega
  refine ⟨r1, s1, ⟨_, r2, hpl ▸ s2⟩, ?_, ?_, ?_, ?_⟩
  · rw [slice_prefix _ n (n + para1.length) _ (Nat.add_le_add_left lp1 n),
      slice_prefix _ n (n + para2.length) _ (Nat.add_le_add_left lp2 n), r5, s5]
    exact k1
  · rw [slice_suffix, slice_suffix, r5, s5]
    exact k2
  · have a1 : o + Text.totalLen enc (pre ++ [i]) ≤ e1 := by
      have : para1 = (pre ++ [i]) ++ (c1 ++ p :: suf) := by simp [para1]
      simp only [e1, this, totalLen_append]; omega
    have a2 : o + Text.totalLen enc (pre ++ [i]) ≤ e2 := by
      have : para2 = (pre ++ [i]) ++ (c2 ++ p :: suf) := by simp [para2]
      simp only [e2, this, totalLen_append]; omega
    rw [slice_prefix _ o e1 _ a1, slice_prefix _ o e2 _ a2, r3, s3]
    exact u1
  · rw [slice_suffix, slice_suffix, r3, s3]
    exact u2

/-! ### non-vacuity and tests

`decide +kernel` on the literals below are *tests* (evaluation of both sides); the theorems above are what
holds for all inputs. -/

/-- `a RLI א PDI b` and `a RLI x y PDI b` -/
def exPre : List Nat := [0x61]
def exC1 : List Nat := [0x5D0]
def exC2 : List Nat := [0x78, 0x79]
def exSuf : List Nat := [0x62]

/-- non-vacuity of `C13_model_single`: every hypothesis holds for `a RLI א PDI b` / `a RLI x y PDI b`, the
    built-in data, automatic direction -/
example :
    (∀ l, (none : Option Nat) = some l → l ≤ 1) ∧
    (hardcoded.cls 0x2067 = LRI ∨ hardcoded.cls 0x2067 = RLI) ∧ hardcoded.cls 0x2069 = PDI ∧
    IsoBalanced (exC1.map hardcoded.cls) ∧ IsoBalanced (exC2.map hardcoded.cls) ∧
    (∀ x ∈ exPre, hardcoded.cls x ≠ B) ∧ (∀ x ∈ exSuf.dropLast, hardcoded.cls x ≠ B) ∧
    (let k1 := (exPre ++ 0x2067 :: exC1 ++ 0x2069 :: exSuf).map hardcoded.cls
     let pl := Spec.paraLevel none k1
     let s := xFinal pl { stack := [{ level := pl, override := none, isolate := false }] }
       ((Spec.resolveFSI k1).take exPre.length)
     s.overflowIsolate = 0 ∧ s.overflowEmbedding = 0 ∧
       (if hardcoded.cls 0x2067 == .RLI then Spec.leastOddAbove (Spec.topLevel pl s)
        else Spec.leastEvenAbove (Spec.topLevel pl s)) ≤ Spec.maxDepth) :=
  ⟨(by intro l h; cases h), by decide +kernel, by decide +kernel, by decide +kernel, by decide +kernel,
    by decide +kernel, by decide +kernel, by decide +kernel⟩

/-- the instance of `C13_model_single` for these two `&str` -/
example :
    let t1 := textOf .utf8 (exPre ++ 0x2067 :: exC1 ++ 0x2069 :: exSuf)
    let t2 := textOf .utf8 (exPre ++ 0x2067 :: exC2 ++ 0x2069 :: exSuf)
    let q1 := paragraphBidiInfo hardcoded t1 none
    let q2 := paragraphBidiInfo hardcoded t2 none
    q1.err = none ∧ q2.err = none ∧ q1.paraLevel = q2.paraLevel ∧
    (contract t1 q1.levels 0).take (exPre.length + 1) = (contract t2 q2.levels 0).take (exPre.length + 1) ∧
    (contract t1 q1.levels 0).drop (exPre.length + 1 + exC1.length) =
      (contract t2 q2.levels 0).drop (exPre.length + 1 + exC2.length) ∧
    q1.levels.take (Text.totalLen .utf8 (exPre ++ [0x2067])) = q2.levels.take (Text.totalLen .utf8 (exPre ++ [0x2067])) ∧
    q1.levels.drop (Text.totalLen .utf8 (exPre ++ 0x2067 :: exC1)) =
      q2.levels.drop (Text.totalLen .utf8 (exPre ++ 0x2067 :: exC2)) :=
  C13_model_single hardcoded .utf8 none (by intro l h; cases h) exPre exC1 exC2 exSuf 0x2067 0x2069
    (by decide +kernel) (by decide +kernel) (by decide +kernel) (by decide +kernel) (by decide +kernel)
    (by decide +kernel) (by decide +kernel)

/-- test: the conclusion is not trivial — the contents get different levels (1 against 2, 2); outside
    the pair everything is 0.  Per character, and per byte (RLI, PDI: 3 bytes; א: 2 bytes). -/
example :
    let t1 := textOf .utf8 (exPre ++ 0x2067 :: exC1 ++ 0x2069 :: exSuf)
    let t2 := textOf .utf8 (exPre ++ 0x2067 :: exC2 ++ 0x2069 :: exSuf)
    contract t1 (paragraphBidiInfo hardcoded t1 none).levels 0 = [0, 0,   1,      0, 0] ∧
    contract t2 (paragraphBidiInfo hardcoded t2 none).levels 0 = [0, 0,   2, 2,   0, 0] ∧
    (paragraphBidiInfo hardcoded t1 none).levels = [0, 0, 0, 0,   1, 1,   0, 0, 0, 0] ∧
    (paragraphBidiInfo hardcoded t2 none).levels = [0, 0, 0, 0,   2, 2,   0, 0, 0, 0] ∧
    Text.totalLen .utf8 (exPre ++ [0x2067]) = 4 := by decide +kernel

/-- non-vacuity of the additional hypotheses of `C13_model_multi`: `x ⏎` before, `⏎` at the end of `suf`,
    `א` after -/
example :
    (∀ x, [0x78, 0x0A].getLast? = some x → hardcoded.cls x = B) ∧
    (∀ x ∈ (exSuf ++ [0x0A]).dropLast, hardcoded.cls x ≠ B) ∧
    ([0x5D0] = [] ∨ ∃ x, (exSuf ++ [0x0A]).getLast? = some x ∧ hardcoded.cls x = B) :=
  ⟨by decide +kernel, by decide +kernel, Or.inr ⟨0x0A, rfl, by decide +kernel⟩⟩

/-- test: `x ⏎ a RLI א PDI b ⏎ א` against `x ⏎ a RLI x y PDI b ⏎ א` through `BidiInfo::new`: three
    paragraphs, the second from byte 2 to byte 13 at level 0 in both; per-character levels -/
example :
    let t1 := textOf .utf8 ([0x78, 0x0A] ++ (exPre ++ 0x2067 :: exC1 ++ 0x2069 :: (exSuf ++ [0x0A])) ++ [0x5D0])
    let t2 := textOf .utf8 ([0x78, 0x0A] ++ (exPre ++ 0x2067 :: exC2 ++ 0x2069 :: (exSuf ++ [0x0A])) ++ [0x5D0])
    (bidiInfo hardcoded t1 none).paras =
      [{ start := 0, stop := 2, level := 0 }, { start := 2, stop := 13, level := 0 },
       { start := 13, stop := 15, level := 1 }] ∧
    (bidiInfo hardcoded t2 none).paras = (bidiInfo hardcoded t1 none).paras ∧
    contract t1 (bidiInfo hardcoded t1 none).levels 0 = [0, 0,   0, 0,   1,      0, 0, 0,   1] ∧
    contract t2 (bidiInfo hardcoded t2 none).levels 0 = [0, 0,   0, 0,   2, 2,   0, 0, 0,   1] := by
  decide +kernel

/-- a five-character data source for the next test (the built-in table costs the kernel a minute on 74
    characters): it agrees with the built-in data on its characters RLE, LRI, PDI, `א`, `a`/`b` -/
def exDS : DataSource :=
  { cls := fun c => if c = 0x202B then RLE else if c = 0x2066 then LRI else if c = 0x2069 then PDI
      else if c = 0x5D0 then R else L,
    brk := fun _ => none }

example : ∀ c ∈ [0x202B, 0x2066, 0x2069, 0x5D0, 0x61, 0x62],
    exDS.cls c = hardcoded.cls c ∧ exDS.brk c = hardcoded.brk c := by decide +kernel

/-- test: `hvalid` cannot be dropped, on the Model as on the Spec — after 63 nested RLE (level 125) the LRI
    overflows, and the levels of the PDI and of the `a` after it depend on the content (`א` against `b`);
    one unit per character -/
example :
    let t1 := textOf .utf32 (List.replicate 63 0x202B ++ 0x2066 :: [0x5D0] ++ 0x2069 :: [0x61])
    let t2 := textOf .utf32 (List.replicate 63 0x202B ++ 0x2066 :: [0x62] ++ 0x2069 :: [0x61])
    ((paragraphBidiInfo exDS t1 none).levels).drop 63 = [125, 125, 125, 126] ∧
    ((paragraphBidiInfo exDS t2 none).levels).drop 63 = [125, 126, 126, 126] := by decide +kernel

/-- test: and there `hvalid` is indeed what fails (the other hypotheses hold) -/
example :
    ¬ (let k1 := (List.replicate 63 0x202B ++ 0x2066 :: [0x5D0] ++ 0x2069 :: [0x61]).map exDS.cls
       let pl := Spec.paraLevel none k1
       let s := xFinal pl { stack := [{ level := pl, override := none, isolate := false }] }
         ((Spec.resolveFSI k1).take (List.replicate 63 0x202B).length)
       s.overflowIsolate = 0 ∧ s.overflowEmbedding = 0 ∧
         (if exDS.cls 0x2066 == .RLI then Spec.leastOddAbove (Spec.topLevel pl s)
          else Spec.leastEvenAbove (Spec.topLevel pl s)) ≤ Spec.maxDepth) ∧
    IsoBalanced ([0x5D0].map exDS.cls) ∧ IsoBalanced ([0x62].map exDS.cls) ∧
    (∀ x ∈ List.replicate 63 0x202B, exDS.cls x ≠ B) := by decide +kernel

end UBidi.Props.C13Model
