/-
  C08 — the class and level vectors have exactly one entry per code unit, all code units of
  one character carry the same class and level, every level lies between the level of its
  paragraph and 126.

  Base layer (stage theorems):
  * lengths: `C08_len_single` (ParagraphBidiInfo), `C08_len_multi_partial` (BidiInfo, relative
    to the paragraphs being sub-ranges on character boundaries),
  * uniformity within a character (`UniformOn`): `C08_uniform_classes`, `C08_uniform_explicit`,
    `C08_uniform_resolveLevels`, `C08_uniform_fill`, composed in `C08_uniform_para_partial`,
  * range: `C08_range_resolve`, `C08_range_fill`, composed in `C08_range_para_partial`.
  Helper lemmas: UBidi/Lemmas/C08Base.lean, UBidi/Lemmas/C01Base.lean.
-/
import UBidi.Model.Pipeline
import UBidi.Spec.UAX9
import UBidi.Lemmas.C01Base
import UBidi.Lemmas.C08Base
namespace UBidi.Props.C08
open UBidi UBidi.BidiClass
open UBidi.Props.C01.Base UBidi.Props.C08.Base

/-- `xs` (one entry per code unit) has the same entry at every code unit of each character of `t` -/
def UniformOn {α} (t : Text) (xs : List α) : Prop :=
  ∀ s ∈ t.segs, ∀ j, j < s.len → xs[s.start + j]? = xs[s.start]?

/-! ### lengths -/

/-- one class and one level per code unit of the text (`ParagraphBidiInfo`) -/
theorem C08_len_single (ds : DataSource) (t : Text) (hwf : t.WF) (d : Option Nat) :
    (paragraphBidiInfo ds t d).classes.length = t.len ∧
    (paragraphBidiInfo ds t d).levels.length = t.len := by
  have hc := initial_classes_length ds t hwf d false
  refine ⟨hc, ?_⟩
  exact paraLevels_length ds _ _ _ t hwf _

/-- one class per code unit of the text (`BidiInfo`); the level vector is the concatenation of
    the paragraphs' level vectors, each of length `stop - start`, provided every paragraph
    range is a well-formed sub-text (true when its bounds are character boundaries: that, and
    that the paragraphs tile `[0, t.len)` — so that the sum below is `t.len` — is C02's partition
    fact; see `C08_len_multi_of_tiling`).

    Full statement wanted: `(bidiInfo ds t d).levels.length = t.len` from `t.WF` alone.  Missing:
    the proof that the paragraphs found by `compute_initial_info` start and stop on character
    boundaries and tile `[0, t.len)` (property C02). -/
theorem C08_len_multi_partial (ds : DataSource) (t : Text) (hwf : t.WF) (d : Option Nat)
    (hp : ∀ p ∈ (bidiInfo ds t d).paras, (t.subrange p.start p.stop).WF) :
    (bidiInfo ds t d).classes.length = t.len ∧
    (bidiInfo ds t d).levels.length = ((bidiInfo ds t d).paras.map (fun p => p.stop - p.start)).sum := by
  refine ⟨initial_classes_length ds t hwf d true, ?_⟩
  have hpf := initial_paras_flags ds t d true
  have hz : ((computeInitialInfo ds t d true).paras.zip (computeInitialInfo ds t d true).flags).map Prod.fst
      = (computeInitialInfo ds t d true).paras := List.map_fst_zip (by omega)
  have := bidi_fold_length
    (fun (pf : ParaInfo × Flags) => paraLevels ds pf.1.level pf.2.pureLtr pf.2.hasIso
      (t.subrange pf.1.start pf.1.stop) (slice (computeInitialInfo ds t d true).classes pf.1.start pf.1.stop))
    (fun pf => pf.1.stop - pf.1.start)
    ((computeInitialInfo ds t d true).paras.zip (computeInitialInfo ds t d true).flags)
    (by
      intro pf hpf'
      have hmem : pf.1 ∈ (computeInitialInfo ds t d true).paras := (List.of_mem_zip hpf').1
      rw [paraLevels_length ds _ _ _ _ (hp pf.1 hmem)]
      rfl)
    ([], (computeInitialInfo ds t d true).err)
  rw [show (bidiInfo ds t d).paras = (computeInitialInfo ds t d true).paras from rfl, ← hz, List.map_map]
  simp only [List.length_nil, Nat.zero_add] at this
  exact this

/-- `levels.length = t.len` for `BidiInfo`, relative to the partition fact -/
theorem C08_len_multi_of_tiling (ds : DataSource) (t : Text) (hwf : t.WF) (d : Option Nat)
    (hp : ∀ p ∈ (bidiInfo ds t d).paras, (t.subrange p.start p.stop).WF)
    (htile : ((bidiInfo ds t d).paras.map (fun p => p.stop - p.start)).sum = t.len) :
    (bidiInfo ds t d).classes.length = t.len ∧ (bidiInfo ds t d).levels.length = t.len := by
  have := C08_len_multi_partial ds t hwf d hp
  exact ⟨this.1, this.2.trans htile⟩

/-! ### uniformity within a character -/

/-- the original classes are uniform within each character, for every data source.  No proviso on
    the width of the characters of class RLI/LRI/FSI is needed any more (since the repair of
    finding D10): rule X5c rewrites exactly the code units of the character at the position of
    the FSI (`text.char_at(start)`), not `char_len(FSI)` units — see the test below. -/
theorem C08_uniform_classes (ds : DataSource) (t : Text) (hwf : t.WF) (d : Option Nat) (split : Bool) :
    UniformOn t (computeInitialInfo ds t d split).classes :=
  initial_classes_uniform ds t hwf d split

/-- explicit stage: levels and processing classes are uniform within each character -/
theorem C08_uniform_explicit (t : Text) (hwf : t.WF) (pl : Nat) (ocs : List BidiClass) :
    ∀ s ∈ t.segs, ∀ j, j < s.len →
      (explicitCompute t pl ocs).levels[s.start + j]? = (explicitCompute t pl ocs).levels[s.start]? ∧
      (explicitCompute t pl ocs).pcs[s.start + j]? = (explicitCompute t pl ocs).pcs[s.start]? :=
  fun s hs j hj => ⟨(explicit_levels t hwf pl ocs).2 s hs j hj, (explicit_pcs t hwf pl ocs).2 s hs j hj⟩

theorem C08_uniform_explicit' (t : Text) (hwf : t.WF) (pl : Nat) (ocs : List BidiClass) :
    UniformOn t (explicitCompute t pl ocs).levels ∧ UniformOn t (explicitCompute t pl ocs).pcs :=
  ⟨(explicit_levels t hwf pl ocs).2, (explicit_pcs t hwf pl ocs).2⟩

/-- I1/I2 keep uniformity -/
theorem C08_uniform_resolveLevels (t : Text) (pcs : Classes) (lv : List Nat)
    (hl : UniformOn t lv) (hc : UniformOn t pcs) : UniformOn t (resolveLevels pcs lv).1 := by
  intro s hs j hj
  rw [resolveLevels_getElem?, resolveLevels_getElem?, hl s hs j hj, hc s hs j hj]

/-- the removed-character fill keeps uniformity (no hypothesis on the lengths) -/
theorem C08_uniform_fill (t : Text) (pl : Nat) (ocs : List BidiClass) (lv : List Nat)
    (ho : UniformOn t ocs) (hl : UniformOn t lv) : UniformOn t (assignLevelsToRemovedChars pl ocs lv) := by
  intro s hs j hj
  unfold assignLevelsToRemovedChars
  by_cases hb : s.start + j < lv.length
  · -- all units up to `j` are inside `lv`
    have hcls : ∀ i, i ≤ j → ocs.getD (s.start + i) .ON = ocs.getD s.start .ON := by
      intro i hi
      have := ho s hs i (by omega)
      simp only [List.getD_eq_getElem?_getD, this]
    by_cases hr : (ocs.getD s.start .ON).removedByX9 = true
    · -- a removed character: every unit copies its predecessor
      have : ∀ i, i ≤ j → (fillRemovedLoop pl ocs lv)[s.start + i]? = (fillRemovedLoop pl ocs lv)[s.start]? := by
        intro i
        induction i with
        | zero => intro _; rfl
        | succ i ih =>
          intro hi
          rw [fillLoop_spec pl ocs lv (s.start + (i + 1)) (by omega), hcls (i + 1) hi, hr]
          have hne : s.start + (i + 1) ≠ 0 := by omega
          simp only [if_true, hne, if_false]
          exact ih (by omega)
      exact this j (Nat.le_refl j)
    · rw [fillLoop_spec pl ocs lv (s.start + j) hb, fillLoop_spec pl ocs lv s.start (by omega),
        hcls j (Nat.le_refl j)]
      simp only [hr]
      exact hl s hs j hj
  · -- outside `lv`: both sides are `none`
    have h1 : lv[s.start + j]? = none := List.getElem?_eq_none (by omega)
    have h2 : lv[s.start]? = none := by rw [← hl s hs j hj]; exact h1
    have h3 : lv.length ≤ s.start := by
      rcases Nat.lt_or_ge s.start lv.length with h | h
      · rw [List.getElem?_eq_getElem h] at h2; cases h2
      · exact h
    rw [List.getElem?_eq_none (by rw [fillLoop_length]; omega),
      List.getElem?_eq_none (by rw [fillLoop_length]; omega)]

/-- the stored levels of one paragraph are uniform within each character — relative to the
    W/N stage: the processing classes left by `resolveSequences` must be uniform.

    Full statement wanted: the same without `hseq`.  Missing: the proof that `resolveWeak` and
    `resolveNeutral` keep the processing classes uniform within characters (the `Expand`
    lemma of the W and N stages, DESIGN.md §5, C01); the explicit, I1/I2 and fill stages are
    proved here. -/
theorem C08_uniform_levels_partial (ds : DataSource) (pl : Nat) (pure hasIso : Bool) (t : Text) (hwf : t.WF)
    (ocs : List BidiClass) (ho : UniformOn t ocs)
    (hseq : UniformOn t (resolveSequences ds t (explicitCompute t pl ocs).levels ocs
      (isolatingRunSequences pl ocs (explicitCompute t pl ocs).levels (explicitCompute t pl ocs).runs hasIso).1
      (explicitCompute t pl ocs).pcs).1) :
    UniformOn t (paraLevels ds pl pure hasIso t ocs).1 := by
  unfold paraLevels
  split
  · intro s hs j hj
    have := segsFrom_bounds t.segs 0 t.len hwf.tiles s hs
    simp only [List.getElem?_replicate]
    rw [if_pos (by omega), if_pos (by omega)]
  · exact C08_uniform_fill t pl ocs _ ho
      (C08_uniform_resolveLevels t _ _ (C08_uniform_explicit' t hwf pl ocs).1 hseq)

/-! ### range -/

/-- level range of I1/I2: between the explicit level and 126 -/
theorem C08_range_resolve (pl : Nat) (pcs : Classes) (lv : List Nat)
    (h : ∀ l ∈ lv, pl ≤ l ∧ l ≤ 125) : ∀ l ∈ (resolveLevels pcs lv).1, pl ≤ l ∧ l ≤ 126 := by
  intro l hl
  simp only [resolveLevels, List.map_map, List.mem_map] at hl
  obtain ⟨x, hx, rfl⟩ := hl
  have hx1 := h x.1 (List.of_mem_zip hx).1
  have := resolveLevel_range x.1 x.2
  simp only [Function.comp]
  omega

/-- the removed-character fill stays in range -/
theorem C08_range_fill (pl : Nat) (ocs : List BidiClass) (lv : List Nat)
    (h : ∀ l ∈ lv, pl ≤ l ∧ l ≤ 126) : ∀ l ∈ assignLevelsToRemovedChars pl ocs lv, pl ≤ l ∧ l ≤ 126 := by
  unfold assignLevelsToRemovedChars
  cases lv with
  | nil => cases ocs <;> simp [fillRemovedLoop]
  | cons l0 ls =>
    have h0 := h l0 (by simp)
    exact fillLoop_range (fun l => pl ≤ l ∧ l ≤ 126) pl ocs (l0 :: ls) ⟨Nat.le_refl _, by omega⟩ h

/-- every level of a paragraph lies between the paragraph level and 126 — relative to the
    explicit stage giving levels in `[pl, 125]`.

    Full statement wanted: the same without `hex`, for `pl ≤ 1`.  Missing here (and proved by
    C11 as `C11_explicit_le_125`, which has exactly the shape of `hex`): the stack invariant of
    the explicit machine.  The composition with it is left to the file that may import both. -/
theorem C08_range_para_partial (ds : DataSource) (pl : Nat) (pure hasIso : Bool) (t : Text)
    (ocs : List BidiClass) (hpl : pl ≤ 126)
    (hex : ∀ l ∈ (explicitCompute t pl ocs).levels, pl ≤ l ∧ l ≤ 125) :
    ∀ l ∈ (paraLevels ds pl pure hasIso t ocs).1, pl ≤ l ∧ l ≤ 126 := by
  unfold paraLevels
  split
  · intro l hl
    have := List.eq_of_mem_replicate hl
    omega
  · exact C08_range_fill pl ocs _ (C08_range_resolve pl _ _ hex)

/-! ### non-vacuity and tests -/

/-- the text "FSI alef PDI a é" (UTF-8, 11 code units, characters of 3, 2, 3, 1, 2 units) is
    well-formed (`ofScalars_WF`, a proof for every `&str`): the hypothesis of
    `C08_uniform_classes` holds for it (test on this literal). -/
example :
    let t := Text.ofScalars [0x2068, 0x5D0, 0x2069, 0x61, 0xE9]
    t.WF ∧ t.len = 11 :=
  ⟨ofScalars_WF _, by decide⟩

/-- on the same text: the classes (X5c has rewritten the three units of the FSI to RLI), the
    levels, and that the hypotheses of `C08_uniform_levels_partial` (`ho`, `hseq`) and of
    `C08_range_para_partial` (`hex`) hold for it.  (test on this literal) -/
example :
    let t := Text.ofScalars [0x2068, 0x5D0, 0x2069, 0x61, 0xE9]
    let ocs : List BidiClass := [.RLI, .RLI, .RLI, .R, .R, .PDI, .PDI, .PDI, .L, .L, .L]
    (computeInitialInfo hardcoded t none false).classes = ocs ∧
    (paragraphBidiInfo hardcoded t none).levels = [0, 0, 0, 1, 1, 0, 0, 0, 0, 0, 0] ∧
    (∀ l ∈ (explicitCompute t 0 ocs).levels, 0 ≤ l ∧ l ≤ 125) ∧
    (resolveSequences hardcoded t (explicitCompute t 0 ocs).levels ocs
      (isolatingRunSequences 0 ocs (explicitCompute t 0 ocs).levels (explicitCompute t 0 ocs).runs true).1
      (explicitCompute t 0 ocs).pcs).1 = [.L, .L, .L, .R, .R, .L, .L, .L, .L, .L, .L] := by
  refine ⟨by decide +kernel, by decide +kernel, by decide +kernel, by decide +kernel⟩

/-- `UniformOn` is not vacuous and not trivial: on "a é" the vector `[0, 1, 1]` is uniform,
    `[0, 1, 2]` is not. -/
example : UniformOn (Text.ofScalars [0x61, 0xE9]) [0, 1, 1] ∧ ¬ UniformOn (Text.ofScalars [0x61, 0xE9]) [0, 1, 2] := by
  constructor
  · intro s hs j hj
    have : s = ⟨0, 0x61, 1⟩ ∨ s = ⟨1, 0xE9, 2⟩ := by
      simpa [Text.ofScalars, Text.layout, Enc.charLen, utf8Len] using hs
    rcases this with rfl | rfl
    · have : j = 0 := by simp at hj; omega
      subst this; rfl
    · have : j = 0 ∨ j = 1 := by simp at hj; omega
      rcases this with rfl | rfl <;> rfl
  · intro h
    exact absurd (h ⟨1, 0xE9, 2⟩ (by decide) 1 (by decide)) (by decide)

/-- `C08_uniform_classes` needs no proviso on the data source (test on this literal): a data
    source that calls the one-unit character "a" an FSI makes X5c write the one unit of "a" only,
    and the two units of "é" keep the class L.  (Before the repair of finding D10 X5c wrote
    `char_len(FSI)` = three units here, the classes were LRI, LRI, LRI, L, and the two units of
    "é" ended with the classes LRI, L.) -/
example :
    let ds : DataSource :=
      { cls := fun c => if c = 0x61 then .FSI else if c = 0x21 then .ON else .L, brk := fun _ => none }
    let t := Text.ofScalars [0x61, 0x21, 0xE9]
    (computeInitialInfo ds t none true).classes = [.LRI, .ON, .L, .L] ∧
    (computeInitialInfo ds t none true).err = none ∧
    UniformOn t (computeInitialInfo ds t none true).classes := by
  refine ⟨by decide, by decide, ?_⟩
  exact C08_uniform_classes _ _ (ofScalars_WF _) none true

/-- range theorems, sharpness of the bounds (test on literals): level 124 with EN reaches 126;
    a removed first unit takes the paragraph level. -/
example : (resolveLevels [.EN, .L] [124, 1]).1 = [126, 2] ∧
    assignLevelsToRemovedChars 1 [.BN, .R] [5, 1] = [1, 1] := by decide

end UBidi.Props.C08
