/-
  C11 — tie by TRANSLATION (see Props/C01Tie.lean): the class patterns of the `match` arms of explicit::compute (X1-X8), re-read from the
  source on every check run by tools/gen_code.py, put every class in the arm the Model's transcription puts it in.
-/
import UBidi.Props.C01Tie
namespace UBidi.Props.C11Tie
open UBidi

theorem C11_tie_explicit_arms (c d : BidiClass) :
    (C01Tie.armOf Gen.Code.arms_explicit_compute c = C01Tie.armOf Gen.Code.arms_explicit_compute d) ↔ (C01Tie.explicitArm c = C01Tie.explicitArm d) := C01Tie.tie_explicit_arms c d
theorem C11_tie_class_is_rtl (c : BidiClass) : Gen.Code.class_is_rtl c = c.isRtlInitiator := C01Tie.tie_class_is_rtl c

end UBidi.Props.C11Tie
