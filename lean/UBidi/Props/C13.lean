/-
  C13 — isolates isolate.  Stated on the Spec (UAX #9 itself, `UBidi.Spec.UAX9`).

  Layers (all proved in full, for all inputs):
  * `C13_matching`          BD9: the PDI after a balanced content matches the initiator before it
  * `C13_para_level`        P2/P3 do not look inside a matched isolate
  * `C13_fsi_outside`       X5c: FSIs outside the pair resolve the same way
  * `C13_state_restored`    X1–X8: at the matching PDI the machine is back in the state at the initiator
  * `C13_explicit_outside`  X1–X8: explicit levels/types outside the pair do not depend on the content
  * `C13_isolation`         X1–X10, W, N, I and the removed-character fill (`Spec.paragraphLevels`): the
                            resolved level of every character outside a valid matched pair does not
                            depend on the content
  * `C13_isolation_raw`     the same end to end on the raw classes: P2–P3 (`Spec.paraLevel`), X5c
                            (`Spec.resolveFSI`) and `Spec.paragraphLevels` together

  `IsoBalanced` (the inductive predicate requested for this file) is defined in
  `UBidi/Lemmas/C13Match.lean`, same namespace, because the helper lemmas need it; it is proved
  equivalent to the Bool depth counter `balD 0` in `UBidi/Lemmas/C13Bal.lean`
  (`isoBalanced_iff`, restated below), which also makes it decidable.

  Helper files: `UBidi/Lemmas/C13Match.lean` (BD9, P2, X5c), `C13Explicit.lean` (X1–X8 balance lemma),
  `C13Runs.lean` (BD7), `C13MatchTable.lean`, `C13Seqs.lean` (BD13), `C13Resolve.lean` (one sequence
  reads only its own positions and its two neighbours), `C13Fill.lean`, `C13Assemble.lean`,
  `C13Bal.lean`, `C13Raw.lean`.
-/
import UBidi.Lemmas.C13Assemble
import UBidi.Lemmas.C13Raw
namespace UBidi.Props.C13
open UBidi UBidi.Spec BidiClass

/-- characters for the examples -/
private def ch (c : BidiClass) : Ch := { cls := c }
private def txt (l : List BidiClass) : List Ch := l.map ch

/-- the inductive `IsoBalanced` and the Bool depth counter agree -/
theorem C13_balanced_iff (w : List BidiClass) : IsoBalanced w ↔ balD 0 w = true := isoBalanced_iff w

/-- non-vacuity: concrete contents (embeddings, a PDF that finds nothing to pop inside the nested isolate,
    a nested pair) are balanced; an unmatched PDI or initiator is not.  (`decide` through `isoBalanced_iff`.) -/
example : IsoBalanced [RLE, LRI, PDF, PDI, PDF, PDF, AL, EN] := by decide
example : IsoBalanced [PDF, PDF] := by decide
example : ¬ IsoBalanced [LRI, PDI, PDI, LRI] := by decide
example : ¬ IsoBalanced [L, B] := by decide

/-- the PDI after a balanced content is the match of the initiator before it -/
theorem C13_matching (w : List BidiClass) (hw : IsoBalanced w) (rest : List BidiClass) (d pos : Nat) :
    Spec.matchingPDI (w ++ .PDI :: rest) d pos =
      (if d = 0 then some (pos + w.length) else Spec.matchingPDI rest (d - 1) (pos + w.length + 1)) :=
  matching_balanced w hw rest d pos

/-- test of `C13_matching` on one input -/
example : matchingPDI ([L, LRI, R, PDI, EN] ++ PDI :: [L, PDI]) 0 10 = some 15 := by decide

/-- P2/P3 do not look inside a matched isolate: the paragraph level does not depend on the content -/
theorem C13_para_level (pre suf w1 w2 : List BidiClass) (i : BidiClass) (hi : i = .LRI ∨ i = .RLI)
    (h1 : IsoBalanced w1) (h2 : IsoBalanced w2) (forced : Option Nat) :
    Spec.paraLevel forced (pre ++ i :: w1 ++ .PDI :: suf) = Spec.paraLevel forced (pre ++ i :: w2 ++ .PDI :: suf) := by
  have hi' : isIsoInit i = true := by rcases hi with rfl | rfl <;> rfl
  unfold paraLevel
  cases forced with
  | some l => rfl
  | none =>
    simp only
    rw [firstStrong_outside i hi' w1 w2 h1 h2 pre.length pre suf _ _ (Nat.le_refl _) (Nat.lt_succ_self _)
      (Nat.lt_succ_self _)]

/-- non-vacuity / test: with an R or an L inside the pair the paragraph level is that of the `AL` after it -/
example : paraLevel none ([ON] ++ RLI :: [L, LRI, AL, PDI] ++ PDI :: [AL]) = 1 ∧
    paraLevel none ([ON] ++ RLI :: [R] ++ PDI :: [AL]) = 1 := by decide

/-- X5c outside does not depend on the content: every FSI outside the pair resolves the same way
    (and every other outside class is unchanged) -/
theorem C13_fsi_outside (pre suf w1 w2 : List BidiClass) (i : BidiClass) (hi : i = .LRI ∨ i = .RLI)
    (h1 : IsoBalanced w1) (h2 : IsoBalanced w2) :
    let r1 := Spec.resolveFSI (pre ++ i :: w1 ++ .PDI :: suf)
    let r2 := Spec.resolveFSI (pre ++ i :: w2 ++ .PDI :: suf)
    r1.take (pre.length + 1) = r2.take (pre.length + 1) ∧
    r1.drop (pre.length + 1 + w1.length) = r2.drop (pre.length + 1 + w2.length) := by
  refine ⟨resolveFSI_take_outside i hi w1 w2 h1 h2 pre suf, ?_⟩
  have e1 : pre ++ i :: w1 ++ PDI :: suf = (pre ++ i :: w1) ++ PDI :: suf := by simp
  have e2 : pre ++ i :: w2 ++ PDI :: suf = (pre ++ i :: w2) ++ PDI :: suf := by simp
  have l1 : pre.length + 1 + w1.length = (pre ++ i :: w1).length := by simp; omega
  have l2 : pre.length + 1 + w2.length = (pre ++ i :: w2).length := by simp; omega
  show List.drop _ _ = List.drop _ _
  rw [l1, l2, e1, e2, resolveFSI_drop, resolveFSI_drop]

/-- X1–X8: when the machine reaches the PDI after an isolate initiator (valid or overflowing,
    FSI included) and a balanced content, it is back in the state it had at the initiator.
    `xFinal pl s cs` is the machine state after the characters `cs` from state `s`. -/
theorem C13_state_restored (pl : Nat) (s : XState) (i : BidiClass) (hi : i = .LRI ∨ i = .RLI ∨ i = .FSI)
    (w : List BidiClass) (hw : IsoBalanced w) :
    xFinal pl s (i :: w ++ [.PDI]) = s := by
  have e : i :: w ++ [PDI] = (i :: w) ++ [PDI] := rfl
  rw [e, xFinal_append]
  exact pair_restores pl s i ((isIsoInit_iff i).2 hi) w hw

private theorem take_drop_aux {α} (A : List α) (x : α) (M R : List α) (n : Nat) (hA : A.length = n) :
    (A ++ (x :: M ++ R)).take (n + 1) = A ++ [x] ∧ (A ++ (x :: M ++ R)).drop (n + 1 + M.length) = R := by
  subst hA
  constructor
  · rw [List.take_append, List.take_of_length_le (by omega)]; simp
  · rw [List.drop_append]
    rw [List.drop_of_length_le (by omega)]
    have : A.length + 1 + M.length - A.length = M.length + 1 := by omega
    simp [this]

/-- X1–X8: every character outside the pair gets the same explicit level and type in both texts.
    (The requested hypothesis "the initiator is valid in `pre`" is not needed for this layer: an
    overflowing initiator is matched by its PDI through the overflow isolate count just the same.) -/
theorem C13_explicit_outside (pl : Nat) (pre suf w1 w2 : List BidiClass) (i : BidiClass)
    (hi : i = .LRI ∨ i = .RLI) (h1 : IsoBalanced w1) (h2 : IsoBalanced w2) :
    let e1 := Spec.explicit pl (pre ++ i :: w1 ++ .PDI :: suf)
    let e2 := Spec.explicit pl (pre ++ i :: w2 ++ .PDI :: suf)
    e1.take (pre.length + 1) = e2.take (pre.length + 1) ∧
    e1.drop (pre.length + 1 + w1.length) = e2.drop (pre.length + 1 + w2.length) := by
  have hi' : isIsoInit i = true := by rcases hi with rfl | rfl <;> rfl
  simp only [explicit, List.append_assoc, xRun_append, List.cons_append]
  generalize xFinal pl _ pre = s
  have x1 := xRun_pair pl s i hi' w1 h1 suf
  have x2 := xRun_pair pl s i hi' w2 h2 suf
  simp only [List.cons_append] at x1 x2
  rw [x1, x2]
  have lp : (xRun pl { stack := [{ level := pl, override := none, isolate := false }] } pre).length = pre.length :=
    xRun_length _ _ _
  have hM1 := xRun_length pl (xStep pl s i).1 w1
  have hM2 := xRun_length pl (xStep pl s i).1 w2
  have t1 := take_drop_aux _ (xStep pl s i).2 (xRun pl (xStep pl s i).1 w1)
    ((topLevel pl s, applyOv s PDI) :: xRun pl s suf) _ lp
  have t2 := take_drop_aux _ (xStep pl s i).2 (xRun pl (xStep pl s i).1 w2)
    ((topLevel pl s, applyOv s PDI) :: xRun pl s suf) _ lp
  rw [hM1] at t1
  rw [hM2] at t2
  simp only [List.cons_append] at t1 t2
  exact ⟨t1.1.trans t2.1.symm, t1.2.trans t2.2.symm⟩

/-- **Isolates isolate** (UAX #9 as written, `Spec.paragraphLevels`): if the initiator `i` (LRI, RLI,
    or an FSI that X5c left unresolved and X5c treats as LRI) is valid where it stands — after
    X1–X8 over `pre` both overflow counts are 0 and the level it pushes is at most 125 — then
    replacing the text between `i` and its PDI by any other text without paragraph separator whose
    isolate controls are balanced leaves the resolved level of every character of `pre`, of the
    initiator, of the PDI and of every character of `suf` unchanged.  (The paragraph level `pl` is
    the same for both texts by `C13_para_level`.)  No restriction on `pre`, `suf`, the contents:
    they may contain X9-removed characters, embeddings, overrides, unmatched controls, brackets. -/
theorem C13_isolation (pl : Nat) (pre suf c1 c2 : List Spec.Ch) (i pdi : Spec.Ch)
    (hi : i.cls = .LRI ∨ i.cls = .RLI ∨ i.cls = .FSI) (hpdi : pdi.cls = .PDI)
    (h1 : IsoBalanced (c1.map (·.cls))) (h2 : IsoBalanced (c2.map (·.cls)))
    (hvalid :
      let s := xFinal pl { stack := [{ level := pl, override := none, isolate := false }] } (pre.map (·.cls))
      s.overflowIsolate = 0 ∧ s.overflowEmbedding = 0 ∧
        (if i.cls == .RLI then Spec.leastOddAbove (Spec.topLevel pl s)
         else Spec.leastEvenAbove (Spec.topLevel pl s)) ≤ Spec.maxDepth) :
    let L1 := Spec.paragraphLevels pl (pre ++ i :: c1 ++ pdi :: suf)
    let L2 := Spec.paragraphLevels pl (pre ++ i :: c2 ++ pdi :: suf)
    L1.take (pre.length + 1) = L2.take (pre.length + 1) ∧
    L1.drop (pre.length + 1 + c1.length) = L2.drop (pre.length + 1 + c2.length) := by
  have hi' : isIsoInit i.cls = true := (isIsoInit_iff i.cls).2 hi
  have hv : isoValid pl (stI pl pre) i.cls = true := by
    obtain ⟨v1, v2, v3⟩ := hvalid
    unfold isoValid isoLevel stI initState
    rw [v1, v2]
    simpa using v3
  obtain ⟨a1, b1⟩ := side pl pre suf c1 i pdi hi' hpdi h1 hv
  obtain ⟨a2, b2⟩ := side pl pre suf c2 i pdi hi' hpdi h2 hv
  exact ⟨a1.trans a2.symm, b1.trans b2.symm⟩

/-- non-vacuity of `C13_isolation`: the validity hypothesis holds for a concrete prefix (an RLE and an
    open LRI before the initiator), the contents are balanced -/
example :
    let pl := 1
    let pre := txt [R, RLE, LRI, L, EN]
    let i := ch RLI
    let s := xFinal pl { stack := [{ level := pl, override := none, isolate := false }] } (pre.map (·.cls))
    (s.overflowIsolate = 0 ∧ s.overflowEmbedding = 0 ∧
        (if i.cls == .RLI then Spec.leastOddAbove (Spec.topLevel pl s)
         else Spec.leastEvenAbove (Spec.topLevel pl s)) ≤ Spec.maxDepth) ∧
    IsoBalanced ((txt [RLE, LRI, PDF, PDI, PDF, PDF, AL, EN]).map (·.cls)) ∧
    IsoBalanced ((txt [BN]).map (·.cls)) := by decide

/-- test of `C13_isolation` on that input: content `[RLE, LRI, PDF, PDI, PDF, PDF, AL, EN]` against a
    content that X9 removes completely -/
example :
    paragraphLevels 1 (txt [R, RLE, LRI, L, EN] ++ ch RLI :: txt [RLE, LRI, PDF, PDI, PDF, PDF, AL, EN] ++
        ch PDI :: txt [EN, PDF, AN, PDI, R, ON]) =
      [1, 1, 3, 4, 4, 4,   4, 7, 7, 7, 7, 7, 5, 6,   4, 4, 4, 6, 3, 3, 3] ∧
    paragraphLevels 1 (txt [R, RLE, LRI, L, EN] ++ ch RLI :: txt [BN] ++ ch PDI :: txt [EN, PDF, AN, PDI, R, ON]) =
      [1, 1, 3, 4, 4, 4,   4,   4, 4, 4, 6, 3, 3, 3] := by decide +kernel

/-- the validity hypothesis of `C13_isolation` cannot be dropped (test): after 70 nested RLE the LRI
    overflows, its content stays in the level run of the surrounding text, and the level of the PDI
    and of the `L` after it depend on the content (`R` against `L`) -/
example :
    (paragraphLevels 0 (txt (List.replicate 70 RLE) ++ ch LRI :: txt [R] ++ ch PDI :: txt [L])).drop 70
      = [125, 125, 125, 126] ∧
    (paragraphLevels 0 (txt (List.replicate 70 RLE) ++ ch LRI :: txt [L] ++ ch PDI :: txt [L])).drop 70
      = [125, 126, 126, 126] := by decide +kernel

/-- **C13 end to end** (P2–P3, X5c, X1–X10, W, N, I, fill), on the raw classes: `applyX5c t` is the
    paragraph `t` with the classes after X5c (`Spec.resolveFSI`), the paragraph level is
    `Spec.paraLevel forced`.  For an LRI or RLI `i` that is valid where it stands (hypothesis
    `hvalid`, on the X5c-resolved prefix), replacing a balanced, B-free content `c1` by another one
    `c2` (both may contain FSIs, which X5c resolves inside) leaves the paragraph level and the
    resolved level of every character of `pre`, of `i`, of `pdi` and of `suf` unchanged. -/
theorem C13_isolation_raw (forced : Option Nat) (pre suf c1 c2 : List Spec.Ch) (i pdi : Spec.Ch)
    (hi : i.cls = .LRI ∨ i.cls = .RLI) (hpdi : pdi.cls = .PDI)
    (h1 : IsoBalanced (c1.map (·.cls))) (h2 : IsoBalanced (c2.map (·.cls)))
    (hvalid :
      let t1 := pre ++ i :: c1 ++ pdi :: suf
      let pl := Spec.paraLevel forced (t1.map (·.cls))
      let s := xFinal pl { stack := [{ level := pl, override := none, isolate := false }] }
        ((Spec.resolveFSI (t1.map (·.cls))).take pre.length)
      s.overflowIsolate = 0 ∧ s.overflowEmbedding = 0 ∧
        (if i.cls == .RLI then Spec.leastOddAbove (Spec.topLevel pl s)
         else Spec.leastEvenAbove (Spec.topLevel pl s)) ≤ Spec.maxDepth) :
    let t1 := pre ++ i :: c1 ++ pdi :: suf
    let t2 := pre ++ i :: c2 ++ pdi :: suf
    let pl1 := Spec.paraLevel forced (t1.map (·.cls))
    let pl2 := Spec.paraLevel forced (t2.map (·.cls))
    let L1 := Spec.paragraphLevels pl1 (applyX5c t1)
    let L2 := Spec.paragraphLevels pl2 (applyX5c t2)
    pl1 = pl2 ∧
    L1.take (pre.length + 1) = L2.take (pre.length + 1) ∧
    L1.drop (pre.length + 1 + c1.length) = L2.drop (pre.length + 1 + c2.length) := by
  intro t1 t2 pl1 pl2 L1 L2
  have hne : i.cls ≠ FSI := by rcases hi with h | h <;> rw [h] <;> decide
  have ecls : ∀ c : List Ch, (pre ++ i :: c ++ pdi :: suf).map (·.cls) =
      pre.map (·.cls) ++ i.cls :: c.map (·.cls) ++ PDI :: suf.map (·.cls) := by intro c; simp [hpdi]
  have hpl : pl1 = pl2 := by
    show paraLevel forced (t1.map (·.cls)) = paraLevel forced (t2.map (·.cls))
    rw [ecls, ecls]
    exact C13_para_level _ _ _ _ _ hi h1 h2 forced
  refine ⟨hpl, ?_⟩
  obtain ⟨pre1, c1', lp1, lc1, k1, hp1, d1⟩ := applyX5c_decomp pre suf c1 i pdi hne hpdi
  obtain ⟨pre2, c2', lp2, lc2, k2, hp2, d2⟩ := applyX5c_decomp pre suf c2 i pdi hne hpdi
  -- the resolved prefixes agree
  have hpre : pre1 = pre2 := by
    have hcls : pre1.map (·.cls) = pre2.map (·.cls) := by
      rw [hp1, hp2, ecls, ecls]
      have := (C13_fsi_outside (pre.map (·.cls)) (suf.map (·.cls)) (c1.map (·.cls)) (c2.map (·.cls)) i.cls hi
        h1 h2).1
      simp only [List.length_map] at this
      have t := congrArg (List.take pre.length) this
      rwa [List.take_take, List.take_take, Nat.min_eq_left (Nat.le_succ _)] at t
    -- same characters, same classes
    have e1 : applyX5c t1 = pre1 ++ i :: c1' ++ pdi :: applyX5c suf := d1
    have e2 : applyX5c t2 = pre2 ++ i :: c2' ++ pdi :: applyX5c suf := d2
    have b1 : (applyX5c t1).take pre.length = pre1 := by
      rw [e1, List.append_assoc, List.take_left' lp1]
    have b2 : (applyX5c t2).take pre.length = pre2 := by
      rw [e2, List.append_assoc, List.take_left' lp2]
    apply List.ext_getElem (by omega)
    intro n hn1 hn2
    have g1 : pre1[n].cls = pre2[n].cls := by
      have := congrArg (fun l => l[n]?) hcls
      simpa [hn1, hn2] using this
    have q1 : pre1[n].brk = pre[n].brk := by
      have : pre1[n] = ((applyX5c t1).take pre.length)[n]'(by rw [b1]; exact hn1) := by simp [b1]
      rw [this]
      simp [applyX5c, t1, List.getElem_append_left (show n < pre.length by omega)]
    have q2 : pre2[n].brk = pre[n].brk := by
      have : pre2[n] = ((applyX5c t2).take pre.length)[n]'(by rw [b2]; exact hn2) := by simp [b2]
      rw [this]
      simp [applyX5c, t2, List.getElem_append_left (show n < pre.length by omega)]
    cases hx : pre1[n]; cases hy : pre2[n]
    simp_all
  subst hpre
  have hb1 : IsoBalanced (c1'.map (·.cls)) := isoBalanced_of_kind _ _ k1.symm h1
  have hb2 : IsoBalanced (c2'.map (·.cls)) := isoBalanced_of_kind _ _ k2.symm h2
  show List.take _ (paragraphLevels pl1 (applyX5c t1)) = List.take _ (paragraphLevels pl2 (applyX5c t2)) ∧
    List.drop _ (paragraphLevels pl1 (applyX5c t1)) = List.drop _ (paragraphLevels pl2 (applyX5c t2))
  rw [← hpl]
  have e1 : applyX5c t1 = pre1 ++ i :: c1' ++ pdi :: applyX5c suf := d1
  have e2 : applyX5c t2 = pre1 ++ i :: c2' ++ pdi :: applyX5c suf := d2
  rw [e1, e2, ← lp1, ← lc1, ← lc2]
  apply C13_isolation pl1 pre1 (applyX5c suf) c1' c2' i pdi (by rcases hi with h | h <;> simp [h]) hpdi hb1 hb2
  rw [hp1]
  exact hvalid

/-- non-vacuity / test of `C13_isolation_raw`: an FSI in the prefix whose scope contains the pair, FSIs
    inside the contents; paragraph level by P2–P3 -/
example :
    let pre := txt [FSI, ON]
    let suf := txt [AL, PDI, L]
    let t1 := pre ++ ch RLI :: txt [FSI, R, PDI, L] ++ ch PDI :: suf
    let t2 := pre ++ ch RLI :: txt [EN] ++ ch PDI :: suf
    (t1.map (·.cls) |> paraLevel none) = 0 ∧ (t2.map (·.cls) |> paraLevel none) = 0 ∧
    (applyX5c t1).map (·.cls) = [RLI, ON, RLI, RLI, R, PDI, L, PDI, AL, PDI, L] ∧
    paragraphLevels 0 (applyX5c t1) = [0, 1, 1,   3, 5, 3, 4,   1, 1, 0, 0] ∧
    paragraphLevels 0 (applyX5c t2) = [0, 1, 1,   4,            1, 1, 0, 0] := by decide +kernel

end UBidi.Props.C13
