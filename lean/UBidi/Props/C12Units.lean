/-
  C12, the clause "irrespective of how many code units each character occupies".

  `Props/C12.lean` shows that the analysis of ONE text consults the data source only through the class and bracket
  values of its characters.  Here: two texts — any encodings, any code-unit lengths, even different scalar
  values — whose characters have, position by position, the same class value and the same bracket value under
  their respective data sources are analysed identically, character for character: same reported classes, same
  levels, same paragraphs (as ranges of character indices) with the same levels, same panic status
  (`C12_unit_len_irrelevant` for `BidiInfo`, `C12_unit_len_irrelevant_single` for `ParagraphBidiInfo`).
  Values are read at the first code unit of every character; `C12_units_uniform`: every unit of a character
  carries them.

  Method: on a well-formed text the pipeline is the expansion of the pipeline on `Expand.unitize` of the text
  (`Expand.paraLevels_expand`, C09's per-character lemmas); on a one-unit-per-character text the scalar values
  are seen only through the data source, so the text can be relabelled to "character k has scalar value k" with
  the data source that reads the two value lists (`Lemmas.C12Units.pbi_charText_canon`, from
  `C12_depends_only_on_ds`).
-/
import UBidi.Lemmas.C12UnitsMulti
namespace UBidi.Props.C12Units
open UBidi UBidi.Props.C09 UBidi.Lemmas.C12Units

/-- `charIndexOf t off`: the number of characters of `t` that start before code-unit offset `off`
    (so the offset at which character `k` starts has index `k`: `C09.charIndexOf_start`, `C09.charIndexOf_len`) -/
theorem charIndexOf_def (t : Text) (off : Nat) :
    charIndexOf t off = (t.segs.filter (fun s => s.start < off)).length := rfl

/-- the hypotheses imply that the texts have the same number of characters -/
theorem same_length (ds ds' : DataSource) (t t' : Text)
    (hcls : t.segs.map (fun s => ds.cls s.cp) = t'.segs.map (fun s => ds'.cls s.cp)) :
    t.segs.length = t'.segs.length := by
  simpa using congrArg List.length hcls

/-- **`BidiInfo` does not depend on how many code units a character occupies** (nor on the scalar values beyond
    their class and bracket values): two well-formed texts, in any encodings, whose characters have position by
    position the same class value and the same bracket value under their respective data sources (any sources:
    no FSI-width proviso is needed any more, since the repair of finding D10) get, for every default level,
    * the same reported class for every character,
    * the same level for every character,
    * the same paragraphs as (first character index, one-past-last character index, level),
    * the same panic status. -/
theorem C12_unit_len_irrelevant (ds ds' : DataSource) (t t' : Text) (hwf : t.WF) (hwf' : t'.WF)
    (d : Option Nat)
    (hcls : t.segs.map (fun s => ds.cls s.cp) = t'.segs.map (fun s => ds'.cls s.cp))
    (hbrk : t.segs.map (fun s => ds.brk s.cp) = t'.segs.map (fun s => ds'.brk s.cp)) :
    let b := bidiInfo ds t d
    let b' := bidiInfo ds' t' d
    t.segs.map (fun s => b.classes.getD s.start .ON) = t'.segs.map (fun s => b'.classes.getD s.start .ON) ∧
    t.segs.map (fun s => b.levels.getD s.start 0) = t'.segs.map (fun s => b'.levels.getD s.start 0) ∧
    b.paras.map (fun p => (charIndexOf t p.start, charIndexOf t p.stop, p.level))
      = b'.paras.map (fun p => (charIndexOf t' p.start, charIndexOf t' p.stop, p.level)) ∧
    (b.err = none ↔ b'.err = none) := by
  have h : SameValues ds ds' t t' := ⟨hcls, hbrk⟩
  refine ⟨?_, multi_levels_congr ds ds' t t' hwf hwf' d h 0, ?_,
    multi_err_congr ds ds' t t' hwf hwf' d h⟩
  · have h1 := multi_classes_chars ds t d hwf
    have h2 := multi_classes_chars ds' t' d hwf'
    rw [h.raw, ← h2] at h1
    exact h1
  · have h1 := paras_char_view ds t d hwf
    have h2 := paras_char_view ds' t' d hwf'
    rw [h.raw, ← h2] at h1
    exact h1

/-- the same for `ParagraphBidiInfo` (the single-paragraph type): same reported class and same level for every
    character, same paragraph level, same `pure_ltr` flag, same panic field -/
theorem C12_unit_len_irrelevant_single (ds ds' : DataSource) (t t' : Text) (hwf : t.WF) (hwf' : t'.WF)
    (d : Option Nat)
    (hcls : t.segs.map (fun s => ds.cls s.cp) = t'.segs.map (fun s => ds'.cls s.cp))
    (hbrk : t.segs.map (fun s => ds.brk s.cp) = t'.segs.map (fun s => ds'.brk s.cp)) :
    let q := paragraphBidiInfo ds t d
    let q' := paragraphBidiInfo ds' t' d
    t.segs.map (fun s => q.classes.getD s.start .ON) = t'.segs.map (fun s => q'.classes.getD s.start .ON) ∧
    t.segs.map (fun s => q.levels.getD s.start 0) = t'.segs.map (fun s => q'.levels.getD s.start 0) ∧
    q.paraLevel = q'.paraLevel ∧ q.pureLtr = q'.pureLtr ∧ q.err = q'.err := by
  have h : SameValues ds ds' t t' := ⟨hcls, hbrk⟩
  have hf1 := last_flags ds t d false
  have hf2 := last_flags ds' t' d false
  rw [h.raw, ← hf2] at hf1
  refine ⟨?_, single_levels_congr ds ds' t t' hwf hwf' d h 0, ?_, congrArg Prod.fst hf1,
    single_err_congr ds ds' t t' hwf hwf' d h⟩
  · have h1 := single_contract ds t d hwf
    have h2 := single_contract ds' t' d hwf'
    rw [h.raw, ← h2] at h1
    exact h1
  · show (computeInitialInfo ds t d false).lastLevel = (computeInitialInfo ds' t' d false).lastLevel
    rw [single_level ds t d hwf, single_level ds' t' d hwf', h.raw]

/-- reading at the first unit loses nothing: in either type every code unit of a character carries the class
    and the level of the character's first unit -/
theorem C12_units_uniform (ds : DataSource) (t : Text) (hwf : t.WF) (d : Option Nat) :
    Expand.UniformOn t (bidiInfo ds t d).classes ∧ Expand.UniformOn t (bidiInfo ds t d).levels ∧
    Expand.UniformOn t (paragraphBidiInfo ds t d).classes ∧ Expand.UniformOn t (paragraphBidiInfo ds t d).levels :=
  ⟨classes_uniformOn ds t d hwf true, (Expand.PipelineC09.C09_levels_uniform ds t d hwf).1,
    classes_uniformOn ds t d hwf false, (Expand.PipelineC09.C09_levels_uniform ds t d hwf).2⟩

theorem UniformOn_def {α} (t : Text) (xs : List α) :
    Expand.UniformOn t xs ↔ ∀ s ∈ t.segs, ∀ j, j < s.len → xs[s.start + j]? = xs[s.start]? := Iff.rfl

/-! ### non-vacuity and tests -/

/-- "aא(1)" PS "ב" as a `&str` (characters of 1, 2 and 3 code units; 11 code units) with the built-in tables -/
def exA : Text := Text.ofScalars [0x61, 0x5D0, 0x28, 0x31, 0x29, 0x2029, 0x5D1]

/-- seven *other* characters — the scalar values of `exA` plus 0x10000 — as a `&[u16]` (surrogate pairs, 14 code
    units) … -/
def exB : Text :=
  Utf16.toText [0xD800, 0xDC61, 0xD801, 0xDDD0, 0xD800, 0xDC28, 0xD800, 0xDC31, 0xD800, 0xDC29, 0xD808, 0xDC29,
    0xD801, 0xDDD1]

/-- … with the data source that answers for `c` what the built-in tables answer for `c - 0x10000` -/
def exDS : DataSource := { cls := fun c => bidiClass (c - 0x10000), brk := fun c => bracket (c - 0x10000) }

/- non-vacuity: the hypotheses of `C12_unit_len_irrelevant` hold for (`hardcoded`, `exA`) and (`exDS`, `exB`):
   different encodings, different unit lengths, different scalar values, different sources -/
example : exA.WF ∧ exB.WF ∧
    exA.segs.map (fun s => hardcoded.cls s.cp) = exB.segs.map (fun s => exDS.cls s.cp) ∧
    exA.segs.map (fun s => hardcoded.brk s.cp) = exB.segs.map (fun s => exDS.brk s.cp) ∧
    exA.segs.map (·.cp) ≠ exB.segs.map (·.cp) ∧ exA.len = 11 ∧ exB.len = 14 :=
  ⟨Lemmas.C10.ofScalars_WF _, C18.C18_wf _ (by decide), by decide +kernel, by decide +kernel, by decide +kernel,
    by decide +kernel, by decide +kernel⟩

/- test (literal): the two level vectors there (per code unit: 11 against 14 entries), the paragraphs at different
   code-unit offsets; per character both read 0 1 1 2 1 0 1 and [0,6) [6,7) -/
example : (bidiInfo hardcoded exA none).levels = [0, 1, 1, 1, 2, 1, 0, 0, 0, 1, 1] ∧
    (bidiInfo exDS exB none).levels = [0, 0, 1, 1, 1, 1, 2, 2, 1, 1, 0, 0, 1, 1] ∧
    (bidiInfo hardcoded exA none).paras = [⟨0, 9, 0⟩, ⟨9, 11, 1⟩] ∧
    (bidiInfo exDS exB none).paras = [⟨0, 12, 0⟩, ⟨12, 14, 1⟩] ∧
    (bidiInfo hardcoded exA none).paras.map (fun p => (charIndexOf exA p.start, charIndexOf exA p.stop, p.level))
      = [(0, 6, 0), (6, 7, 1)] := by
  decide +kernel

end UBidi.Props.C12Units
