/-
  C03 — "Line levels apply rule L1 exactly, and only inside the line".

  Model: `reorderLevels` / `reorderedLevels` / `reorderedLevelsPerChar` (UBidi/Model/Reorder.lean,
  a transcription of `reorder_levels`, `reordered_levels`, `reordered_levels_per_char`).
  Spec : `Spec.lineLevels` (UBidi/Spec/Reorder.lean), rule L1 per character, declaratively.

  Proof: the invariant of the forward scan is `Lemmas.C03.scan_eq` (UBidi/Lemmas/C03Scan.lean).
-/
import UBidi.Model.Reorder
import UBidi.Spec.Reorder
import UBidi.Lemmas.C03Line
namespace UBidi.Props.C03
open UBidi BidiClass UBidi.Lemmas.C03

/-- one level per character → one level per code unit -/
def expand (t : Text) (xs : List Nat) : List Nat :=
  (t.segs.zip xs).flatMap (fun (s, x) => List.replicate s.len x)

/-- `(original class, resolved level)` of every character of `t`, read at its first code unit -/
def perChar (t : Text) (cls : List BidiClass) (lv : List Nat) : List (BidiClass × Nat) :=
  t.segs.map (fun s => (cls.getD s.start .ON, lv.getD s.start 0))

/-- all code units of one character hold the same value -/
def UniformOn {α} (t : Text) (xs : List α) : Prop :=
  ∀ s ∈ t.segs, ∀ j, j < s.len → xs[s.start + j]? = xs[s.start]?

/-- The scan of `reorder_levels` computes exactly the declarative rule L1 on every
    well-formed line whose resolved levels are uniform within characters (that is what
    property C08 provides), and the `assert_eq!(reset_to, None)` is unreachable.
    The classes are only read at character starts, so nothing is required of `cls`
    (`perChar` reads them at the same places). -/
theorem C03_l1 (t : Text) (hwf : t.WF) (cls : List BidiClass) (lv : List Nat) (pl : Nat)
    (hl : lv.length = t.len) (hul : UniformOn t lv) :
    (reorderLevels cls lv t pl).1 = expand t (Spec.lineLevels pl (perChar t cls lv)) ∧
    (reorderLevels cls lv t pl).2 = none := by
  have h := scan_eq t.enc cls pl t.segs lv (some 0) pl none 0 t.len hwf.tiles hwf.lens hl
    (Nat.le_refl _) hul
  rw [reorderLevels_eq_finish, h]
  refine ⟨?_, rfl⟩
  show target cls pl lv (some 0) pl 0 t.segs = expandS t.segs (Spec.l1 pl pl (perCharS t.segs cls lv))
  simp [target]

/-- so the line levels are again uniform within every character, and as long as the line -/
theorem C03_uniform (t : Text) (hwf : t.WF) (cls : List BidiClass) (lv : List Nat) (pl : Nat)
    (hl : lv.length = t.len) (hul : UniformOn t lv) :
    UniformOn t (reorderLevels cls lv t pl).1 ∧ (reorderLevels cls lv t pl).1.length = t.len := by
  rw [(C03_l1 t hwf cls lv pl hl hul).1]
  have := expandS_uniform t.segs (Spec.lineLevels pl (perChar t cls lv)) [] 0 t.len hwf.tiles
    (by simp [Spec.lineLevels, length_l1, perChar]) rfl
  rw [List.nil_append] at this
  exact this

/-- `reorder_levels` never changes the length of the level vector (no hypotheses) -/
theorem C03_length (cls : List BidiClass) (lv : List Nat) (t : Text) (pl : Nat) :
    (reorderLevels cls lv t pl).1.length = lv.length :=
  length_reorderLevels cls lv t pl

/-- Only inside the line: for every input (also when the call panics, where the Model
    returns the levels as they were) the length is kept and the code units outside
    `[a, b)` keep their level. -/
theorem C03_outside (t : Text) (classes : List BidiClass) (levels : List Nat) (pl a b : Nat) :
    let r := (reorderedLevels t classes levels pl a b).1
    r.length = levels.length ∧ (∀ i, i < a ∨ b ≤ i → r[i]? = levels[i]?) := by
  intro r
  show (reorderedLevels t classes levels pl a b).1.length = levels.length ∧
    ∀ i, i < a ∨ b ≤ i → (reorderedLevels t classes levels pl a b).1[i]? = levels[i]?
  unfold reorderedLevels
  split
  · exact ⟨rfl, fun _ _ => rfl⟩
  · split
    · exact ⟨rfl, fun _ _ => rfl⟩
    · split
      · exact ⟨rfl, fun _ _ => rfl⟩
      · rename_i h1 h2 _
        simp only [Bool.or_eq_true, decide_eq_true_eq, not_or, Nat.not_lt] at h1 h2
        have hlen := length_reorderLevels (slice classes a b) (slice levels a b) (t.subrange a b) pl
        have hsl : (slice levels a b).length = b - a := by simp [slice]; omega
        rw [hsl] at hlen
        dsimp only
        constructor
        · simp only [List.length_append, List.length_take, List.length_drop, hlen]; omega
        · intro i hi
          rcases hi with hi | hi
          · rw [List.append_assoc, List.getElem?_append_left (by simp; omega),
              List.getElem?_take_of_lt hi]
          · rw [List.getElem?_append_right (by simp [hlen]; omega)]
            simp only [List.length_append, List.length_take, hlen, List.getElem?_drop]
            congr 1; omega

/-- the per-character variant is the per-code-unit variant sampled at character starts,
    and it fails exactly when the per-unit variant does -/
theorem C03_per_char (t : Text) (classes : List BidiClass) (levels : List Nat) (pl a b : Nat) :
    (reorderedLevelsPerChar t classes levels pl a b).1
      = t.segs.map (fun s => (reorderedLevels t classes levels pl a b).1.getD s.start 0) ∧
    (reorderedLevelsPerChar t classes levels pl a b).2 = (reorderedLevels t classes levels pl a b).2 :=
  ⟨rfl, rfl⟩

/-- a line on character boundaries of a well-formed text is a well-formed text -/
theorem C03_subrange_wf (t : Text) (hwf : t.WF) (a b : Nat) (hab : a ≤ b)
    (ha : t.isBoundary a = true) (hbb : t.isBoundary b = true) : (t.subrange a b).WF :=
  subrange_WF t hwf a b hab ha hbb

/-- The line levels of `reordered_levels(line)`: no panic, unchanged outside the line, and
    inside the line exactly rule L1 of the Spec applied to the characters of the line
    (nothing before `a` or after `b` influences them). -/
theorem C03_line (t : Text) (hwf : t.WF) (classes : List BidiClass) (levels : List Nat) (pl a b : Nat)
    (hab : a ≤ b) (ha : t.isBoundary a = true) (hbb : t.isBoundary b = true)
    (hc : classes.length = t.len) (hl : levels.length = t.len) (hul : UniformOn t levels) :
    (reorderedLevels t classes levels pl a b).2 = none ∧
    (reorderedLevels t classes levels pl a b).1
      = levels.take a ++ expand (t.subrange a b) (Spec.lineLevels pl
          (perChar (t.subrange a b) (slice classes a b) (slice levels a b))) ++ levels.drop b := by
  have hb : b ≤ t.len := by
    rcases (isBoundary_iff t b).1 hbb with h | ⟨s, hs, h⟩
    · omega
    · have := (SegsFrom_bounds hwf.tiles).2 s hs; omega
  have hwf' := subrange_WF t hwf a b hab ha hbb
  have hsl : (slice levels a b).length = (t.subrange a b).len := by
    simp [slice, Text.subrange]; omega
  have hu' : UniformOn (t.subrange a b) (slice levels a b) :=
    subrange_uniform t hwf a b hab ha hbb levels hul
  obtain ⟨h1, h2⟩ := C03_l1 (t.subrange a b) hwf' (slice classes a b) (slice levels a b) pl hsl hu'
  unfold reorderedLevels
  rw [if_neg (by simp; omega), if_neg (by simp; omega), if_neg (by simp [ha, hbb])]
  dsimp only
  rw [h1, h2]
  exact ⟨rfl, rfl⟩

/-! ### non-vacuity and tests -/

/-- `a`, PDF (3 UTF-8 units), space, U+10000 (4 units), TAB, space, PDF -/
def exText : Text := Text.ofScalars [0x61, 0x202C, 0x20, 0x10000, 0x9, 0x20, 0x202C]
def exCls : List BidiClass :=
  [L, PDF, PDF, PDF, WS, R, R, R, R, S, WS, BN, BN, BN]
def exLv : List Nat := [2, 3, 3, 3, 4, 5, 5, 5, 5, 6, 7, 8, 8, 8]

theorem exText_wf : exText.WF :=
  ⟨by simp [exText, Text.ofScalars, Text.layout, Text.totalLen, Enc.charLen, utf8Len, SegsFrom],
   by decide⟩

theorem exLv_uniform : UniformOn exText exLv := by unfold UniformOn; decide

/-- non-vacuity: the hypotheses of `C03_l1` / `C03_uniform` hold for a line with multi-unit
    characters, a removed character, a separator and trailing whitespace -/
example : (reorderLevels exCls exLv exText 1).1
    = expand exText (Spec.lineLevels 1 (perChar exText exCls exLv)) ∧
    (reorderLevels exCls exLv exText 1).2 = none :=
  C03_l1 exText exText_wf exCls exLv 1 rfl exLv_uniform

/-- test (evaluation on one literal): what both sides are -/
example : (reorderLevels exCls exLv exText 1).1 = [2, 2, 2, 2, 4, 5, 5, 5, 5, 1, 1, 1, 1, 1] := by decide
example : Spec.lineLevels 1 (perChar exText exCls exLv) = [2, 2, 4, 5, 1, 1, 1] := by decide

/-- non-vacuity of `C03_line`: the line `[4, 10)` (space, U+10000, TAB) of `exText` -/
example : (reorderedLevels exText exCls exLv 1 4 10).2 = none ∧
    (reorderedLevels exText exCls exLv 1 4 10).1
      = exLv.take 4 ++ expand (exText.subrange 4 10) (Spec.lineLevels 1
          (perChar (exText.subrange 4 10) (slice exCls 4 10) (slice exLv 4 10))) ++ exLv.drop 10 :=
  C03_line exText exText_wf exCls exLv 1 4 10 (by decide) (by decide) (by decide) rfl rfl exLv_uniform

/-- test: the whitespace before the separator is reset only inside the line -/
example : (reorderedLevels exText exCls exLv 1 4 10).1 = [2, 3, 3, 3, 4, 5, 5, 5, 5, 1, 7, 8, 8, 8] := by
  decide

/-- test: the uniformity hypothesis of `C03_l1` cannot be dropped — with levels that differ
    inside a character the scan keeps them (the Spec reads the first unit only) -/
example : (reorderLevels [R, R] [1, 2] (Text.ofScalars [0x5D0]) 0).1 = [1, 2] ∧
    expand (Text.ofScalars [0x5D0]) (Spec.lineLevels 0 (perChar (Text.ofScalars [0x5D0]) [R, R] [1, 2]))
      = [1, 1] := by decide

end UBidi.Props.C03
