/-
  C03 — tie by TRANSLATION (see Props/C01Tie.lean): the class patterns of the `match` arms of reorder_levels (rule L1), re-read from the
  source on every check run by tools/gen_code.py, put every class in the arm the Model's transcription puts it in.
-/
import UBidi.Props.C01Tie
namespace UBidi.Props.C03Tie
open UBidi

theorem C03_tie_l1_arms (c d : BidiClass) :
    (C01Tie.armOf Gen.Code.arms_reorder_levels c = C01Tie.armOf Gen.Code.arms_reorder_levels d) ↔ (C01Tie.l1Arm c = C01Tie.l1Arm d) := C01Tie.tie_l1_arms c d
theorem C03_tie_l1_removed (c : BidiClass) : (C01Tie.l1Arm c == 2) = c.removedByX9 := C01Tie.tie_l1_removed c
theorem C03_tie_removed_by_x9 (c : BidiClass) : Gen.Code.removed_by_x9 c = c.removedByX9 := C01Tie.tie_removed_by_x9 c

end UBidi.Props.C03Tie
