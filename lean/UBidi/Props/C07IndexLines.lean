/-
  C07 (index safety, part 2) — `compute_initial_info` and the line queries never index or slice out of
  range.

  THE GAP THIS CLOSES.  `Props/C07Index.lean` (`C07_index_safe`) covers `compute_bidi_info_for_para`: every
  stage of the per-paragraph resolver has a CHECKED COPY that touches arrays only through flag-raising
  primitives, is proved equal to the Model function and proved never to raise the flag.  Two parts of the
  Model were left with their TOTALISED accesses (`List.getD`, `cget`, `List.set`, `setRange`, `slice`,
  `take`, `drop`, `xs[i]?` — an index out of range, a panic in Rust, silently reads a default or writes
  nothing):

    (A) lib.rs `compute_initial_info`   (Model/Initial.lean `iiStep`, `computeInitialInfo`):
        `original_classes[start]`, `original_classes[start + j] = …` (X5c);
    (B) the line queries               (Model/Reorder.lean):
        `reorder_levels`        `line_classes[i]`, `&mut line_levels[i..i + len]`, `&mut line_levels[from..to]`,
                                `line_levels[i]`, `&mut line_levels[from..]`
        `reordered_levels`      `&self.original_classes[line]`, `&mut levels[line]`, `self.text.subrange(line)`
        `reordered_levels_per_char`  `levels[i]`
        `visual_runs_for_line` / `deprecated::visual_runs`
                                `levels[start]`, `levels[runs[seq_start].start]`, `levels[runs[seq_end].start]`,
                                `runs[seq_start..seq_end].reverse()`
        `reorder_visual`        `levels[0]`, `result[range].reverse()` (`next_range` uses `levels.get` only)
        `reorder_line`          `&self.levels[line]`, `self.text[line]`, `levels[run.start]`, `text[run]`
        `Paragraph::direction`  `&self.info.levels[self.para.range]`
        `Paragraph::level_at`   `self.info.levels[self.para.range.start + pos]`

  THE CONSTRUCTION is that of `Props/C07Index.lean`: `UBidi/Lemmas/CheckedLinesDefs.lean` holds the checked
  copies (`computeInitialInfoC`, `reorderLevelsC`, `reorderedLevelsC`, `reorderedLevelsPerCharC`,
  `visualRunsForLineC`, `reorderVisualC`, `reorderLinePiecesC`, `reorderLineC`, `paragraphDirectionC`,
  `levelAtC`), built from the primitives of `CheckedDefs.lean` plus two NON-panicking ones (`iterRange` =
  `iter().take(y).skip(x)`, `getOpt` = `slice::get`); below its primitives section that file mentions none of
  the totalised operations and none of the unchecked Model functions (audit by grep, see its header).  The
  L2 pass of `visual_runs_for_line` is copied as the INDEX loop of the crate (`runs[seq_start]`,
  `runs[seq_start..seq_end].reverse()`), and proved equal to the Model's list recursion `revGroups`.
  For every copy:
    (val)  `(fC args).val = f args`   for ALL arguments          (Lemmas/CheckedLinesVal.lean)
    (oob)  `(fC args).oob = false`    under explicit hypotheses  (Lemmas/CheckedLinesOob.lean, …OobRuns.lean)
  The explicit panic sites of the Model (`err`) are kept as they are; "no panic" for them is `C07_total`.

  Statements:
    stage theorems (val ∧ oob)   `C07_index_initial`, `C07_index_reorderLevels`, `C07_index_reorderedLevels`,
                                 `C07_index_reorderedLevelsPerChar`, `C07_index_visualRuns`,
                                 `C07_index_reorderVisual` (NO hypothesis), `C07_index_reorderLinePieces`,
                                 `C07_index_reorderLine`, `C07_index_direction`, `C07_index_levelAt`
    `C07_index_lines_hyp`        all line queries, from the hypotheses of C03 / C05 / C06 (`Lemmas.C06.Hyp`)
    `C07_index_safe_initial`     (A) end to end: every data source, well-formed text, base direction, both modes
    `C07_index_safe_lines`       (B) end to end: the vectors of `bidiInfo ds t d` / `paragraphBidiInfo ds t d`,
                                 every paragraph, every non-empty line on character boundaries: every checked
                                 query equals the Model's, raises no flag — and (from `C07_total`) reaches no
                                 explicit panic site either
    `C07_index_safe_full`        `BidiInfo::new` / `ParagraphBidiInfo::new` with the first pass checked as well

  What the out-of-bounds part needs is much less than `Lemmas.C06.Hyp`: a well-formed text, a non-empty line
  inside it on character boundaries, one class and one level per code unit.  Nothing about the VALUES of the
  levels (≤ 126, uniform within characters) is used; `reorder_visual` needs nothing at all.
  The character-boundary hypothesis is needed for EVERY encoding here, because `Text.subrange` keeps a
  character that starts in the line but ends beyond it with its full width (see the last `example`).
-/
import UBidi.Lemmas.CheckedLinesOobRuns
import UBidi.Lemmas.LinePipeline
import UBidi.Props.C07Index
import UBidi.Props.C07Total
namespace UBidi.Props.C07IndexLines
open UBidi UBidi.BidiClass UBidi.Checked

/-! ### (A) `compute_initial_info` -/

/-- `compute_initial_info` with checked accesses computes the Model's `computeInitialInfo` (always) and
    raises no out-of-bounds flag on a well-formed text -/
theorem C07_index_initial (ds : DataSource) (t : Text) (hwf : t.WF) (d : Option Nat) (split : Bool) :
    (computeInitialInfoC ds t d split).val = computeInitialInfo ds t d split ∧
    (computeInitialInfoC ds t d split).oob = false :=
  ⟨computeInitialInfoC_val ds t d split, computeInitialInfoC_oob ds t hwf d split⟩

/-- **C07, index safety of the first pass.**  For every data source, every well-formed text, every
    base-direction argument and both modes (`split_paragraphs` given or not) -/
theorem C07_index_safe_initial (ds : DataSource) (t : Text) (hwf : t.WF) (d : Option Nat) :
    ((computeInitialInfoC ds t d true).val = computeInitialInfo ds t d true ∧
      (computeInitialInfoC ds t d true).oob = false) ∧
    ((computeInitialInfoC ds t d false).val = computeInitialInfo ds t d false ∧
      (computeInitialInfoC ds t d false).oob = false) :=
  ⟨C07_index_initial ds t hwf d true, C07_index_initial ds t hwf d false⟩

/-- **both analysis types, every stage checked** (the first pass of this file, the paragraph loop of
    `C07Index.C07_index_safe`) -/
theorem C07_index_safe_full (ds : DataSource) (t : Text) (hwf : t.WF) (d : Option Nat) :
    ((bidiInfoFullC ds t d).val = bidiInfo ds t d ∧ (bidiInfoFullC ds t d).oob = false) ∧
    ((paragraphBidiInfoFullC ds t d).val = paragraphBidiInfo ds t d ∧
      (paragraphBidiInfoFullC ds t d).oob = false) := by
  obtain ⟨⟨m1, m2⟩, ⟨s1, s2⟩⟩ := C07Index.C07_index_safe ds t hwf d
  refine ⟨⟨?_, ?_⟩, ⟨?_, ?_⟩⟩
  · rw [bidiInfoFullC_val, m1]
  · rw [bidiInfoFullC_oob_eq, computeInitialInfoC_oob ds t hwf d true, m2]; rfl
  · rw [paragraphBidiInfoFullC_val, s1]
  · rw [paragraphBidiInfoFullC_oob_eq, computeInitialInfoC_oob ds t hwf d false, s2]; rfl

/-! ### (B) the line queries, one by one -/

/-- `reorder_levels` (rule L1) on a well-formed line text with one class and one level per code unit -/
theorem C07_index_reorderLevels (cls : Classes) (lv : List Nat) (t : Text) (hwf : t.WF) (pl : Nat)
    (hc : cls.length = t.len) (hl : lv.length = t.len) :
    (reorderLevelsC cls lv t pl).val = reorderLevels cls lv t pl ∧ (reorderLevelsC cls lv t pl).oob = false :=
  ⟨reorderLevelsC_val cls lv t pl, reorderLevelsC_oob cls lv t hwf pl hc hl⟩

/-- `reordered_levels(line)` -/
theorem C07_index_reorderedLevels (t : Text) (hwf : t.WF) (classes : Classes) (levels : List Nat) (pl a b : Nat)
    (hab : a ≤ b) (hb : b ≤ t.len) (ha : t.isBoundary a = true) (hbb : t.isBoundary b = true)
    (hc : classes.length = t.len) (hl : levels.length = t.len) :
    (reorderedLevelsC t classes levels pl a b).val = reorderedLevels t classes levels pl a b ∧
    (reorderedLevelsC t classes levels pl a b).oob = false :=
  ⟨reorderedLevelsC_val t classes levels pl a b, reorderedLevelsC_oob t hwf classes levels pl a b hab hb ha hbb hc hl⟩

/-- `reordered_levels_per_char(line)` -/
theorem C07_index_reorderedLevelsPerChar (t : Text) (hwf : t.WF) (classes : Classes) (levels : List Nat)
    (pl a b : Nat) (hab : a ≤ b) (hb : b ≤ t.len) (ha : t.isBoundary a = true) (hbb : t.isBoundary b = true)
    (hc : classes.length = t.len) (hl : levels.length = t.len) :
    (reorderedLevelsPerCharC t classes levels pl a b).val = reorderedLevelsPerChar t classes levels pl a b ∧
    (reorderedLevelsPerCharC t classes levels pl a b).oob = false :=
  ⟨reorderedLevelsPerCharC_val t classes levels pl a b,
   reorderedLevelsPerCharC_oob t hwf classes levels pl a b hab hb ha hbb hc hl⟩

/-- `visual_runs_for_line` / `deprecated::visual_runs` on a non-empty line inside the level vector -/
theorem C07_index_visualRuns (lv : List Nat) (a b : Nat) (hab : a < b) (hb : b ≤ lv.length) :
    (visualRunsForLineC lv a b).val = visualRunsForLine lv a b ∧ (visualRunsForLineC lv a b).oob = false :=
  ⟨visualRunsForLineC_val lv a b, visualRunsForLineC_oob lv a b hab hb⟩

/-- `reorder_visual` on ANY list of levels (in particular: any list with entries ≤ 126) -/
theorem C07_index_reorderVisual (lv : List Nat) :
    (reorderVisualC lv).val = reorderVisual lv ∧ (reorderVisualC lv).oob = false :=
  ⟨reorderVisualC_val lv, reorderVisualC_oob lv⟩

/-- the free function `reorder_line(text, line, levels, runs)`: every run starts inside the level vector
    and is a range of the text -/
theorem C07_index_reorderLinePieces (t : Text) (a b : Nat) (lv : List Nat) (runs : List (Nat × Nat))
    (hab : a ≤ b) (hb : b ≤ t.len) (hr : ∀ r ∈ runs, r.1 < lv.length ∧ r.1 ≤ r.2 ∧ r.2 ≤ t.len) :
    (reorderLinePiecesC t a b lv runs).val = reorderLinePieces t lv runs ∧
    (reorderLinePiecesC t a b lv runs).oob = false :=
  ⟨reorderLinePiecesC_val t a b lv runs, reorderLinePiecesC_oob t a b lv runs hab hb hr⟩

/-- `reorder_line(line)` -/
theorem C07_index_reorderLine (t : Text) (hwf : t.WF) (classes : Classes) (levels : List Nat) (pl a b : Nat)
    (hab : a < b) (hb : b ≤ t.len) (ha : t.isBoundary a = true) (hbb : t.isBoundary b = true)
    (hc : classes.length = t.len) (hl : levels.length = t.len) :
    (reorderLineC t classes levels pl a b).val = reorderLine t classes levels pl a b ∧
    (reorderLineC t classes levels pl a b).oob = false :=
  ⟨reorderLineC_val t classes levels pl a b, reorderLineC_oob t hwf classes levels pl a b hab hb ha hbb hc hl⟩

/-- `Paragraph::direction` for a paragraph range inside the level vector -/
theorem C07_index_direction (levels : List Nat) (p : ParaInfo) (h1 : p.start ≤ p.stop) (h2 : p.stop ≤ levels.length) :
    (paragraphDirectionC levels p).val = paraDirection (slice levels p.start p.stop) ∧
    (paragraphDirectionC levels p).oob = false :=
  ⟨paragraphDirectionC_val levels p, paragraphDirectionC_oob levels p h1 h2⟩

/-- `Paragraph::level_at(pos)` for a position inside the level vector -/
theorem C07_index_levelAt (levels : List Nat) (p : ParaInfo) (pos : Nat) (h : p.start + pos < levels.length) :
    (levelAtC levels p pos).val = levelAt levels p pos ∧ (levelAtC levels p pos).oob = false :=
  ⟨levelAtC_val levels p pos, levelAtC_oob levels p pos h⟩

/-! ### all line queries together -/

/-- every checked line query on the line `[a, b)` of an analysis `(classes, levels, paraLevel)` computes the
    Model's query and raises no out-of-bounds flag: `reordered_levels`, `reordered_levels_per_char`,
    `visual_runs` (on the line levels), `reorder_visual` (on the line's levels), `reorder_line` -/
def LineQueriesIndexSafe (t : Text) (classes : List BidiClass) (levels : List Nat) (pl a b : Nat) : Prop :=
  ((reorderedLevelsC t classes levels pl a b).val = reorderedLevels t classes levels pl a b ∧
    (reorderedLevelsC t classes levels pl a b).oob = false) ∧
  ((reorderedLevelsPerCharC t classes levels pl a b).val = reorderedLevelsPerChar t classes levels pl a b ∧
    (reorderedLevelsPerCharC t classes levels pl a b).oob = false) ∧
  ((visualRunsForLineC (reorderedLevels t classes levels pl a b).1 a b).val
      = visualRunsForLine (reorderedLevels t classes levels pl a b).1 a b ∧
    (visualRunsForLineC (reorderedLevels t classes levels pl a b).1 a b).oob = false) ∧
  ((reorderVisualC (slice (reorderedLevels t classes levels pl a b).1 a b)).val
      = reorderVisual (slice (reorderedLevels t classes levels pl a b).1 a b) ∧
    (reorderVisualC (slice (reorderedLevels t classes levels pl a b).1 a b)).oob = false) ∧
  ((reorderLineC t classes levels pl a b).val = reorderLine t classes levels pl a b ∧
    (reorderLineC t classes levels pl a b).oob = false)

/-- the two paragraph queries: `Paragraph::direction`, and `Paragraph::level_at` at every position inside
    the level vector -/
def ParaQueriesIndexSafe (levels : List Nat) (p : ParaInfo) : Prop :=
  ((paragraphDirectionC levels p).val = paraDirection (slice levels p.start p.stop) ∧
    (paragraphDirectionC levels p).oob = false) ∧
  ∀ pos, p.start + pos < levels.length →
    (levelAtC levels p pos).val = levelAt levels p pos ∧ (levelAtC levels p pos).oob = false

/-- from what the out-of-bounds part really needs: a well-formed text, a non-empty line inside it on
    character boundaries, one class and one level per code unit -/
theorem lineQueries_index_safe (t : Text) (hwf : t.WF) (classes : List BidiClass) (levels : List Nat)
    (pl a b : Nat) (hab : a < b) (hb : b ≤ t.len) (ha : t.isBoundary a = true) (hbb : t.isBoundary b = true)
    (hc : classes.length = t.len) (hl : levels.length = t.len) :
    LineQueriesIndexSafe t classes levels pl a b :=
  ⟨C07_index_reorderedLevels t hwf classes levels pl a b (Nat.le_of_lt hab) hb ha hbb hc hl,
   C07_index_reorderedLevelsPerChar t hwf classes levels pl a b (Nat.le_of_lt hab) hb ha hbb hc hl,
   C07_index_visualRuns _ a b hab (by rw [(C03.C03_outside t classes levels pl a b).1, hl]; exact hb),
   C07_index_reorderVisual _,
   C07_index_reorderLine t hwf classes levels pl a b hab hb ha hbb hc hl⟩

/-- **from the hypotheses of the relative theorems of C03 / C05 / C06** (the record `Lemmas.C06.Hyp`) -/
theorem C07_index_lines_hyp {t : Text} {classes : List BidiClass} {levels : List Nat} {pl a b : Nat}
    (h : Lemmas.C06.Hyp t classes levels pl a b) : LineQueriesIndexSafe t classes levels pl a b :=
  lineQueries_index_safe t h.wf classes levels pl a b h.hab h.hb h.ha h.hbb h.hc h.hl

/-! ### end to end -/

/-- **C07, index safety of the line queries.**  For every data source, every well-formed text and each of the
    three base-direction choices, on the vectors that `BidiInfo::new` / `ParagraphBidiInfo::new` store:
    with every paragraph — `Paragraph::direction` and `Paragraph::level_at` —, and on every non-empty line on
    character boundaries (with the level of any paragraph): every checked line query computes exactly the
    Model's query and raises no out-of-bounds flag; and (`C07Total.C07_total`) no query reaches one of the
    Model's explicit panic sites either. -/
theorem C07_index_safe_lines (ds : DataSource) (t : Text) (hwf : t.WF) (d : Option Nat)
    (hd : d = none ∨ d = some 0 ∨ d = some 1) :
    (∀ p ∈ (bidiInfo ds t d).paras,
      ParaQueriesIndexSafe (bidiInfo ds t d).levels p ∧
      ∀ a b, a < b → t.isBoundary a = true → t.isBoundary b = true →
        LineQueriesIndexSafe t (bidiInfo ds t d).classes (bidiInfo ds t d).levels p.level a b ∧
        C07.LineQueriesOK t (bidiInfo ds t d).classes (bidiInfo ds t d).levels p.level a b) ∧
    (∀ a b, a < b → t.isBoundary a = true → t.isBoundary b = true →
      LineQueriesIndexSafe t (paragraphBidiInfo ds t d).classes (paragraphBidiInfo ds t d).levels
        (paragraphBidiInfo ds t d).paraLevel a b ∧
      C07.LineQueriesOK t (paragraphBidiInfo ds t d).classes (paragraphBidiInfo ds t d).levels
        (paragraphBidiInfo ds t d).paraLevel a b) := by
  constructor
  · intro p hp
    obtain ⟨_, hlen, _, _⟩ := C07.bidiInfo_stored ds t hwf d hd
    have hpart := (C02.C02_partition ds t d hwf).1
    obtain ⟨_, b2, b3⟩ := Lemmas.C10Lines.parasFrom_bounds hpart p hp
    refine ⟨⟨C07_index_direction _ p (Nat.le_of_lt b2) (by rw [hlen]; exact b3),
      fun pos hpos => C07_index_levelAt _ p pos hpos⟩, ?_⟩
    intro a b hab ha hbb
    have hyp := Lemmas.LinePipeline.hyp_multi ds t hwf d hd p hp a b hab ha hbb
    exact ⟨C07_index_lines_hyp hyp,
      (C07Total.C07_total ds t hwf d hd).2 p hp a b hab hyp.hb (fun _ => ⟨ha, hbb⟩)⟩
  · intro a b hab ha hbb
    have hyp := Lemmas.LinePipeline.hyp_single ds t hwf d hd a b hab ha hbb
    exact ⟨C07_index_lines_hyp hyp,
      (C07Total.C07_total_single ds t hwf d hd).2 a b hab hyp.hb (fun _ => ⟨ha, hbb⟩)⟩

/-! ### non-vacuity -/

/-- the hypotheses of `C07_index_lines_hyp` are met: `C03.exText` (`a`, PDF, space, U+10000, TAB, space, PDF
    as a `&str`) with its classes and levels, the line `[4, 10)` -/
example : Lemmas.C06.Hyp C03.exText C03.exCls C03.exLv 1 4 10 :=
  ⟨C03.exText_wf, by decide, by decide, by decide, by decide, rfl, rfl, C03.exLv_uniform, by decide, by decide⟩
/-- test: the checked queries on that line, evaluated: no flag, and a non-trivial result -/
example : (reorderLineC C03.exText C03.exCls C03.exLv 1 4 10).oob = false ∧
    (reorderedLevelsC C03.exText C03.exCls C03.exLv 1 4 10).oob = false ∧
    (reorderedLevelsC C03.exText C03.exCls C03.exLv 1 4 10).val = ([2, 3, 3, 3, 4, 5, 5, 5, 5, 1, 7, 8, 8, 8], none) ∧
    (visualRunsForLineC [2, 3, 3, 3, 4, 5, 5, 5, 5, 1, 7, 8, 8, 8] 4 10).val = ([(9, 10), (4, 5), (5, 9)], none) ∧
    (visualRunsForLineC [2, 3, 3, 3, 4, 5, 5, 5, 5, 1, 7, 8, 8, 8] 4 10).oob = false := by decide +kernel
/-- test: the first pass on `C02.exText` ("FSI א PDI ⏎ a FSI RLI b PDI ב" as a `&str`: X5c rewrites, two
    paragraphs, an unclosed isolate), both modes, and the fully checked constructors: no flag -/
example : (computeInitialInfoC hardcoded C02.exText none true).oob = false ∧
    (computeInitialInfoC hardcoded C02.exText none false).oob = false ∧
    (bidiInfoFullC hardcoded C02.exText none).oob = false ∧
    (paragraphBidiInfoFullC hardcoded C02.exText none).oob = false := by decide +kernel
/-- non-vacuity of `C07_index_safe_lines`: `[9, 22)` is the second paragraph of `C02.exText` (test) and the
    line `[10, 20)` is on character boundaries (test) -/
example : LineQueriesIndexSafe C02.exText (bidiInfo hardcoded C02.exText none).classes
    (bidiInfo hardcoded C02.exText none).levels 0 10 20 :=
  ((C07_index_safe_lines hardcoded C02.exText C02.exText_wf none (Or.inl rfl)).1
    { start := 9, stop := 22, level := 0 } (by decide +kernel)).2 10 20 (by decide) (by decide +kernel)
    (by decide +kernel) |>.1

/-! The flags are NOT vacuous: outside the hypotheses the checked copies DO raise them (while their value
    is still the Model's, which silently reads defaults and drops writes there). -/

/-- a data source that classes scalar value 1 as FSI and everything else as L -/
def fsiOne : DataSource := { cls := fun c => if c = 1 then FSI else L, brk := fun _ => none }

/-- test: `compute_initial_info` on an ill-formed "text" whose characters claim to start at units 3 and 4:
    the isolate stack then holds unit 3, but only one class has been pushed when `original_classes[3]` is read -/
example : (computeInitialInfoC fsiOne
    { enc := .utf32, len := 2, segs := [{ start := 3, cp := 1, len := 1 }, { start := 4, cp := 0x61, len := 1 }] }
    none true).oob = true := by decide +kernel
/-- test: the same two characters laid out properly: no flag, and X5c has rewritten the FSI -/
example : (computeInitialInfoC fsiOne
    { enc := .utf32, len := 2, segs := [{ start := 0, cp := 1, len := 1 }, { start := 1, cp := 0x61, len := 1 }] }
    none true).oob = false ∧
    (computeInitialInfoC fsiOne
    { enc := .utf32, len := 2, segs := [{ start := 0, cp := 1, len := 1 }, { start := 1, cp := 0x61, len := 1 }] }
    none true).val.classes = [LRI, L] := by decide +kernel
/-- test: X5c with an isolate-stack entry beyond the classes -/
example : (x5cC (Text.ofScalars [0x61]) L { classes := [FSI], stack := [5] } 5).oob = true := by decide +kernel
/-- test: `reorder_levels` with a level array that is too short (`&mut line_levels[1..2]` for the BN at unit 1) -/
example : (reorderLevelsC [L, BN] [0] (Text.ofScalars [0x61, 0x62]) 0).oob = true ∧
    (reorderLevelsC [L, BN] [0, 0] (Text.ofScalars [0x61, 0x62]) 0).oob = false := by decide +kernel
/-- test: `reorder_levels` with a class array that is too short (`line_classes[1]`) -/
example : (reorderLevelsC [L] [0, 0] (Text.ofScalars [0x61, 0x62]) 0).oob = true := by decide +kernel
/-- test: `reordered_levels` on a `[u16]` text that is shorter than the vectors — a line reaching beyond the
    text (`self.text.subrange(line)`); with a `str` the Model's boundary site fires instead -/
example : (reorderedLevelsC (Utf16.toText [0x61]) [L, L] [0, 0] 0 0 2).oob = true ∧
    (reorderedLevelsC (Utf16.toText [0x61]) [L, L] [0, 0] 0 0 2).val.2 = none ∧
    (reorderedLevelsC (Text.ofScalars [0x61]) [L, L] [0, 0] 0 0 2).val.2 = some .sliceBoundary := by
  decide +kernel
/-- test: `reordered_levels_per_char` with fewer levels than the text has units (`levels[i]`) -/
example : (reorderedLevelsPerCharC (Text.ofScalars [0x61, 0x62, 0x63]) [L, L] [0, 0] 0 0 2).oob = true := by
  decide +kernel
/-- test: `visual_runs_for_line` with a line that starts beyond the level vector (`levels[start]`; the
    Model's explicit site fires as well) -/
example : (visualRunsForLineC [0, 1] 3 5).oob = true ∧ (visualRunsForLineC [0, 1] 3 5).val.2 = some .emptyLine ∧
    (visualRunsForLineC [0, 1] 0 2).oob = false := by decide +kernel
/-- test: the L2 pass with a run that starts beyond the level vector (`levels[runs[seq_end].start]`) -/
example : (l2PassC [1] 1 3 0 [(0, 1), (5, 6)]).oob = true ∧ (l2PassC [1, 1] 1 3 0 [(0, 1), (1, 2)]).oob = false ∧
    (l2PassC [1, 1] 1 3 0 [(0, 1), (1, 2)]).val = [(1, 2), (0, 1)] := by decide +kernel
/-- test: `xs[2..5].reverse()` on three elements -/
example : (revRangeC [1, 2, 3] 2 5).oob = true ∧ (revRangeC [1, 2, 3] 1 3).oob = false := by decide +kernel
/-- test: the free function `reorder_line` with a run that reaches beyond the text (`text[run]`) -/
example : (reorderLinePiecesC (Text.ofScalars [0x5D0]) 0 2 [1, 1] [(0, 5)]).oob = true ∧
    (reorderLinePiecesC (Text.ofScalars [0x5D0]) 0 2 [1, 1] [(0, 2)]).oob = false := by decide +kernel
/-- test: `reorder_line` on a `[u16]` text shorter than the level vector: the line `[0, 2)` is inside the
    levels (no explicit site fires) but beyond the text -/
example : (reorderLineC (Utf16.toText [0x5D0]) [R, R] [1, 1] 1 0 2).oob = true ∧
    (reorderLineC (Utf16.toText [0x5D0]) [R, R] [1, 1] 1 0 2).val.2 = none := by decide +kernel
/-- test: `Paragraph::level_at` beyond the vector, `Paragraph::direction` of a range beyond the vector -/
example : (levelAtC [0, 1] { start := 1, stop := 2, level := 0 } 1).oob = true ∧
    (levelAtC [0, 1] { start := 1, stop := 2, level := 0 } 0).oob = false ∧
    (paragraphDirectionC [0, 1] { start := 1, stop := 3, level := 0 }).oob = true := by decide +kernel
/-- test: the character-boundary hypothesis cannot be dropped, in any encoding: a `[u16]` line that ends inside
    the surrogate pair of U+E0001 (class BN).  `Text.subrange` keeps the pair as ONE character of two units, so
    the Model's `reorderLevels` writes `line_levels[0..2]` on a line of one unit (dropped by `setRange`; flag
    raised by the copy).  In the crate the cut pair is decoded from the sub-slice as a lone surrogate of one
    unit, so this is an artefact of the Model off character boundaries, not a defect of the crate; the
    levels computed are the same. -/
example : (reorderedLevelsC (Utf16.toText [0xDB40, 0xDC01]) [BN, BN] [1, 1] 1 0 1).oob = true ∧
    (reorderedLevelsC (Utf16.toText [0xDB40, 0xDC01]) [BN, BN] [1, 1] 1 0 2).oob = false := by decide +kernel

end UBidi.Props.C07IndexLines
