/-
  C02 — Paragraph segmentation, paragraph level (P1–P3) and FSI resolution.

  `computeInitialInfo ds t dflt split` is the Model of `compute_initial_info`
  (/repo/src/lib.rs).  For every data source `ds`, every well-formed text `t`
  and every forced level `dflt`:

  * `C02_classes_length`, `C02_no_panic` (both modes),
  * `C02_partition`  — P1: the paragraphs are exactly the pieces obtained by
    cutting after every class-B character,
  * `C02_level`      — P2/P3 on the characters of each paragraph,
  * `C02_classes`, `C02_classes_uniform` — X5c as reported in the per-unit classes,
  * `C02_single`     — single-paragraph mode.

  No proviso about the width of FSI-class characters is needed any more (since
  the repair of finding D10): the X5c write now covers the code units of the
  character that actually sits at the initiator's offset
  (`text.char_at(start)`), not `T::char_len(chars::FSI)` units, so the
  statements about classes and about panics hold for every data source,
  whatever characters it gives class FSI to.
-/
import UBidi.Lemmas.C02Main
namespace UBidi.Props.C02
open UBidi UBidi.Lemmas.C02

/-! ### the notions used in the statements -/

/-- the data source's class of every character of the text -/
def raw (ds : DataSource) (t : Text) : List BidiClass := t.segs.map (fun s => ds.cls s.cp)

/-- the characters of the text that start inside paragraph `p` -/
def segsIn (t : Text) (p : ParaInfo) : List Seg :=
  t.segs.filter (fun s => p.start ≤ s.start && s.start < p.stop)

/-- the paragraphs `ps` tile `[a, e)`: the first starts at `a`, each is
    non-empty, each starts where the previous one stops, the last stops at `e` -/
def ParasFrom : Nat → List ParaInfo → Nat → Prop
  | a, [], e => a = e
  | a, p :: ps, e => p.start = a ∧ p.start < p.stop ∧ ParasFrom p.stop ps e

/-! ### consequences of `ParasFrom` in the words of the property -/

theorem ParasFrom.nonempty : ∀ {ps : List ParaInfo} {a e : Nat}, ParasFrom a ps e → ∀ p ∈ ps, p.start < p.stop := by
  intro ps
  induction ps with
  | nil => intro a e _ p hp; simp at hp
  | cons q qs ih =>
    intro a e h p hp
    rcases List.mem_cons.1 hp with rfl | hp
    · exact h.2.1
    · exact ih h.2.2 p hp

theorem ParasFrom.first {ps : List ParaInfo} {a e : Nat} (h : ParasFrom a ps e) :
    (ps.head?.map (·.start)).getD a = a := by
  cases ps with
  | nil => rfl
  | cons q qs => simp [h.1]

theorem ParasFrom.last : ∀ {ps : List ParaInfo} {a e : Nat}, ParasFrom a ps e →
    (ps.getLast?.map (·.stop)).getD a = e := by
  intro ps
  induction ps with
  | nil => intro a e h; exact h
  | cons q qs ih =>
    intro a e h
    cases qs with
    | nil => simpa [ParasFrom] using h.2.2
    | cons r rs =>
      have := ih h.2.2
      rw [List.getLast?_cons_cons]
      cases hx : (r :: rs).getLast? with
      | none => simp at hx
      | some x => rw [hx] at this; simpa using this

/-- consecutive paragraphs touch -/
theorem ParasFrom.chain : ∀ {ps : List ParaInfo} {a e : Nat}, ParasFrom a ps e →
    ∀ i, (h : i + 1 < ps.length) → (ps[i]'(by omega)).stop = (ps[i + 1]'h).start := by
  intro ps
  induction ps with
  | nil => intro a e _ i h; simp at h
  | cons q qs ih =>
    intro a e h i hi
    cases i with
    | zero =>
      cases qs with
      | nil => simp at hi
      | cons r rs => simpa using h.2.2.1.symm
    | succ i => simpa using ih h.2.2 i (by simpa using hi)

/-! ### the paragraphs of the Model, one at a time -/

section
variable (ds : DataSource) (t : Text) (dflt : Option Nat)

/-- the list of paragraphs (as character lists) behind the Model's output -/
theorem chunks_exist (hwf : t.WF) :
    ∃ chunks : List (List Seg),
      chunks.flatten = t.segs ∧
      (computeInitialInfo ds t dflt true).paras = chunks.map (mkPara ds dflt) ∧
      (computeInitialInfo ds t dflt true).flags.length = (computeInitialInfo ds t dflt true).paras.length ∧
      (∀ c1 ch c2, chunks = c1 ++ ch :: c2 → IsPara ds ch ∧ (IsChunk ds ch ∨ c2 = [])) ∧
      (computeInitialInfo ds t dflt true).classes = (chunks.map (chunkClasses ds)).flatten := by
  obtain ⟨done, cur, h1, h2, h3, h4, h5, h6⟩ := split_structure ds t dflt hwf
  refine ⟨allChunks done cur, h1, h4, h5, ?_, h6⟩
  intro c1 ch c2 heq
  by_cases hcur : cur = []
  · have hmem : ch ∈ done := by
      have : ch ∈ allChunks done cur := by rw [heq]; simp
      simpa [allChunks, hcur] using this
    exact ⟨isPara_of_isChunk (h2 ch hmem), Or.inl (h2 ch hmem)⟩
  · simp only [allChunks, hcur, if_false] at heq
    by_cases hc2 : c2 = []
    · subst hc2
      have := List.append_inj_right' heq.symm (by simp)
      simp only [List.cons.injEq, and_true] at this
      subst this
      exact ⟨isPara_of_noB hcur h3, Or.inr rfl⟩
    · have hd : done = c1 ++ ch :: c2.dropLast := by
        have := congrArg List.dropLast heq
        rw [List.dropLast_concat] at this
        rw [this, List.dropLast_append_of_ne_nil (by simp), List.dropLast_cons_of_ne_nil hc2]
      have hmem : ch ∈ done := by rw [hd]; simp
      exact ⟨isPara_of_isChunk (h2 ch hmem), Or.inl (h2 ch hmem)⟩

/-- everything about one paragraph -/
structure ParaCtx (out : InitialOut) (ch : List Seg) (p : ParaInfo) : Prop where
  para : IsPara ds ch
  ends : IsChunk ds ch ∨ p.stop = t.len
  segs : ∃ X Y, t.segs = X ++ ch ++ Y ∧ SegsFrom 0 X p.start ∧ SegsFrom p.start ch p.stop ∧
    SegsFrom p.stop Y t.len
  level : p.level = Spec.paraLevel dflt (clsOf ds ch)
  classes : ∃ A C, out.classes = A ++ expand ch (Spec.resolveFSI (clsOf ds ch)) ++ C ∧
    A.length = p.start

theorem isPara_ne_nil {ch : List Seg} (h : IsPara ds ch) : ch ≠ [] := by
  obtain ⟨xs, b, rfl, _⟩ := h; simp

theorem ctx_of_split (hwf : t.WF) (chunks : List (List Seg))
    (hflat : chunks.flatten = t.segs)
    (hpara : ∀ c1 ch c2, chunks = c1 ++ ch :: c2 → IsPara ds ch ∧ (IsChunk ds ch ∨ c2 = []))
    (hcls : (computeInitialInfo ds t dflt true).classes = (chunks.map (chunkClasses ds)).flatten)
    (c1 : List (List Seg)) (ch : List Seg) (c2 : List (List Seg)) (heq : chunks = c1 ++ ch :: c2) :
    ParaCtx ds t dflt (computeInitialInfo ds t dflt true) ch (mkPara ds dflt ch) := by
  have hall : ∀ c ∈ chunks, IsPara ds c := by
    intro c hc
    obtain ⟨d1, d2, hd⟩ := List.append_of_mem hc
    exact (hpara d1 c d2 hd).1
  have htiles : SegsFrom 0 chunks.flatten t.len := by rw [hflat]; exact hwf.tiles
  obtain ⟨hp, hend⟩ := hpara c1 ch c2 heq
  have hne := isPara_ne_nil ds hp
  have ht := htiles
  rw [heq] at ht
  simp only [List.flatten_append, List.flatten_cons] at ht
  obtain ⟨a, t1, t2⟩ := (segsFrom_append _ _ _ _).1 ht
  obtain ⟨b, t3, t4⟩ := (segsFrom_append _ _ _ _).1 t2
  have hstart : (mkPara ds dflt ch).start = a := chunkStart_eq _ _ _ t3 hne
  have hstop : (mkPara ds dflt ch).stop = b := chunkStop_eq _ _ _ t3 hne
  have hA : ((c1.map (chunkClasses ds)).flatten).length = a := by
    have := chunkClasses_length ds c1 0 a (fun c hc => hall c (by rw [heq]; simp [hc])) t1
    omega
  refine ⟨hp, ?_, ?_, rfl, ?_⟩
  · rcases hend with h | h
    · exact Or.inl h
    · right
      rw [hstop]; subst h
      simpa [SegsFrom] using t4
  · refine ⟨c1.flatten, c2.flatten, ?_, ?_, ?_, ?_⟩
    · rw [← hflat, heq]; simp
    · rw [hstart]; exact t1
    · rw [hstart, hstop]; exact t3
    · rw [hstop]; exact t4
  · refine ⟨(c1.map (chunkClasses ds)).flatten, (c2.map (chunkClasses ds)).flatten, ?_, ?_⟩
    · rw [hcls, heq]; simp [chunkClasses]
    · rw [hA, hstart]

/-- every reported paragraph comes with its context -/
theorem para_ctx (hwf : t.WF) : ∀ p ∈ (computeInitialInfo ds t dflt true).paras,
    ∃ ch, ParaCtx ds t dflt (computeInitialInfo ds t dflt true) ch p := by
  obtain ⟨chunks, h1, h2, _, h4, h5⟩ := chunks_exist ds t dflt hwf
  intro p hp
  rw [h2, List.mem_map] at hp
  obtain ⟨ch, hch, rfl⟩ := hp
  obtain ⟨c1, c2, heq⟩ := List.append_of_mem hch
  exact ⟨ch, ctx_of_split ds t dflt hwf chunks h1 h4 h5 c1 ch c2 heq⟩

/-- every character lies in a reported paragraph -/
theorem seg_ctx (hwf : t.WF) : ∀ s ∈ t.segs, ∃ ch p, s ∈ ch ∧
    ParaCtx ds t dflt (computeInitialInfo ds t dflt true) ch p := by
  obtain ⟨chunks, h1, _, _, h4, h5⟩ := chunks_exist ds t dflt hwf
  intro s hs
  rw [← h1, List.mem_flatten] at hs
  obtain ⟨ch, hch, hsch⟩ := hs
  obtain ⟨c1, c2, heq⟩ := List.append_of_mem hch
  exact ⟨ch, _, hsch, ctx_of_split ds t dflt hwf chunks h1 h4 h5 c1 ch c2 heq⟩

theorem segsIn_eq {out : InitialOut} {ch : List Seg} {p : ParaInfo} (h : ParaCtx ds t dflt out ch p) :
    segsIn t p = ch := by
  obtain ⟨X, Y, h1, h2, h3, h4⟩ := h.segs
  unfold segsIn
  rw [h1]
  exact filter_chunk X ch Y _ _ _ h2 h3 h4

theorem parasFrom_map : ∀ (chunks : List (List Seg)) (a e : Nat), (∀ ch ∈ chunks, ch ≠ []) →
    SegsFrom a chunks.flatten e → ParasFrom a (chunks.map (mkPara ds dflt)) e := by
  intro chunks
  induction chunks with
  | nil => intro a e _ h; simpa [SegsFrom, ParasFrom] using h
  | cons ch rest ih =>
    intro a e hne h
    simp only [List.flatten_cons] at h
    obtain ⟨m, h1, h2⟩ := (segsFrom_append _ _ _ _).1 h
    have hch := hne ch (by simp)
    have hs : (mkPara ds dflt ch).start = a := chunkStart_eq _ _ _ h1 hch
    have he : (mkPara ds dflt ch).stop = m := chunkStop_eq _ _ _ h1 hch
    simp only [List.map_cons, ParasFrom]
    refine ⟨hs, ?_, ?_⟩
    · rw [hs, he]; exact segsFrom_lt_of_ne_nil _ _ _ h1 hch
    · rw [he]; exact ih m e (fun c hc => hne c (by simp [hc])) h2

end

/-! ### the theorems -/

variable (ds : DataSource) (t : Text) (dflt : Option Nat)

/-- Both modes: one class per code unit. -/
theorem C02_classes_length (hwf : t.WF) (split : Bool) :
    (computeInitialInfo ds t dflt split).classes.length = t.len :=
  classes_length ds t dflt split hwf

/-- Both modes: the X5c write never indexes out of range. -/
theorem C02_no_panic (hwf : t.WF) (split : Bool) :
    (computeInitialInfo ds t dflt split).err = none :=
  no_panic ds t dflt split hwf

/-- P1: the reported paragraphs are exactly the pieces obtained by cutting the
    text after every class-B character: they tile `[0, t.len)` (`ParasFrom`:
    non-empty, contiguous, from 0 to the length), each ends at the end of the
    text or right after a class-B character, no other character of a paragraph
    has class B, and there is one flags record per paragraph. -/
theorem C02_partition (hwf : t.WF) :
    let ps := (computeInitialInfo ds t dflt true).paras
    ParasFrom 0 ps t.len ∧
    (∀ p ∈ ps, p.stop = t.len ∨ ∃ s ∈ t.segs, s.start + s.len = p.stop ∧ ds.cls s.cp = .B) ∧
    (∀ p ∈ ps, ∀ s ∈ t.segs, p.start ≤ s.start → s.start + s.len < p.stop → ds.cls s.cp ≠ .B) ∧
    ps.length = (computeInitialInfo ds t dflt true).flags.length := by
  intro ps
  refine ⟨?_, ?_, ?_, ?_⟩
  · obtain ⟨chunks, h1, h2, _, h4, _⟩ := chunks_exist ds t dflt hwf
    show ParasFrom 0 (computeInitialInfo ds t dflt true).paras t.len
    rw [h2]
    apply parasFrom_map
    · intro ch hch
      obtain ⟨c1, c2, heq⟩ := List.append_of_mem hch
      exact isPara_ne_nil ds (h4 c1 ch c2 heq).1
    · rw [h1]; exact hwf.tiles
  · intro p hp
    obtain ⟨ch, hc⟩ := para_ctx ds t dflt hwf p hp
    rcases hc.ends with h | h
    · right
      obtain ⟨xs, b, rfl, _, hb⟩ := h
      obtain ⟨X, Y, h1, _, h3, _⟩ := hc.segs
      refine ⟨b, by rw [h1]; simp, ?_, hb⟩
      have := chunkStop_eq _ _ _ h3 (by simp)
      rw [chunkStop_snoc] at this; exact this
    · exact Or.inl h
  · intro p hp s hs h1 h2
    obtain ⟨ch, hc⟩ := para_ctx ds t dflt hwf p hp
    obtain ⟨X, Y, e1, t1, t2, t3⟩ := hc.segs
    rw [e1] at hs
    have hin : s ∈ ch := by
      rcases List.mem_append.1 hs with hs | hs
      · rcases List.mem_append.1 hs with hs | hs
        · have := segsFrom_mem _ _ _ t1 s hs; omega
        · exact hs
      · have := segsFrom_mem _ _ _ t3 s hs; omega
    obtain ⟨xs, b, rfl, hxs⟩ := hc.para
    rcases List.mem_append.1 hin with hin | hin
    · exact hxs s hin
    · simp only [List.mem_singleton] at hin
      subst hin
      have := chunkStop_eq _ _ _ t2 (by simp)
      rw [chunkStop_snoc] at this; omega
  · obtain ⟨_, _, _, h3, _, _⟩ := chunks_exist ds t dflt hwf
    exact h3.symm

/-- `C02_partition` once more, in the words of the property: every paragraph
    is non-empty, the first starts at 0, consecutive paragraphs touch, the last
    ends at the length of the text. -/
theorem C02_partition_explicit (hwf : t.WF) :
    let ps := (computeInitialInfo ds t dflt true).paras
    (∀ p ∈ ps, p.start < p.stop) ∧
    (ps.head?.map (·.start)).getD 0 = 0 ∧
    (∀ i, (h : i + 1 < ps.length) → (ps[i]'(by omega)).stop = (ps[i + 1]'h).start) ∧
    (ps.getLast?.map (·.stop)).getD 0 = t.len := by
  have h := (C02_partition ds t dflt hwf).1
  exact ⟨h.nonempty, h.first, h.chain, h.last⟩

/-- P2/P3: the level of a paragraph is the forced level if there is one, else 1
    if the first L/R/AL character outside isolates is R or AL, else 0 — computed
    by the Spec on the classes of the paragraph's characters. -/
theorem C02_level (hwf : t.WF) : ∀ p ∈ (computeInitialInfo ds t dflt true).paras,
    p.level = Spec.paraLevel dflt ((segsIn t p).map (fun s => ds.cls s.cp)) := by
  intro p hp
  obtain ⟨ch, hc⟩ := para_ctx ds t dflt hwf p hp
  rw [segsIn_eq ds t dflt hc]
  exact hc.level

/-- X5c as reported: reading the class at the first unit of every character of
    a paragraph gives the paragraph's classes with every FSI resolved by the
    Spec (RLI / LRI by the first strong character before the matching PDI, FSI
    if there is none), all other characters keeping their class. -/
theorem C02_classes (hwf : t.WF) :
    ∀ p ∈ (computeInitialInfo ds t dflt true).paras,
      (segsIn t p).map (fun s => (computeInitialInfo ds t dflt true).classes.getD s.start .ON)
        = Spec.resolveFSI ((segsIn t p).map (fun s => ds.cls s.cp)) := by
  intro p hp
  obtain ⟨ch, hc⟩ := para_ctx ds t dflt hwf p hp
  rw [segsIn_eq ds t dflt hc]
  obtain ⟨A, C, h1, h2⟩ := hc.classes
  obtain ⟨X, Y, _, _, t2, _⟩ := hc.segs
  rw [h1]
  exact expand_read ch _ A C _ (by rw [h2]; exact t2) (resolveFSI_length_para hc.para).symm

/-- All units of a character carry the same class (both modes). -/
theorem C02_classes_uniform (hwf : t.WF) (split : Bool) :
    ∀ s ∈ t.segs, ∀ j, j < s.len →
      (computeInitialInfo ds t dflt split).classes.getD (s.start + j) .ON
        = (computeInitialInfo ds t dflt split).classes.getD s.start .ON := by
  intro s hs j hj
  cases split with
  | true =>
    obtain ⟨ch, p, hsch, hc⟩ := seg_ctx ds t dflt hwf s hs
    obtain ⟨A, C, h1, h2⟩ := hc.classes
    obtain ⟨X, Y, _, _, t2, _⟩ := hc.segs
    rw [h1]
    exact expand_uniform ch _ A C _ (by rw [h2]; exact t2) (resolveFSI_length_para hc.para).symm s hsch j hj
  | false =>
    have h := (single_structure ds t dflt hwf).2
    have hl : t.segs.length = (cRun dflt (clsOf ds t.segs)).cls.length := by
      rw [cRun_cls_length]; simp
    have := expand_uniform t.segs _ [] [] t.len hwf.tiles hl s hs j hj
    rw [h]; simpa using this

/-! ### single-paragraph mode -/

/-- a class list without separator except possibly at the very end is a
    separator-free body and a tail -/
theorem tail_split (cs : List BidiClass) (h : ∀ c ∈ cs.dropLast, c ≠ .B) :
    ∃ xs tl, cs = xs ++ tl ∧ (∀ c ∈ xs, c ≠ .B) ∧ IsTail tl := by
  by_cases hne : cs = []
  · exact ⟨[], [], by simp [hne], by simp, Or.inl rfl⟩
  · by_cases hl : cs.getLast hne = .B
    · exact ⟨cs.dropLast, [.B], by rw [← hl]; exact (List.dropLast_concat_getLast hne).symm, h, Or.inr rfl⟩
    · refine ⟨cs, [], by simp, ?_, Or.inl rfl⟩
      intro c hc
      rw [← List.dropLast_concat_getLast hne] at hc
      rcases List.mem_append.1 hc with hc | hc
      · exact h c hc
      · simp only [List.mem_singleton] at hc; rw [hc]; exact hl

theorem cRun_tail (l0 : Option Nat) (xs tl : List BidiClass) (h : IsTail tl) :
    (cRun l0 (xs ++ tl)).lvl = (cRun l0 xs).lvl ∧ (cRun l0 (xs ++ tl)).cls = (cRun l0 xs).cls ++ tl := by
  rcases h with rfl | rfl
  · simp
  · rw [cRun_snoc]; exact ⟨rfl, rfl⟩

/-- Single-paragraph mode, level: if the text has no class-B character except
    possibly its last one, the level is the Spec's level of the whole text. -/
theorem C02_single_level (hwf : t.WF) (hB : ∀ c ∈ (raw ds t).dropLast, c ≠ .B) :
    (computeInitialInfo ds t dflt false).lastLevel = Spec.paraLevel dflt (raw ds t) := by
  obtain ⟨xs, tl, h1, h2, h3⟩ := tail_split (raw ds t) hB
  have hr : clsOf ds t.segs = raw ds t := rfl
  rw [(single_structure ds t dflt hwf).1, hr, h1, (cRun_tail dflt xs tl h3).1]
  exact cRun_level_spec dflt xs h2 tl h3

/-- Single-paragraph mode, classes: same, for the classes read at the first
    unit of every character. -/
theorem C02_single_classes (hwf : t.WF) (hB : ∀ c ∈ (raw ds t).dropLast, c ≠ .B) :
    t.segs.map (fun s => (computeInitialInfo ds t dflt false).classes.getD s.start .ON)
      = Spec.resolveFSI (raw ds t) := by
  obtain ⟨xs, tl, h1, h2, h3⟩ := tail_split (raw ds t) hB
  have hr : clsOf ds t.segs = raw ds t := rfl
  have hl : t.segs.length = (cRun dflt (clsOf ds t.segs)).cls.length := by
    rw [cRun_cls_length]; simp
  have := expand_read t.segs (cRun dflt (clsOf ds t.segs)).cls [] [] t.len hwf.tiles hl
  rw [(single_structure ds t dflt hwf).2]
  simp only [List.nil_append, List.append_nil] at this
  rw [this, hr, h1, (cRun_tail dflt xs tl h3).2]
  exact cRun_cls_spec dflt xs h2 tl h3

theorem C02_single (hwf : t.WF) (hB : ∀ c ∈ (raw ds t).dropLast, c ≠ .B) :
    (computeInitialInfo ds t dflt false).lastLevel = Spec.paraLevel dflt (raw ds t) ∧
    t.segs.map (fun s => (computeInitialInfo ds t dflt false).classes.getD s.start .ON)
      = Spec.resolveFSI (raw ds t) :=
  ⟨C02_single_level ds t dflt hwf hB, C02_single_classes ds t dflt hwf hB⟩

/-! ### non-vacuity: a concrete text meets the hypotheses, with non-trivial results -/

/-- `FSI א PDI ⏎ a FSI RLI b PDI ב` as a `&str` (22 bytes, two paragraphs) -/
def exText : Text :=
  Text.ofScalars [0x2068, 0x5D0, 0x2069, 0x0A, 0x61, 0x2068, 0x2067, 0x62, 0x2069, 0x5D1]

theorem exText_wf : exText.WF :=
  ⟨by simp [exText, Text.ofScalars, Text.layout, Text.totalLen, SegsFrom, Enc.charLen, utf8Len], by decide⟩

/-- test (labelled): the hypothesis of every theorem above holds for `exText`,
    and the conclusions are not trivial there with the crate's own tables -/
example : exText.WF := exText_wf

/-- test: two paragraphs; the second has level 0 although it contains R after
    an unclosed FSI; the first FSI reports RLI, the second one RLI as well
    (first strong after the nested RLI…PDI is R) -/
example : (computeInitialInfo hardcoded exText none true).paras =
    [{ start := 0, stop := 9, level := 0 }, { start := 9, stop := 22, level := 0 }] := by
  decide +kernel

example : (segsIn exText { start := 9, stop := 22, level := 0 }).map
      (fun s => (computeInitialInfo hardcoded exText none true).classes.getD s.start .ON) =
    [.L, .RLI, .RLI, .L, .PDI, .R] := by
  decide +kernel

/-- test: a text for `C02_single` (no separator before the end) -/
def exSingle : Text := Text.ofScalars [0x2068, 0x61, 0x2069, 0x5D0, 0x0A]

example : exSingle.WF ∧ (∀ c ∈ (raw hardcoded exSingle).dropLast, c ≠ .B) :=
  ⟨⟨by simp [exSingle, Text.ofScalars, Text.layout, Text.totalLen, SegsFrom, Enc.charLen, utf8Len], by decide⟩,
   by decide +kernel⟩

example : (computeInitialInfo hardcoded exSingle none false).lastLevel = 1 := by decide +kernel

end UBidi.Props.C02
