/-
  C12, the clause "the levels, paragraphs and reordering equal what the algorithm yields for the class and
  bracket values that source returns".

  For EVERY data source `ds` (any function from scalar values to classes, any bracket map — no assumption that
  a bracket character has class ON, that classes resemble Unicode's, or on the width of the characters it gives
  class FSI to: the FSI-width proviso of C02 is gone since the repair of finding D10) and every well-formed
  text, the analysis the Model of the crate computes is UAX #9 — the
  Spec `Spec.paragraphLevels` (X1–X10, W1–W7, BD16/N0–N2, I1–I2, levels carried by removed characters),
  `Spec.resolveFSI` (X5c) and `Spec.paraLevel` (P2/P3) — applied to the values `ds.cls c`, `ds.brk c` of the
  text's characters:

  * `C12_any_source`        — `BidiInfo::new_with_data_source`, every paragraph
  * `C12_any_source_single` — `ParagraphBidiInfo::new_with_data_source` on a one-paragraph text

  These are `C01_bidiInfo` / `C01_paragraphBidiInfo` (Props/C01Levels), which since the repair of finding D9
  (N0's sweep over the characters following a changed bracket) hold without the former hypothesis
  `BracketClassesOK ds`; they are restated here under C12 because "for every data source" is what C12 adds to
  C01.  Before the repair the statement was FALSE for a source with a bracket of class CS / ES / ET / NSM:
  the witnesses are `corpus/C12.txt` `#corpus-D9`, `#corpus-D9b`, and `exD9` below states the first one as a
  closed computation on the repaired Model (the Model agrees with the Spec on it).  Before the repair of
  finding D10 (X5c rewrote `char_len(U+2068)` code units at an FSI's position, whatever character carried the
  class) it was false, or the crate panicked, for a source that gives class FSI to a character of another
  width: the witness is in the last section below, again on the repaired Model.

  Line queries on top of the stored analysis (L1, L2, runs, reordered line) do not consult the data source at
  all (C03–C06 are stated over the stored classes and levels), so this covers the whole clause.
-/
import UBidi.Props.C01Levels
namespace UBidi.Props.C12Spec
open UBidi UBidi.BidiClass UBidi.Expand
open UBidi.Props.C02 (raw segsIn)
open UBidi.Props.C01Levels (paraChars)

/-- **C12 for `BidiInfo::new_with_data_source`**: for every data source, no panic, and every reported
    paragraph carries the Spec's levels / X5c classes / P2-P3 level of the source's class and bracket values. -/
theorem C12_any_source (ds : DataSource)
    (t : Text) (hwf : t.WF) (d : Option Nat) (hd : ∀ l, d = some l → l ≤ 1) :
    let b := bidiInfo ds t d
    b.err = none ∧
    ∀ p ∈ b.paras,
      (segsIn t p).map (fun s => b.levels.getD s.start 0) =
        Spec.paragraphLevels p.level (paraChars ds t b.classes p) ∧
      slice b.levels p.start p.stop =
        expand (t.subrange p.start p.stop) (Spec.paragraphLevels p.level (paraChars ds t b.classes p)) ∧
      (paraChars ds t b.classes p).map (·.cls) =
        Spec.resolveFSI ((segsIn t p).map (fun s => ds.cls s.cp)) ∧
      p.level = Spec.paraLevel d ((segsIn t p).map (fun s => ds.cls s.cp)) :=
  C01Levels.C01_bidiInfo ds t hwf d hd

/-- **C12 for `ParagraphBidiInfo::new_with_data_source`** on a text that is one paragraph (no class-B character
    except possibly the last): for every data source, no panic; the levels are the expansion of the Spec's levels
    of the characters with their reported classes (X5c of the source's classes) at the P2/P3 paragraph level. -/
theorem C12_any_source_single (ds : DataSource)
    (t : Text) (hwf : t.WF) (d : Option Nat) (hd : ∀ l, d = some l → l ≤ 1)
    (hB : ∀ c ∈ (raw ds t).dropLast, c ≠ B) :
    let q := paragraphBidiInfo ds t d
    q.err = none ∧
    q.levels = expand t (Spec.paragraphLevels q.paraLevel (Lemmas.C01Compose.charsOf ds t q.classes)) ∧
    contract t q.levels 0 = Spec.paragraphLevels q.paraLevel (Lemmas.C01Compose.charsOf ds t q.classes) ∧
    (Lemmas.C01Compose.charsOf ds t q.classes).map (·.cls) = Spec.resolveFSI (raw ds t) ∧
    q.paraLevel = Spec.paraLevel d (raw ds t) :=
  C01Levels.C01_paragraphBidiInfo ds t hwf d hd hB

/-! ### the D9 witness, on the repaired Model -/

/-- the data source of `#corpus-D9`: `(` an opening bracket of class ON, the character 1000 its closing
    bracket **of class CS**, U+05D0 R, U+00AD BN, U+0300 NSM, everything else L -/
def dsD9 : DataSource :=
  { cls := fun cp => if cp == 0x28 then ON else if cp == 1000 then CS else if cp == 0x5D0 then R
                     else if cp == 0xAD then BN else if cp == 0x300 then NSM else L,
    brk := fun cp => if cp == 0x28 then some ⟨0x28, true⟩ else if cp == 1000 then some ⟨0x28, false⟩ else none }

/-- `א ( א ⟨1000⟩ SHY ◌̀ a`, one unit per character -/
def textD9 : Text :=
  { enc := .utf32, len := 7, segs := Text.layout .utf32 0 [0x5D0, 0x28, 0x5D0, 1000, 0xAD, 0x300, 0x61] }

/-- (test) the repaired Model gives the NSM after the closing bracket the bracket's level 1 (the unrepaired
    crate stopped its sweep at the soft hyphen, which W6 had retyped to ON, and gave the NSM level 0) -/
example : (bidiInfo dsD9 textD9 (some 0)).levels = [1, 1, 1, 1, 1, 1, 0] := by decide +kernel

/-- (test) and that is what UAX #9 says for these class and bracket values (the soft hyphen is removed by X9) -/
example : Spec.paragraphLevels 0
      ([0x5D0, 0x28, 0x5D0, 1000, 0xAD, 0x300, 0x61].map (fun c => ({ cls := dsD9.cls c, brk := dsD9.brk c } : Spec.Ch)))
    = [1, 1, 1, 1, 1, 1, 0] := by decide +kernel

/-- (non-vacuity) the hypotheses of `C12_any_source` hold for this source and text -/
example : textD9.WF ∧ (∀ l, some 0 = some l → l ≤ 1) :=
  ⟨⟨by simp [textD9, Text.layout, SegsFrom, Enc.charLen], by decide⟩, by intro l h; cases h; decide⟩

/-! ### the D10 witness, on the repaired Model -/

/-- the data source of the D10 witness: the one-unit ASCII letter `x` has class **FSI**, U+05D0 has class R,
    everything else L; no brackets -/
def dsD10 : DataSource :=
  { cls := fun cp => if cp == 0x78 then FSI else if cp == 0x5D0 then R else L,
    brk := fun _ => none }

/-- `x א` as a `&str`: 3 bytes (`x` one byte, `א` two) -/
def textD10 : Text := Text.ofScalars [0x78, 0x5D0]

/-- `x a` as a `&str`: 2 bytes -/
def textD10b : Text := Text.ofScalars [0x78, 0x61]

/-- (test) X5c rewrites the one code unit of `x` — the character that sits at the FSI's position — to RLI and
    leaves the two units of `א` alone, and nothing panics.  The unrepaired crate wrote
    `char_len(U+2068)` = 3 units from the position of `x` and reported `[RLI, RLI, RLI]`: the class R of `א`
    was overwritten. -/
example : (bidiInfo dsD10 (Text.ofScalars [0x78, 0x5D0]) none).classes = [RLI, R, R] ∧
    (bidiInfo dsD10 (Text.ofScalars [0x78, 0x5D0]) none).err = none := by
  decide +kernel

/-- (test) `x a`: 2 bytes; the one unit of `x` becomes LRI, no panic.  The unrepaired crate wrote 3 units
    into a vector of 2 and panicked (index out of bounds). -/
example : (bidiInfo dsD10 (Text.ofScalars [0x78, 0x61]) none).classes = [LRI, L] ∧
    (bidiInfo dsD10 (Text.ofScalars [0x78, 0x61]) none).err = none := by
  decide +kernel

/-- (test) and the levels are UAX #9's for these class values: `x` (RLI, level 0) opens an isolate in which `א`
    gets level 1 -/
example : (bidiInfo dsD10 textD10 none).levels = [0, 1, 1] ∧
    Spec.paragraphLevels 0 [{ cls := RLI, brk := none }, { cls := R, brk := none }] = [0, 1] := by
  decide +kernel

/-- (non-vacuity) the hypotheses of `C12_any_source` hold for this source and these texts — nothing is asked
    of the width of `x` — so the theorem applies to them -/
example : textD10.WF ∧ textD10b.WF ∧ (bidiInfo dsD10 textD10 none).err = none :=
  ⟨C01.Base.ofScalars_WF _, C01.Base.ofScalars_WF _,
    (C12_any_source dsD10 textD10 (C01.Base.ofScalars_WF _) none (by intro l h; cases h)).1⟩

end UBidi.Props.C12Spec
