/-
  C19 — the tie between level.rs and the Model's `Level`, by TRANSLATION.

  `UBidi/Gen/Code.lean` is regenerated on every check run by `tools/gen_code.py` from the text of
  /repo/src/level.rs (a small recursive-descent translator for the expression subset these functions use; u8
  values as `Nat` with wrapping `+`/`-`, `!` as the u8 complement, `&`/`|` as `Nat.land`/`Nat.lor`, `Result` as
  `Option`, for a `&mut self` method the new value of `self`).  The theorems below state that every translated
  function is the Model function that all C19 theorems (`Props/C19.lean`) are about — for every `u8` argument of
  the constructors and of raise/lower on every level value 0..=126, and for every level value 0..=126 (the invariant of `Level`, first sentence of
  C19) of the bit-twiddling helpers.  A change of level.rs therefore changes `Gen/Code.lean`, and either these
  equalities still hold (the change is harmless for the Model) or a proof obligation breaks; no sampling is
  involved for these functions.

  Not translated: `Level::vec`, `from_slice_unchecked`, the `From`/`PartialEq` impls, `has_rtl` (iterator
  adaptors; they stay on the exhaustive correspondence of the C19 check).
-/
import UBidi.Gen.Code
import UBidi.Model.Level
namespace UBidi.Props.C19Tie
open UBidi

/-! Every statement is over the whole domain the Rust function has — `u8` arguments 0..=255, `Level` values
0..=126 (the invariant of `Level`, C19's first sentence) — and every proof is `first | <the structural argument
that works for the source as it is today> | decide +kernel`: if level.rs is rewritten in an equivalent way that the
translator can still read (say `self.0 & 1 == 1` for `is_rtl`), the structural argument fails and the kernel
decides the equality over the finite domain instead (about 25 s for a 127 × 256 table). -/

theorem tie_new : ∀ n, n ≤ 255 → Gen.Code.new n = Level.new n := by
  first
  | (intro n _; unfold Gen.Code.new Level.new Level.maxImplicit
     by_cases h : n ≤ Gen.maxImplicitDepth <;> simp [h])
  | decide +kernel

theorem tie_new_explicit : ∀ n, n ≤ 255 → Gen.Code.new_explicit n = Level.newExplicit n := by
  first
  | (intro n _; unfold Gen.Code.new_explicit Level.newExplicit Level.maxExplicit
     by_cases h : n ≤ Gen.maxExplicitDepth <;> simp [h])
  | decide +kernel

theorem tie_is_ltr : ∀ l, l ≤ 255 → Gen.Code.is_ltr l = Level.isLtr l := by
  first | (intro l _; rfl) | decide +kernel
theorem tie_is_rtl : ∀ l, l ≤ 255 → Gen.Code.is_rtl l = Level.isRtl l := by
  first | (intro l _; rfl) | decide +kernel

theorem tie_checked_add (a b : Nat) : Gen.Code.checkedAddU8 a b = Level.checkedAdd a b := rfl
theorem tie_checked_sub (a b : Nat) : Gen.Code.checkedSubU8 a b = Level.checkedSub a b := rfl

/-- `raise`, for every level and every `u8` amount -/
theorem tie_raise : ∀ l, l ≤ 126 → ∀ a, a ≤ 255 → Gen.Code.raise l a = Level.raise l a := by
  first
  | (intro l _ a _
     simp only [Gen.Code.raise, Level.raise, tie_checked_add, Level.maxImplicit]
     cases Level.checkedAdd l a with
     | none => rfl
     | some n => by_cases h : n ≤ Gen.maxImplicitDepth <;> simp [h])
  | decide +kernel

theorem tie_raise_explicit : ∀ l, l ≤ 126 → ∀ a, a ≤ 255 → Gen.Code.raise_explicit l a = Level.raiseExplicit l a := by
  first
  | (intro l _ a _
     simp only [Gen.Code.raise_explicit, Level.raiseExplicit, tie_checked_add, Level.maxExplicit]
     cases Level.checkedAdd l a with
     | none => rfl
     | some n => by_cases h : n ≤ Gen.maxExplicitDepth <;> simp [h])
  | decide +kernel

theorem tie_lower : ∀ l, l ≤ 126 → ∀ a, a ≤ 255 → Gen.Code.lower l a = Level.lower l a := by
  first
  | (intro l _ a _
     simp only [Gen.Code.lower, Level.lower, tie_checked_sub]
     cases Level.checkedSub l a <;> rfl)
  | decide +kernel

/-- `(self.0 + 2) & !1`, `(self.0 + 1) | 1`, `self.0 | 1` against the Model's `/`, `%` formulation, for every
    value a `Level` can hold (kernel decision over 0..=126) -/
theorem tie_next_ltr : ∀ l, l ≤ 126 → Gen.Code.new_explicit_next_ltr l = Level.newExplicitNextLtr l := by
  decide +kernel

theorem tie_next_rtl : ∀ l, l ≤ 126 → Gen.Code.new_explicit_next_rtl l = Level.newExplicitNextRtl l := by
  decide +kernel

theorem tie_lowest_ge_rtl : ∀ l, l ≤ 126 → Gen.Code.new_lowest_ge_rtl l = Level.newLowestGeRtl l := by
  decide +kernel

theorem tie_bidi_class : ∀ l, l ≤ 126 → Gen.Code.level_bidi_class l = Level.bidiClass l := by
  first | (intro l _; rfl) | decide +kernel

/-- (test) beyond the invariant the bit tricks and the Model's arithmetic part ways (u8 wrap-around at 254), which
    is why the helpers are tied on 0..=126 only — no `Level` above 126 exists (C19_new, C19_raise, …) -/
example : Gen.Code.new_explicit_next_ltr 254 ≠ Level.newExplicitNextLtr 254 := by decide

end UBidi.Props.C19Tie
