/-
  C19 — the tie between level.rs and the Model's `Level`, by TRANSLATION.

  `UBidi/Gen/Code.lean` is regenerated on every check run by `tools/gen_code.py` from the text of
  /repo/src/level.rs (a small recursive-descent translator for the expression subset these functions use; u8
  values as `Nat` with wrapping `+`/`-`, `!` as the u8 complement, `&`/`|` as `Nat.land`/`Nat.lor`, `Result` as
  `Option`, for a `&mut self` method the new value of `self`).  The theorems below state that every translated
  function is the Model function that all C19 theorems (`Props/C19.lean`) are about — for every `u8` argument of
  the constructors and raise/lower, and for every level value 0..=126 (the invariant of `Level`, first sentence of
  C19) of the bit-twiddling helpers.  A change of level.rs therefore changes `Gen/Code.lean`, and either these
  equalities still hold (the change is harmless for the Model) or a proof obligation breaks; no sampling is
  involved for these functions.

  Not translated: `Level::vec`, `from_slice_unchecked`, the `From`/`PartialEq` impls, `has_rtl` (iterator
  adaptors; they stay on the exhaustive correspondence of the C19 check).
-/
import UBidi.Gen.Code
import UBidi.Model.Level
namespace UBidi.Props.C19Tie
open UBidi

theorem tie_new (n : Nat) : Gen.Code.new n = Level.new n := by
  unfold Gen.Code.new Level.new Level.maxImplicit
  by_cases h : n ≤ Gen.maxImplicitDepth <;> simp [h]

theorem tie_new_explicit (n : Nat) : Gen.Code.new_explicit n = Level.newExplicit n := by
  unfold Gen.Code.new_explicit Level.newExplicit Level.maxExplicit
  by_cases h : n ≤ Gen.maxExplicitDepth <;> simp [h]

theorem tie_is_ltr (l : Nat) : Gen.Code.is_ltr l = Level.isLtr l := rfl
theorem tie_is_rtl (l : Nat) : Gen.Code.is_rtl l = Level.isRtl l := rfl

theorem tie_checked_add (a b : Nat) : Gen.Code.checkedAddU8 a b = Level.checkedAdd a b := rfl
theorem tie_checked_sub (a b : Nat) : Gen.Code.checkedSubU8 a b = Level.checkedSub a b := rfl

/-- `raise`, for every level and every amount (no bound needed: both sides are the same expression) -/
theorem tie_raise (l a : Nat) : Gen.Code.raise l a = Level.raise l a := by
  simp only [Gen.Code.raise, Level.raise, tie_checked_add, Level.maxImplicit]
  cases Level.checkedAdd l a with
  | none => rfl
  | some n => by_cases h : n ≤ Gen.maxImplicitDepth <;> simp [h]

theorem tie_raise_explicit (l a : Nat) : Gen.Code.raise_explicit l a = Level.raiseExplicit l a := by
  simp only [Gen.Code.raise_explicit, Level.raiseExplicit, tie_checked_add, Level.maxExplicit]
  cases Level.checkedAdd l a with
  | none => rfl
  | some n => by_cases h : n ≤ Gen.maxExplicitDepth <;> simp [h]

theorem tie_lower (l a : Nat) : Gen.Code.lower l a = Level.lower l a := by
  simp only [Gen.Code.lower, Level.lower, tie_checked_sub]
  cases Level.checkedSub l a <;> rfl

/-- `(self.0 + 2) & !1`, `(self.0 + 1) | 1`, `self.0 | 1` against the Model's `/`, `%` formulation, for every
    value a `Level` can hold (kernel decision over 0..=126) -/
theorem tie_next_ltr : ∀ l, l ≤ 126 → Gen.Code.new_explicit_next_ltr l = Level.newExplicitNextLtr l := by
  decide +kernel

theorem tie_next_rtl : ∀ l, l ≤ 126 → Gen.Code.new_explicit_next_rtl l = Level.newExplicitNextRtl l := by
  decide +kernel

theorem tie_lowest_ge_rtl : ∀ l, l ≤ 126 → Gen.Code.new_lowest_ge_rtl l = Level.newLowestGeRtl l := by
  decide +kernel

theorem tie_bidi_class (l : Nat) : Gen.Code.level_bidi_class l = Level.bidiClass l := rfl

/-- (test) beyond the invariant the bit tricks and the Model's arithmetic part ways (u8 wrap-around at 254), which
    is why the helpers are tied on 0..=126 only — no `Level` above 126 exists (C19_new, C19_raise, …) -/
example : Gen.Code.new_explicit_next_ltr 254 ≠ Level.newExplicitNextLtr 254 := by decide

end UBidi.Props.C19Tie
