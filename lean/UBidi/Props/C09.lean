/- C09 — first layer; see DESIGN.md §5 -/
import UBidi.Model.Reorder
import UBidi.Spec.UAX9
import UBidi.Spec.Reorder
namespace UBidi.Props.C09
open UBidi

/-- the analysis of the empty text is empty and does not fail -/
theorem empty_text (ds : DataSource) (d : Option Nat) :
    (bidiInfo ds (Text.ofScalars []) d).levels = [] ∧ (bidiInfo ds (Text.ofScalars []) d).err = none := by
  constructor <;> rfl

end UBidi.Props.C09
