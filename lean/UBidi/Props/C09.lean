/-
  C09 — the UTF-16 API agrees with the UTF-8 API on the same text.

  In the Model both APIs are the same generic functions applied to two `Text`s.  For a sequence `u` of
  16-bit code units

  * `t16 u = Utf16.toText u`                                  — the `&[u16]` text,
  * `t8 u  = Text.ofScalars ((Spec.lossy u).map (·.1))`       — the `&str` with the same characters,
    every unpaired surrogate read as U+FFFD.

  Theorems (all for every `u` with 16-bit units, every data source — no FSI-width proviso is needed any
  more, since the repair of finding D10; the `_hardcoded` versions are the instances for the built-in
  tables —, every default level `d`):

  * `C09_same_chars`, `C09_raw_classes`, `C09_base_direction`      — same characters, same answers of
    `get_base_direction(_full)`;
  * `C09_paragraphs`             — same number of paragraphs, same levels, same ranges of character indices;
  * `C09_classes`                — same reported classes, character for character (`InitialInfo`, `BidiInfo`);
  * `C09_single_paragraph_api`   — the same for `ParagraphBidiInfo` (level, flags, classes);
  * `C09_levels_single_of_expand`, `C09_levels_of_expand`, `C09_levels_uniform_of_expand` — same levels,
    character for character (at the first unit of every character, and every unit carries that level), for
    `ParagraphBidiInfo` and `BidiInfo`, *relative to* the `Expand` lemma of `compute_bidi_info_for_para`
    (explicit hypothesis `PbiExpand` — the instance actually used, decidable — or the general
    `ParaLevelsExpand`: `C09_levels_of_paraLevelsExpand`, `C09_levels_hardcoded_of_expand`; the lemma itself
    is proved separately in UBidi/Lemmas/Expand*.lean).

  Method: everything `compute_initial_info` reports is, per character, a function of the list of raw
  classes (C02's per-character machine, C16's `paragraphsOf`); `BidiInfo` is `ParagraphBidiInfo` paragraph
  by paragraph (C10); `ParagraphBidiInfo` of a text is the expansion of `ParagraphBidiInfo` of
  `Expand.unitize` of the text, and `unitize` depends on the scalar values only (`unitize_congr`).
  The generic statements (two arbitrary well-formed texts with the same characters) are in
  UBidi/Lemmas/C09*.lean.
-/
import UBidi.Lemmas.C09Multi
import UBidi.Lemmas.C09Uniform
import UBidi.Lemmas.C09Tests2
import UBidi.Lemmas.C09Tests3
namespace UBidi.Props.C09
open UBidi UBidi.BidiClass
open UBidi.Props.C16 (paragraphsOf)

/-- the `&[u16]` text -/
abbrev t16 (u : List Nat) : Text := Utf16.toText u
/-- the `&str` with the same characters, each unpaired surrogate read as U+FFFD -/
abbrev t8 (u : List Nat) : Text := Text.ofScalars ((Spec.lossy u).map (·.1))

theorem t16_WF (u : List Nat) (h16 : ∀ x ∈ u, x < 65536) : (t16 u).WF := C18.C18_wf u h16
theorem t8_WF (u : List Nat) : (t8 u).WF := Lemmas.C10.ofScalars_WF _

/-! ### the notions used in the statements (defined in UBidi/Lemmas/C09*.lean), by their equations -/

theorem SameChars_def (t t' : Text) : SameChars t t' ↔ t.segs.map (·.cp) = t'.segs.map (·.cp) := Iff.rfl

/-- `charIndexOf t off`: the number of characters of `t` that start before code-unit offset `off` -/
theorem charIndexOf_def (t : Text) (off : Nat) :
    charIndexOf t off = (t.segs.filter (fun s => s.start < off)).length := rfl

/-- … so the offset at which character number `k` starts has index `k` -/
theorem charIndexOf_start (t : Text) (hwf : t.WF) (k : Nat) (hk : k < t.segs.length) :
    charIndexOf t (t.segs[k]).start = k := by
  have hsplit : t.segs = t.segs.take k ++ t.segs.drop k := (List.take_append_drop k t.segs).symm
  have ht := hwf.tiles
  rw [hsplit] at ht
  obtain ⟨b, h1, h2⟩ := (Lemmas.C02.segsFrom_append _ _ _ _).1 ht
  have hd : t.segs.drop k = t.segs[k] :: t.segs.drop (k + 1) := List.drop_eq_getElem_cons hk
  have hb : (t.segs[k]).start = b := by rw [hd] at h2; exact h2.1
  rw [hb, charIndexOf_split t _ _ b hsplit h1 h2, List.length_take]
  omega

/-- … and the end of the text has index "number of characters" -/
theorem charIndexOf_len (t : Text) (hwf : t.WF) : charIndexOf t t.len = t.segs.length :=
  charIndexOf_split t t.segs [] t.len (by simp) hwf.tiles (by simp [SegsFrom])

theorem charParas_nil (d : Option Nat) (k : Nat) : charParas d k [] = [] := rfl
theorem charParas_cons (d : Option Nat) (k : Nat) (p : List BidiClass) (ps : List (List BidiClass)) :
    charParas d k (p :: ps) = (k, k + p.length, Spec.paraLevel d p) :: charParas d (k + p.length) ps := rfl

theorem PbiExpand_def (ds : DataSource) (t : Text) (d : Option Nat) :
    PbiExpand ds t d ↔
      let o := computeInitialInfo ds t d false
      (paraLevels ds o.lastLevel o.lastPureLtr o.lastHasIso t o.classes).1 =
        Expand.expand t (paraLevels ds o.lastLevel o.lastPureLtr o.lastHasIso (Expand.unitize t)
          (Expand.contract t o.classes .ON)).1 :=
  Iff.rfl

theorem ParaLevelsExpand_def (ds : DataSource) (t : Text) :
    ParaLevelsExpand ds t ↔
      ∀ pl pure hasIso (ocs : List BidiClass), ocs.length = t.len → Expand.UniformOn t ocs →
        (paraLevels ds pl pure hasIso t ocs).1 =
          Expand.expand t (paraLevels ds pl pure hasIso (Expand.unitize t) (Expand.contract t ocs .ON)).1 :=
  Iff.rfl

/-! ### characters, raw classes, base direction -/

/-- the two texts have the same scalar values, character for character -/
theorem C09_same_chars (u : List Nat) :
    (t16 u).segs.map (·.cp) = (t8 u).segs.map (·.cp) ∧ (t16 u).segs.length = (t8 u).segs.length :=
  ⟨sameChars_utf16_utf8 u, (sameChars_utf16_utf8 u).length⟩

/-- … namely the lossy decoding of the code units -/
theorem C09_chars_lossy (u : List Nat) :
    (t16 u).segs.map (·.cp) = (Spec.lossy u).map (·.1) ∧ (t8 u).segs.map (·.cp) = (Spec.lossy u).map (·.1) :=
  ⟨utf16_cps u, ofScalars_cps _⟩

/-- same class from the data source, character for character -/
theorem C09_raw_classes (ds : DataSource) (u : List Nat) : C02.raw ds (t16 u) = C02.raw ds (t8 u) :=
  (sameChars_utf16_utf8 u).raw ds

theorem C09_raw_classes' (ds : DataSource) (u : List Nat) : C16.rawClasses ds (t16 u) = C16.rawClasses ds (t8 u) :=
  C09_raw_classes ds u

/-- base direction (`get_base_direction`, `get_base_direction_full`): identical answers -/
theorem C09_base_direction (ds : DataSource) (u : List Nat) (full : Bool) :
    baseDirection ds (t16 u) full = baseDirection ds (t8 u) full := by
  unfold baseDirection
  rw [(C09_same_chars u).1]

/-- `Expand.unitize` depends on the scalar values only -/
theorem C09_unitize (u : List Nat) : Expand.unitize (t16 u) = Expand.unitize (t8 u) :=
  unitize_congr (C09_same_chars u).1

/-! ### paragraphs -/

/-- generic form: for every well-formed text the reported paragraphs, as (index of the first character,
    index one past the last character, level), are a function of the raw classes: the P1 paragraphs
    (`paragraphsOf`) numbered consecutively, with the level of P2/P3 (or the forced level) -/
theorem C09_paragraphs_generic (ds : DataSource) (t : Text) (d : Option Nat) (hwf : t.WF) :
    (computeInitialInfo ds t d true).paras.map (fun p => (charIndexOf t p.start, charIndexOf t p.stop, p.level))
      = charParas d 0 (paragraphsOf (C02.raw ds t)) :=
  paras_char_view ds t d hwf

/-- paragraphs: same number, same levels, and the k-th paragraph of either text consists of the same
    range of character indices -/
theorem C09_paragraphs (ds : DataSource) (u : List Nat) (h16 : ∀ x ∈ u, x < 65536) (d : Option Nat) :
    let p16 := (computeInitialInfo ds (t16 u) d true).paras
    let p8 := (computeInitialInfo ds (t8 u) d true).paras
    p16.map (·.level) = p8.map (·.level) ∧ p16.length = p8.length ∧
    p16.map (fun p => (charIndexOf (t16 u) p.start, charIndexOf (t16 u) p.stop))
      = p8.map (fun p => (charIndexOf (t8 u) p.start, charIndexOf (t8 u) p.stop)) := by
  intro p16 p8
  have h1 := paras_char_view ds (t16 u) d (t16_WF u h16)
  have h2 := paras_char_view ds (t8 u) d (t8_WF u)
  rw [C09_raw_classes ds u, ← h2] at h1
  refine ⟨?_, ?_, ?_⟩
  · have := congrArg (List.map (fun x : Nat × Nat × Nat => x.2.2)) h1
    simpa [List.map_map, Function.comp_def] using this
  · have := congrArg List.length h1
    simpa using this
  · have := congrArg (List.map (fun x : Nat × Nat × Nat => (x.1, x.2.1))) h1
    simpa [List.map_map, Function.comp_def] using this

/-! ### reported classes -/

/-- generic form: the classes reported by the splitting scan at the first unit of every character are a
    function of the raw classes (X5c, by C02's per-character machine, on every P1 paragraph) -/
theorem C09_classes_generic (ds : DataSource) (t : Text) (d : Option Nat) (hwf : t.WF) :
    t.segs.map (fun s => (computeInitialInfo ds t d true).classes.getD s.start .ON)
      = ((paragraphsOf (C02.raw ds t)).map (fun p => (Lemmas.C02.cRun d p).cls)).flatten :=
  multi_classes_chars ds t d hwf

/-- reported classes (`InitialInfo`, `BidiInfo`: `original_classes`), character for character -/
theorem C09_classes (ds : DataSource) (u : List Nat) (h16 : ∀ x ∈ u, x < 65536) (d : Option Nat) :
    (t16 u).segs.map (fun s => (computeInitialInfo ds (t16 u) d true).classes.getD s.start .ON)
      = (t8 u).segs.map (fun s => (computeInitialInfo ds (t8 u) d true).classes.getD s.start .ON) := by
  rw [C09_classes_generic ds _ d (t16_WF u h16), C09_classes_generic ds _ d (t8_WF u),
    C09_raw_classes ds u]

/-- … and within either text all units of a character carry that class -/
theorem C09_classes_uniform (ds : DataSource) (u : List Nat) (h16 : ∀ x ∈ u, x < 65536) (d : Option Nat)
    (split : Bool) :
    Expand.UniformOn (t16 u) (computeInitialInfo ds (t16 u) d split).classes ∧
    Expand.UniformOn (t8 u) (computeInitialInfo ds (t8 u) d split).classes :=
  ⟨classes_uniformOn ds _ d (t16_WF u h16) split, classes_uniformOn ds _ d (t8_WF u) split⟩

theorem C09_classes_hardcoded (u : List Nat) (h16 : ∀ x ∈ u, x < 65536) (d : Option Nat) :
    (t16 u).segs.map (fun s => (computeInitialInfo hardcoded (t16 u) d true).classes.getD s.start .ON)
      = (t8 u).segs.map (fun s => (computeInitialInfo hardcoded (t8 u) d true).classes.getD s.start .ON) :=
  C09_classes hardcoded u h16 d

/-! ### the single-paragraph API -/

/-- `ParagraphBidiInfo` (the non-splitting scan): same paragraph level, same `pure_ltr` / `has_isolate`
    flags, same reported classes character for character.  (No hypothesis on paragraph separators is
    needed: whatever the non-splitting scan does with them, it does on both texts.) -/
theorem C09_single_paragraph_api (ds : DataSource) (u : List Nat) (h16 : ∀ x ∈ u, x < 65536) (d : Option Nat) :
    let o16 := computeInitialInfo ds (t16 u) d false
    let o8 := computeInitialInfo ds (t8 u) d false
    o16.lastLevel = o8.lastLevel ∧ o16.lastPureLtr = o8.lastPureLtr ∧ o16.lastHasIso = o8.lastHasIso ∧
    (t16 u).segs.map (fun s => o16.classes.getD s.start .ON) = (t8 u).segs.map (fun s => o8.classes.getD s.start .ON) := by
  intro o16 o8
  have hf1 := last_flags ds (t16 u) d false
  have hf2 := last_flags ds (t8 u) d false
  rw [C09_raw_classes ds u, ← hf2] at hf1
  refine ⟨?_, congrArg Prod.fst hf1, congrArg Prod.snd hf1, ?_⟩
  · show (computeInitialInfo ds (t16 u) d false).lastLevel = (computeInitialInfo ds (t8 u) d false).lastLevel
    rw [single_level ds _ d (t16_WF u h16), single_level ds _ d (t8_WF u), C09_raw_classes ds u]
  · have h1 := single_contract ds (t16 u) d (t16_WF u h16)
    have h2 := single_contract ds (t8 u) d (t8_WF u)
    rw [C09_raw_classes ds u, ← h2] at h1
    exact h1

/-- in the words of C02 (`C02_single`): when no character but possibly the last has class B, both are
    the Spec's P2/P3 level and the Spec's X5c resolution of the common raw classes -/
theorem C09_single_paragraph_spec (ds : DataSource) (u : List Nat) (h16 : ∀ x ∈ u, x < 65536) (d : Option Nat)
    (hB : ∀ c ∈ (C02.raw ds (t8 u)).dropLast, c ≠ .B) :
    (computeInitialInfo ds (t16 u) d false).lastLevel = Spec.paraLevel d (C02.raw ds (t8 u)) ∧
    (computeInitialInfo ds (t8 u) d false).lastLevel = Spec.paraLevel d (C02.raw ds (t8 u)) ∧
    (t16 u).segs.map (fun s => (computeInitialInfo ds (t16 u) d false).classes.getD s.start .ON)
      = Spec.resolveFSI (C02.raw ds (t8 u)) ∧
    (t8 u).segs.map (fun s => (computeInitialInfo ds (t8 u) d false).classes.getD s.start .ON)
      = Spec.resolveFSI (C02.raw ds (t8 u)) := by
  have hB16 : ∀ c ∈ (C02.raw ds (t16 u)).dropLast, c ≠ .B := by rw [C09_raw_classes ds u]; exact hB
  obtain ⟨a1, a2⟩ := C02.C02_single ds (t16 u) d (t16_WF u h16) hB16
  obtain ⟨b1, b2⟩ := C02.C02_single ds (t8 u) d (t8_WF u) hB
  rw [C09_raw_classes ds u] at a1 a2
  exact ⟨a1, b1, a2, b2⟩

/-! ### levels, relative to the `Expand` lemma of `compute_bidi_info_for_para`

  The hypothesis comes in two strengths: `ParaLevelsExpand ds t` (the `Expand` lemma for all inputs of
  `compute_bidi_info_for_para` on `t`), and `PbiExpand ds t d`, the single instance of it that
  `ParagraphBidiInfo::new(t, d)` uses (`PbiExpand_of_ParaLevelsExpand`; decidable, so it can be
  evaluated on a given text).  The theorems take the weak one. -/

/-- generic form, `ParagraphBidiInfo`: under the `Expand` hypothesis the levels of a well-formed text are
    the expansion of the levels of the one-unit-per-character text with the same characters, which has
    exactly one level per character -/
theorem C09_levels_single_generic (ds : DataSource) (t : Text) (d : Option Nat) (hwf : t.WF)
    (hexp : PbiExpand ds t d) :
    (paragraphBidiInfo ds t d).levels = Expand.expand t (paragraphBidiInfo ds (Expand.unitize t) d).levels ∧
    (paragraphBidiInfo ds (Expand.unitize t) d).levels.length = t.segs.length :=
  pbi_levels_expand ds t d hwf hexp

/-- `ParagraphBidiInfo`: there is ONE vector of per-character levels of which the UTF-16 levels and the
    UTF-8 levels are the expansions over the respective code units -/
theorem C09_levels_single_of_expand (ds : DataSource) (u : List Nat) (h16 : ∀ x ∈ u, x < 65536) (d : Option Nat)
    (he16 : PbiExpand ds (t16 u) d) (he8 : PbiExpand ds (t8 u) d) :
    ∃ X : List Nat, X.length = (t16 u).segs.length ∧ X.length = (t8 u).segs.length ∧
      (paragraphBidiInfo ds (t16 u) d).levels = Expand.expand (t16 u) X ∧
      (paragraphBidiInfo ds (t8 u) d).levels = Expand.expand (t8 u) X := by
  obtain ⟨a1, a2⟩ := pbi_levels_expand ds (t16 u) d (t16_WF u h16) he16
  obtain ⟨b1, b2⟩ := pbi_levels_expand ds (t8 u) d (t8_WF u) he8
  rw [C09_unitize u] at a1 a2
  exact ⟨_, a2, b2, a1, b1⟩

/-- … hence the same level at the first unit of every character (and, the vectors being expansions, at
    every unit of it) -/
theorem C09_levels_single_chars_of_expand (ds : DataSource) (u : List Nat) (h16 : ∀ x ∈ u, x < 65536)
    (d : Option Nat)
    (he16 : PbiExpand ds (t16 u) d) (he8 : PbiExpand ds (t8 u) d) :
    (t16 u).segs.map (fun s => (paragraphBidiInfo ds (t16 u) d).levels.getD s.start 0)
      = (t8 u).segs.map (fun s => (paragraphBidiInfo ds (t8 u) d).levels.getD s.start 0) := by
  have h1 := pbi_contract ds (t16 u) d (t16_WF u h16) he16 0
  have h2 := pbi_contract ds (t8 u) d (t8_WF u) he8 0
  rw [C09_unitize u, ← h2] at h1
  exact h1

/-- `BidiInfo`: the levels at the first unit of every character agree, provided the `Expand` hypothesis
    holds for the sub-text of every paragraph of either text -/
theorem C09_levels_of_expand (ds : DataSource) (u : List Nat) (h16 : ∀ x ∈ u, x < 65536) (d : Option Nat)
    (he16 : ∀ p ∈ (bidiInfo ds (t16 u) d).paras, PbiExpand ds ((t16 u).subrange p.start p.stop) d)
    (he8 : ∀ p ∈ (bidiInfo ds (t8 u) d).paras, PbiExpand ds ((t8 u).subrange p.start p.stop) d) :
    (t16 u).segs.map (fun s => (bidiInfo ds (t16 u) d).levels.getD s.start 0)
      = (t8 u).segs.map (fun s => (bidiInfo ds (t8 u) d).levels.getD s.start 0) :=
  multi_levels_sameChars (sameChars_utf16_utf8 u) (t16_WF u h16) (t8_WF u) he16 he8 0

/-- … and within either text all units of a character carry the level of its first unit (both types), so
    that agreement at the first units is agreement at every unit -/
theorem C09_levels_uniform_of_expand (ds : DataSource) (t : Text) (d : Option Nat) (hwf : t.WF) :
    ((∀ p ∈ (bidiInfo ds t d).paras, PbiExpand ds (t.subrange p.start p.stop) d) →
      Expand.UniformOn t (bidiInfo ds t d).levels) ∧
    (PbiExpand ds t d → Expand.UniformOn t (paragraphBidiInfo ds t d).levels) :=
  ⟨multi_levels_uniform ds t d hwf, pbi_levels_uniform ds t d hwf⟩

/-- the paragraph sub-texts of a well-formed text are well formed, so
    the general `Expand` lemma for them gives the instances `C09_levels_of_expand` asks for -/
theorem PbiExpand_paras (ds : DataSource) (t : Text) (d : Option Nat) (hwf : t.WF)
    (hexp : ∀ p ∈ (bidiInfo ds t d).paras, ParaLevelsExpand ds (t.subrange p.start p.stop)) :
    ∀ p ∈ (bidiInfo ds t d).paras, PbiExpand ds (t.subrange p.start p.stop) d := by
  intro p hp
  obtain ⟨f, _, hg, _⟩ := Lemmas.C10.parasFrom_mem (Lemmas.C10.paras_good ds t hwf d).1 p hp
  exact PbiExpand_of_ParaLevelsExpand ds _ d hg.1 (hexp p hp)

/-- `C09_levels_of_expand` and `C09_levels_single_chars_of_expand` with the general hypothesis
    `ParaLevelsExpand` -/
theorem C09_levels_of_paraLevelsExpand (ds : DataSource) (u : List Nat) (h16 : ∀ x ∈ u, x < 65536) (d : Option Nat) :
    ((∀ p ∈ (bidiInfo ds (t16 u) d).paras, ParaLevelsExpand ds ((t16 u).subrange p.start p.stop)) →
     (∀ p ∈ (bidiInfo ds (t8 u) d).paras, ParaLevelsExpand ds ((t8 u).subrange p.start p.stop)) →
      (t16 u).segs.map (fun s => (bidiInfo ds (t16 u) d).levels.getD s.start 0)
        = (t8 u).segs.map (fun s => (bidiInfo ds (t8 u) d).levels.getD s.start 0)) ∧
    (ParaLevelsExpand ds (t16 u) → ParaLevelsExpand ds (t8 u) →
      (t16 u).segs.map (fun s => (paragraphBidiInfo ds (t16 u) d).levels.getD s.start 0)
        = (t8 u).segs.map (fun s => (paragraphBidiInfo ds (t8 u) d).levels.getD s.start 0)) := by
  have w16 := t16_WF u h16
  have w8 := t8_WF u
  constructor
  · intro he16 he8
    exact C09_levels_of_expand ds u h16 d (PbiExpand_paras ds _ d w16 he16)
      (PbiExpand_paras ds _ d w8 he8)
  · intro he16 he8
    exact C09_levels_single_chars_of_expand ds u h16 d
      (PbiExpand_of_ParaLevelsExpand ds _ d w16 he16) (PbiExpand_of_ParaLevelsExpand ds _ d w8 he8)

/-- the same when the `Expand` lemma is available for every well-formed text (the form in which
    UBidi/Lemmas/Expand*.lean delivers it), with the built-in tables: no hypothesis left but that one -/
theorem C09_levels_hardcoded_of_expand (hexp : ∀ t : Text, t.WF → ParaLevelsExpand hardcoded t)
    (u : List Nat) (h16 : ∀ x ∈ u, x < 65536) (d : Option Nat) :
    (t16 u).segs.map (fun s => (bidiInfo hardcoded (t16 u) d).levels.getD s.start 0)
      = (t8 u).segs.map (fun s => (bidiInfo hardcoded (t8 u) d).levels.getD s.start 0) ∧
    (t16 u).segs.map (fun s => (paragraphBidiInfo hardcoded (t16 u) d).levels.getD s.start 0)
      = (t8 u).segs.map (fun s => (paragraphBidiInfo hardcoded (t8 u) d).levels.getD s.start 0) := by
  have w16 := t16_WF u h16
  have w8 := t8_WF u
  have sub : ∀ (t : Text), t.WF → ∀ p ∈ (bidiInfo hardcoded t d).paras,
      ParaLevelsExpand hardcoded (t.subrange p.start p.stop) := by
    intro t hwf p hp
    obtain ⟨f, _, hg, _⟩ := Lemmas.C10.parasFrom_mem (Lemmas.C10.paras_good hardcoded t hwf d).1 p hp
    exact hexp _ hg.1
  obtain ⟨m, s⟩ := C09_levels_of_paraLevelsExpand hardcoded u h16 d
  exact ⟨m (sub _ w16) (sub _ w8), s (hexp _ w16) (hexp _ w8)⟩

/-! ### non-vacuity and tests

  The evaluations on the sample text (`sample`: `A`, a surrogate pair, `א`, a lone high surrogate, space,
  FSI, `ا`, LF, `1`) are in UBidi/Lemmas/C09Tests1.lean, C09Tests2.lean, C09Tests3.lean (`decide +kernel` on literals:
  tests, not proofs). -/

theorem bidiInfo_paras (ds : DataSource) (t : Text) (d : Option Nat) :
    (bidiInfo ds t d).paras = (computeInitialInfo ds t d true).paras := rfl

theorem sample16_eq : sample16 = t16 sample := rfl
theorem sample8_eq : sample8 = t8 sample := rfl

/-- the hypothesis of the theorems holds for the sample -/
example : ∀ x ∈ sample, x < 65536 := by decide

/-- test: the two texts differ in their code units (10 against 18, different character offsets) -/
example : (t16 sample).len = 10 ∧ (t8 sample).len = 18 ∧
    (t16 sample).segs.map (·.start) = [0, 1, 3, 4, 5, 6, 7, 8, 9] ∧
    (t8 sample).segs.map (·.start) = [0, 1, 5, 7, 10, 11, 14, 16, 17] ∧
    (t8 sample).segs.map (·.cp) = [0x41, 0x10401, 0x5D0, 0xFFFD, 0x20, 0x2068, 0x627, 0xA, 0x31] :=
  sample_texts

/-- test: two paragraphs, at different code-unit offsets ([0,9) [9,10) against [0,17) [17,18)), the same
    character ranges [0,8) [8,9) -/
example : (computeInitialInfo hardcoded (t16 sample) none true).paras.map
      (fun p => (charIndexOf (t16 sample) p.start, charIndexOf (t16 sample) p.stop)) = [(0, 8), (8, 9)] ∧
    (computeInitialInfo hardcoded (t8 sample) none true).paras.map
      (fun p => (charIndexOf (t8 sample) p.start, charIndexOf (t8 sample) p.stop)) = [(0, 8), (8, 9)] := by
  rw [← sample16_eq, ← sample8_eq, sample_paras.1, sample_paras.2]
  exact sample_para_chars

/-- test: the reported classes per character (the FSI has become RLI), the levels (10 against 18 entries) -/
example : (t16 sample).segs.map (fun s => (computeInitialInfo hardcoded (t16 sample) none true).classes.getD s.start .ON)
      = [.L, .L, .R, .ON, .WS, .RLI, .AL, .B, .EN] ∧
    (bidiInfo hardcoded (t16 sample) none).levels = [0, 0, 0, 1, 0, 0, 0, 1, 0, 0] ∧
    (bidiInfo hardcoded (t8 sample) none).levels = [0, 0, 0, 0, 0, 1, 1, 0, 0, 0, 0, 0, 0, 0, 1, 1, 0, 0] :=
  ⟨sample_classes, sample_levels.1, sample_levels.2⟩

/-- non-vacuity of the `Expand` hypotheses (by evaluation on the sample): `PbiExpand` holds for both texts
    (hypotheses of `C09_levels_single_of_expand`) and for the sub-text of every paragraph of either text
    (hypotheses of `C09_levels_of_expand`).  The general `ParaLevelsExpand` quantifies over all class
    vectors; it is a theorem of UBidi/Lemmas/Expand*.lean, not something to evaluate. -/
example : PbiExpand hardcoded (t16 sample) none ∧ PbiExpand hardcoded (t8 sample) none ∧
    (∀ p ∈ (bidiInfo hardcoded (t16 sample) none).paras, PbiExpand hardcoded ((t16 sample).subrange p.start p.stop) none) ∧
    (∀ p ∈ (bidiInfo hardcoded (t8 sample) none).paras, PbiExpand hardcoded ((t8 sample).subrange p.start p.stop) none) := by
  refine ⟨sample_PbiExpand.1, sample_PbiExpand.2, ?_, ?_⟩
  · rw [bidiInfo_paras, ← sample16_eq, sample_paras.1]; exact sample_PbiExpand_paras.1
  · rw [bidiInfo_paras, ← sample8_eq, sample_paras.2]; exact sample_PbiExpand_paras.2

end UBidi.Props.C09
