/- C10 — paragraph independence (`C10_slice*`) and the single-paragraph API agrees with the multi-paragraph API
   (`C10_single*`); see DESIGN.md §5 -/
import UBidi.Model.Reorder
import UBidi.Spec.UAX9
import UBidi.Spec.Reorder
import UBidi.Lemmas.C10
import UBidi.Lemmas.C10Slice
namespace UBidi.Props.C10
open UBidi UBidi.Lemmas.C10

/-- for a text that is one paragraph (no B, or only as its last character) the single-paragraph type
    (`ParagraphBidiInfo`) reports what the multi-paragraph type (`BidiInfo`) reports: same classes, same
    levels, same panic behaviour, and the one paragraph of `BidiInfo` is `[0, len)` at the paragraph level
    of `ParagraphBidiInfo`.

    The line queries of the two types — `reorderedLevels`, `reorderedLevelsPerChar`, `visualRunsForLine`,
    `reorderLine` — are the *same* Model functions applied to `(t, classes, levels, paraLevel, line)`;
    since those arguments agree, line levels, visual runs and reordered lines agree as well
    (`congrArg`, no further proof needed). -/
theorem C10_single (ds : DataSource) (t : Text) (hwf : t.WF) (hne : 0 < t.len) (d : Option Nat)
    (hB : ∀ s ∈ t.segs.dropLast, ds.cls s.cp ≠ .B) :
    let b := bidiInfo ds t d; let p := paragraphBidiInfo ds t d
    b.classes = p.classes ∧ b.levels = p.levels ∧ b.paras = [{ start := 0, stop := t.len, level := p.paraLevel }] ∧ b.err = p.err := by
  obtain ⟨h1, h2, h3, h4, h5⟩ := cii_single ds t hwf hne d hB
  simp only [bidiInfo, paragraphBidiInfo, h1, h2, h3, h4, List.zip_cons_cons, List.zip_nil_right,
    List.foldl_cons, List.foldl_nil, subrange_full t hwf, slice_zero_of_length_le _ _ (Nat.le_of_eq h5),
    List.nil_append]
  simp

/-- the consequence spelled out for one line query: reordering a line gives the same result through either type -/
theorem C10_single_reorder_line (ds : DataSource) (t : Text) (hwf : t.WF) (hne : 0 < t.len) (d : Option Nat)
    (hB : ∀ s ∈ t.segs.dropLast, ds.cls s.cp ≠ .B) (a b : Nat) :
    let bi := bidiInfo ds t d; let p := paragraphBidiInfo ds t d
    ∃ para, bi.paras = [para] ∧
      reorderLine t bi.classes bi.levels para.level a b = reorderLine t p.classes p.levels p.paraLevel a b ∧
      reorderedLevels t bi.classes bi.levels para.level a b = reorderedLevels t p.classes p.levels p.paraLevel a b ∧
      visualRunsForLine bi.levels a b = visualRunsForLine p.levels a b := by
  obtain ⟨h1, h2, h3, _⟩ := C10_single ds t hwf hne d hB
  exact ⟨_, h3, by rw [h1, h2], by rw [h1, h2], by rw [h2]⟩

/- non-vacuity: "aא(1)" followed by U+2029 (class B, three UTF-8 code units) with the built-in tables meets the
   hypotheses; `Lemmas.C10.ofScalars_WF` shows every `&str` is well-formed.  Its levels are [0,1,1,1,2,1,0,0,0]. -/
example : let t := Text.ofScalars [0x61, 0x5D0, 0x28, 0x31, 0x29, 0x2029]
    t.WF ∧ 0 < t.len ∧ ∀ s ∈ t.segs.dropLast, hardcoded.cls s.cp ≠ .B :=
  ⟨ofScalars_WF _, by decide, by decide +kernel⟩
/- test (literal): the hypothesis on B cannot be dropped — with a B in the middle the two types differ -/
example : (bidiInfo hardcoded (Text.ofScalars [0x5D0, 0x0A, 0x61]) none).levels ≠
    (paragraphBidiInfo hardcoded (Text.ofScalars [0x5D0, 0x0A, 0x61]) none).levels := by decide +kernel

/-! ### paragraph independence -/

/-- Analysing the substring of a paragraph alone gives what the whole-text analysis gives for that paragraph:
    for every paragraph `p` that `BidiInfo` reports for a well-formed text, `ParagraphBidiInfo` of
    `text[p.range]` (same default level) has the classes and the levels of `BidiInfo` restricted to `p.range`
    and the paragraph level recorded in `p`; if the whole-text analysis does not panic, neither does the
    paragraph's.  (Proof: the scanner state after a B equals the initial state — paraLevel := default, empty
    isolate stack, flags reset —, so the scan of the rest simulates the scan of the rest alone shifted by
    `para_start` (`Lemmas.C10.sim_step`); `compute_bidi_info_for_para` only sees the slices.) -/
theorem C10_slice (ds : DataSource) (t : Text) (hwf : t.WF) (d : Option Nat) (p : ParaInfo)
    (hp : p ∈ (bidiInfo ds t d).paras) :
    let b := bidiInfo ds t d; let q := paragraphBidiInfo ds (t.subrange p.start p.stop) d
    q.classes = slice b.classes p.start p.stop ∧ q.levels = slice b.levels p.start p.stop ∧
    q.paraLevel = p.level ∧ (b.err = none → q.err = none) := by
  have hgood := (paras_good ds t hwf d).1
  rw [bidiInfo_eq] at hp ⊢
  simp only at hp ⊢
  obtain ⟨f, hpf, ⟨hw, g0, g1, g2, g3, g4, g5⟩, _⟩ := parasFrom_mem hgood p hp
  obtain ⟨_, l2, _, l3⟩ := levels_fold ds t d _ _ t.len _ _ 0 hgood ([], (computeInitialInfo ds t d true).err) rfl
  obtain ⟨l4, l5⟩ := l3 p f hpf
  simp only [paragraphBidiInfo, g1, g2, g3, g4]
  refine ⟨trivial, l4.symm, trivial, fun hn => ?_⟩
  rw [g5 (l2 hn), l5 hn]; rfl

/-- panics are per paragraph: the whole-text analysis is panic-free exactly when the analysis of every
    paragraph's substring alone is -/
theorem C10_slice_err (ds : DataSource) (t : Text) (hwf : t.WF) (d : Option Nat) :
    (bidiInfo ds t d).err = none ↔
      ∀ p ∈ (bidiInfo ds t d).paras, (paragraphBidiInfo ds (t.subrange p.start p.stop) d).err = none := by
  constructor
  · intro h p hp
    exact (C10_slice ds t hwf d p hp).2.2.2 h
  · intro h
    obtain ⟨hgood, herr⟩ := paras_good ds t hwf d
    rw [bidiInfo_eq] at h ⊢
    simp only at h ⊢
    obtain ⟨_, _, l3, _⟩ := levels_fold ds t d _ _ t.len _ _ 0 hgood ([], (computeInitialInfo ds t d true).err) rfl
    have key : ∀ p f, (p, f) ∈ (computeInitialInfo ds t d true).paras.zip (computeInitialInfo ds t d true).flags →
        (computeInitialInfo ds (t.subrange p.start p.stop) d false).err = none ∧
        (paraLevels ds p.level f.pureLtr f.hasIso (t.subrange p.start p.stop)
          (slice (computeInitialInfo ds t d true).classes p.start p.stop)).2 = none := by
      intro p f hpf
      obtain ⟨hw, g0, g1, g2, g3, g4, g5⟩ := parasFrom_zip_mem hgood p f hpf
      have := h p (List.of_mem_zip hpf).1
      simp only [paragraphBidiInfo, g1, g2, g3, g4] at this
      exact (orErr_eq_none _ _).mp this
    exact l3 (herr (fun p f hpf => (key p f hpf).1)) (fun p f hpf => (key p f hpf).2)

/-- the same with the multi-paragraph type on the substring (DESIGN.md: `restrict (bidiInfo text dir) p =
    bidiInfo (text[p.range]) dir`): it reports one paragraph `[0, p.stop - p.start)` at `p`'s level, and the
    classes and levels of the whole-text result restricted to `p.range` -/
theorem C10_slice_multi (ds : DataSource) (t : Text) (hwf : t.WF) (d : Option Nat) (p : ParaInfo)
    (hp : p ∈ (bidiInfo ds t d).paras) :
    let b := bidiInfo ds t d; let b' := bidiInfo ds (t.subrange p.start p.stop) d
    b'.classes = slice b.classes p.start p.stop ∧ b'.levels = slice b.levels p.start p.stop ∧
    b'.paras = [{ start := 0, stop := p.stop - p.start, level := p.level }] ∧ (b.err = none → b'.err = none) := by
  obtain ⟨c1, c2, c3, c4⟩ := C10_slice ds t hwf d p hp
  have hgood := (paras_good ds t hwf d).1
  have hp' : p ∈ (computeInitialInfo ds t d true).paras := hp
  obtain ⟨f, hpf, ⟨hw, g0, _⟩, hlt⟩ := parasFrom_mem hgood p hp'
  have hlen : (t.subrange p.start p.stop).len = p.stop - p.start := rfl
  obtain ⟨s1, s2, s3, s4⟩ := C10_single ds (t.subrange p.start p.stop) hw (by rw [hlen]; omega) d g0
  exact ⟨s1.trans c1, s2.trans c2, by rw [s3, c3, hlen], fun h => s4.trans (c4 h)⟩

/- Not covered: the *line* queries on the paragraph substring versus the whole text.  They are the same Model
   functions applied to the restricted fields, but their results carry absolute code-unit positions (runs,
   `Seg.start` of the pieces), so the statement would be "equal up to a shift by `p.start`"; it needs
   `slice`-of-`slice` / `subrange`-of-`subrange` lemmas and a shift lemma for `visualRunsForLine`. -/

/- non-vacuity: "א RLI ␊ a(ב) PS 1" (an unclosed isolate before the first separator, U+2029 as second separator)
   has three paragraphs; the middle one, [6,14) at level 0, is a member of `paras`.
   Test (literal): its levels alone are the whole-text levels [1,1,1,1,1,1, 0,0,1,1,0,0,0,0, 0] restricted to [6,14). -/
example : ({ start := 6, stop := 14, level := 0 } : ParaInfo) ∈
    (bidiInfo hardcoded (Text.ofScalars [0x5D0, 0x2067, 0x0A, 0x61, 0x28, 0x5D1, 0x29, 0x2029, 0x31]) none).paras := by
  decide +kernel
example : (paragraphBidiInfo hardcoded
      ((Text.ofScalars [0x5D0, 0x2067, 0x0A, 0x61, 0x28, 0x5D1, 0x29, 0x2029, 0x31]).subrange 6 14) none).levels =
    [0, 0, 1, 1, 0, 0, 0, 0] := by decide +kernel

end UBidi.Props.C10
