/- C18 — UTF-16 text access decodes like lossy UTF-16 and iterates consistently.

   Everything is stated for arbitrary `u : List Nat`; only `C18_wf` needs the units to be
   genuine 16-bit values (`∀ x ∈ u, x < 65536`), because `Text.WF.lens` compares the
   segment length with `utf16Len` of the scalar and a "unit" `≥ 0x10000` would be a
   one-unit character with `utf16Len = 2` (see the tests at the end).

   Proof idea: an index `i` is `good` when it does not lie between a high surrogate and
   a low one.  `Spec.lossy` splits over a cut at every good index (`lossy_slice_split`),
   `charAt` at a good index returns the first lossy character and lands on a good index
   (`charAt_good`), and answers `none` at every index that is not good (`charAt_not_good`);
   the double-ended iterator keeps both of its ends good. -/
import UBidi.Model.Utf16
import UBidi.Spec.Reorder
import UBidi.Lemmas.C18Iter
namespace UBidi.Props.C18
open UBidi UBidi.Lemmas.C18

theorem charAt_out_of_range (u : List Nat) (i : Nat) (h : u.length ≤ i) : Utf16.charAt u i = none := by
  unfold Utf16.charAt
  have : u[i]? = none := by simp [h]
  simp [this]

/-- the forward iterators (`char_indices`, `indices_lengths`, `chars`) decode lossily -/
theorem C18_segments (u : List Nat) :
    (Utf16.segments u).map (fun s => (s.cp, s.len)) = Spec.lossy u := by
  rw [segments_eq, map_lay]

/-- the characters tile `[0, len)` -/
theorem C18_tiles (u : List Nat) : SegsFrom 0 (Utf16.segments u) u.length := by
  rw [segments_eq]
  have := segsFrom_lay_lossy 0 u
  rwa [Nat.zero_add] at this

/-- `&[u16]` texts are well formed (for genuine 16-bit units; see the header) -/
theorem C18_wf (u : List Nat) (h16 : ∀ x ∈ u, x < 65536) : (Utf16.toText u).WF := by
  constructor
  · exact C18_tiles u
  · intro s hs
    have hs' : s ∈ lay 0 (Spec.lossy u) := by rw [← segments_eq]; exact hs
    exact lossy_lens u h16 _ (mem_lay hs')

/-- the lengths of the decoded characters add up to the number of units -/
theorem C18_len_sum (u : List Nat) : ((Spec.lossy u).map (·.2)).foldl (· + ·) 0 = u.length := by
  rw [lossy_len_sum, Nat.zero_add]

/-- random access: the segmentation's character when the index starts one, nothing otherwise
    (including inside a pair and past the end) -/
theorem C18_char_at (u : List Nat) (i : Nat) :
    Utf16.charAt u i =
      ((Utf16.segments u).find? (fun s => s.start == i)).map (fun s => (s.cp, s.len)) := by
  cases hf : (Utf16.segments u).find? (fun s => s.start == i) with
  | some s =>
    have hm : s ∈ Utf16.segments u := List.mem_of_find?_eq_some hf
    have hp := List.find?_some hf
    have hsi : s.start = i := by simpa using hp
    have := mem_iterFrom u _ _ s hm
    rw [hsi] at this
    rw [this]; rfl
  | none =>
    simp only [Option.map_none]
    cases hc : Utf16.charAt u i with
    | none => rfl
    | some q =>
      exfalso
      obtain ⟨hi, hg⟩ := charAt_some_good u hc
      obtain ⟨s, hm, h1, h2⟩ := segsFrom_cover _ 0 u.length i (C18_tiles u) (Nat.zero_le _) hi
      have hs := mem_iterFrom u _ _ s hm
      have hne : s.start ≠ i := by
        intro he
        have := List.find?_eq_none.mp hf s hm
        simp [he] at this
      have := charAt_skips u hs i (by omega) h2
      rw [this] at hg; cases hg

/-! ### the double-ended iterator -/

/-- outputs of a sequence of steps on the Model iterator: `true` = next, `false` = next_back -/
def iterRun (u : List Nat) : Utf16.Iter → List Bool → List (Option Nat)
  | _, [] => []
  | it, op :: ops =>
    let r := if op then Utf16.Iter.next u it else Utf16.Iter.nextBack u it
    r.1 :: iterRun u r.2 ops

/-- the same steps on a plain double-ended queue of characters -/
def dequeRun : List Nat → List Bool → List (Option Nat)
  | _, [] => []
  | cs, true :: ops => match cs with
      | [] => none :: dequeRun [] ops
      | c :: rest => some c :: dequeRun rest ops
  | cs, false :: ops => match cs.getLast? with
      | none => none :: dequeRun [] ops
      | some c => some c :: dequeRun cs.dropLast ops

theorem iterRun_eq (u : List Nat) (ops : List Bool) : ∀ it, Inv u it →
    iterRun u it ops = dequeRun (deque u it) ops := by
  induction ops with
  | nil => intro it _; simp [iterRun, dequeRun]
  | cons op ops ih =>
    intro it hinv
    cases op with
    | true =>
      obtain ⟨hinv', hstep⟩ := next_spec u it hinv
      simp only [iterRun, if_true]
      rw [ih _ hinv']
      rcases hstep with ⟨hd, hn, hd'⟩ | ⟨c, hn, hd⟩
      · rw [hd, hn, hd']; simp [dequeRun]
      · rw [hd, hn]; simp [dequeRun]
    | false =>
      obtain ⟨hinv', hstep⟩ := nextBack_spec u it hinv
      simp only [iterRun, Bool.false_eq_true, if_false]
      rw [ih _ hinv']
      rcases hstep with ⟨hd, hn, hd'⟩ | ⟨c, hn, hd⟩
      · rw [hd, hn, hd']; simp [dequeRun]
      · rw [hd, hn]; simp [dequeRun]

/-- Whatever the interleaving of steps from the front and from the back, every character of
    the lossy decoding is yielded exactly once, in order, and `none` forever once exhausted. -/
theorem C18_double_ended (u : List Nat) (ops : List Bool) :
    iterRun u (Utf16.Iter.new u) ops = dequeRun ((Spec.lossy u).map (·.1)) ops := by
  rw [iterRun_eq u ops _ (inv_new u), deque_new]

/-! ### tests (non-vacuity; `decide` on literals is a test, not a proof) -/

/-- test input: BMP, a pair, lone high, lone low, low-then-high at the end -/
def sample : List Nat := [0x41, 0xD801, 0xDC01, 0x20, 0xD800, 0x20, 0xDFFF, 0x20, 0xDC00, 0xD800]

-- test: the decoding of the sample has a pair, replacements and plain units
example : Spec.lossy sample =
    [(0x41, 1), (0x10401, 2), (0x20, 1), (0xFFFD, 1), (0x20, 1), (0xFFFD, 1), (0x20, 1),
     (0xFFFD, 1), (0xFFFD, 1)] := by decide
-- test: the Model's segments of the sample
example : (Utf16.segments sample).map (fun s => (s.start, s.cp, s.len)) =
    [(0, 0x41, 1), (1, 0x10401, 2), (3, 0x20, 1), (4, 0xFFFD, 1), (5, 0x20, 1), (6, 0xFFFD, 1),
     (7, 0x20, 1), (8, 0xFFFD, 1), (9, 0xFFFD, 1)] := by decide
-- test: the hypothesis of `C18_wf` holds on the sample
example : ∀ x ∈ sample, x < 65536 := by decide
-- test: without it `lens` fails — a "unit" 0x10000 is a 1-unit character whose `utf16Len` is 2
example : (Utf16.segments [0x10000]).map (fun s => (s.len, utf16Len s.cp)) = [(1, 2)] := by decide
-- test: random access inside the pair and past the end answers `none`, at a start the character
example : Utf16.charAt sample 2 = none ∧ Utf16.charAt sample 10 = none ∧
    Utf16.charAt sample 1 = some (0x10401, 2) := by decide
-- test: `[hi, hi, lo]` — index 1 starts the pair, index 2 is inside it
example : (List.range 4).map (Utf16.charAt [0xD800, 0xD800, 0xDC00]) =
    [some (0xFFFD, 1), some (0x10000, 2), none, none] := by decide
-- test: an interleaving on the sample meets in the middle and then stays `none`
example : iterRun sample (Utf16.Iter.new sample) [true, false, true, false, false, true, true, false, true, true, false] =
    [some 0x41, some 0xFFFD, some 0x10401, some 0xFFFD, some 0x20, some 0x20, some 0xFFFD, some 0xFFFD,
     some 0x20, none, none] := by decide

end UBidi.Props.C18
