/- C18 — UTF-16 text access.  (first layer) -/
import UBidi.Model.Utf16
import UBidi.Spec.Reorder
namespace UBidi.Props.C18
open UBidi

theorem charAt_out_of_range (u : List Nat) (i : Nat) (h : u.length ≤ i) : Utf16.charAt u i = none := by
  unfold Utf16.charAt
  have : u[i]? = none := by simp [h]
  simp [this]

end UBidi.Props.C18
