/-
  C07 helpers, part 1: the level runs produced by `explicitCompute` are non-empty, so the
  asserts of `prepare::isolating_run_sequences` are unreachable and every isolating run
  sequence has at least one run.
-/
import UBidi.Model.Pipeline
namespace UBidi.Lemmas.C07
open UBidi UBidi.BidiClass

theorem orErr_none_iff (a b : Option Panic) : orErr a b = none ↔ a = none ∧ b = none := by
  cases a <;> simp [orErr]

/-! ### the runs of `explicitCompute` -/

/-- what the fold of `explicitCompute` maintains about `curStart` and `runs`; `pos` is the
    number of code units emitted so far -/
structure RunInv (st : ExState) (pos : Nat) : Prop where
  len : st.levels.length = pos
  cur0 : pos = 0 → st.curStart = 0
  cur : 0 < pos → st.curStart < pos
  runs : ∀ r ∈ st.runs, r.1 < r.2

theorem exStep_runInv (pl : Nat) (ocs : List BidiClass) (st : ExState) (s : Seg) (pos : Nat)
    (h : RunInv st pos) (hs : s.start = pos) (hl : 0 < s.len) :
    RunInv (exStep pl ocs st s) (pos + s.len) := by
  obtain ⟨h1, h2, h3, h4⟩ := h
  unfold exStep
  simp only []
  split
  · rename_i h0
    have h0' : pos = 0 := by simpa [hs] using h0
    constructor
    · simp [h1]
    · intro; omega
    · intro _; simp only; rw [h2 h0']; omega
    · exact h4
  · rename_i h0
    have h0' : 0 < pos := by
      have : ¬ s.start = 0 := by simpa using h0
      omega
    split
    · constructor
      · simp [h1]
      · intro; omega
      · intro _; simp only; omega
      · intro r hr
        simp only [List.mem_append, List.mem_singleton] at hr
        rcases hr with hr | rfl
        · exact h4 r hr
        · simp only; have := h3 h0'; omega
    · constructor
      · simp [h1]
      · intro; omega
      · intro _; simp only; have := h3 h0'; omega
      · exact h4

theorem fold_runInv (pl : Nat) (ocs : List BidiClass) :
    ∀ (segs : List Seg) (st : ExState) (pos e : Nat), SegsFrom pos segs e → RunInv st pos →
      RunInv (segs.foldl (exStep pl ocs) st) e
  | [], st, pos, e, h, hi => by simp only [SegsFrom] at h; subst h; exact hi
  | s :: segs, st, pos, e, h, hi => by
    simp only [SegsFrom] at h
    exact fold_runInv pl ocs segs _ _ e h.2.2 (exStep_runInv pl ocs st s pos hi h.1 h.2.1)

/-- every level run reported by `explicit::compute` on a well-formed text is non-empty -/
theorem explicit_runs_nonempty (t : Text) (hwf : t.WF) (pl : Nat) (ocs : List BidiClass) :
    ∀ r ∈ (explicitCompute t pl ocs).runs, r.1 < r.2 := by
  have := fold_runInv pl ocs t.segs
    { stack := [{ level := pl, status := .neutral }],
      err := if t.len = ocs.length then none else some .explicitLenMismatch } 0 t.len hwf.tiles
    ⟨rfl, fun _ => rfl, fun h => absurd h (Nat.lt_irrefl 0), by intro r hr; simp at hr⟩
  intro r hr
  simp only [explicitCompute] at hr
  generalize List.foldl (exStep pl ocs) _ t.segs = st at this hr
  by_cases hc : st.levels.length > st.curStart
  · rw [if_pos hc] at hr
    simp only [List.mem_append, List.mem_singleton] at hr
    rcases hr with hr | rfl
    · exact this.runs r hr
    · exact hc
  · rw [if_neg hc] at hr
    exact this.runs r hr

/-! ### `prepStep` and `isolatingRunSequences` -/

structure PrepInv (st : PrepState) : Prop where
  stack : st.stack ≠ []
  done : ∀ s ∈ st.done, s ≠ []
  err : st.err = none

theorem prepStep_inv (ocs : List BidiClass) (st : PrepState) (run : Nat × Nat) (h : PrepInv st)
    (hr : run.1 < run.2) : PrepInv (prepStep ocs st run) := by
  obtain ⟨h1, h2, h3⟩ := h
  have hne : st.stack.isEmpty = false := by
    cases hst : st.stack with
    | nil => exact absurd hst h1
    | cons a as => rfl
  have herr : orErr st.err (if (decide (run.1 < run.2) && !st.stack.isEmpty) = true then none
      else some Panic.prepareAssert) = none := by
    simp [h3, hr, hne, orErr]
  unfold prepStep
  simp only [herr]
  by_cases hc : (ocs.getD run.1 ON == PDI && decide (st.stack.length > 1)) = true
  · have hlen : st.stack.length > 1 := by
      simp only [Bool.and_eq_true, decide_eq_true_eq] at hc; exact hc.2
    have htail : st.stack.tail ≠ [] := by
      cases hst : st.stack with
      | nil => exact absurd hst h1
      | cons a as =>
        rw [hst] at hlen
        cases as with
        | nil => simp at hlen
        | cons b bs => simp
    simp only [hc, if_true]
    split
    · exact ⟨by simp, h2, rfl⟩
    · refine ⟨htail, ?_, rfl⟩
      intro s hs
      simp only [List.mem_append, List.mem_singleton] at hs
      rcases hs with hs | rfl
      · exact h2 s hs
      · simp
  · simp only [hc]
    split
    · exact ⟨by simp, h2, rfl⟩
    · refine ⟨h1, ?_, rfl⟩
      intro s hs
      simp only [List.mem_append, List.mem_singleton] at hs
      rcases hs with hs | rfl
      · exact h2 s hs
      · simp

theorem fold_prepInv (ocs : List BidiClass) :
    ∀ (runs : List (Nat × Nat)) (st : PrepState), PrepInv st → (∀ r ∈ runs, r.1 < r.2) →
      PrepInv (runs.foldl (prepStep ocs) st)
  | [], _, h, _ => h
  | r :: runs, st, h, hr =>
    fold_prepInv ocs runs _ (prepStep_inv ocs st r h (hr r (by simp))) (fun x hx => hr x (by simp [hx]))

theorem seqBounds_runs (pl : Nat) (ocs : List BidiClass) (lv : List Nat) (runs : List (Nat × Nat)) :
    (seqBounds pl ocs lv runs).1.runs = runs := by
  unfold seqBounds
  split <;> rfl

theorem seqBounds_err (pl : Nat) (ocs : List BidiClass) (lv : List Nat) (runs : List (Nat × Nat))
    (h : runs ≠ []) : (seqBounds pl ocs lv runs).2 = none := by
  unfold seqBounds
  split
  · exact absurd rfl h
  · rfl

theorem foldl_orErr_none {α} (f : α → Option Panic) (xs : List α) (h : ∀ x ∈ xs, f x = none) :
    xs.foldl (fun e r => orErr e (f r)) none = none := by
  induction xs with
  | nil => rfl
  | cons x xs ih =>
    simp only [List.foldl_cons, orErr, h x (by simp)]
    exact ih (fun y hy => h y (by simp [hy]))

/-- BD13: with non-empty level runs the asserts (prepare.rs:124-125, `pop().unwrap()`, :163) are
    unreachable, and every isolating run sequence has at least one run -/
theorem isolatingRunSequences_ok (pl : Nat) (ocs : List BidiClass) (levels : List Nat)
    (runs : List (Nat × Nat)) (hasIso : Bool) (hr : ∀ r ∈ runs, r.1 < r.2) :
    (isolatingRunSequences pl ocs levels runs hasIso).2 = none ∧
    ∀ s ∈ (isolatingRunSequences pl ocs levels runs hasIso).1, s.runs ≠ [] := by
  unfold isolatingRunSequences
  split
  · refine ⟨rfl, ?_⟩
    intro s hs
    simp only [List.mem_map] at hs
    obtain ⟨r, _, rfl⟩ := hs
    simp [seqOfRunFast]
  · have hinv := fold_prepInv ocs runs { stack := [[]], done := [] }
      ⟨by simp, by intro s hs; simp at hs, rfl⟩ hr
    have hseqs : ∀ s ∈ (runs.foldl (prepStep ocs) { stack := [[]], done := [] }).done ++
        (runs.foldl (prepStep ocs) { stack := [[]], done := [] }).stack.filter (fun s => !s.isEmpty),
        s ≠ [] := by
      intro s hs
      simp only [List.mem_append, List.mem_filter] at hs
      rcases hs with hs | ⟨_, hs⟩
      · exact hinv.done s hs
      · intro h; subst h; simp at hs
    simp only []
    constructor
    · rw [hinv.err]
      rw [List.foldl_map]
      apply foldl_orErr_none (fun s => (seqBounds pl ocs levels s).2)
      intro s hs
      exact seqBounds_err pl ocs levels s (hseqs s hs)
    · intro s hs
      simp only [List.map_map, List.mem_map, Function.comp] at hs
      obtain ⟨rs, hrs, rfl⟩ := hs
      rw [seqBounds_runs]
      exact hseqs rs hrs

end UBidi.Lemmas.C07
