/-
  C13 — the Bool depth-counter formulation of `IsoBalanced` and its equivalence (decidability).
-/
import UBidi.Lemmas.C13Match
namespace UBidi.Props.C13
open UBidi UBidi.Spec BidiClass

/-- depth-counter formulation of `IsoBalanced` (decidable): no paragraph separator, the depth never
    goes below 0 and ends at 0 -/
def balD : Nat → List BidiClass → Bool
  | d, [] => d == 0
  | d, c :: cs =>
    if c == B then false
    else if isIsoInit c then balD (d + 1) cs
    else if c == PDI then (decide (d > 0) && balD (d - 1) cs)
    else balD d cs

theorem balD_append (w : List BidiClass) (hw : IsoBalanced w) (d : Nat) (rest : List BidiClass) :
    balD d (w ++ rest) = balD d rest := by
  induction hw generalizing d rest with
  | nil => rfl
  | other c w h1 h2 h3 h4 h5 _ ih =>
    have hiso : isIsoInit c = false := by cases c <;> simp_all [isIsoInit]
    have hB : (c == B) = false := by simpa using h1
    have hP : (c == PDI) = false := by simpa using h5
    simp [balD, hB, hiso, hP, ih]
  | iso i w v hi _ _ ihw ihv =>
    have hiso : isIsoInit i = true := (isIsoInit_iff i).2 hi
    have hB : (i == B) = false := by rcases hi with rfl | rfl | rfl <;> rfl
    have e : (i :: w ++ PDI :: v) ++ rest = i :: (w ++ PDI :: (v ++ rest)) := by simp
    rw [e]
    have hP : isIsoInit PDI = false := rfl
    simp only [balD, hB, hiso, Bool.false_eq_true, if_false, if_true, ihw, hP, beq_self_eq_true,
      Nat.add_sub_cancel, ihv]
    simp

/-- `d` closing PDIs are still owed -/
def BalN : Nat → List BidiClass → Prop
  | 0, w => IsoBalanced w
  | d + 1, w => ∃ u v, w = u ++ PDI :: v ∧ IsoBalanced u ∧ BalN d v

theorem balD_sound (w : List BidiClass) : ∀ d, balD d w = true → BalN d w := by
  induction w with
  | nil =>
    intro d h
    simp [balD] at h; subst h; exact .nil
  | cons c cs ih =>
    intro d h
    simp only [balD] at h
    by_cases hB : c = B
    · simp [hB] at h
    have hB' : (c == B) = false := by simpa using hB
    simp only [hB', Bool.false_eq_true, if_false] at h
    by_cases hiso : isIsoInit c = true
    · simp only [hiso, if_true] at h
      obtain ⟨u, v, rfl, hu, hv⟩ := ih (d + 1) h
      cases d with
      | zero => exact .iso c u v ((isIsoInit_iff c).1 hiso) hu hv
      | succ d =>
        obtain ⟨u', v', rfl, hu', hv'⟩ := hv
        exact ⟨c :: u ++ PDI :: u', v', by simp, .iso c u u' ((isIsoInit_iff c).1 hiso) hu hu', hv'⟩
    · simp only [hiso, Bool.false_eq_true, if_false] at h
      by_cases hP : c = PDI
      · subst hP
        simp only [beq_self_eq_true, if_true, Bool.and_eq_true, decide_eq_true_eq] at h
        obtain ⟨d', rfl⟩ : ∃ d', d = d' + 1 := ⟨d - 1, by omega⟩
        exact ⟨[], cs, rfl, .nil, ih d' (by simpa using h.2)⟩
      · have hP' : (c == PDI) = false := by simpa using hP
        simp only [hP', Bool.false_eq_true, if_false] at h
        have hc : ∀ x, (x = LRI ∨ x = RLI ∨ x = FSI) → c ≠ x := by
          intro x hx e; subst e; exact hiso ((isIsoInit_iff c).2 hx)
        have := ih d h
        cases d with
        | zero =>
          exact .other c cs hB (hc _ (by simp)) (hc _ (by simp)) (hc _ (by simp)) hP this
        | succ d =>
          obtain ⟨u, v, rfl, hu, hv⟩ := this
          exact ⟨c :: u, v, rfl, .other c u hB (hc _ (by simp)) (hc _ (by simp)) (hc _ (by simp)) hP hu, hv⟩

/-- the inductive and the depth-counter formulation agree -/
theorem isoBalanced_iff (w : List BidiClass) : IsoBalanced w ↔ balD 0 w = true := by
  constructor
  · intro h
    have := balD_append w h 0 []
    simpa [balD] using this
  · exact balD_sound w 0

instance (w : List BidiClass) : Decidable (IsoBalanced w) := decidable_of_iff _ (isoBalanced_iff w).symm

example : IsoBalanced [RLE, LRI, PDF, PDI, PDF, PDF, AL, EN] := by decide

end UBidi.Props.C13
