/-
  C01 / StageSeq — BD9: the text between an isolate initiator and the PDI that
  `Spec.matchingPDI` / `Spec.matchTable` report for it is isolate-balanced.
-/
import UBidi.Lemmas.C13Bal
import UBidi.Lemmas.C13MatchTable
namespace UBidi.Lemmas.C01Seq
open UBidi UBidi.BidiClass UBidi.Spec
open UBidi.Props.C13 (IsoBalanced BalN isIsoInit_iff mtAt matchTable_getD)

theorem balN_cons_other (c : BidiClass) (hB : c ≠ B) (hiso : isIsoInit c = false) (hP : c ≠ PDI) :
    ∀ (d : Nat) (w : List BidiClass), BalN d w → BalN d (c :: w)
  | 0, w, h => by
    have hc : ∀ x, (x = LRI ∨ x = RLI ∨ x = FSI) → c ≠ x := by
      intro x hx e; subst e; rw [(isIsoInit_iff c).2 hx] at hiso; cases hiso
    exact .other c w hB (hc _ (by simp)) (hc _ (by simp)) (hc _ (by simp)) hP h
  | d + 1, w, h => by
    obtain ⟨u, v, rfl, hu, hv⟩ := h
    have hc : ∀ x, (x = LRI ∨ x = RLI ∨ x = FSI) → c ≠ x := by
      intro x hx e; subst e; rw [(isIsoInit_iff c).2 hx] at hiso; cases hiso
    exact ⟨c :: u, v, rfl, .other c u hB (hc _ (by simp)) (hc _ (by simp)) (hc _ (by simp)) hP hu, hv⟩

/-- what `matchingPDI` finds: a PDI, after a text that owes exactly `d` closing PDIs -/
theorem matchingPDI_sound : ∀ (cs : List BidiClass) (d pos r : Nat), matchingPDI cs d pos = some r →
    ∃ k, r = pos + k ∧ k < cs.length ∧ cs.getD k ON = PDI ∧ BalN d (cs.take k)
  | [], _, _, _, h => by simp [matchingPDI] at h
  | c :: cs, d, pos, r, h => by
    simp only [matchingPDI] at h
    by_cases hB : c = B
    · simp [hB] at h
    have hB' : (c == B) = false := by simpa using hB
    simp only [hB', Bool.false_eq_true, if_false] at h
    by_cases hiso : isIsoInit c = true
    · simp only [hiso, if_true] at h
      obtain ⟨k, rfl, hk, hck, u, v, htake, hu, hv⟩ := matchingPDI_sound cs (d + 1) (pos + 1) r h
      refine ⟨k + 1, by omega, by simp; omega, by simpa using hck, ?_⟩
      simp only [List.take_succ_cons, htake]
      cases d with
      | zero => exact .iso c u v ((isIsoInit_iff c).1 hiso) hu hv
      | succ d =>
        obtain ⟨u', v', rfl, hu', hv'⟩ := hv
        exact ⟨c :: u ++ PDI :: u', v', by simp, .iso c u u' ((isIsoInit_iff c).1 hiso) hu hu', hv'⟩
    · simp only [hiso, Bool.false_eq_true, if_false] at h
      by_cases hP : c = PDI
      · subst hP
        simp only [beq_self_eq_true, if_true] at h
        by_cases hd : d = 0
        · subst hd
          simp only [beq_self_eq_true, if_true, Option.some.injEq] at h
          exact ⟨0, by omega, by simp, by simp, .nil⟩
        · have hd' : (d == 0) = false := by simpa using hd
          simp only [hd', Bool.false_eq_true, if_false] at h
          obtain ⟨k, rfl, hk, hck, hbal⟩ := matchingPDI_sound cs (d - 1) (pos + 1) r h
          refine ⟨k + 1, by omega, by simp; omega, by simpa using hck, ?_⟩
          obtain ⟨d', rfl⟩ : ∃ d', d = d' + 1 := ⟨d - 1, by omega⟩
          exact ⟨[], cs.take k, by simp, .nil, by simpa using hbal⟩
      · have hP' : (c == PDI) = false := by simpa using hP
        simp only [hP', Bool.false_eq_true, if_false] at h
        obtain ⟨k, rfl, hk, hck, hbal⟩ := matchingPDI_sound cs d (pos + 1) r h
        refine ⟨k + 1, by omega, by simp; omega, by simpa using hck, ?_⟩
        simp only [List.take_succ_cons]
        exact balN_cons_other c hB (by simpa using hiso) hP d _ hbal

/-- an entry of the match table: the initiator, a balanced content, the PDI -/
theorem match_balanced (cs : List BidiClass) (q p : Nat)
    (h : (matchTable cs).getD q none = some p) :
    ∃ A i W C, cs = A ++ i :: W ++ PDI :: C ∧ A.length = q ∧ q + 1 + W.length = p ∧
      isIsoInit i = true ∧ IsoBalanced W := by
  rw [matchTable_getD] at h
  unfold mtAt at h
  cases hd : cs.drop q with
  | nil => simp [hd] at h
  | cons c rest =>
    simp only [hd] at h
    by_cases hiso : isIsoInit c = true
    · simp only [hiso, if_true] at h
      cases hm : matchingPDI rest 0 0 with
      | none => simp [hm] at h
      | some r =>
        simp only [hm, Option.map_some, Option.some.injEq] at h
        obtain ⟨k, rfl, hk, hck, hbal⟩ := matchingPDI_sound rest 0 0 r hm
        have hq : q < cs.length := by
          rcases Nat.lt_or_ge q cs.length with hh | hh
          · exact hh
          · rw [List.drop_of_length_le hh] at hd; cases hd
        have hrest : rest = rest.take k ++ PDI :: rest.drop (k + 1) := by
          have h1 : rest.drop k = rest[k] :: rest.drop (k + 1) := List.drop_eq_getElem_cons hk
          have h2 : rest[k] = PDI := by
            have := hck; rw [List.getD_eq_getElem?_getD, List.getElem?_eq_getElem hk] at this
            simpa using this
          rw [← h2, ← h1, List.take_append_drop]
        refine ⟨cs.take q, c, rest.take k, rest.drop (k + 1), ?_, by simp; omega, ?_, hiso, hbal⟩
        · have : cs = cs.take q ++ cs.drop q := (List.take_append_drop q cs).symm
          rw [hd] at this
          rw [List.append_assoc, List.cons_append, ← hrest]
          exact this
        · simp only [List.length_take]
          omega
    · simp [hiso] at h

end UBidi.Lemmas.C01Seq
