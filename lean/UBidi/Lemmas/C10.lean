/-
  Helper lemmas for C10 (single-paragraph API agrees with the multi-paragraph API):
  `compute_initial_info` with and without `split_paragraphs` on a one-paragraph text,
  well-formed texts (`SegsFrom`), `subrange 0 len`, `slice 0 len`, and `Text.ofScalars` is well-formed.
-/
import UBidi.Model.Reorder
namespace UBidi.Lemmas.C10
open UBidi BidiClass

theorem length_setRange {α} (xs : List α) (i n : Nat) (v : α) : (setRange xs i n v).length = xs.length := by
  induction n generalizing xs with
  | zero => rfl
  | succ n ih => simp [setRange, ih]

theorem slice_zero_of_length_le {α} (xs : List α) (n : Nat) (h : xs.length ≤ n) : slice xs 0 n = xs := by
  simp [slice, List.take_of_length_le h]

/-- `split_paragraphs` is only looked at for a paragraph separator -/
theorem iiStep_split_irrel (ds : DataSource) (T : Text) (d : Option Nat) (st : IIState) (s : Seg)
    (h : ds.cls s.cp ≠ B) : iiStep ds T true d st s = iiStep ds T false d st s := by
  unfold iiStep
  simp only
  split <;> simp_all

/-- a non-separator leaves the paragraph bookkeeping alone -/
theorem iiStep_noB_book (ds : DataSource) (T : Text) (split : Bool) (d : Option Nat) (st : IIState) (s : Seg)
    (h : ds.cls s.cp ≠ B) :
    (iiStep ds T split d st s).paras = st.paras ∧ (iiStep ds T split d st s).flags = st.flags ∧
    (iiStep ds T split d st s).paraStart = st.paraStart := by
  unfold iiStep
  simp only
  split <;> (try split) <;> (try split) <;> (try split) <;> simp_all

theorem iiStep_classes_length (ds : DataSource) (T : Text) (split : Bool) (d : Option Nat) (st : IIState) (s : Seg) :
    (iiStep ds T split d st s).classes.length = st.classes.length + T.enc.charLen s.cp := by
  unfold iiStep
  simp only
  split <;> (try split) <;> (try split) <;> (try split) <;> simp_all [length_setRange]

theorem foldl_noB (ds : DataSource) (T : Text) (d : Option Nat) (l : List Seg) (st : IIState)
    (h : ∀ s ∈ l, ds.cls s.cp ≠ B) :
    l.foldl (iiStep ds T true d) st = l.foldl (iiStep ds T false d) st ∧
    (l.foldl (iiStep ds T false d) st).paras = st.paras ∧
    (l.foldl (iiStep ds T false d) st).flags = st.flags ∧
    (l.foldl (iiStep ds T false d) st).paraStart = st.paraStart := by
  induction l generalizing st with
  | nil => simp
  | cons s ss ih =>
    have hs := h s (by simp)
    have := ih (iiStep ds T false d st s) (fun x hx => h x (by simp [hx]))
    have hb := iiStep_noB_book ds T false d st s hs
    simp only [List.foldl_cons, iiStep_split_irrel ds T d st s hs]
    grind

theorem foldl_classes_length (ds : DataSource) (T : Text) (split : Bool) (d : Option Nat) (l : List Seg)
    (st : IIState) (pos e : Nat) (hseg : SegsFrom pos l e) (hl : ∀ s ∈ l, s.len = T.enc.charLen s.cp)
    (hst : st.classes.length = pos) : (l.foldl (iiStep ds T split d) st).classes.length = e := by
  induction l generalizing st pos with
  | nil => simp [SegsFrom] at hseg; simpa [hseg] using hst
  | cons s ss ih =>
    obtain ⟨h1, _, h3⟩ := hseg
    refine ih (iiStep ds T split d st s) (pos + s.len) h3 (fun x hx => hl x (by simp [hx])) ?_
    rw [iiStep_classes_length, hst, hl s (by simp)]

theorem segsFrom_bounds (pos e : Nat) (l : List Seg) (h : SegsFrom pos l e) :
    pos ≤ e ∧ ∀ s ∈ l, pos ≤ s.start ∧ s.start < e := by
  induction l generalizing pos with
  | nil => simp [SegsFrom] at h; simp [h]
  | cons s ss ih =>
    obtain ⟨h1, h2, h3⟩ := h
    have := ih _ h3
    refine ⟨by omega, ?_⟩
    intro x hx
    rcases List.mem_cons.mp hx with rfl | hx
    · omega
    · have := this.2 x hx; omega

theorem segsFrom_last (pos e : Nat) (l : List Seg) (x : Seg) (h : SegsFrom pos (l ++ [x]) e) :
    x.start + x.len = e := by
  induction l generalizing pos with
  | nil => simp [SegsFrom] at h; omega
  | cons s ss ih => exact ih _ h.2.2

theorem subrange_full (t : Text) (hwf : t.WF) : t.subrange 0 t.len = t := by
  have hb := (segsFrom_bounds 0 t.len t.segs hwf.tiles).2
  cases t
  simp only [Text.subrange, Nat.sub_zero, Text.mk.injEq, true_and]
  rw [List.filter_eq_self.mpr (fun s hs => by simp [(hb s hs).2])]
  simp

theorem segs_ne_nil (t : Text) (hwf : t.WF) (hne : 0 < t.len) : t.segs ≠ [] := by
  intro h
  have := hwf.tiles
  rw [h] at this
  simp [SegsFrom] at this
  omega

/-- for a one-paragraph text the splitting scan reports the same classes and error as the non-splitting one,
    and exactly one paragraph `[0, len)` with the level and flags of the non-splitting scan -/
theorem cii_single (ds : DataSource) (t : Text) (hwf : t.WF) (hne : 0 < t.len) (d : Option Nat)
    (hB : ∀ s ∈ t.segs.dropLast, ds.cls s.cp ≠ .B) :
    let o := computeInitialInfo ds t d false
    let o' := computeInitialInfo ds t d true
    o'.classes = o.classes ∧ o'.err = o.err ∧
    o'.paras = [{ start := 0, stop := t.len, level := o.lastLevel }] ∧
    o'.flags = [{ pureLtr := o.lastPureLtr, hasIso := o.lastHasIso }] ∧
    o.classes.length = t.len := by
  have hnil := segs_ne_nil t hwf hne
  have hsplit := (List.dropLast_concat_getLast hnil).symm
  generalize t.segs.dropLast = ini at hsplit hB
  generalize t.segs.getLast hnil = last at hsplit
  have hlen := foldl_classes_length ds t false d t.segs { paraLevel := d } 0 t.len hwf.tiles hwf.lens rfl
  have hlast : last.start + t.enc.charLen last.cp = t.len := by
    have h1 := hwf.tiles
    rw [hsplit] at h1
    have := segsFrom_last _ _ _ _ h1
    rw [hwf.lens last (by simp [hsplit])] at this
    exact this
  obtain ⟨h1, h2, h3, h4⟩ := foldl_noB ds t d ini { paraLevel := d } hB
  simp only [computeInitialInfo] at hlen ⊢
  rw [hsplit] at hlen ⊢
  simp only [List.foldl_append, List.foldl_cons, List.foldl_nil] at hlen ⊢
  rw [h1]
  generalize List.foldl (iiStep ds t false d) { paraLevel := d } ini = st1 at *
  by_cases hc : ds.cls last.cp = B
  · simp [iiStep, hc, hlast, h2, h3, h4] at hlen ⊢
    exact hlen
  · rw [iiStep_split_irrel ds t d st1 last hc]
    obtain ⟨b1, b2, b3⟩ := iiStep_noB_book ds t false d st1 last hc
    simp [b1, b2, b3, h2, h3, h4, hne]
    exact hlen

theorem charLen_pos (enc : Enc) (c : Nat) : 0 < enc.charLen c := by
  cases enc <;> simp only [Enc.charLen, utf8Len, utf16Len] <;> (repeat' split) <;> omega

theorem foldl_add_shift (l : List Nat) (a : Nat) : l.foldl (· + ·) a = a + l.foldl (· + ·) 0 := by
  induction l generalizing a with
  | nil => simp
  | cons x xs ih => simp only [List.foldl_cons]; rw [ih (a + x), ih (0 + x)]; omega

theorem layout_segsFrom (enc : Enc) (pos : Nat) (cs : List Nat) :
    SegsFrom pos (Text.layout enc pos cs) (pos + Text.totalLen enc cs) := by
  induction cs generalizing pos with
  | nil => simp [Text.layout, Text.totalLen, SegsFrom]
  | cons c cs ih =>
    simp only [Text.layout, SegsFrom, true_and]
    refine ⟨charLen_pos enc c, ?_⟩
    have := ih (pos + enc.charLen c)
    have e : Text.totalLen enc (c :: cs) = enc.charLen c + Text.totalLen enc cs := by
      simp only [Text.totalLen, List.map_cons, List.foldl_cons]
      rw [foldl_add_shift]; omega
    rw [e]; rw [Nat.add_assoc] at this; exact this

theorem layout_lens (enc : Enc) (pos : Nat) (cs : List Nat) :
    ∀ s ∈ Text.layout enc pos cs, s.len = enc.charLen s.cp := by
  induction cs generalizing pos with
  | nil => simp [Text.layout]
  | cons c cs ih =>
    intro s hs
    simp only [Text.layout, List.mem_cons] at hs
    rcases hs with rfl | hs
    · rfl
    · exact ih _ s hs

/-- every `&str` is a well-formed text -/
theorem ofScalars_WF (cs : List Nat) : (Text.ofScalars cs).WF := by
  refine ⟨?_, layout_lens _ _ _⟩
  have := layout_segsFrom .utf8 0 cs
  simpa [Text.ofScalars] using this

end UBidi.Lemmas.C10
