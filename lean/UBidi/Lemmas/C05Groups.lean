/-
  C05 helper lemmas, part 1: the "reverse every maximal group" function shared by the
  Model (`revGroups`, on runs) and the Spec (`Spec.revRunsGE`, on code units).
-/
import UBidi.Model.Reorder
import UBidi.Spec.Reorder
namespace UBidi.Lemmas.C05
open UBidi

/-- generic form of `revGroups` / `Spec.revRunsGE` -/
def revG {α} (p : α → Bool) : List α → List α → List α
  | acc, [] => acc
  | acc, x :: xs => if p x then revG p (x :: acc) xs else acc ++ x :: revG p [] xs

theorem revGroups_eq (p : Nat × Nat → Bool) (acc R : List (Nat × Nat)) :
    revGroups p acc R = revG p acc R := by
  induction R generalizing acc with
  | nil => rfl
  | cons r rs ih => simp only [revGroups, revG, ih]

theorem revRunsGE_eq (f : Nat → Nat) (k : Nat) (acc U : List Nat) :
    Spec.revRunsGE f k acc U = revG (fun u => decide (f u ≥ k)) acc U := by
  induction U generalizing acc with
  | nil => rfl
  | cons u us ih =>
    simp only [Spec.revRunsGE, revG, ih, decide_eq_true_eq]

theorem revG_perm {α} (p : α → Bool) (acc xs : List α) : (revG p acc xs).Perm (acc ++ xs) := by
  induction xs generalizing acc with
  | nil => simp [revG]
  | cons x xs ih =>
    unfold revG
    split
    · exact (ih (x :: acc)).trans (List.perm_middle.symm)
    · have := ih []
      simp only [List.nil_append] at this
      exact List.Perm.append_left acc (List.Perm.cons x this)

/-- a block of entries that all satisfy `p` is pushed onto the accumulator -/
theorem revG_all {α} (p : α → Bool) (ys : List α) (h : ∀ y ∈ ys, p y = true) (acc zs : List α) :
    revG p acc (ys ++ zs) = revG p (ys.reverse ++ acc) zs := by
  induction ys generalizing acc with
  | nil => rfl
  | cons y ys ih =>
    have hy : p y = true := h y (by simp)
    have := ih (fun z hz => h z (by simp [hz])) (y :: acc)
    simp only [List.cons_append, revG, hy, if_true, this, List.reverse_cons, List.append_assoc,
      List.nil_append]

/-- a non-empty block of entries none of which satisfies `p` closes the current group -/
theorem revG_none {α} (p : α → Bool) (ys : List α) (h : ∀ y ∈ ys, p y = false) (hne : ys ≠ [])
    (acc zs : List α) :
    revG p acc (ys ++ zs) = acc ++ ys ++ revG p [] zs := by
  induction ys generalizing acc with
  | nil => exact absurd rfl hne
  | cons y ys ih =>
    have hy : p y = false := h y (by simp)
    by_cases hys : ys = []
    · subst hys
      simp [revG, hy]
    · have := ih (fun z hz => h z (by simp [hz])) hys []
      simp only [List.cons_append, revG, hy, this, List.nil_append, List.append_assoc]
      simp

/-- one pass is an involution -/
theorem revG_invol_acc {α} (p : α → Bool) (xs acc : List α) (hacc : ∀ y ∈ acc, p y = true) :
    revG p [] (revG p acc xs) = acc.reverse ++ xs := by
  induction xs generalizing acc with
  | nil =>
    have := revG_all p acc hacc [] []
    simpa [revG] using this
  | cons x xs ih =>
    by_cases hx : p x = true
    · have := ih (x :: acc) (by intro y hy; rcases List.mem_cons.1 hy with h | h; exact h ▸ hx; exact hacc y h)
      simp only [revG, hx, if_true, this, List.reverse_cons, List.append_assoc, List.cons_append,
        List.nil_append]
    · have hx' : p x = false := by simpa using hx
      have h1 := revG_all p acc hacc [] (x :: revG p [] xs)
      have h2 := ih [] (by simp)
      simp only [List.append_nil, List.reverse_nil, List.nil_append] at h1 h2
      have e : revG p acc (x :: xs) = acc ++ x :: revG p [] xs := by simp [revG, hx']
      rw [e, h1]
      simp [revG, hx', h2]

theorem revG_invol {α} (p : α → Bool) (xs : List α) : revG p [] (revG p [] xs) = xs := by
  simpa using revG_invol_acc p xs [] (by simp)

/-- relabelling the entries -/
theorem revG_map {α β} (p : α → Bool) (q : β → Bool) (h : α → β) (hpq : ∀ x, q (h x) = p x)
    (acc xs : List α) : (revG p acc xs).map h = revG q (acc.map h) (xs.map h) := by
  induction xs generalizing acc with
  | nil => rfl
  | cons x xs ih =>
    by_cases hx : p x = true
    · have := ih (x :: acc)
      simp only [revG, List.map_cons, hpq, hx, if_true, this]
    · have hx' : p x = false := by simpa using hx
      have := ih []
      simp only [List.map_nil] at this
      simp [revG, hpq, hx', this]

end UBidi.Lemmas.C05
