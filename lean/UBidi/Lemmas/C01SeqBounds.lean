/-
  C01 / StageSeq — X10: the Model's `seqBounds` (and the fast path `seqOfRunFast`) compute the
  `sos` / `eos` that the Spec computes on the survivors of X9 (`sosOf` / `eosOf`).

  Reusable facts about `toKs` / `keptIdx`: `toKs_eq_range`, `toKs_succ`, `toKs_mono`, `toKs_length`,
  `filter_range'_eq_slice`, `map_toKs_filter_range'`, `map_toKs_keptIdx`, `keptIdx_getElem?_toKs`,
  `rposition_take`, `rfind_take`, `findIdx?_drop`.
  Main results: `bounds_spec`, `bounds_empty`, `fast_eq_bounds`.
-/
import UBidi.Lemmas.C01SeqDefs
namespace UBidi.Lemmas.C01Seq
open UBidi UBidi.BidiClass

theorem take_eq_map_range (cls : List BidiClass) (a : Nat) (h : a ≤ cls.length) :
    cls.take a = (List.range a).map (fun i => cls.getD i ON) := by
  apply List.ext_getElem
  · simp only [List.length_take, List.length_map, List.length_range]; omega
  · intro i h1 h2
    simp only [List.length_take] at h1
    have : i < cls.length := by omega
    simp [List.getD_eq_getElem?_getD, this]

theorem range'_split (s k n : Nat) (h : k ≤ n) :
    List.range' s n = List.range' s k ++ List.range' (s + k) (n - k) := by
  rw [List.range'_append_1]; congr 1; omega

theorem toKs_eq_range (cls : List BidiClass) (a : Nat) (h : a ≤ cls.length) :
    toKs cls a = ((List.range a).filter (keptAt cls)).length := by
  unfold toKs
  rw [take_eq_map_range cls a h, List.filter_map, List.length_map]
  rfl

theorem toKs_zero (cls : List BidiClass) : toKs cls 0 = 0 := by simp [toKs]

theorem toKs_length (cls : List BidiClass) : toKs cls cls.length = (keptIdx cls).length := by
  rw [toKs_eq_range cls _ (Nat.le_refl _)]; rfl

theorem toKs_succ (cls : List BidiClass) (a : Nat) (h : a < cls.length) :
    toKs cls (a + 1) = toKs cls a + (if keptAt cls a then 1 else 0) := by
  rw [toKs_eq_range cls _ h, toKs_eq_range cls a (by omega), List.range_succ, List.filter_append,
    List.length_append]
  by_cases hk : keptAt cls a <;> simp [hk]

theorem toKs_mono (cls : List BidiClass) {a b : Nat} (h : a ≤ b) : toKs cls a ≤ toKs cls b := by
  unfold toKs
  have : cls.take a = (cls.take b).take a := by rw [List.take_take]; congr 1; omega
  rw [this]
  exact ((List.take_sublist _ _).filter _).length_le

/-- kept positions of an interval = a slice of `keptIdx` -/
theorem filter_range'_eq_slice (cls : List BidiClass) (a b : Nat) (hab : a ≤ b) (hb : b ≤ cls.length) :
    (List.range' a (b - a)).filter (keptAt cls) = slice (keptIdx cls) (toKs cls a) (toKs cls b) := by
  have h1 : List.range cls.length = List.range' 0 a ++ (List.range' a (b - a) ++ List.range' b (cls.length - b)) := by
    rw [List.range_eq_range', range'_split 0 a cls.length (by omega), Nat.zero_add,
      range'_split a (b - a) (cls.length - a) (by omega)]
    congr 3 <;> omega
  have h2 : List.range b = List.range' 0 a ++ List.range' a (b - a) := by
    rw [List.range_eq_range', range'_split 0 a b hab, Nat.zero_add]
  have ha : toKs cls a = ((List.range' 0 a).filter (keptAt cls)).length := by
    rw [toKs_eq_range cls a (by omega), List.range_eq_range']
  have hb' : toKs cls b = ((List.range' 0 a).filter (keptAt cls)).length +
      ((List.range' a (b - a)).filter (keptAt cls)).length := by
    rw [toKs_eq_range cls b hb, h2, List.filter_append, List.length_append]
  unfold slice keptIdx
  rw [h1, List.filter_append, List.filter_append, ha, hb']
  simp

theorem map_toKs_filter_range' (cls : List BidiClass) (a len : Nat) (h : a + len ≤ cls.length) :
    ((List.range' a len).filter (keptAt cls)).map (toKs cls) =
      List.range' (toKs cls a) (toKs cls (a + len) - toKs cls a) := by
  induction len with
  | zero => simp
  | succ len ih =>
    have ih := ih (by omega)
    have hm := toKs_mono cls (Nat.le_add_right a len)
    rw [List.range'_concat, Nat.one_mul, List.filter_append, List.map_append, ih, ← Nat.add_assoc,
      toKs_succ cls (a + len) (by omega)]
    by_cases hk : keptAt cls (a + len)
    · simp only [hk, List.filter_cons_of_pos, List.filter_nil, List.map_cons, List.map_nil, if_true]
      rw [show toKs cls (a + len) + 1 - toKs cls a = (toKs cls (a + len) - toKs cls a) + 1 by omega,
        List.range'_concat]
      congr 2; omega
    · simp [hk]


/-- the `j`-th survivor has `j` survivors before it -/
theorem map_toKs_keptIdx (cls : List BidiClass) :
    (keptIdx cls).map (toKs cls) = List.range (keptIdx cls).length := by
  have h := map_toKs_filter_range' cls 0 cls.length (by omega)
  rw [Nat.zero_add, toKs_zero, toKs_length, Nat.sub_zero] at h
  rw [List.range_eq_range', ← h, keptIdx, List.range_eq_range']

/-- a kept position `a` is the `toKs a`-th survivor -/
theorem keptIdx_getElem?_toKs (cls : List BidiClass) (a : Nat) (h : a < cls.length)
    (hk : keptAt cls a = true) : (keptIdx cls)[toKs cls a]? = some a := by
  have h1 := filter_range'_eq_slice cls a (a + 1) (by omega) (by omega)
  rw [toKs_succ cls a h] at h1
  have h2 := congrArg List.head? h1
  simpa [hk, slice, List.head?_take, List.head?_drop] using h2.symm

theorem keptIdx_getElem?_isSome (cls : List BidiClass) (j : Nat) (b : Nat) (hb : b ≤ cls.length)
    (h : j < toKs cls b) : ∃ i, (keptIdx cls)[j]? = some i := by
  have h1 := toKs_mono cls hb
  rw [toKs_length] at h1
  exact ⟨(keptIdx cls)[j]'(by omega), List.getElem?_eq_getElem _⟩

theorem rposition_concat {α} (p : α → Bool) (xs : List α) (x : α) :
    rposition p (xs ++ [x]) = if p x then some xs.length else rposition p xs := by
  unfold rposition
  rw [List.reverse_append, List.reverse_singleton, List.singleton_append, List.findIdx?_cons]
  by_cases hp : p x
  · simp [hp]
  · simp only [hp, Bool.false_eq_true, if_false]
    cases xs.reverse.findIdx? p with
    | none => rfl
    | some k => simp only [Option.map_some, List.length_append, List.length_singleton]; congr 1; omega

theorem rposition_lt {α} (p : α → Bool) (xs : List α) (i : Nat) (h : rposition p xs = some i) :
    i < xs.length := by
  unfold rposition at h
  cases hf : xs.reverse.findIdx? p with
  | none => simp [hf] at h
  | some k =>
    simp only [hf, Option.some.injEq] at h
    obtain ⟨hk, _⟩ := List.findIdx?_eq_some_iff_getElem.mp hf
    simp only [List.length_reverse] at hk
    omega

theorem find?_reverse_eq {α} (p : α → Bool) (xs : List α) :
    xs.reverse.find? p = (xs.filter p).getLast? := by
  rw [← List.head?_filter, List.filter_reverse, List.head?_reverse]

theorem notRemoved_getElem (cls : List BidiClass) (a : Nat) (h : a < cls.length) :
    notRemoved cls[a] = keptAt cls a := by
  simp [keptAt, List.getD_eq_getElem?_getD, h]

theorem rposition_take (cls : List BidiClass) (a : Nat) (h : a ≤ cls.length) :
    rposition notRemoved (cls.take a) =
      if toKs cls a = 0 then none else (keptIdx cls)[toKs cls a - 1]? := by
  induction a with
  | zero => simp [rposition, toKs_zero]
  | succ a ih =>
    have ih := ih (by omega)
    have ha : a < cls.length := h
    rw [List.take_add_one, List.getElem?_eq_getElem ha, Option.toList_some, rposition_concat,
      toKs_succ cls a ha, notRemoved_getElem cls a ha]
    by_cases hk : keptAt cls a
    · simp [hk, keptIdx_getElem?_toKs cls a ha hk, List.length_take]; omega
    · simp [hk, ih]

theorem rfind_take (cls : List BidiClass) (a : Nat) (h : a ≤ cls.length) :
    (cls.take a).reverse.find? notRemoved =
      if toKs cls a = 0 then none else ((keptIdx cls)[toKs cls a - 1]?).map (fun i => cls.getD i ON) := by
  induction a with
  | zero => simp [toKs_zero]
  | succ a ih =>
    have ih := ih (by omega)
    have ha : a < cls.length := h
    rw [List.take_add_one, List.getElem?_eq_getElem ha, Option.toList_some, List.reverse_append,
      List.reverse_singleton, List.singleton_append, List.find?_cons,
      toKs_succ cls a ha, notRemoved_getElem cls a ha]
    by_cases hk : keptAt cls a
    · simp [hk, keptIdx_getElem?_toKs cls a ha hk, List.getD_eq_getElem?_getD, ha]
    · simp [hk, ih]

theorem findIdx?_drop (cls : List BidiClass) (b : Nat) (h : b ≤ cls.length) :
    ((cls.drop b).findIdx? notRemoved).map (fun i => b + i) = (keptIdx cls)[toKs cls b]? := by
  induction hd : cls.length - b generalizing b with
  | zero =>
    have : b = cls.length := by omega
    subst this
    simp [toKs_length]
  | succ d ih =>
    have hb : b < cls.length := by omega
    have ih := ih (b + 1) (by omega) (by omega)
    rw [List.drop_eq_getElem_cons hb, List.findIdx?_cons, notRemoved_getElem cls b hb]
    by_cases hk : keptAt cls b
    · simp [hk, keptIdx_getElem?_toKs cls b hb hk]
    · rw [toKs_succ cls b hb] at ih
      simp only [hk, Bool.false_eq_true, if_false, Nat.add_zero] at ih ⊢
      rw [← ih, Option.map_map]
      congr 1; funext i; simp only [Function.comp]; omega


theorem bidiClass_eq_dirOfLevel (l : Nat) : Level.bidiClass l = Spec.dirOfLevel l := rfl

theorem isoInit_eq_spec (c : BidiClass) : c.isIsolateInitiator = Spec.isIsoInit c := by
  cases c <;> rfl

theorem ks_length (cls : List BidiClass) (lv : List Nat) (ks : List Spec.K)
    (hlev : ks.map (·.level) = (keptIdx cls).map (fun i => lv.getD i 0)) :
    ks.length = (keptIdx cls).length := by
  simpa using congrArg List.length hlev

theorem ks_level_at (cls : List BidiClass) (lv : List Nat) (ks : List Spec.K)
    (hlev : ks.map (·.level) = (keptIdx cls).map (fun i => lv.getD i 0))
    (j i : Nat) (h : (keptIdx cls)[j]? = some i) : (ks.getD j default).level = lv.getD i 0 := by
  have h1 := congrArg (fun l => l[j]?) hlev
  simp only [List.getElem?_map, h, Option.map_some] at h1
  cases hk : ks[j]? with
  | none => simp [hk] at h1
  | some k =>
    simp only [hk, Option.map_some, Option.some.injEq] at h1
    simp [List.getD_eq_getElem?_getD, hk, h1]

theorem ks_cls_at (cls : List BidiClass) (ks : List Spec.K)
    (hcls : ks.map (·.cls) = (keptIdx cls).map (fun i => cls.getD i ON))
    (j i : Nat) (h : (keptIdx cls)[j]? = some i) : (ks.getD j default).cls = cls.getD i ON := by
  have h1 := congrArg (fun l => l[j]?) hcls
  simp only [List.getElem?_map, h, Option.map_some] at h1
  cases hk : ks[j]? with
  | none => simp [hk] at h1
  | some k =>
    simp only [hk, Option.map_some, Option.some.injEq] at h1
    simp [List.getD_eq_getElem?_getD, hk, h1]

/-- the first kept position of a run -/
theorem find?_runIndices (cls : List BidiClass) (r : Nat × Nat) (h1 : r.1 ≤ r.2) (h2 : r.2 ≤ cls.length)
    (h3 : toKs cls r.1 < toKs cls r.2) :
    (runIndices r).find? (keptAt cls) = (keptIdx cls)[toKs cls r.1]? := by
  rw [← List.head?_filter, runIndices, filter_range'_eq_slice cls r.1 r.2 h1 h2, slice,
    List.head?_take, List.head?_drop]
  simp; omega

/-- the last kept position of a run -/
theorem getLast?_filter_runIndices (cls : List BidiClass) (r : Nat × Nat) (h1 : r.1 ≤ r.2)
    (h2 : r.2 ≤ cls.length) (h3 : toKs cls r.1 < toKs cls r.2) :
    ((runIndices r).filter (keptAt cls)).getLast? = (keptIdx cls)[toKs cls r.2 - 1]? := by
  obtain ⟨i, hi⟩ := keptIdx_getElem?_isSome cls (toKs cls r.2 - 1) r.2 h2 (by omega)
  rw [runIndices, filter_range'_eq_slice cls r.1 r.2 h1 h2, slice, List.getLast?_take,
    List.getElem?_drop]
  have : toKs cls r.1 + (toKs cls r.2 - toKs cls r.1 - 1) = toKs cls r.2 - 1 := by omega
  rw [this, hi]
  simp; omega


/-- `seqBounds` written out for a sequence with first run `r0` and last run `rE` -/
theorem seqBounds_eq (pl : Nat) (cls : List BidiClass) (lv : List Nat) (s : List (Nat × Nat))
    (r0 rE : Nat × Nat) (rest init : List (Nat × Nat)) (h0 : s = r0 :: rest) (hE : s = init ++ [rE]) :
    seqBounds pl cls lv s =
      ({ runs := s,
         sos := Level.bidiClass (max
           (lv.getD (((s.flatMap runIndices).find? (keptAt cls)).getD r0.1) 0)
           (match rposition notRemoved (cls.take r0.1) with
            | some idx => lv.getD idx 0
            | none => pl)),
         eos := Level.bidiClass (max
           (lv.getD (((s.flatMap runIndices).reverse.find? (keptAt cls)).getD (rE.2 - 1)) 0)
           (if (((cls.take rE.2).reverse.find? notRemoved).getD BN).isIsolateInitiator then pl
            else match (cls.drop rE.2).findIdx? notRemoved with
              | some idx => lv.getD (rE.2 + idx) 0
              | none => pl)) }, none) := by
  have hl : s.getLast?.getD r0 = rE := by rw [hE]; simp
  subst h0
  unfold seqBounds
  simp only [hl]
  rfl


theorem pred_eq (pl : Nat) (cls : List BidiClass) (lv : List Nat) (ks : List Spec.K)
    (hlev : ks.map (·.level) = (keptIdx cls).map (fun i => lv.getD i 0))
    (a : Nat) (ha : a ≤ cls.length) :
    (match rposition notRemoved (cls.take a) with
     | some idx => lv.getD idx 0
     | none => pl) =
    (if (toKs cls a == 0) = true then pl else (ks.getD (toKs cls a - 1) default).level) := by
  rw [rposition_take cls a ha]
  by_cases h : toKs cls a = 0
  · simp [h]
  · obtain ⟨i, hi⟩ := keptIdx_getElem?_isSome cls (toKs cls a - 1) a ha (by omega)
    rw [ks_level_at cls lv ks hlev _ i hi]
    simp [h, hi]

theorem succ_eq (pl : Nat) (cls : List BidiClass) (lv : List Nat) (ks : List Spec.K)
    (hlev : ks.map (·.level) = (keptIdx cls).map (fun i => lv.getD i 0))
    (b : Nat) (hb : b ≤ cls.length) :
    (match (cls.drop b).findIdx? notRemoved with
     | some idx => lv.getD (b + idx) 0
     | none => pl) =
    (if toKs cls b < ks.length then (ks.getD (toKs cls b) default).level else pl) := by
  have h := findIdx?_drop cls b hb
  rw [ks_length cls lv ks hlev]
  cases hf : (cls.drop b).findIdx? notRemoved with
  | none =>
    rw [hf] at h
    simp only [Option.map_none] at h
    have : ¬ toKs cls b < (keptIdx cls).length := by
      intro hlt
      rw [List.getElem?_eq_getElem hlt] at h
      cases h
    simp [this]
  | some idx =>
    rw [hf] at h
    simp only [Option.map_some] at h
    have hlt : toKs cls b < (keptIdx cls).length := by
      apply Nat.lt_of_not_le; intro hle
      rw [List.getElem?_eq_none hle] at h
      cases h
    rw [ks_level_at cls lv ks hlev _ _ h.symm]
    simp [hlt]

theorem lastcls_eq (cls : List BidiClass) (ks : List Spec.K)
    (hcls : ks.map (·.cls) = (keptIdx cls).map (fun i => cls.getD i ON))
    (b : Nat) (hb : b ≤ cls.length) (hpos : 0 < toKs cls b) :
    ((cls.take b).reverse.find? notRemoved).getD BN = (ks.getD (toKs cls b - 1) default).cls := by
  obtain ⟨i, hi⟩ := keptIdx_getElem?_isSome cls (toKs cls b - 1) b hb (by omega)
  rw [rfind_take cls b hb, ks_cls_at cls ks hcls _ i hi, hi, if_neg (by omega)]
  rfl

theorem positions_eq (cls : List BidiClass) (s : List (Nat × Nat))
    (h : ∀ r ∈ s, r.1 ≤ r.2 ∧ r.2 ≤ cls.length) :
    ((s.flatMap runIndices).filter (keptAt cls)).map (toKs cls) =
      Spec.seqPositions (s.map (tau cls)) := by
  induction s with
  | nil => rfl
  | cons r s ih =>
    have ih := ih (fun r hr => h r (List.mem_cons_of_mem _ hr))
    have hr := h r (by simp)
    unfold Spec.seqPositions at ih ⊢
    rw [List.flatMap_cons, List.filter_append, List.map_append, ih, List.map_cons, List.flatMap_cons,
      runIndices, map_toKs_filter_range' cls r.1 (r.2 - r.1) (by omega)]
    simp only [tau]
    rw [show r.1 + (r.2 - r.1) = r.2 by omega]

theorem head?_seqPositions (cls : List BidiClass) (r0 : Nat × Nat) (rest : List (Nat × Nat))
    (h : toKs cls r0.1 < toKs cls r0.2) :
    (Spec.seqPositions ((r0 :: rest).map (tau cls))).head? = some (toKs cls r0.1) := by
  simp [Spec.seqPositions, tau, List.head?_append, List.head?_range']
  omega

theorem getLast?_seqPositions (cls : List BidiClass) (rE : Nat × Nat) (init : List (Nat × Nat))
    (h : toKs cls rE.1 < toKs cls rE.2) :
    (Spec.seqPositions ((init ++ [rE]).map (tau cls))).getLast? = some (toKs cls rE.2 - 1) := by
  simp [Spec.seqPositions, tau, List.getLast?_append, List.getLast?_range']
  omega


theorem bounds_spec (pl : Nat) (cls : List BidiClass) (lv : List Nat) (ks : List Spec.K)
    (hlev : ks.map (·.level) = (keptIdx cls).map (fun i => lv.getD i 0))
    (hcls : ks.map (·.cls) = (keptIdx cls).map (fun i => cls.getD i ON))
    (s : List (Nat × Nat)) (hs : s ≠ [])
    (hruns : ∀ r ∈ s, r.1 < r.2 ∧ r.2 ≤ cls.length ∧ toKs cls r.1 < toKs cls r.2) :
    (seqBounds pl cls lv s).2 = none ∧ (seqBounds pl cls lv s).1.runs = s ∧
    ((seqBounds pl cls lv s).1.indices.filter (keptAt cls)).map (toKs cls) =
      Spec.seqPositions (s.map (tau cls)) ∧
    Spec.seqPositions (s.map (tau cls)) ≠ [] ∧
    (seqBounds pl cls lv s).1.sos = sosOf pl ks (s.map (tau cls)) ∧
    (seqBounds pl cls lv s).1.eos = eosOf pl ks (s.map (tau cls)) := by
  cases s with
  | nil => exact absurd rfl hs
  | cons r0 rest =>
    obtain ⟨init, rE, hE⟩ : ∃ init rE, r0 :: rest = init ++ [rE] :=
      ⟨_, _, (List.dropLast_concat_getLast hs).symm⟩
    have hr0 := hruns r0 (by simp)
    have hrE := hruns rE (by rw [hE]; simp)
    have hhead := head?_seqPositions cls r0 rest hr0.2.2
    have hlast := getLast?_seqPositions cls rE init hrE.2.2
    rw [← hE] at hlast
    rw [seqBounds_eq pl cls lv _ r0 rE rest init rfl hE]
    refine ⟨rfl, rfl, ?_, ?_, ?_, ?_⟩
    · exact positions_eq cls _ (fun r hr => ⟨Nat.le_of_lt (hruns r hr).1, (hruns r hr).2.1⟩)
    · intro h
      rw [h] at hhead
      cases hhead
    · show Level.bidiClass _ = _
      obtain ⟨i, hi⟩ := keptIdx_getElem?_isSome cls (toKs cls r0.1) r0.2 hr0.2.1 hr0.2.2
      rw [List.flatMap_cons, List.find?_append,
        find?_runIndices cls r0 (Nat.le_of_lt hr0.1) hr0.2.1 hr0.2.2, hi, Option.some_or,
        Option.getD_some, pred_eq pl cls lv ks hlev r0.1 (by omega), bidiClass_eq_dirOfLevel]
      simp only [sosOf, hhead]
      rw [ks_level_at cls lv ks hlev _ i hi]
    · show Level.bidiClass _ = _
      obtain ⟨i, hi⟩ := keptIdx_getElem?_isSome cls (toKs cls rE.2 - 1) rE.2 hrE.2.1 (by omega)
      have hfl : ((r0 :: rest).flatMap runIndices).reverse.find? (keptAt cls) = some i := by
        rw [hE, find?_reverse_eq, List.flatMap_append, List.filter_append, List.getLast?_append,
          List.flatMap_singleton,
          getLast?_filter_runIndices cls rE (Nat.le_of_lt hrE.1) hrE.2.1 hrE.2.2, hi, Option.some_or]
      rw [hfl, Option.getD_some, succ_eq pl cls lv ks hlev rE.2 hrE.2.1,
        lastcls_eq cls ks hcls rE.2 hrE.2.1 (by omega), isoInit_eq_spec,
        bidiClass_eq_dirOfLevel]
      simp only [eosOf, hlast]
      rw [ks_level_at cls lv ks hlev _ i hi, show toKs cls rE.2 - 1 + 1 = toKs cls rE.2 by omega]

theorem bounds_empty (pl : Nat) (cls : List BidiClass) (lv : List Nat) (s : List (Nat × Nat)) (hs : s ≠ [])
    (hruns : ∀ r ∈ s, toKs cls r.1 = toKs cls r.2 ∧ r.1 ≤ r.2 ∧ r.2 ≤ cls.length) :
    (seqBounds pl cls lv s).2 = none ∧ (seqBounds pl cls lv s).1.runs = s ∧
    (seqBounds pl cls lv s).1.indices.filter (keptAt cls) = [] := by
  cases s with
  | nil => exact absurd rfl hs
  | cons r0 rest =>
    refine ⟨rfl, rfl, ?_⟩
    show ((r0 :: rest).flatMap runIndices).filter (keptAt cls) = []
    rw [List.filter_flatMap, List.flatMap_eq_nil_iff]
    intro r hr
    obtain ⟨h1, h2, h3⟩ := hruns r hr
    rw [runIndices, filter_range'_eq_slice cls r.1 r.2 h2 h3, slice, h1, Nat.sub_self, List.take_zero]


theorem slice_getD {α} (xs : List α) (a b k : Nat) (d : α) (h : k < b - a) :
    (slice xs a b).getD k d = xs.getD (a + k) d := by
  simp [slice, List.getD_eq_getElem?_getD, h]

theorem find?_range'_slice (cls : List BidiClass) (a k : Nat) (h : a + k ≤ cls.length) :
    (List.range' a k).find? (keptAt cls) =
      (((cls.drop a).take k).findIdx? notRemoved).map (fun i => a + i) := by
  induction k generalizing a with
  | zero => simp
  | succ k ih =>
    have ha : a < cls.length := by omega
    have ih := ih (a + 1) (by omega)
    rw [List.range'_succ, List.find?_cons, List.drop_eq_getElem_cons ha, List.take_succ_cons,
      List.findIdx?_cons, notRemoved_getElem cls a ha, ih]
    by_cases hk : keptAt cls a
    · simp [hk]
    · simp only [hk, Bool.false_eq_true, if_false, Option.map_map]
      congr 1; funext i; simp only [Function.comp]; omega

theorem rfind?_range'_slice (cls : List BidiClass) (a k : Nat) (h : a + k ≤ cls.length) :
    (List.range' a k).reverse.find? (keptAt cls) =
      (rposition notRemoved ((cls.drop a).take k)).map (fun i => a + i) := by
  induction k with
  | zero => simp [rposition]
  | succ k ih =>
    have ha : a + k < cls.length := by omega
    have ih := ih (by omega)
    rw [List.range'_concat, Nat.one_mul, List.reverse_append, List.reverse_singleton,
      List.singleton_append, List.find?_cons, List.take_add_one, List.getElem?_drop,
      List.getElem?_eq_getElem ha, Option.toList_some, rposition_concat,
      notRemoved_getElem cls (a + k) ha, ih]
    by_cases hk : keptAt cls (a + k)
    · simp [hk]; omega
    · simp [hk]

theorem fast_eq_bounds (pl : Nat) (cls : List BidiClass) (lv : List Nat) (r : Nat × Nat)
    (hr : r.1 < r.2 ∧ r.2 ≤ cls.length) (hlen : lv.length = cls.length)
    (hno : ∀ c ∈ cls, c.isIsolateInitiator = false) :
    seqOfRunFast pl cls lv r = (seqBounds pl cls lv [r]).1 := by
  have _ := hlen
  have hsum : r.1 + (r.2 - r.1) ≤ cls.length := by omega
  have hiso : (((cls.take r.2).reverse.find? notRemoved).getD BN).isIsolateInitiator = false := by
    cases hf : (cls.take r.2).reverse.find? notRemoved with
    | none => rfl
    | some c =>
      have := List.mem_of_find?_eq_some hf
      exact hno c (List.mem_of_mem_take (List.mem_reverse.mp this))
  have hseq : (slice lv r.1 r.2).getD (((slice cls r.1 r.2).findIdx? notRemoved).getD 0) 0 =
      lv.getD ((([r].flatMap runIndices).find? (keptAt cls)).getD r.1) 0 := by
    rw [List.flatMap_singleton, runIndices, find?_range'_slice cls r.1 (r.2 - r.1) hsum]
    show (slice lv r.1 r.2).getD (((slice cls r.1 r.2).findIdx? notRemoved).getD 0) 0 =
      lv.getD ((((slice cls r.1 r.2).findIdx? notRemoved).map (fun i => r.1 + i)).getD r.1) 0
    cases hf : (slice cls r.1 r.2).findIdx? notRemoved with
    | none => rw [Option.getD_none, Option.map_none, Option.getD_none, slice_getD _ _ _ _ _ (by omega)]; rfl
    | some i =>
      obtain ⟨hi, _⟩ := List.findIdx?_eq_some_iff_getElem.mp hf
      have hi' : i < r.2 - r.1 := by
        simp only [slice, List.length_take, List.length_drop] at hi; omega
      rw [Option.getD_some, Option.map_some, Option.getD_some, slice_getD _ _ _ _ _ hi']
  have hend : (slice lv r.1 r.2).getD ((rposition notRemoved (slice cls r.1 r.2)).getD (r.2 - r.1 - 1)) 0 =
      lv.getD ((([r].flatMap runIndices).reverse.find? (keptAt cls)).getD (r.2 - 1)) 0 := by
    rw [List.flatMap_singleton, runIndices, rfind?_range'_slice cls r.1 (r.2 - r.1) hsum]
    show (slice lv r.1 r.2).getD ((rposition notRemoved (slice cls r.1 r.2)).getD (r.2 - r.1 - 1)) 0 =
      lv.getD (((rposition notRemoved (slice cls r.1 r.2)).map (fun i => r.1 + i)).getD (r.2 - 1)) 0
    cases hf : rposition notRemoved (slice cls r.1 r.2) with
    | none =>
      rw [Option.getD_none, Option.map_none, Option.getD_none, slice_getD _ _ _ _ _ (by omega)]
      congr 1; omega
    | some i =>
      have hi := rposition_lt _ _ _ hf
      have hi' : i < r.2 - r.1 := by
        simp only [slice, List.length_take, List.length_drop] at hi; omega
      rw [Option.getD_some, Option.map_some, Option.getD_some, slice_getD _ _ _ _ _ hi']
  rw [seqBounds_eq pl cls lv [r] r r [] [] rfl rfl]
  unfold seqOfRunFast
  simp only [hiso, hseq, hend, Bool.false_eq_true, if_false]
  rfl


/-! ### non-vacuity (tests on literals) -/

/-- test: a two-run sequence `LRI … PDI` around removed characters meets the hypotheses of `bounds_spec` -/
example :
    let cls := [L, RLE, LRI, BN, L, PDI, PDF, L]
    let lv := [0, 0, 0, 1, 2, 0, 0, 0]
    let ks : List Spec.K := (keptIdx cls).map (fun i =>
      { orig := i, level := lv.getD i 0, ty := ON, cls := cls.getD i ON, brk := none })
    let s := [(0, 3), (5, 7)]
    ks.map (·.level) = (keptIdx cls).map (fun i => lv.getD i 0) ∧
    ks.map (·.cls) = (keptIdx cls).map (fun i => cls.getD i ON) ∧ s ≠ [] ∧
    (∀ r ∈ s, r.1 < r.2 ∧ r.2 ≤ cls.length ∧ toKs cls r.1 < toKs cls r.2) := by decide

/-- test: a run of removed characters only meets the hypotheses of `bounds_empty` -/
example :
    let cls := [L, RLE, BN, PDF, L]
    let s := [(1, 4)]
    s ≠ [] ∧ (∀ r ∈ s, toKs cls r.1 = toKs cls r.2 ∧ r.1 ≤ r.2 ∧ r.2 ≤ cls.length) := by decide

/-- test: a run in a paragraph without isolate initiators meets the hypotheses of `fast_eq_bounds` -/
example :
    let cls := [L, RLE, R, BN, PDF, L]
    let lv := [0, 0, 1, 1, 1, 0]
    let r := (2, 5)
    (r.1 < r.2 ∧ r.2 ≤ cls.length) ∧ lv.length = cls.length ∧
    (∀ c ∈ cls, c.isIsolateInitiator = false) := by decide

end UBidi.Lemmas.C01Seq
