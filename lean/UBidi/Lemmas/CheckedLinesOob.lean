/-
  UBidi.Lemmas.CheckedLinesOob — the checked copies of `UBidi/Lemmas/CheckedLinesDefs.lean` raise no
  out-of-bounds flag: part 1, `compute_initial_info` on a well-formed text, and `reorder_levels` /
  `reordered_levels` / `reordered_levels_per_char` on a line on character boundaries.  Lemmas only.
-/
import UBidi.Lemmas.CheckedLinesVal
import UBidi.Lemmas.CheckedOobPipeline
import UBidi.Lemmas.C02Sim
import UBidi.Lemmas.C03Line
import UBidi.Props.C03
import UBidi.Lemmas.C06Line
namespace UBidi.Checked
open UBidi UBidi.BidiClass

/-! ### (A) `compute_initial_info` -/

/-- what the scan maintains at unit `pos`: one class per code unit read so far, and every entry of the
    isolate stack is the first unit of a character of the text that lies wholly inside what was read -/
structure IIInv (t : Text) (pos : Nat) (st : IIState) : Prop where
  len : st.classes.length = pos
  stk : ∀ x ∈ st.stack, ∃ s' ∈ t.segs, s'.start = x ∧ x + s'.len ≤ pos ∧ 0 < s'.len

theorem IIInv.congr {t : Text} {pos : Nat} {st st' : IIState} (h : IIInv t pos st)
    (h1 : st'.classes = st.classes) (h2 : st'.stack = st.stack) : IIInv t pos st' :=
  ⟨by rw [h1]; exact h.len, by rw [h2]; exact h.stk⟩

theorem x5cC_ok (t : Text) (hwf : t.WF) (cls : BidiClass) (st : IIState) (start pos : Nat)
    (h : IIInv t pos st) (hm : start ∈ st.stack) :
    (x5cC t cls st start).oob = false ∧ IIInv t pos (x5cC t cls st start).val := by
  obtain ⟨s', hs', h1, h2, h3⟩ := h.stk start hm
  have hc : t.charAt start = some s' := by rw [← h1]; exact Lemmas.C02.charAt_start t hwf s' hs'
  have hlt : start < st.classes.length := by rw [h.len]; omega
  constructor
  · simp only [x5cC, oob_bind, rd_oob ON hlt, Bool.false_or, rd_val]
    split
    · simp only [oob_bind, oob_pure, Bool.or_false, hc]
      exact wrRange_oob _ _ _ _ (by rw [h.len]; omega)
    · rfl
  · rw [x5cC_val]
    split
    · exact ⟨by simp only [Lemmas.C03.length_setRange]; exact h.len, h.stk⟩
    · exact h

theorem iiStrongC_ok (t : Text) (hwf : t.WF) (cls : BidiClass) (st : IIState) (pos : Nat) (h : IIInv t pos st) :
    (iiStrongC t cls st).oob = false ∧ IIInv t pos (iiStrongC t cls st).val := by
  unfold iiStrongC
  split
  · rename_i start rest heq
    exact x5cC_ok t hwf cls st start pos h (by rw [heq]; simp)
  · split
    · exact ⟨rfl, h.congr rfl rfl⟩
    · exact ⟨rfl, h⟩

theorem iiStepC_ok (ds : DataSource) (t : Text) (hwf : t.WF) (split : Bool) (dflt : Option Nat)
    (st : IIState) (s : Seg) (hs : s ∈ t.segs) (hpos : 0 < s.len) (h : IIInv t s.start st) :
    (iiStepC ds t split dflt st s).oob = false ∧
    IIInv t (s.start + s.len) (iiStepC ds t split dflt st s).val := by
  have hlen := hwf.lens s hs
  -- the state after `original_classes.extend(…)`
  have h1 : ∀ c, IIInv t (s.start + s.len)
      { st with classes := st.classes ++ List.replicate (t.enc.charLen s.cp) c } := fun c =>
    ⟨by simp [h.len, hlen], fun x hx => by
      obtain ⟨s', a1, a2, a3, a4⟩ := h.stk x hx
      exact ⟨s', a1, a2, by omega, a4⟩⟩
  unfold iiStepC
  simp only []
  generalize hc : ds.cls s.cp = c
  cases c <;> simp only [oob_pure, val_pure, true_and]
  case B =>
    cases split
    · exact ⟨rfl, h1 B⟩
    · exact ⟨rfl, ⟨(h1 B).len, fun x hx => by simp at hx⟩⟩
  case L => exact iiStrongC_ok t hwf _ _ _ ((h1 L).congr (by split <;> rfl) (by split <;> rfl))
  case R => exact iiStrongC_ok t hwf _ _ _ ((h1 R).congr (by split <;> rfl) (by split <;> rfl))
  case AL => exact iiStrongC_ok t hwf _ _ _ ((h1 AL).congr (by split <;> rfl) (by split <;> rfl))
  case RLI | LRI | FSI =>
    refine ⟨(h1 _).len, fun x hx => ?_⟩
    rcases List.mem_cons.1 hx with rfl | hx
    · exact ⟨s, hs, rfl, Nat.le_refl _, hpos⟩
    · exact (h1 L).stk x hx
  case PDI => exact ⟨(h1 _).len, fun x hx => (h1 PDI).stk x (List.mem_of_mem_tail hx)⟩
  all_goals exact (h1 _).congr rfl rfl

theorem ii_fold_ok (ds : DataSource) (t : Text) (hwf : t.WF) (split : Bool) (dflt : Option Nat) (n : Nat) :
    ∀ (segs : List Seg) (pos : Nat) (st : IIState), SegsFrom pos segs n → (∀ s ∈ segs, s ∈ t.segs) →
      IIInv t pos st → (foldlC (iiStepC ds t split dflt) st segs).oob = false
  | [], _, _, _, _, _ => rfl
  | s :: ss, pos, st, htile, hmem, h => by
    obtain ⟨e1, e2, e3⟩ := htile
    subst e1
    obtain ⟨o1, o2⟩ := iiStepC_ok ds t hwf split dflt st s (hmem s (by simp)) e2 h
    simp only [foldlC, oob_bind, o1, Bool.false_or]
    exact ii_fold_ok ds t hwf split dflt n ss _ _ e3 (fun x hx => hmem x (by simp [hx])) o2

/-- `compute_initial_info` on a well-formed text: no out-of-bounds flag, for every data source, every
    base-direction argument, both modes -/
theorem computeInitialInfoC_oob (ds : DataSource) (t : Text) (hwf : t.WF) (dflt : Option Nat) (split : Bool) :
    (computeInitialInfoC ds t dflt split).oob = false := by
  simp only [computeInitialInfoC, oob_bind, oob_pure, Bool.or_false]
  exact ii_fold_ok ds t hwf split dflt t.len t.segs 0 _ hwf.tiles (fun _ h => h)
    ⟨rfl, fun x hx => by simp at hx⟩

/-! ### (B) `reorder_levels` -/

/-- what the loop of `reorder_levels` maintains at unit `pos` of a line of `n` units: the level array
    keeps its length, `reset_to` is `None` between iterations, `reset_from` points into what was read -/
structure L1Inv (n pos : Nat) (st : L1State) : Prop where
  len : st.levels.length = n
  rt : st.resetTo = none
  rf : ∀ a, st.resetFrom = some a → a ≤ pos

/-- after the first `match` of an iteration at unit `i` (a character of `w` units) -/
structure L1Mid (n i w : Nat) (st : L1State) : Prop where
  len : st.levels.length = n
  rf : ∀ a, st.resetFrom = some a → a ≤ i
  rt : ∀ b, st.resetTo = some b → b = i + w ∧ st.resetFrom.isSome = true

theorem l1ClassC_oob (enc : Enc) (st : L1State) (s : Seg) (c : BidiClass)
    (h : s.start + enc.charLen s.cp ≤ st.levels.length) : (l1ClassC enc st s c).oob = false := by
  unfold l1ClassC
  cases c <;> simp only [oob_pure, oob_bind, wrRange_oob _ _ _ _ h, Bool.or_false]

set_option linter.unusedSimpArgs false in
theorem l1ClassM_mid (enc : Enc) (st : L1State) (s : Seg) (c : BidiClass) (n : Nat)
    (h : L1Inv n s.start st) : L1Mid n s.start (enc.charLen s.cp) (l1ClassM enc st s c) := by
  obtain ⟨lv, rf, rt, pv, er⟩ := st
  obtain ⟨h1, h2, h3⟩ := h
  simp only at h1 h2 h3
  subst h2
  unfold l1ClassM
  cases c <;> cases rf <;>
    simp_all [Lemmas.C03.length_setRange, L1Mid] <;>
    (constructor <;> simp_all)

theorem l1ResetC_oob (pl : Nat) (st : L1State) (n i w : Nat) (hw : i + w ≤ n) (h : L1Mid n i w st) :
    (l1ResetC pl st).oob = false := by
  obtain ⟨lv, rf, rt, pv, er⟩ := st
  obtain ⟨h1, h2, h3⟩ := h
  simp only at h1 h2 h3
  unfold l1ResetC
  cases rf with
  | none => rfl
  | some a =>
    cases rt with
    | none => rfl
    | some b =>
      have ha := h2 a rfl
      have hb := (h3 b rfl).1
      simp only [oob_bind, oob_pure, Bool.or_false]
      rw [slc_oob (by omega) (by omega), wrRangeLoop_oob a pl (b - a) lv (by omega)]
      rfl

theorem l1ResetM_inv (pl : Nat) (st : L1State) (n i w : Nat) (h : L1Mid n i w st) :
    L1Inv n i (l1ResetM pl st) := by
  obtain ⟨lv, rf, rt, pv, er⟩ := st
  obtain ⟨h1, h2, h3⟩ := h
  simp only at h1 h2 h3
  unfold l1ResetM
  cases rf with
  | none =>
    cases rt with
    | none => exact ⟨h1, rfl, fun a ha => by cases ha⟩
    | some b => have := (h3 b rfl).2; simp at this
  | some a =>
    cases rt with
    | none => exact ⟨h1, rfl, h2⟩
    | some b => exact ⟨by simp only [Lemmas.C03.length_setRange]; exact h1, rfl, fun a ha => by cases ha⟩

theorem l1StepC_ok (enc : Enc) (cls : Classes) (pl : Nat) (st : L1State) (s : Seg) (n : Nat)
    (hc : cls.length = n) (hpos : 0 < s.len) (hlen : s.len = enc.charLen s.cp) (hn : s.start + s.len ≤ n)
    (h : L1Inv n s.start st) :
    (l1StepC enc cls pl st s).oob = false ∧ L1Inv n (s.start + s.len) (l1StepC enc cls pl st s).val := by
  have hmid := l1ClassM_mid enc st s (cls.getD s.start ON) n h
  have hinv := l1ResetM_inv pl _ n _ _ hmid
  constructor
  · simp only [l1StepC, oob_bind, oob_pure, Bool.or_false, rd_val, l1ClassC_val, l1ResetC_val]
    rw [rd_oob ON (by omega), l1ClassC_oob enc st s _ (by rw [h.len, ← hlen]; exact hn),
      l1ResetC_oob pl _ n s.start (enc.charLen s.cp) (by omega) hmid,
      rd_oob 0 (by rw [hinv.len]; omega)]
    rfl
  · rw [l1StepC_val, l1Step_eq]
    exact ⟨hinv.len, hinv.rt, fun a ha => by have := hinv.rf a ha; omega⟩

theorem l1_fold_ok (enc : Enc) (cls : Classes) (pl n : Nat) (hc : cls.length = n) :
    ∀ (segs : List Seg) (pos : Nat) (st : L1State), SegsFrom pos segs n →
      (∀ s ∈ segs, s.len = enc.charLen s.cp) → L1Inv n pos st →
      (foldlC (l1StepC enc cls pl) st segs).oob = false ∧ L1Inv n n (foldlC (l1StepC enc cls pl) st segs).val
  | [], pos, st, htile, _, h => by
    simp only [SegsFrom] at htile
    subst htile
    exact ⟨rfl, h⟩
  | s :: ss, pos, st, htile, hl, h => by
    have hb := (Lemmas.C03.SegsFrom_bounds htile).2 s (by simp)
    obtain ⟨e1, e2, e3⟩ := htile
    subst e1
    obtain ⟨o1, o2⟩ := l1StepC_ok enc cls pl st s n hc e2 (hl s (by simp)) (by omega) h
    obtain ⟨o3, o4⟩ := l1_fold_ok enc cls pl n hc ss _ _ e3 (fun x hx => hl x (by simp [hx])) o2
    simp only [foldlC, oob_bind, val_bind, o1, o3, Bool.or_self]
    exact ⟨trivial, o4⟩

/-- `reorder_levels` on a well-formed line text with one class and one level per code unit -/
theorem reorderLevelsC_oob (cls : Classes) (lv : List Nat) (t : Text) (hwf : t.WF) (pl : Nat)
    (hc : cls.length = t.len) (hl : lv.length = t.len) : (reorderLevelsC cls lv t pl).oob = false := by
  obtain ⟨o1, o2⟩ := l1_fold_ok t.enc cls pl t.len hc t.segs 0 { levels := lv, prev := pl } hwf.tiles hwf.lens
    ⟨hl, rfl, fun a ha => by cases ha; exact Nat.le_refl _⟩
  simp only [reorderLevelsC, oob_bind, o1, Bool.false_or]
  generalize (foldlC (l1StepC t.enc cls pl) { levels := lv, prev := pl } t.segs).val = st at o2
  obtain ⟨lv', rf, rt, pv, er⟩ := st
  obtain ⟨h1, h2, h3⟩ := o2
  simp only at h1 h2 h3
  cases rf with
  | none => rfl
  | some a =>
    have := h3 a rfl
    simp only [oob_bind, oob_pure, Bool.or_false]
    rw [slc_oob (by omega) (Nat.le_refl _), wrRangeLoop_oob a pl _ lv' (by omega)]
    rfl

/-- `reordered_levels(line)`: a line inside a well-formed text, on character boundaries, one class and one
    level per code unit -/
theorem reorderedLevelsC_oob (t : Text) (hwf : t.WF) (classes : Classes) (levels : List Nat) (pl a b : Nat)
    (hab : a ≤ b) (hb : b ≤ t.len) (ha : t.isBoundary a = true) (hbb : t.isBoundary b = true)
    (hc : classes.length = t.len) (hl : levels.length = t.len) :
    (reorderedLevelsC t classes levels pl a b).oob = false := by
  unfold reorderedLevelsC
  split
  · rfl
  · split
    · rfl
    · split
      · rfl
      · have hwf' := Lemmas.C03.subrange_WF t hwf a b hab ha hbb
        have h1 : (slice classes a b).length = (t.subrange a b).len := by
          simp [slice, Text.subrange]; omega
        have h2 : (slice levels a b).length = (t.subrange a b).len := by
          simp [slice, Text.subrange]; omega
        simp only [oob_bind, oob_pure, Bool.or_false, sliceC_val]
        rw [sliceC_oob hab (by omega), sliceC_oob hab (by omega), slc_oob hab hb,
          reorderLevelsC_oob _ _ _ hwf' pl h1 h2, takeC_oob (by omega), dropC_oob (by omega)]
        rfl

/-- `reordered_levels_per_char(line)` -/
theorem reorderedLevelsPerCharC_oob (t : Text) (hwf : t.WF) (classes : Classes) (levels : List Nat)
    (pl a b : Nat) (hab : a ≤ b) (hb : b ≤ t.len) (ha : t.isBoundary a = true) (hbb : t.isBoundary b = true)
    (hc : classes.length = t.len) (hl : levels.length = t.len) :
    (reorderedLevelsPerCharC t classes levels pl a b).oob = false := by
  simp only [reorderedLevelsPerCharC, oob_bind, oob_pure, Bool.or_false, reorderedLevelsC_val,
    reorderedLevelsC_oob t hwf classes levels pl a b hab hb ha hbb hc hl, Bool.false_or]
  apply mapC_oob
  intro s hs
  have h1 := (Lemmas.C03.SegsFrom_bounds hwf.tiles).2 s hs
  have h2 := Lemmas.C06.segsFrom_pos hwf.tiles s hs
  exact rd_oob 0 (by rw [(Props.C03.C03_outside t classes levels pl a b).1, hl]; omega)

end UBidi.Checked
