/-
  C01 / StageSeq — BD9 facts on `Spec.matchTable` for arbitrary class lists:
  an entry is an initiator and a later PDI (`match_h1`), a PDI matches at most one
  initiator (`match_inj`), and a PDI in the scope of a still open initiator is matched by
  an initiator inside that scope (`match_h3`).
-/
import UBidi.Lemmas.C01SeqBal
namespace UBidi.Lemmas.C01Seq
open UBidi UBidi.BidiClass UBidi.Spec
open UBidi.Props.C13 (IsoBalanced BalN isIsoInit_iff mtAt matchTable_getD matching_balanced
  mtAt_content mtAt_init)

/-- no paragraph separator except possibly as the last character -/
def NoInnerB (cs : List BidiClass) : Prop := ∀ c ∈ cs.dropLast, c ≠ B

theorem isIsolateInitiator_eq (c : BidiClass) : c.isIsolateInitiator = isIsoInit c := by
  cases c <;> rfl

/-! ### reading positions off a decomposition -/

theorem getD_mid (A : List BidiClass) (c : BidiClass) (R : List BidiClass) (n : Nat) (hn : A.length = n) :
    (A ++ c :: R).getD n ON = c := by
  subst hn
  simp [List.getD_eq_getElem?_getD]

theorem getD_mid2 (A : List BidiClass) (i : BidiClass) (W : List BidiClass) (c : BidiClass) (R : List BidiClass)
    (n : Nat) (hn : A.length + 1 + W.length = n) :
    (A ++ i :: W ++ c :: R).getD n ON = c := by
  have e : A ++ i :: W ++ c :: R = (A ++ i :: W) ++ c :: R := by simp
  rw [e]
  exact getD_mid _ c R n (by simp; omega)

/-- BD9: an entry of the match table is an initiator and a later PDI -/
theorem match_h1 (cs : List BidiClass) (q p : Nat) (h : (matchTable cs).getD q none = some p) :
    (cs.getD q ON).isIsolateInitiator = true ∧ q < p ∧ cs.getD p ON = PDI := by
  obtain ⟨A, i, W, C, rfl, hA, hp, hi, _⟩ := match_balanced cs q p h
  refine ⟨?_, by omega, ?_⟩
  · rw [isIsolateInitiator_eq, List.append_assoc, List.cons_append, getD_mid A i _ q hA]; exact hi
  · exact getD_mid2 A i W PDI C p (by omega)

/-- one direction of `match_inj` -/
theorem match_inj_lt (cs : List BidiClass) (q q' p : Nat) (h : (matchTable cs).getD q none = some p)
    (h' : (matchTable cs).getD q' none = some p) (hlt : q < q') : False := by
  have hq'p : q' < p := (match_h1 cs q' p h').2.1
  obtain ⟨A, i, W, C, rfl, hA, hp, _, hW⟩ := match_balanced cs q p h
  rw [matchTable_getD] at h'
  have := mtAt_content A i W hW C q' p (by omega) (by omega) h'
  omega

/-- a PDI matches at most one initiator -/
theorem match_inj (cs : List BidiClass) (q q' p : Nat) (h : (matchTable cs).getD q none = some p)
    (h' : (matchTable cs).getD q' none = some p) : q = q' := by
  rcases Nat.lt_trichotomy q q' with hlt | heq | hgt
  · exact (match_inj_lt cs q q' p h h' hlt).elim
  · exact heq
  · exact (match_inj_lt cs q' q p h' h hgt).elim

/-! ### `match_h3` -/

/-- a text without paragraph separator either owes some number of closing PDIs and has no open
    initiator, or ends with an open initiator followed by a balanced text -/
theorem open_or_balN : ∀ (pre : List BidiClass), B ∉ pre →
    (∃ n, BalN n pre) ∨ (∃ u i W, pre = u ++ i :: W ∧ isIsoInit i = true ∧ IsoBalanced W)
  | [], _ => .inl ⟨0, .nil⟩
  | c :: pre, hB => by
    have hcB : c ≠ B := by intro e; subst e; simp at hB
    have hB' : B ∉ pre := by intro e; exact hB (by simp [e])
    rcases open_or_balN pre hB' with ⟨n, hn⟩ | ⟨u, i, W, rfl, hi, hW⟩
    · by_cases hiso : isIsoInit c = true
      · cases n with
        | zero => exact .inr ⟨[], c, pre, rfl, hiso, hn⟩
        | succ n =>
          obtain ⟨u, v, rfl, hu, hv⟩ := hn
          left
          cases n with
          | zero => exact ⟨0, .iso c u v ((isIsoInit_iff c).1 hiso) hu hv⟩
          | succ n =>
            obtain ⟨u', v', rfl, hu', hv'⟩ := hv
            exact ⟨n + 1, c :: u ++ PDI :: u', v', by simp,
              .iso c u u' ((isIsoInit_iff c).1 hiso) hu hu', hv'⟩
      · by_cases hP : c = PDI
        · subst hP
          exact .inl ⟨n + 1, [], pre, rfl, .nil, hn⟩
        · exact .inl ⟨n, balN_cons_other c hcB (by simpa using hiso) hP n pre hn⟩
    · exact .inr ⟨c :: u, i, W, rfl, hi, hW⟩

/-- a PDI after a text with no open initiator: the scan at depth 0 stops at it or before it -/
theorem balN_found (n : Nat) (pre : List BidiClass) (h : BalN n pre) (Y : List BidiClass) (pos : Nat) :
    ∃ k, k ≤ pre.length ∧ matchingPDI (pre ++ PDI :: Y) 0 pos = some (pos + k) := by
  cases n with
  | zero =>
    refine ⟨pre.length, Nat.le_refl _, ?_⟩
    have := matching_balanced pre h Y 0 pos
    simpa using this
  | succ n =>
    obtain ⟨u, v, rfl, hu, _⟩ := h
    refine ⟨u.length, by simp, ?_⟩
    have := matching_balanced u hu (v ++ PDI :: Y) 0 pos
    simpa using this

/-- the entry of an initiator followed by a text with no open initiator and a PDI -/
theorem mtAt_balN (A : List BidiClass) (i : BidiClass) (hi : isIsoInit i = true) (n : Nat)
    (pre : List BidiClass) (h : BalN n pre) (C : List BidiClass) :
    ∃ k, k ≤ pre.length ∧ mtAt (A ++ i :: pre ++ PDI :: C) A.length = some (A.length + 1 + k) := by
  obtain ⟨k, hk, hm⟩ := balN_found n pre h C 0
  refine ⟨k, hk, ?_⟩
  unfold mtAt
  have e1 : (A ++ i :: pre ++ PDI :: C).drop A.length = i :: (pre ++ PDI :: C) := by
    rw [List.append_assoc, List.drop_left]; rfl
  rw [e1]
  simp only [hi, if_true, hm]
  simp; omega

/-- cut a list at two positions -/
theorem split_two (cs : List BidiClass) (q x : Nat) (hqx : q < x) (hx : x < cs.length) :
    cs = cs.take q ++ cs[q] :: (cs.drop (q + 1)).take (x - q - 1) ++ cs[x] :: cs.drop (x + 1) := by
  have h1 : cs.drop q = cs[q] :: cs.drop (q + 1) := List.drop_eq_getElem_cons (by omega)
  have hx' : x - q - 1 < (cs.drop (q + 1)).length := by simp; omega
  have h2 : (cs.drop (q + 1)).drop (x - q - 1) = cs[x] :: cs.drop (x + 1) := by
    rw [List.drop_eq_getElem_cons hx']
    simp only [List.getElem_drop, List.drop_drop]
    congr 2 <;> omega
  calc cs = cs.take q ++ cs.drop q := (List.take_append_drop q cs).symm
    _ = cs.take q ++ cs[q] :: ((cs.drop (q + 1)).take (x - q - 1) ++ (cs.drop (q + 1)).drop (x - q - 1)) := by
        rw [h1, List.take_append_drop]
    _ = _ := by rw [h2]; simp

theorem getD_eq_PDI_lt (cs : List BidiClass) (x : Nat) (hx : cs.getD x ON = PDI) : x < cs.length := by
  rcases Nat.lt_or_ge x cs.length with h | h
  · exact h
  · rw [List.getD_eq_getElem?_getD, List.getElem?_eq_none h] at hx
    cases hx

/-- a PDI at `x` in the scope of an initiator `q` that is still open after `x` (its match, if any, is beyond `x`)
    is matched by an initiator strictly between `q` and `x` -/
theorem match_h3 (cs : List BidiClass) (hB : NoInnerB cs) (q x : Nat)
    (hq : (cs.getD q ON).isIsolateInitiator = true) (hqx : q < x) (hx : cs.getD x ON = PDI)
    (hopen : ∀ p, (matchTable cs).getD q none = some p → x < p) :
    ∃ q', q < q' ∧ q' < x ∧ (matchTable cs).getD q' none = some x := by
  have hxl : x < cs.length := getD_eq_PDI_lt cs x hx
  have hcx : cs[x] = PDI := by
    rw [List.getD_eq_getElem?_getD, List.getElem?_eq_getElem hxl] at hx; simpa using hx
  have hcq : isIsoInit cs[q] = true := by
    rw [isIsolateInitiator_eq, List.getD_eq_getElem?_getD, List.getElem?_eq_getElem (by omega)] at hq
    simpa using hq
  have hsplit := split_two cs q x hqx hxl
  rw [hcx] at hsplit
  generalize hA : cs.take q = A at hsplit
  generalize hpre : (cs.drop (q + 1)).take (x - q - 1) = pre at hsplit
  generalize cs.drop (x + 1) = C at hsplit
  generalize cs[q] = i at hsplit hcq
  have hAl : A.length = q := by rw [← hA]; simp; omega
  have hprel : pre.length = x - q - 1 := by rw [← hpre]; simp; omega
  clear hA hpre hcx hx hq
  subst hsplit
  have hpreB : B ∉ pre := by
    intro hm
    have e : A ++ i :: pre ++ PDI :: C = (A ++ i :: pre) ++ PDI :: C := by simp
    have : B ∈ (A ++ i :: pre ++ PDI :: C).dropLast := by
      rw [e, List.dropLast_append_of_ne_nil (by simp)]
      simp [hm]
    exact hB B this rfl
  rcases open_or_balN pre hpreB with ⟨n, hn⟩ | ⟨u, j, W, rfl, hj, hW⟩
  · obtain ⟨k, hk, hm⟩ := mtAt_balN A i hcq n pre hn C
    have := hopen (A.length + 1 + k) (by rw [matchTable_getD, ← hAl]; exact hm)
    omega
  · refine ⟨q + 1 + u.length, by omega, by simp at hprel; omega, ?_⟩
    have e : A ++ i :: (u ++ j :: W) ++ PDI :: C = (A ++ i :: u) ++ j :: W ++ PDI :: C := by simp
    have hm := mtAt_init (A ++ i :: u) j hj W hW C
    rw [matchTable_getD, e]
    have e1 : (A ++ i :: u).length = q + 1 + u.length := by simp; omega
    rw [e1] at hm
    rw [hm]
    simp at hprel
    congr 1; omega

/-! ### non-vacuity (tests on literals) -/

example : NoInnerB [LRI, RLI, L, PDI, L, B] := by unfold NoInnerB; decide
example : (matchTable [LRI, RLI, L, PDI, L, B]).getD 1 none = some 3 := by decide
example : (matchTable [LRI, RLI, L, PDI, L, B]).getD 0 none = none := by decide
-- the hypotheses of `match_h3` hold for q = 0, x = 3, and its conclusion names q' = 1
example : ∃ q', 0 < q' ∧ q' < 3 ∧ (matchTable [LRI, RLI, L, PDI, L, B]).getD q' none = some 3 :=
  match_h3 [LRI, RLI, L, PDI, L, B] (by unfold NoInnerB; decide) 0 3 (by decide) (by decide) (by decide)
    (by
      intro p h
      have e : (matchTable [LRI, RLI, L, PDI, L, B]).getD 0 none = none := by decide
      rw [e] at h; cases h)

end UBidi.Lemmas.C01Seq
