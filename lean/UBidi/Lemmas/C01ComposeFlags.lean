/-
  C01 / composition, for layer 4: the two flags `compute_initial_info` hands to
  `compute_bidi_info_for_para` (single-paragraph mode) are "every class leaves `is_pure_ltr` set"
  and "some class is an isolate initiator" of the raw classes (`single_flags`), and what X5c
  (`Spec.resolveFSI`) can change in a class list (`resolveFSI_get`, `resolveFSI_pure`,
  `resolveFSI_anyIso`, `resolveFSI_noInnerB`).
-/
import UBidi.Lemmas.C01ComposeChars
import UBidi.Lemmas.C10Slice
import UBidi.Lemmas.C13Match
namespace UBidi.Lemmas.C01Compose
open UBidi UBidi.BidiClass UBidi.Lemmas.C01Seq UBidi.Lemmas.C01Pure

/-! ### the flags -/

theorem iiStep_flags (ds : DataSource) (T : Text) (d : Option Nat) (st : IIState) (s : Seg) :
    (iiStep ds T false d st s).pureLtr = (st.pureLtr && pureClass (ds.cls s.cp)) ∧
    (iiStep ds T false d st s).hasIso = (st.hasIso || (ds.cls s.cp).isIsolateInitiator) := by
  unfold iiStep
  simp only []
  generalize ds.cls s.cp = c
  cases c <;> simp only [pureClass, isIsolateInitiator, Bool.and_true, Bool.and_false, Bool.or_false,
    Bool.or_true, Bool.false_eq_true, if_false] <;> (repeat' split) <;> simp_all

theorem fold_flags (ds : DataSource) (T : Text) (d : Option Nat) : ∀ (segs : List Seg) (st : IIState),
    (segs.foldl (iiStep ds T false d) st).pureLtr =
      (st.pureLtr && (segs.map (fun s => ds.cls s.cp)).all pureClass) ∧
    (segs.foldl (iiStep ds T false d) st).hasIso =
      (st.hasIso || (segs.map (fun s => ds.cls s.cp)).any isIsolateInitiator)
  | [], st => by simp
  | s :: segs, st => by
    obtain ⟨h1, h2⟩ := fold_flags ds T d segs (iiStep ds T false d st s)
    obtain ⟨g1, g2⟩ := iiStep_flags ds T d st s
    rw [List.foldl_cons, h1, h2, g1, g2]
    simp [Bool.and_assoc, Bool.or_assoc]

/-- single-paragraph mode: the flags are functions of the raw classes -/
theorem single_flags (ds : DataSource) (t : Text) (d : Option Nat) :
    (computeInitialInfo ds t d false).lastPureLtr = (t.segs.map (fun s => ds.cls s.cp)).all pureClass ∧
    (computeInitialInfo ds t d false).lastHasIso =
      (t.segs.map (fun s => ds.cls s.cp)).any isIsolateInitiator := by
  rw [UBidi.Lemmas.C10.cii_eq]
  obtain ⟨h1, h2⟩ := fold_flags ds t d t.segs { paraLevel := d }
  simp only [UBidi.Lemmas.C10.finishII]
  exact ⟨by rw [h1]; rfl, by rw [h2]; rfl⟩

/-! ### what X5c changes -/

/-- a class and what X5c may make of it -/
def fsiRel (c c' : BidiClass) : Prop := c' = c ∨ (c = FSI ∧ (c' = LRI ∨ c' = RLI))

theorem resolveFSI_cons (c : BidiClass) (cs : List BidiClass) :
    ∃ c', Spec.resolveFSI (c :: cs) = c' :: Spec.resolveFSI cs ∧ fsiRel c c' := by
  refine ⟨_, rfl, ?_⟩
  unfold fsiRel
  by_cases hc : c = FSI
  · subst hc
    simp only [beq_self_eq_true, if_true]
    split
    · exact Or.inr ⟨trivial, Or.inl rfl⟩
    · exact Or.inr ⟨trivial, Or.inr rfl⟩
    · exact Or.inl rfl
  · have : (c == FSI) = false := by simpa using hc
    simp only [this]
    exact Or.inl rfl

theorem resolveFSI_get : ∀ (cs : List BidiClass) (i : Nat) (c' : BidiClass),
    (Spec.resolveFSI cs)[i]? = some c' → ∃ c, cs[i]? = some c ∧ fsiRel c c'
  | [], i, c', h => by simp [Spec.resolveFSI] at h
  | c :: cs, i, c', h => by
    obtain ⟨c0, h0, hr⟩ := resolveFSI_cons c cs
    rw [h0] at h
    cases i with
    | zero =>
      simp only [List.getElem?_cons_zero, Option.some.injEq] at h
      subst h
      exact ⟨c, rfl, hr⟩
    | succ i =>
      simp only [List.getElem?_cons_succ] at h ⊢
      exact resolveFSI_get cs i c' h

/-- a list without FSI is left alone -/
theorem resolveFSI_noFSI : ∀ (cs : List BidiClass), (∀ c ∈ cs, c ≠ FSI) → Spec.resolveFSI cs = cs
  | [], _ => rfl
  | c :: cs, h => by
    have hc : (c == FSI) = false := by simpa using h c (by simp)
    simp only [Spec.resolveFSI, hc, Bool.false_eq_true, if_false]
    rw [resolveFSI_noFSI cs (fun x hx => h x (by simp [hx]))]

theorem resolveFSI_pure (cs : List BidiClass) (h : cs.all pureClass = true) : Spec.resolveFSI cs = cs := by
  apply resolveFSI_noFSI
  intro c hc e
  have := List.all_eq_true.1 h c hc
  rw [e] at this
  cases this

theorem fsiRel_iso {c c' : BidiClass} (h : fsiRel c c') : c'.isIsolateInitiator = c.isIsolateInitiator := by
  rcases h with rfl | ⟨rfl, rfl | rfl⟩ <;> rfl

theorem resolveFSI_anyIso : ∀ (cs : List BidiClass),
    (Spec.resolveFSI cs).any isIsolateInitiator = cs.any isIsolateInitiator
  | [] => rfl
  | c :: cs => by
    obtain ⟨c0, h0, hr⟩ := resolveFSI_cons c cs
    rw [h0, List.any_cons, List.any_cons, fsiRel_iso hr, resolveFSI_anyIso cs]

theorem mem_dropLast_iff {α} (l : List α) (x : α) : x ∈ l.dropLast ↔ ∃ i, i + 1 < l.length ∧ l[i]? = some x := by
  rw [List.mem_iff_getElem?]
  constructor
  · rintro ⟨i, hi⟩
    have hlt : i < l.dropLast.length := by
      rcases Nat.lt_or_ge i l.dropLast.length with h | h
      · exact h
      · rw [List.getElem?_eq_none h] at hi; cases hi
    rw [List.length_dropLast] at hlt
    refine ⟨i, by omega, ?_⟩
    rw [List.getElem?_eq_getElem (by rw [List.length_dropLast]; exact hlt), List.getElem_dropLast] at hi
    rw [List.getElem?_eq_getElem (by omega)]
    exact hi
  · rintro ⟨i, hi, hx⟩
    refine ⟨i, ?_⟩
    have hlt : i < l.dropLast.length := by rw [List.length_dropLast]; omega
    rw [List.getElem?_eq_getElem hlt, List.getElem_dropLast]
    rw [List.getElem?_eq_getElem (by omega)] at hx
    exact hx

theorem resolveFSI_noInnerB (cs : List BidiClass) (h : NoInnerB cs) : NoInnerB (Spec.resolveFSI cs) := by
  intro c' hc' hB
  rw [mem_dropLast_iff] at hc'
  obtain ⟨i, hi, hx⟩ := hc'
  obtain ⟨c, hc, hr⟩ := resolveFSI_get cs i c' hx
  rw [UBidi.Props.C13.resolveFSI_length] at hi
  have hcB : c = B := by
    subst hB
    rcases hr with h1 | ⟨_, h2 | h2⟩
    · exact h1.symm
    · cases h2
    · cases h2
  exact h c ((mem_dropLast_iff cs c).2 ⟨i, hi, hc⟩) hcB

theorem fsiRel_brk {c c' : BidiClass} (h : fsiRel c c') (hc : brkClassOK c) : brkClassOK c' := by
  rcases h with rfl | ⟨_, rfl | rfl⟩
  · exact hc
  · exact ⟨by decide, by decide, by decide, by decide⟩
  · exact ⟨by decide, by decide, by decide, by decide⟩

end UBidi.Lemmas.C01Compose
