/- Helper lemmas for C15: first-match scan of the bracket table. -/
import UBidi.Model.CharData
namespace UBidi.Lemmas.C15
open UBidi

abbrev Triple := Nat × Nat × Option Nat

/-- all code points of a pairs table, opening then closing, in table order -/
abbrev codes (t : List Triple) : List Nat := t.flatMap (fun p => [p.1, p.2.1])

theorem bracketIn_none (t : List Triple) (c : Nat) (h : ∀ p ∈ t, p.1 ≠ c ∧ p.2.1 ≠ c) :
    bracketIn t c = none := by
  induction t with
  | nil => rfl
  | cons q rest ih =>
    obtain ⟨o, cl, norm⟩ := q
    have h0 := h (o, cl, norm) List.mem_cons_self
    have hn : ¬ (o = c ∨ cl = c) := by simp only at h0; omega
    simp only [bracketIn, if_neg hn]
    exact ih (fun p hp => h p (List.mem_cons_of_mem _ hp))

theorem mem_codes_left {t : List Triple} {p : Triple} (hp : p ∈ t) : p.1 ∈ codes t :=
  List.mem_flatMap.2 ⟨p, hp, by simp⟩

theorem mem_codes_right {t : List Triple} {p : Triple} (hp : p ∈ t) : p.2.1 ∈ codes t :=
  List.mem_flatMap.2 ⟨p, hp, by simp⟩

theorem bracketIn_scan (t : List Triple) (h : (codes t).Nodup) (p : Triple) (hp : p ∈ t) :
    bracketIn t p.1 = some { opening := p.2.2.getD p.1, isOpen := true } ∧
    bracketIn t p.2.1 = some { opening := p.2.2.getD p.1, isOpen := false } := by
  induction t with
  | nil => cases hp
  | cons q rest ih =>
    obtain ⟨o, cl, norm⟩ := q
    have hnd : (o :: cl :: codes rest).Nodup := by simpa [codes] using h
    have hnd1 := List.nodup_cons.1 hnd
    have hnd2 := List.nodup_cons.1 hnd1.2
    have hocl : o ≠ cl := fun e => hnd1.1 (e ▸ List.mem_cons_self)
    rcases List.mem_cons.1 hp with rfl | hp'
    · simp only [bracketIn, true_or, or_true, if_true, decide_true]
      simp [hocl]
    · have h1 := mem_codes_left hp'
      have h2 := mem_codes_right hp'
      have ho1 : o ≠ p.1 := fun e => hnd1.1 (e ▸ List.mem_cons_of_mem _ h1)
      have ho2 : o ≠ p.2.1 := fun e => hnd1.1 (e ▸ List.mem_cons_of_mem _ h2)
      have hc1 : cl ≠ p.1 := fun e => hnd2.1 (e ▸ h1)
      have hc2 : cl ≠ p.2.1 := fun e => hnd2.1 (e ▸ h2)
      have := ih hnd2.2 hp'
      simp only [bracketIn, ho1, ho2, hc1, hc2, or_self, if_false]
      exact this

end UBidi.Lemmas.C15
