/-
  C13 — helper lemmas, part 4: BD9 inside a balanced block (`balanced_inner`) and the entries of
  `Spec.matchTable` of a text with a balanced block against the text without it.
-/
import UBidi.Lemmas.C13Match
namespace UBidi.Props.C13
open UBidi UBidi.Spec BidiClass

/-- every isolate initiator inside a balanced block has its matching PDI inside the block -/
theorem balanced_inner (w : List BidiClass) (hw : IsoBalanced w) :
    ∀ (u : List BidiClass) (c : BidiClass) (v : List BidiClass), w = u ++ c :: v → isIsoInit c = true →
      ∃ k, k < v.length ∧ ∀ Y pos, matchingPDI (v ++ Y) 0 pos = some (pos + k) := by
  induction hw with
  | nil => intro u c v h; simp at h
  | other c0 w h1 h2 h3 h4 h5 _ ih =>
    intro u c v h hc
    cases u with
    | nil =>
      simp at h; obtain ⟨rfl, rfl⟩ := h
      exfalso
      rcases (isIsoInit_iff c0).1 hc with e | e | e <;> contradiction
    | cons d u =>
      simp at h
      exact ih u c v h.2 hc
  | iso i w v' hi hw' hv' ihw ihv =>
    intro u c v h hc
    cases u with
    | nil =>
      simp at h; obtain ⟨rfl, rfl⟩ := h
      refine ⟨w.length, by simp, ?_⟩
      intro Y pos
      have := matching_balanced w hw' (v' ++ Y) 0 pos
      simpa using this
    | cons d u =>
      simp only [List.cons_append, List.cons.injEq] at h
      obtain ⟨rfl, h⟩ := h
      rw [List.append_eq_append_iff] at h
      rcases h with ⟨a', ha1, ha2⟩ | ⟨c', hc1, hc2⟩
      · -- u = w ++ a', PDI :: v' = a' ++ c :: v
        cases a' with
        | nil =>
          simp at ha2
          obtain ⟨rfl, _⟩ := ha2
          simp [isIsoInit] at hc
        | cons p a'' =>
          simp only [List.cons_append, List.cons.injEq] at ha2
          obtain ⟨_, ha2⟩ := ha2
          exact ihv a'' c v ha2 hc
      · -- w = u ++ c', c :: v = c' ++ PDI :: v'
        cases c' with
        | nil =>
          simp at hc2
          obtain ⟨rfl, _⟩ := hc2
          simp [isIsoInit] at hc
        | cons p c'' =>
          simp only [List.cons_append, List.cons.injEq] at hc2
          obtain ⟨rfl, rfl⟩ := hc2
          obtain ⟨k, hk, hm⟩ := ihw u c c'' hc1 hc
          refine ⟨k, by simp; omega, ?_⟩
          intro Y pos
          have := hm (PDI :: v' ++ Y) pos
          simpa using this


/-! ### the match table -/

/-- entry `q` of `matchTable cls` -/
def mtAt (cls : List BidiClass) (q : Nat) : Option Nat :=
  match cls.drop q with
  | c :: rest => if isIsoInit c then (matchingPDI rest 0 0).map (· + q + 1) else none
  | [] => none

theorem matchTable_go_getD (cls : List BidiClass) (pos q : Nat) :
    (matchTable.go cls pos).getD q none =
      match cls.drop q with
      | c :: rest => if isIsoInit c then (matchingPDI rest 0 0).map (· + (pos + q) + 1) else none
      | [] => none := by
  induction cls generalizing pos q with
  | nil => simp [matchTable.go]
  | cons c cls ih =>
    cases q with
    | zero => simp [matchTable.go]
    | succ q =>
      simp only [matchTable.go, List.getD_cons_succ, List.drop_succ_cons, ih]
      have : pos + 1 + q = pos + (q + 1) := by omega
      rw [this]

theorem matchTable_getD (cls : List BidiClass) (q : Nat) : (matchTable cls).getD q none = mtAt cls q := by
  unfold matchTable mtAt
  rw [matchTable_go_getD]
  simp

/-- position map: the text without the block → the text with a block of length `m` at `a` -/
def sig (a m : Nat) (p : Nat) : Nat := if p < a then p else p + m


theorem sig_lt {a m p : Nat} (h : p < a) : sig a m p = p := by simp [sig, h]
theorem sig_ge {a m p : Nat} (h : a ≤ p) : sig a m p = p + m := by simp [sig]; omega

/-- entries of the match table before the initiator -/
theorem mtAt_before (A : List BidiClass) (i : BidiClass) (hi : isIsoInit i = true) (w : List BidiClass)
    (hw : IsoBalanced w) (suf : List BidiClass) (q : Nat) (hq : q < A.length) :
    mtAt (A ++ i :: w ++ PDI :: suf) q = (mtAt (A ++ i :: PDI :: suf) q).map (sig (A.length + 1) w.length) ∧
    mtAt (A ++ i :: PDI :: suf) q ≠ some (A.length + 1) := by
  have hd : A.drop q = A[q] :: A.drop (q + 1) := List.drop_eq_getElem_cons hq
  have e1 : (A ++ i :: w ++ PDI :: suf).drop q = A[q] :: (A.drop (q + 1) ++ i :: w ++ PDI :: suf) := by
    rw [List.append_assoc, List.drop_append_of_le_length (by omega), hd]; simp only [List.cons_append, List.append_assoc]
  have e2 : (A ++ i :: PDI :: suf).drop q = A[q] :: (A.drop (q + 1) ++ i :: [] ++ PDI :: suf) := by
    rw [List.drop_append_of_le_length (by omega), hd]; simp only [List.cons_append, List.append_assoc, List.nil_append]
  unfold mtAt
  rw [e1, e2]
  simp only
  by_cases hc : isIsoInit A[q] = true
  · simp only [hc, if_true]
    have hl : (A.drop (q + 1)).length = A.length - (q + 1) := by simp
    rcases matching_prefix (A.drop (q + 1)) 0 with ⟨k, hk, h⟩ | ⟨_, h⟩ | ⟨_, d', h⟩
    · have h1 := h (i :: w ++ PDI :: suf) 0
      have h2 := h (i :: [] ++ PDI :: suf) 0
      simp only [List.append_assoc, List.cons_append, List.nil_append] at h1 h2 ⊢
      rw [h1, h2]
      simp only [Nat.zero_add, Option.map_some, Option.some.injEq]
      rw [hl] at hk
      rw [sig_lt (by omega)]
      exact ⟨rfl, by simp; omega⟩
    · have h1 := h (i :: w ++ PDI :: suf) 0
      have h2 := h (i :: [] ++ PDI :: suf) 0
      simp only [List.append_assoc, List.cons_append, List.nil_append] at h1 h2 ⊢
      rw [h1, h2]
      simp
    · have h1 := h (i :: w ++ PDI :: suf) 0
      have h2 := h (i :: [] ++ PDI :: suf) 0
      rw [matching_skip_pair i hi w hw, matching_pos suf] at h1
      rw [matching_skip_pair i hi [] .nil, matching_pos suf] at h2
      simp only [List.append_assoc, List.cons_append, List.nil_append] at h1 h2 ⊢
      rw [h1, h2]
      cases matchingPDI suf d' 0 with
      | none => simp
      | some k0 =>
        simp only [Option.map_some, Option.some.injEq, List.length_nil]
        rw [hl]
        rw [sig_ge (by omega)]
        exact ⟨by omega, by simp; omega⟩
  · simp [hc]


/-- the entry of the initiator -/
theorem mtAt_init (A : List BidiClass) (i : BidiClass) (hi : isIsoInit i = true) (w : List BidiClass)
    (hw : IsoBalanced w) (suf : List BidiClass) :
    mtAt (A ++ i :: w ++ PDI :: suf) A.length = some (A.length + 1 + w.length) := by
  unfold mtAt
  have e1 : (A ++ i :: w ++ PDI :: suf).drop A.length = i :: (w ++ PDI :: suf) := by
    rw [List.append_assoc, List.drop_left]; rfl
  rw [e1]
  simp only [hi, if_true, matching_balanced w hw]
  simp; omega

/-- entries from the PDI on -/
theorem mtAt_after (A : List BidiClass) (i : BidiClass) (w : List BidiClass)
    (suf : List BidiClass) (q : Nat) (hq : A.length + 1 ≤ q) :
    mtAt (A ++ i :: w ++ PDI :: suf) (q + w.length) =
      (mtAt (A ++ i :: PDI :: suf) q).map (sig (A.length + 1) w.length) := by
  unfold mtAt
  have e1 : (A ++ i :: w ++ PDI :: suf).drop (q + w.length) = (PDI :: suf).drop (q - (A.length + 1)) := by
    have : A ++ i :: w ++ PDI :: suf = (A ++ i :: w) ++ PDI :: suf := by simp
    rw [this, List.drop_append, List.drop_of_length_le (by simp; omega)]
    simp only [List.nil_append]
    congr 1; simp; omega
  have e2 : (A ++ i :: PDI :: suf).drop q = (PDI :: suf).drop (q - (A.length + 1)) := by
    have : A ++ i :: PDI :: suf = (A ++ [i]) ++ PDI :: suf := by simp
    rw [this, List.drop_append, List.drop_of_length_le (by simp; omega)]
    simp
  rw [e1, e2]
  cases (PDI :: suf).drop (q - (A.length + 1)) with
  | nil => rfl
  | cons c rest =>
    simp only
    split
    · cases matchingPDI rest 0 0 with
      | none => rfl
      | some k => simp only [Option.map_some]; rw [sig_ge (by omega)]; congr 1; omega
    · rfl

theorem mtAt_sig (A : List BidiClass) (i : BidiClass) (hi : isIsoInit i = true) (w : List BidiClass)
    (hw : IsoBalanced w) (suf : List BidiClass) (q : Nat) :
    mtAt (A ++ i :: w ++ PDI :: suf) (sig (A.length + 1) w.length q) =
      (mtAt (A ++ i :: PDI :: suf) q).map (sig (A.length + 1) w.length) := by
  by_cases h1 : q < A.length
  · rw [sig_lt (by omega)]; exact (mtAt_before A i hi w hw suf q h1).1
  · by_cases h2 : q = A.length
    · subst h2
      rw [sig_lt (by omega), mtAt_init A i hi w hw suf]
      have := mtAt_init A i hi [] .nil suf
      simp only [List.length_nil, Nat.add_zero, List.append_assoc, List.cons_append, List.nil_append] at this
      rw [this]; simp only [Option.map_some]; rw [sig_ge (by omega)]
    · rw [sig_ge (by omega)]; exact mtAt_after A i w suf q (by omega)

/-- entries inside the content point inside the content -/
theorem mtAt_content (A : List BidiClass) (i : BidiClass) (w : List BidiClass)
    (hw : IsoBalanced w) (suf : List BidiClass) (q t : Nat) (h1 : A.length + 1 ≤ q) (h2 : q < A.length + 1 + w.length)
    (ht : mtAt (A ++ i :: w ++ PDI :: suf) q = some t) : q < t ∧ t < A.length + 1 + w.length := by
  unfold mtAt at ht
  have hj : q - (A.length + 1) < w.length := by omega
  have e1 : (A ++ i :: w ++ PDI :: suf).drop q =
      w[q - (A.length + 1)] :: (w.drop (q - (A.length + 1) + 1) ++ PDI :: suf) := by
    have : A ++ i :: w ++ PDI :: suf = (A ++ [i]) ++ (w ++ PDI :: suf) := by simp
    rw [this, List.drop_append, List.drop_of_length_le (by simp; omega)]
    simp only [List.nil_append, List.length_append, List.length_cons, List.length_nil]
    rw [List.drop_append_of_le_length (by omega), List.drop_eq_getElem_cons hj]
    rfl
  rw [e1] at ht
  simp only at ht
  split at ht
  · rename_i hc
    have hsplit : w = w.take (q - (A.length + 1)) ++ w[q - (A.length + 1)] :: w.drop (q - (A.length + 1) + 1) := by
      rw [← List.drop_eq_getElem_cons hj, List.take_append_drop]
    obtain ⟨k, hk, hm⟩ := balanced_inner w hw _ _ _ hsplit hc
    rw [hm (PDI :: suf) 0] at ht
    simp only [List.length_drop] at hk
    simp at ht
    omega
  · simp at ht

end UBidi.Props.C13
